#!/usr/bin/env python3
"""Regenerate /verif/MANIFEST.json from tools/checks.json (one entry per claimed property)."""
import json, os, subprocess
root = os.path.dirname(os.path.dirname(os.path.abspath(__file__)))
spec = json.load(open(os.path.join(root, "tools", "checks.json")))
props = [json.loads(l)["id"] for l in open(os.path.join(root, "properties.jsonl"))]
checks = []
for pid in props:
    c = spec["checks"].get(pid)
    if not c:
        continue
    checks.append({
        "property_id": pid,
        "quick_cmd": f"./check {pid} quick",
        "thorough_cmd": f"./check {pid} thorough",
        "evidence_file": f"/verif/evidence/{pid}.json",
        "replay_cmd_template": f"./check {pid} --replay {{path}}",
        "engine": "jrv",
        "level_claimed": {"category": c["level"], "text": c["text"], "design_ref": c.get("design_ref", f"DESIGN.md §5 {pid}")},
        "level_note": c["note"],
        "technique": c["technique"],
    })
na = [{"property_id": pid, "reason": spec["not_applicable"].get(pid, "check not built yet (work in progress); see DESIGN.md")} for pid in props if pid not in spec["checks"]]
hooks_commits = spec["hooks"]["source_commits"]
man = {
    "version": 1,
    "setup_cmd": "cd /verif/harness && CARGO_NET_OFFLINE=true cargo build --offline --bins",
    "hooks": {
        "guard": "cargo feature `verif-hooks` on jsonrpsee-core (forwarded by jsonrpsee-server)",
        "enable": "the harness crate /verif/harness depends on /repo/core and /repo/server by path with features = [\"verif-hooks\"]",
        "baseline_off_cmd": "cd /repo && cargo test --workspace --no-fail-fast --offline",
        "source_commits": hooks_commits,
        "add_only": True,
    },
    "engines": [{
        "name": "jrv", "path": "/verif/harness",
        "serves_properties": [c["property_id"] for c in checks],
        "kind_free_text": "Rust harness crate (one binary per property) that runs the real jsonrpsee code in memory under generated inputs, histories, seeded delay injection and fault injection, with oracles over the observed wire/API events; Miri and ThreadSanitizer sub-runs in the thorough tier",
    }],
    "checks": checks,
    "notes": spec.get("notes", ""),
    "not_applicable": na,
}
json.dump(man, open(os.path.join(root, "MANIFEST.json"), "w"), indent=1)
print(f"MANIFEST.json: {len(checks)} checks, {len(na)} not_applicable")
