#!/bin/bash
# usage: tools/confirm_mutant.sh <scratch worktree> <mutant dir> "<demo command>"
# Confirms in a scratch worktree (never /repo): demo passes without the change, fails with it, and the existing
# suite passes with the change (except the two baseline network tests). Writes <mutant dir>/confirm.log.
set -u
WT="$1"; M="$(realpath "$2")"; DEMO="$3"
LOG="$M/confirm.log"; : > "$LOG"
cd "$WT" || exit 2
export CARGO_NET_OFFLINE=true RUST_BACKTRACE=0 CARGO_PROFILE_DEV_DEBUG=0 CARGO_PROFILE_TEST_DEBUG=0 CARGO_INCREMENTAL=0
clean() { git checkout -q -- . ; git clean -qfd -e Cargo.lock -e target; }
clean
git apply "$M/demo.diff" || { echo "demo.diff does not apply" | tee -a "$LOG"; exit 2; }
echo "## demo WITHOUT the change: $DEMO" >> "$LOG"
( eval "$DEMO" ) >> "$LOG" 2>&1; RC_CLEAN=$?
echo "exit=$RC_CLEAN" >> "$LOG"
git apply "$M/patch.diff" || { echo "patch.diff does not apply" | tee -a "$LOG"; clean; exit 2; }
echo "## demo WITH the change" >> "$LOG"
( eval "$DEMO" ) >> "$LOG" 2>&1; RC_MUT=$?
echo "exit=$RC_MUT" >> "$LOG"
# existing suite with the change only
clean
git apply "$M/patch.diff"
echo "## existing suite WITH the change" >> "$LOG"
cargo test --workspace --no-fail-fast --offline > "$M/confirm_suite.log" 2>&1
FAILED="$(grep -E '^test .* FAILED$' "$M/confirm_suite.log" | sort -u | tr '\n' ' ')"
PASSED="$(grep 'test result' "$M/confirm_suite.log" | awk '{p+=$4} END {print p}')"
echo "passed=$PASSED failed_tests=[$FAILED]" >> "$LOG"
clean
OK=no
if [ "$RC_CLEAN" = 0 ] && [ "$RC_MUT" != 0 ]; then
  BAD="$(echo "$FAILED" | tr ' ' '\n' | grep -v -E 'https_works|wss_works|^$|^test$|^...$|^FAILED$' | grep -c . )"
  if [ "$BAD" = 0 ] && [ "${PASSED:-0}" -ge 250 ]; then OK=yes; fi
fi
echo "CONFIRMED=$OK demo_clean_exit=$RC_CLEAN demo_mutant_exit=$RC_MUT suite_passed=$PASSED suite_failed=[$FAILED]" | tee -a "$LOG"
