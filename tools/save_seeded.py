#!/usr/bin/env python3
"""Copy confirmed seeded changes into /verif/seeded/<ID>-m<k>/ and record what the checks say about them.
usage: tools/save_seeded.py <ID> <seed dir> <k> "<needs>" "<demo command>" [<k in /verif/seeded>] ["<detected_after>"] """
import json, os, shutil, subprocess, sys, re
pid, src, k, needs, demo = sys.argv[1:6]
dk = sys.argv[6] if len(sys.argv) > 6 else k
after = sys.argv[7] if len(sys.argv) > 7 else ""
dst = f"/verif/seeded/{pid}-m{dk}"
os.makedirs(dst, exist_ok=True)
m = os.path.join(src, f"m{k}")
for f in ["patch.diff", "demo.diff", "README.md", "confirm.log"]:
    if os.path.exists(os.path.join(m, f)):
        shutil.copy(os.path.join(m, f), os.path.join(dst, f))
confirmed = "CONFIRMED=yes" in open(os.path.join(m, "confirm.log")).read()
out = subprocess.run(["/verif/tools/try_mutant_iso.sh", pid, os.path.join(dst, "patch.diff"), "quick"], capture_output=True, text=True).stdout
sigs = re.findall(r"^violation signature=(\S+)", out, re.M)
rc = re.findall(r"^exit=(\d+)", out, re.M)
meta = {
    "property": pid,
    "breaks": open(os.path.join(m, "README.md")).read().split("\n")[0][:200],
    "needs_to_manifest": needs,
    "demonstration": {"files": "demo.diff", "command": demo},
    "confirmed_by": "tools/confirm_mutant.sh in a scratch worktree: demonstration passes without the change and fails with it; `cargo test --workspace --no-fail-fast --offline` with the change fails only https_works / wss_works (baseline always_fail)",
    "confirmed": confirmed,
    "check_run": f"tools/try_mutant.sh {pid} seeded/{pid}-m{k}/patch.diff quick",
    "detected": bool(sigs) and rc == ["1"],
    "signatures": sigs[:8],
}
meta["check_run"] = f"tools/try_mutant_iso.sh {pid} seeded/{pid}-m{dk}/patch.diff quick"
if after:
    meta["detected_after"] = after
json.dump(meta, open(os.path.join(dst, "meta.json"), "w"), indent=1)
print(pid, dk, "confirmed" if confirmed else "NOT confirmed", "detected" if meta["detected"] else "MISSED", sigs[:3])
