#!/opt/veriftools/pyvenv/bin/python
"""Validate MANIFEST.json and every evidence file against the schemas in /root/.vp."""
import json, sys, glob, jsonschema
ok = True
def v(path, schema):
    global ok
    try:
        jsonschema.validate(json.load(open(path)), json.load(open(schema)))
        print("valid  ", path)
    except Exception as e:
        ok = False
        print("INVALID", path, str(e).splitlines()[0])
v("/verif/MANIFEST.json", "/root/.vp/MANIFEST.schema.json")
for f in sorted(glob.glob("/verif/evidence/*.json")):
    v(f, "/root/.vp/EVIDENCE.schema.json")
sys.exit(0 if ok else 1)
