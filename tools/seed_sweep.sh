#!/bin/bash
# usage: tools/seed_sweep.sh <tier> <first seed> <last seed> [ID ...]   — runs checks at several VERIF_SEED values,
# evidence and replays go to a scratch root so that the committed evidence stays untouched; prints one line per (check, seed)
TIER="$1"; A="$2"; B="$3"; shift 3
IDS="${*:-C01 C02 C03 C04 C05 C06 C07 C08 C09 C10 C11 C12 C13 C14 C15 C16 C17 C18 C19 C20}"
ROOT=/tmp/sweep-root-$$; mkdir -p $ROOT; cp /verif/known_findings.json $ROOT/
cd /verif
for id in $IDS; do
  for s in $(seq $A $B); do
    out=$(VERIF_ROOT=$ROOT VERIF_SEED=$s ./check $id $TIER 2>&1); rc=$?
    line=$(echo "$out" | grep -E "^$id (quick|thorough)" | tail -1 | cut -c1-160)
    echo "rc=$rc $line"
    if [ $rc -ne 0 ]; then echo "$out" > /tmp/sweep-fail-$id-$TIER-$s.log; echo "  (full output: /tmp/sweep-fail-$id-$TIER-$s.log)"; echo "$out" | grep -E "^(violation|INCONCLUSIVE|harness)" | cut -c1-300 | head -5; fi
  done
done
rm -rf $ROOT
