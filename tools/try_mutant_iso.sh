#!/bin/bash
# usage: tools/try_mutant_iso.sh <ID> <patch.diff> [quick|thorough]
# Like try_mutant.sh, but leaves /repo alone: the change is applied to a scratch worktree (/tmp/iso/repo) and a copy of the
# harness whose path dependencies point there is built into /tmp/iso/target. For use while other checks are running
# against /repo. Serialised by a lock; the worktree is removed afterwards, the target directory is kept for the next call
# (remove /tmp/iso when done).
set -u
ID="$1"; PATCH="$(realpath "$2")"; TIER="${3:-quick}"
mkdir -p /tmp/iso
exec 9>/tmp/iso/lock; flock 9
cd /repo || exit 2
git worktree remove --force /tmp/iso/repo 2>/dev/null; git worktree prune
git worktree add -q --detach /tmp/iso/repo HEAD || exit 2
cp /repo/Cargo.lock /tmp/iso/repo/Cargo.lock
cd /tmp/iso/repo
if ! git apply --check "$PATCH" 2>/dev/null; then echo "patch does not apply: $PATCH"; cd /repo; git worktree remove --force /tmp/iso/repo; exit 2; fi
git apply "$PATCH"
rm -rf /tmp/iso/verif; mkdir -p /tmp/iso/verif
EXC="--exclude target --exclude target-miri --exclude target-tsan"; [ "$TIER" = thorough ] || EXC="$EXC --exclude target-asan"
rsync -a $EXC /verif/harness /tmp/iso/verif/
cp /verif/check /verif/known_findings.json /tmp/iso/verif/
sed -i 's#"/repo/#"/tmp/iso/repo/#g' /tmp/iso/verif/harness/Cargo.toml
cd /tmp/iso/verif
OUT="$(CARGO_TARGET_DIR=/tmp/iso/target VERIF_ROOT=/tmp/iso/verif ./check "$ID" "$TIER" 2>&1)"; RC=$?
echo "$OUT" | grep -E "^(violation|VIOLATION|KNOWN-FINDING|INCONCLUSIVE|HELD|harness error|C[0-9]+ )" | cut -c1-300 | head -20
echo "exit=$RC"
if [ $RC -eq 2 ]; then tail -20 /tmp/iso/target/build-*.log 2>/dev/null | tail -20; fi
cd /repo; git worktree remove --force /tmp/iso/repo; rm -rf /tmp/iso/verif
