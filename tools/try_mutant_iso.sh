#!/bin/bash
# usage: tools/try_mutant_iso.sh <ID> <patch.diff> [quick|thorough]
# Like try_mutant.sh, but leaves /repo alone: the change is applied to a scratch worktree ($ISO/repo) and a copy of the
# harness whose path dependencies point there is built into $ISO/target. For use while other checks are running
# against /repo. Serialised by a lock; the worktree is removed afterwards, the target directory is kept for the next call
# (remove /tmp/iso when done).
set -u
ID="$1"; PATCH="$(realpath "$2")"; TIER="${3:-quick}"
ISO="${ISO:-/tmp/iso}"   # several lanes may run side by side: ISO=/tmp/isoB tools/try_mutant_iso.sh ...
mkdir -p $ISO
exec 9>$ISO/lock; flock 9
cd /repo || exit 2
G="flock /tmp/iso-git.lock git"   # lanes share /repo/.git
$G worktree remove --force $ISO/repo 2>/dev/null; $G worktree prune
$G worktree add -q --detach $ISO/repo HEAD || exit 2
cp /repo/Cargo.lock $ISO/repo/Cargo.lock
cd $ISO/repo
if ! git apply --check "$PATCH" 2>/dev/null; then echo "patch does not apply: $PATCH"; cd /repo; $G worktree remove --force $ISO/repo; exit 2; fi
git apply "$PATCH"
rm -rf $ISO/verif; mkdir -p $ISO/verif
EXC="--exclude target --exclude target-miri --exclude target-tsan"; [ "$TIER" = thorough ] || EXC="$EXC --exclude target-asan"
rsync -a $EXC /verif/harness $ISO/verif/
cp /verif/check /verif/known_findings.json $ISO/verif/
sed -i "s#\"/repo/#\"$ISO/repo/#g" $ISO/verif/harness/Cargo.toml
cd $ISO/verif
OUT="$(CARGO_TARGET_DIR=$ISO/target VERIF_ROOT=$ISO/verif ./check "$ID" "$TIER" 2>&1)"; RC=$?
echo "$OUT" | grep -E "^(violation|VIOLATION|KNOWN-FINDING|INCONCLUSIVE|HELD|harness error|C[0-9]+ )" | cut -c1-300 | head -20
echo "exit=$RC"
if [ $RC -eq 2 ]; then tail -20 $ISO/target/build-*.log 2>/dev/null | tail -20; fi
# REPLAY=1: every replay file the check named is replayed against the changed tree; it has to reproduce (exit 1)
if [ "${REPLAY:-0}" = 1 ]; then
  for f in $(echo "$OUT" | grep -oE "^VIOLATION property=$ID replay=\S+" | sed 's/.*replay=//'); do
    R="$(CARGO_TARGET_DIR=$ISO/target VERIF_ROOT=$ISO/verif ./check "$ID" --replay "$f" 2>&1)"; RRC=$?
    echo "replay $(basename "$f") exit=$RRC $(echo "$R" | grep -E "^(VIOLATION|HELD|INCONCLUSIVE|harness error)" | head -1 | cut -c1-120)"
  done
fi
cd /repo; $G worktree remove --force $ISO/repo; rm -rf $ISO/verif
