#!/usr/bin/env python3
"""Regenerate the seeded-changes table in DESIGN.md (between the SEEDED-TABLE markers) from seeded/*/meta.json."""
import json, glob, os, re
rows = []
for f in sorted(glob.glob("/verif/seeded/*/meta.json")):
    m = json.load(open(f))
    name = os.path.basename(os.path.dirname(f))
    sig = ", ".join(f"`{s}`" for s in m.get("signatures", [])[:3]) or "—"
    extra = m.get("also_caught_by", "")
    rows.append(f"| `seeded/{name}` | {m['property']} | {m['needs_to_manifest']} | {'yes' if m.get('detected') else '**no**'}{(' (' + m['detected_after'] + ')') if m.get('detected_after') else ''} | {sig}{(' ; ' + extra) if extra else ''} |")
table = "| change | property | needs, in order to manifest | caught by `./check <property> quick` | signatures (first 3) |\n|---|---|---|---|---|\n" + "\n".join(rows)
p = "/verif/DESIGN.md"
s = open(p).read()
s = re.sub(r"<!-- SEEDED-TABLE-BEGIN -->.*<!-- SEEDED-TABLE-END -->", "<!-- SEEDED-TABLE-BEGIN -->\n" + table + "\n<!-- SEEDED-TABLE-END -->", s, flags=re.S)
open(p, "w").write(s)
print(len(rows), "rows")
