#!/bin/bash
# usage: tools/seeded_regression.sh [lanes]   — re-runs every saved seeded change against the CURRENT quick check of its
# property (isolated worktrees, /repo untouched) and prints one line per change: "<name> caught|MISSED|error".
# Results go to /tmp/seeded-regression.log. Lanes run side by side (default 3).
LANES="${1:-3}"
cd /verif
ls -d seeded/*/ | sed 's#seeded/##; s#/##' > /tmp/seeded-all.txt
: > /tmp/seeded-regression.log
lane() {
  L=$1
  awk -v l=$L -v n=$LANES 'NR % n == l' /tmp/seeded-all.txt | while read name; do
    id=$(python3 -c "import json;print(json.load(open('/verif/seeded/$name/meta.json'))['property'])")
    out=$(ISO=/tmp/iso-reg$L tools/try_mutant_iso.sh $id seeded/$name/patch.diff 2>&1)
    rc=$(echo "$out" | grep -o 'exit=[0-9]*' | tail -1)
    case "$rc" in
      exit=1) echo "$name caught" ;;
      exit=0) echo "$name MISSED" ;;
      *) echo "$name error ($rc) $(echo "$out" | head -2 | tr '\n' ' ' | cut -c1-160)" ;;
    esac >> /tmp/seeded-regression.log
  done
}
for l in $(seq 0 $((LANES-1))); do lane $l & done
wait
for l in $(seq 0 $((LANES-1))); do rm -rf /tmp/iso-reg$l; done
echo "caught: $(grep -c ' caught' /tmp/seeded-regression.log)  missed: $(grep -c ' MISSED' /tmp/seeded-regression.log)  errors: $(grep -c ' error' /tmp/seeded-regression.log)"
