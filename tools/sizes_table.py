#!/usr/bin/env python3
"""Turn notes/final_runs.log (written by tools/final_runs.sh) into the generated table of DESIGN.md §12.3
(between <!-- SIZES-TABLE-BEGIN --> and <!-- SIZES-TABLE-END -->)."""
import json, re
rows = {}
for line in open('/verif/notes/final_runs.log'):
    m = re.match(r"rc=(\d+) total_s=(\d+) (C\d+) (quick|thorough) seed=(\d+) evaluations=(\d+) distinct_nontrivial=(\d+) unlisted_violations=(\d+) known_findings=(\d+)", line)
    if m:
        rc, total, pid, tier, seed, ev, dn, uv, kf = m.groups()
        rows.setdefault(pid, {})[tier] = (rc, int(total), int(ev), int(dn), int(uv), int(kf), seed)
    elif line.startswith('{"sub_runs_of"'):
        d = json.loads(line)
        parts = []
        if d.get('stress_cases'): parts.append(f"{d['stress_cases']} multi-threaded cases natively")
        if d.get('tsan'): parts.append(f"TSan: {d.get('tsan_cases') or '?'} cases, {d['tsan']}")
        if d.get('miri'): parts.append(f"Miri: {d.get('miri_cases') or '?'} cases, {d['miri']}")
        if d.get('asan'): parts.append(f"ASan: {d['asan']}")
        rows.setdefault(d['sub_runs_of'], {})['sub'] = "; ".join(parts) or "–"
def fmt(t):
    if not t: return "–"
    rc, total, ev, dn, uv, kf, seed = t
    return f"{ev:.2e} evaluations ({dn:.2e} distinct non-trivial), {total} s incl. build, exit {rc}" + (f", {kf} known finding(s)" if kf else "")
out = ["| id | quick | thorough | sub-runs of the thorough run |", "|---|---|---|---|"]
for pid in sorted(rows):
    r = rows[pid]
    out.append(f"| {pid} | {fmt(r.get('quick'))} | {fmt(r.get('thorough'))} | {r.get('sub', '–')} |")
p = '/verif/DESIGN.md'; s = open(p).read()
a, b = '<!-- SIZES-TABLE-BEGIN -->', '<!-- SIZES-TABLE-END -->'
assert a in s and b in s
s = s[:s.index(a) + len(a)] + "\n" + "\n".join(out) + "\n" + s[s.index(b):]
open(p, 'w').write(s)
print(len(rows), "rows")
