#!/bin/bash
# usage: tools/try_mutant.sh <ID> <patch.diff> [quick|thorough]
# Apply a seeded change to /repo, run the property's check, undo the change. Prints the verdict lines.
set -u
ID="$1"; PATCH="$(realpath "$2")"; TIER="${3:-quick}"
cd /repo || exit 2
if ! git diff --quiet; then echo "refusing: /repo has uncommitted changes"; exit 2; fi
if ! git apply --check "$PATCH" 2>/dev/null; then echo "patch does not apply: $PATCH"; exit 2; fi
git apply "$PATCH"
cd /verif
mkdir -p /tmp/mutant-out-$$ && cp /verif/known_findings.json /tmp/mutant-out-$$/
OUT="$(VERIF_ROOT=/tmp/mutant-out-$$ ./check "$ID" "$TIER" 2>&1)"; RC=$?
cd /repo && git checkout -- . 
echo "$OUT" | grep -E "^(violation|VIOLATION|KNOWN-FINDING|INCONCLUSIVE|HELD|harness error|C[0-9]+ )" | cut -c1-300 | head -20
echo "exit=$RC"
rm -rf /tmp/mutant-out-$$
