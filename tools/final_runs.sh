#!/bin/bash
# usage: tools/final_runs.sh   — the runs behind the committed evidence: every check quick, then every check thorough, at the
# default seed, in /verif itself (evidence/<ID>.json ends up being the thorough run's). One line per run goes to
# notes/final_runs.log; tools/sizes_table.py turns that log into the table in DESIGN.md §12.3.
cd /verif
LOG=notes/final_runs.log; : > $LOG
for tier in quick thorough; do
  for id in C01 C02 C03 C04 C05 C06 C07 C08 C09 C10 C11 C12 C13 C14 C15 C16 C17 C18 C19 C20; do
    t0=$(date +%s)
    out=$(./check $id $tier 2>&1); rc=$?
    t1=$(date +%s)
    line=$(echo "$out" | grep -E "^$id (quick|thorough)" | tail -1)
    echo "rc=$rc total_s=$((t1-t0)) $line" | tee -a $LOG
    if [ $rc -ne 0 ]; then echo "$out" > /tmp/final-fail-$id-$tier.log; echo "$out" | grep -E "^(violation|INCONCLUSIVE|harness)" | cut -c1-300 | head -5; fi
    if [ $tier = thorough ]; then jq -c '{sub_runs_of: .property_id, miri: .coverage.miri.status, miri_cases: .coverage.miri.workload.cases, tsan: .coverage.tsan.status, tsan_cases: .coverage.tsan.workload.cases, asan: .coverage.asan.status, stress_cases: .coverage.stress.cases}' evidence/$id.json 2>/dev/null >> $LOG; fi
  done
done
