//! A scripted backend for the real HTTP client: `HttpClientBuilder::set_http_middleware(ServiceBuilder::new().layer(ScriptLayer))`
//! replaces the socket backend by a closure that maps the request body text to (status, response body text).

use bytes::Bytes;
use http_body_util::{BodyExt, Full};
use jsonrpsee_http_client::transport::Error as TransportError;
use jsonrpsee_http_client::{HttpRequest, HttpResponse};
use std::future::Future;
use std::pin::Pin;
use std::sync::Arc;

pub type Script = Arc<dyn Fn(String) -> (u16, String) + Send + Sync>;

#[derive(Clone)]
pub struct ScriptLayer(pub Script);

impl<S> tower::Layer<S> for ScriptLayer {
	type Service = ScriptSvc;
	fn layer(&self, _backend: S) -> ScriptSvc {
		ScriptSvc(self.0.clone())
	}
}

#[derive(Clone)]
pub struct ScriptSvc(Script);

impl tower::Service<HttpRequest> for ScriptSvc {
	type Response = HttpResponse<Full<Bytes>>;
	type Error = TransportError;
	type Future = Pin<Box<dyn Future<Output = Result<Self::Response, Self::Error>> + Send>>;

	fn poll_ready(&mut self, _cx: &mut std::task::Context<'_>) -> std::task::Poll<Result<(), Self::Error>> {
		std::task::Poll::Ready(Ok(()))
	}

	fn call(&mut self, req: HttpRequest) -> Self::Future {
		let f = self.0.clone();
		Box::pin(async move {
			let bytes = req.into_body().collect().await.map_err(|e| TransportError::Url(format!("harness: request body: {e}")))?.to_bytes();
			let (status, body) = f(String::from_utf8_lossy(&bytes).into_owned());
			let resp = http::Response::builder()
				.status(status)
				.header("content-type", "application/json")
				.body(Full::new(Bytes::from(body)))
				.map_err(|e| TransportError::Url(format!("harness: response: {e}")))?;
			Ok(resp)
		})
	}
}
