//! Small deterministic PRNG (xoshiro256**), so every workload is a pure function of VERIF_SEED.

#[derive(Clone, Debug)]
pub struct Rng {
	s: [u64; 4],
}

fn splitmix(x: &mut u64) -> u64 {
	*x = x.wrapping_add(0x9E37_79B9_7F4A_7C15);
	let mut z = *x;
	z = (z ^ (z >> 30)).wrapping_mul(0xBF58_476D_1CE4_E5B9);
	z = (z ^ (z >> 27)).wrapping_mul(0x94D0_49BB_1331_11EB);
	z ^ (z >> 31)
}

impl Rng {
	pub fn new(seed: u64) -> Self {
		let mut x = seed;
		Rng { s: [splitmix(&mut x), splitmix(&mut x), splitmix(&mut x), splitmix(&mut x)] }
	}

	/// Derive an independent stream for sub-case `n`.
	pub fn fork(seed: u64, n: u64) -> Self {
		Rng::new(seed ^ n.wrapping_mul(0xA24B_AED4_963E_E407).rotate_left(17) ^ 0x5851_F42D_4C95_7F2D)
	}

	pub fn next_u64(&mut self) -> u64 {
		let r = self.s[1].wrapping_mul(5).rotate_left(7).wrapping_mul(9);
		let t = self.s[1] << 17;
		self.s[2] ^= self.s[0];
		self.s[3] ^= self.s[1];
		self.s[1] ^= self.s[2];
		self.s[0] ^= self.s[3];
		self.s[2] ^= t;
		self.s[3] = self.s[3].rotate_left(45);
		r
	}

	/// Uniform in 0..n (n > 0).
	pub fn below(&mut self, n: u64) -> u64 {
		debug_assert!(n > 0);
		self.next_u64() % n
	}

	pub fn usize(&mut self, n: usize) -> usize {
		self.below(n as u64) as usize
	}

	/// Uniform in lo..=hi.
	pub fn range(&mut self, lo: u64, hi: u64) -> u64 {
		lo + self.below(hi - lo + 1)
	}

	pub fn chance(&mut self, num: u64, den: u64) -> bool {
		self.below(den) < num
	}

	pub fn bool(&mut self) -> bool {
		self.next_u64() & 1 == 1
	}

	pub fn pick<'a, T>(&mut self, xs: &'a [T]) -> &'a T {
		&xs[self.usize(xs.len())]
	}

	pub fn shuffle<T>(&mut self, xs: &mut [T]) {
		for i in (1..xs.len()).rev() {
			let j = self.usize(i + 1);
			xs.swap(i, j);
		}
	}
}

/// All permutations of 0..n (n <= 8).
pub fn permutations(n: usize) -> Vec<Vec<usize>> {
	fn rec(cur: &mut Vec<usize>, used: &mut Vec<bool>, n: usize, out: &mut Vec<Vec<usize>>) {
		if cur.len() == n {
			out.push(cur.clone());
			return;
		}
		for i in 0..n {
			if !used[i] {
				used[i] = true;
				cur.push(i);
				rec(cur, used, n, out);
				cur.pop();
				used[i] = false;
			}
		}
	}
	let mut out = Vec::new();
	rec(&mut Vec::new(), &mut vec![false; n], n, &mut out);
	out
}
