//! Echo handlers with an invocation log (C01, C02, C07, C08): the expected result of a call is a pure function of
//! the request's params text, so oracles need no knowledge of the implementation.

use jsonrpsee_server::RpcModule;
use jsonrpsee_types::{ErrorObjectOwned, ResponsePayload};
use serde_json::value::RawValue;
use std::sync::{Arc, Mutex};

#[derive(Debug, Clone, PartialEq, Eq, Hash, PartialOrd, Ord)]
pub struct Invocation {
	pub method: &'static str,
	pub params: Option<String>,
}

#[derive(Clone, Default)]
pub struct Log(pub Arc<Mutex<Vec<Invocation>>>);

impl Log {
	pub fn push(&self, method: &'static str, params: Option<&str>) {
		self.0.lock().unwrap().push(Invocation { method, params: params.map(|s| s.to_string()) });
	}
	pub fn take(&self) -> Vec<Invocation> {
		std::mem::take(&mut *self.0.lock().unwrap())
	}
	pub fn len(&self) -> usize {
		self.0.lock().unwrap().len()
	}
	pub fn is_empty(&self) -> bool {
		self.len() == 0
	}
}

fn raw_box(params: Option<&str>) -> Box<RawValue> {
	RawValue::from_string(params.unwrap_or("null").to_string()).unwrap_or_else(|_| RawValue::NULL.to_owned())
}

fn raw(params: Option<&str>) -> ResponsePayload<'static, Box<RawValue>> {
	ResponsePayload::success(raw_box(params))
}

pub const ECHO_METHODS: [&str; 3] = ["echo_sync", "echo_async", "echo_blocking"];
pub const PANIC_MARK: &str = "verif-expected-panic";

/// Methods:
/// * `echo_sync` / `echo_async` / `echo_blocking` → result = the raw params text (or `null` when absent)
/// * `need_u64` → params must decode as `[u64]`, result = that number; else the library's invalid-params error
/// * `fail` → error object {code 1234, message "fail", data = raw params}
/// * `panic_blocking` → the blocking handler panics
/// * `sub` / `unsub` → a subscription (accepts, sends nothing) — only meaningful over WebSocket
/// * `sentinel` → result = raw params; NOT logged (used by the harness to probe liveness)
pub fn echo_module(log: Log) -> RpcModule<Log> {
	let mut m = RpcModule::new(log);
	m.register_method("echo_sync", |p, log, _| {
		log.push("echo_sync", p.as_str());
		raw(p.as_str())
	})
	.unwrap();
	m.register_async_method("echo_async", |p, log, _| async move {
		log.push("echo_async", p.as_str());
		tokio::task::yield_now().await;
		raw(p.as_str())
	})
	.unwrap();
	m.register_blocking_method("echo_blocking", |p, log, _| {
		log.push("echo_blocking", p.as_str());
		raw(p.as_str())
	})
	.unwrap();
	m.register_method("need_u64", |p, log, _| {
		log.push("need_u64", p.as_str());
		p.one::<u64>()
	})
	.unwrap();
	m.register_method("fail", |p, log, _| {
		log.push("fail", p.as_str());
		Err::<(), _>(ErrorObjectOwned::owned(1234, "fail", Some(raw_box(p.as_str()))))
	})
	.unwrap();
	m.register_blocking_method("panic_blocking", |p, log, _| {
		log.push("panic_blocking", p.as_str());
		if true {
			panic!("{PANIC_MARK}: deliberate handler panic");
		}
		0u8
	})
	.unwrap();
	m.register_subscription("sub", "sub_notif", "unsub", |p, pending, log, _| async move {
		log.push("sub", p.as_str());
		let sink = pending.accept().await?;
		sink.closed().await;
		Ok(())
	})
	.unwrap();
	m.register_method("sentinel", |p, _, _| raw(p.as_str())).unwrap();
	m
}

pub const REGISTERED: [&str; 9] =
	["echo_sync", "echo_async", "echo_blocking", "need_u64", "fail", "panic_blocking", "sub", "unsub", "sentinel"];
