//! Generators of JSON-RPC-like messages for the server-side input properties (C01, C02).

use crate::jgen;
use crate::rng::Rng;

pub const METHODS: [&str; 16] = [
	"unser_sync",
	"unser_async",
	"unser_blocking",
	"ext_info",
	"ext_info_async",
	"seq3",
	"echo_sync",
	"echo_async",
	"echo_blocking",
	"need_u64",
	"fail",
	"panic_blocking",
	"no_such_method",
	"echo\u{0}sync",
	"",
	"ECHO_SYNC",
];

/// id tokens: in-domain and out-of-domain forms
pub const ID_TOKENS: [&str; 26] = [
	"null",
	"0",
	"1",
	"9007199254740991",
	"9007199254740993",
	"18446744073709551615",
	"18446744073709551616",
	"-1",
	"-0",
	"1.0",
	"1e2",
	"1.5",
	"\"\"",
	"\"abc\"",
	"\"1\"",
	"\"\\u0041\\n\\\"q\\\\\"",
	"\"é😀\\ud83d\\ude00\"",
	"\"null\"",
	"true",
	"false",
	"[1]",
	"[]",
	"{}",
	"{\"a\":1}",
	"123456789012345678901234567890",
	"\" \"",
];

pub fn id_token(r: &mut Rng) -> String {
	match r.below(10) {
		0..=5 => r.pick(&ID_TOKENS).to_string(),
		6 => r.next_u64().to_string(),
		7 => r.below(1000).to_string(),
		_ => {
			let s = jgen::string(r);
			jgen::string_literal(r, &s)
		}
	}
}

pub fn method_literal(r: &mut Rng) -> String {
	let m = *r.pick(&METHODS);
	jgen::string_literal(r, m)
}

pub fn params_token(r: &mut Rng, nonce: &str) -> Option<String> {
	match r.below(14) {
		0 => None,
		1 => Some("null".into()),
		2 => Some(format!("[\"{nonce}\"]")),
		3 => Some(format!("{{\"nonce\":\"{nonce}\",\"v\":{}}}", jgen::json_text(r, 2))),
		4 => Some("[]".into()),
		5 => Some("{}".into()),
		6 => Some(format!("[{}]", r.pick(&jgen::INT_EDGES))),
		7 => {
			// (u64, string, optional u64) with whitespace around every token
			let w = |r: &mut Rng| jgen::ws(r, 2);
			let third = match r.below(4) {
				0 => String::new(),
				1 => format!("{},{}null{}", w(r), w(r), w(r)),
				2 => format!("{},{}{}{}", w(r), w(r), r.below(1000), w(r)),
				_ => format!("{},{}\"x\"", w(r), w(r)),
			};
			Some(format!("[{}{}{},{}\"{nonce}\"{}{}]", w(r), r.pick(&["0", "7", "18446744073709551615", "-1", "1.5"]), w(r), w(r), w(r), third))
		}
		8 => Some(jgen::number_token(r)),
		9 => {
			let s = jgen::string(r);
			Some(jgen::string_literal(r, &s))
		}
		10 => Some(jgen::nested(r.usize(60) + 1, "1")),
		11 => {
			let n = if r.chance(1, 8) { 16 * 1024 } else { r.usize(200) };
			Some(format!("[\"{}\"]", "x".repeat(n)))
		}
		_ => Some(format!("[{}]", (0..r.usize(4)).map(|_| jgen::json_text(r, 2)).collect::<Vec<_>>().join(","))),
	}
}

#[derive(Debug, Clone)]
pub struct Members {
	pub jsonrpc: Option<String>,
	pub id: Option<String>,
	pub method: Option<String>,
	pub params: Option<String>,
	pub extra: Vec<(String, String)>,
}

impl Members {
	/// Render in a seeded member order with seeded interior whitespace.
	pub fn render(&self, r: &mut Rng) -> String {
		let mut ms: Vec<(String, String)> = Vec::new();
		if let Some(v) = &self.jsonrpc {
			ms.push(("\"jsonrpc\"".into(), v.clone()));
		}
		if let Some(v) = &self.id {
			ms.push(("\"id\"".into(), v.clone()));
		}
		if let Some(v) = &self.method {
			ms.push(("\"method\"".into(), v.clone()));
		}
		if let Some(v) = &self.params {
			ms.push(("\"params\"".into(), v.clone()));
		}
		for (k, v) in &self.extra {
			ms.push((k.clone(), v.clone()));
		}
		if r.chance(2, 3) {
			r.shuffle(&mut ms);
		}
		let heavy_ws = r.chance(1, 4);
		let w = |r: &mut Rng| if heavy_ws { jgen::ws(r, 3) } else { String::new() };
		let mut out = String::from("{");
		out.push_str(&w(r));
		for (i, (k, v)) in ms.iter().enumerate() {
			if i > 0 {
				out.push(',');
				out.push_str(&w(r));
			}
			out.push_str(k);
			out.push_str(&w(r));
			out.push(':');
			out.push_str(&w(r));
			out.push_str(v);
			out.push_str(&w(r));
		}
		out.push('}');
		out
	}
}

/// A well-formed request (call or notification, depending on the id drawn).
pub fn valid_members(r: &mut Rng, nonce: &str) -> Members {
	Members {
		jsonrpc: Some("\"2.0\"".into()),
		id: if r.chance(1, 8) { None } else { Some(id_token(r)) },
		method: Some(method_literal(r)),
		params: params_token(r, nonce),
		extra: if r.chance(1, 6) { vec![("\"extra\"".into(), jgen::json_text(r, 2))] } else { vec![] },
	}
}

/// Leading whitespace inside the documented sniffing window (at most 127 bytes of space, tab, CR, LF).
pub fn leading_ws(r: &mut Rng) -> String {
	let n = match r.below(12) {
		0..=7 => 0,
		8 | 9 => r.usize(5),
		10 => r.usize(127),
		_ => 127,
	};
	(0..n).map(|_| *r.pick(&jgen::WS)).collect()
}

/// A structurally mutated request object (always valid JSON; no byte-level damage).
pub fn mutated_object(r: &mut Rng, nonce: &str) -> String {
	let mut m = valid_members(r, nonce);
	match r.below(8) {
		0 => m.jsonrpc = None,
		1 => m.jsonrpc = Some(r.pick(&["\"1.0\"", "2.0", "null", "\"2.00\""]).to_string()),
		2 => m.method = None,
		3 => m.method = Some(jgen::json_text(r, 1)),
		4 => m.id = Some(jgen::json_text(r, 1)),
		5 => m.params = Some(jgen::json_text(r, 2)),
		6 => m.extra.push((format!("\"x{}\"", r.below(9)), jgen::json_text(r, 1))),
		_ => {}
	}
	m.render(r)
}

/// Structural mutations of a request.
pub fn mutated(r: &mut Rng, nonce: &str) -> Vec<u8> {
	let mut m = valid_members(r, nonce);
	if m.id.is_none() && r.bool() {
		m.id = Some(id_token(r));
	}
	let retype = |r: &mut Rng| jgen::json_text(r, 2);
	match r.below(16) {
		0 => m.jsonrpc = None,
		1 => m.jsonrpc = Some(r.pick(&["\"1.0\"", "\"2\"", "2.0", "2", "null", "\"2.00\"", "\"2.0 \"", "[\"2.0\"]", "\"\\u0032.0\""]).to_string()),
		2 => m.method = None,
		3 => m.method = Some(retype(r)),
		4 => m.id = Some(retype(r)),
		5 => m.params = Some(retype(r)),
		6 => m.extra.push(("\"id\"".into(), id_token(r))),
		7 => m.extra.push(("\"method\"".into(), method_literal(r))),
		8 => m.extra.push(("\"jsonrpc\"".into(), "\"2.0\"".into())),
		9 => m.extra.push(("\"params\"".into(), "[1]".into())),
		10 => {
			m.jsonrpc = None;
			m.method = None;
		}
		11 => m.extra.push((format!("\"x{}\"", r.below(9)), retype(r))),
		_ => {}
	}
	let text = m.render(r);
	let mut bytes = format!("{}{}", leading_ws(r), text).into_bytes();
	match r.below(12) {
		0 => {
			// truncate
			let cut = r.usize(bytes.len().max(1));
			bytes.truncate(cut);
		}
		1 => bytes.extend_from_slice(r.pick(&["x", "}", " {}", ",", "\u{0}", "]", " 1", "\n\n"]).as_bytes()),
		2 => {
			// delete one byte
			if !bytes.is_empty() {
				let i = r.usize(bytes.len());
				bytes.remove(i);
			}
		}
		3 => {
			// replace one byte
			if !bytes.is_empty() {
				let i = r.usize(bytes.len());
				bytes[i] = *r.pick(&[b'"', b'{', b'}', b'[', b']', b',', b':', b' ', b'0', b'\\', 0x00, 0x7f]);
			}
		}
		_ => {}
	}
	bytes
}

/// Invalid UTF-8 placed at a seeded position of an otherwise (mostly) valid message.
pub fn non_utf8(r: &mut Rng, nonce: &str) -> Vec<u8> {
	let m = valid_members(r, nonce);
	let mut bytes = m.render(r).into_bytes();
	const BAD: [&[u8]; 6] = [&[0xff], &[0xc3, 0x28], &[0xe2, 0x82], &[0xf0, 0x9f, 0x98], &[0x80], &[0xed, 0xa0, 0x80]];
	let bad: &[u8] = *r.pick(&BAD);
	// prefer positions inside string literals
	let quotes: Vec<usize> = bytes.iter().enumerate().filter(|(_, b)| **b == b'"').map(|(i, _)| i).collect();
	let pos = if !quotes.is_empty() && r.chance(4, 5) { quotes[r.usize(quotes.len())] + if r.bool() { 1 } else { 0 } } else { r.usize(bytes.len() + 1) };
	let pos = pos.min(bytes.len());
	for (k, b) in bad.iter().enumerate() {
		bytes.insert(pos + k, *b);
	}
	bytes
}

pub fn random_bytes(r: &mut Rng) -> Vec<u8> {
	let n = r.usize(40);
	let mut v: Vec<u8> = (0..n).map(|_| r.below(256) as u8).collect();
	if r.bool() {
		v.insert(0, b'{');
	}
	v
}

pub const MEMBER_TOKENS: [&str; 18] = [
	"\"jsonrpc\":\"2.0\"",
	"\"jsonrpc\":\"1.0\"",
	"\"jsonrpc\":2",
	"\"id\":1",
	"\"id\":\"s\"",
	"\"id\":null",
	"\"id\":-1",
	"\"id\":1.5",
	"\"id\":[1]",
	"\"method\":\"echo_sync\"",
	"\"method\":\"nope\"",
	"\"method\":5",
	"\"params\":[1]",
	"\"params\":{\"a\":1}",
	"\"params\":7",
	"\"params\":null",
	"\"x\":1",
	"\"method\":\"echo_blocking\"",
];

/// All objects whose members are sequences of length 0..=len over MEMBER_TOKENS.
pub fn member_enumeration(len: usize) -> Vec<String> {
	let mut out = vec!["{}".to_string()];
	let mut cur: Vec<Vec<usize>> = vec![vec![]];
	for _ in 0..len {
		let mut next = Vec::new();
		for c in &cur {
			for t in 0..MEMBER_TOKENS.len() {
				let mut n = c.clone();
				n.push(t);
				out.push(format!("{{{}}}", n.iter().map(|i| MEMBER_TOKENS[*i]).collect::<Vec<_>>().join(",")));
				next.push(n);
			}
		}
		cur = next;
	}
	out
}

pub const RAW_TOKENS: [&str; 12] =
	["{", "}", "\"jsonrpc\":\"2.0\"", "\"id\":1", "\"method\":\"echo_sync\"", "\"params\":[1]", ",", ":", "]", "null", "\"id\"", "1"];

/// All concatenations of 1..=len raw tokens that start with `{` (texts starting with `[` are batches: C02).
pub fn raw_token_enumeration(len: usize) -> Vec<String> {
	let mut out = Vec::new();
	let mut cur: Vec<String> = vec!["{".to_string()];
	out.push("{".to_string());
	for _ in 1..len {
		let mut next = Vec::new();
		for c in &cur {
			for t in RAW_TOKENS {
				let s = format!("{c}{t}");
				out.push(s.clone());
				next.push(s);
			}
		}
		cur = next;
	}
	out
}
