//! Check context, evidence files, known findings and the exit protocol.
//!
//! Exit codes: 0 held on everything explored (open known findings printed as KNOWN-FINDING lines),
//! 1 + `VIOLATION property=<id> replay=<path>` for a violation that is not a listed open finding,
//! 2 harness error, 3 inconclusive.

use serde_json::{Map, Value, json};
use std::collections::{BTreeMap, BTreeSet};
use std::hash::{Hash, Hasher};
use std::path::PathBuf;
use std::time::Instant;

#[derive(Clone, Copy, Debug, PartialEq, Eq)]
pub enum Tier {
	Quick,
	Thorough,
}

impl Tier {
	pub fn name(self) -> &'static str {
		match self {
			Tier::Quick => "quick",
			Tier::Thorough => "thorough",
		}
	}
	pub fn pick<T>(self, quick: T, thorough: T) -> T {
		match self {
			Tier::Quick => quick,
			Tier::Thorough => thorough,
		}
	}
}

/// Root of the verification tree (the directory holding MANIFEST.json).
pub fn verif_root() -> PathBuf {
	if let Ok(r) = std::env::var("VERIF_ROOT") {
		return PathBuf::from(r);
	}
	PathBuf::from(env!("CARGO_MANIFEST_DIR")).parent().expect("harness has a parent").to_path_buf()
}

pub struct Ctx {
	pub id: &'static str,
	pub tier: Tier,
	pub seed: u64,
	pub replay: Option<PathBuf>,
	/// Sub-mode: the binary runs under a sanitizer / interpreter and only prints a SUBRESULT line.
	pub sub: Option<String>,
	pub level: &'static str,
	pub start: Instant,
	pub args: Vec<String>,
}

impl Ctx {
	/// Parse `<bin> [quick|thorough] [--replay <file>] [--sub <mode>]`, VERIF_SEED, VERIF_TIER.
	pub fn from_env(id: &'static str, level: &'static str) -> Ctx {
		let args: Vec<String> = std::env::args().skip(1).collect();
		let mut tier = match std::env::var("VERIF_TIER").ok().as_deref() {
			Some("thorough") => Tier::Thorough,
			_ => Tier::Quick,
		};
		let mut replay = None;
		let mut sub = None;
		let mut i = 0;
		while i < args.len() {
			match args[i].as_str() {
				"quick" => tier = Tier::Quick,
				"thorough" => tier = Tier::Thorough,
				"--replay" => {
					i += 1;
					replay = args.get(i).map(PathBuf::from);
				}
				"--sub" => {
					i += 1;
					sub = args.get(i).cloned();
				}
				_ => {}
			}
			i += 1;
		}
		let seed = std::env::var("VERIF_SEED").ok().and_then(|s| s.trim().parse::<i64>().ok()).unwrap_or(1) as u64;
		Ctx { id, tier, seed, replay, sub, level, start: Instant::now(), args }
	}

	pub fn arg_value(&self, name: &str) -> Option<String> {
		let pos = self.args.iter().position(|a| a == name)?;
		self.args.get(pos + 1).cloned()
	}
}

#[derive(Clone, Debug)]
pub struct Violation {
	/// anomaly kind + classifying feature; matched against known_findings.json
	pub signature: String,
	pub detail: String,
	/// everything needed to understand / re-run the failing case
	pub witness: Value,
}

impl Violation {
	pub fn new(signature: impl Into<String>, detail: impl Into<String>, witness: Value) -> Self {
		Violation { signature: signature.into(), detail: detail.into(), witness }
	}
}

/// What a run covered. Counters are measured by the workloads.
pub struct Evidence {
	pub evaluations: u64,
	distinct: BTreeSet<u64>,
	pub rule: String,
	samples: Vec<Value>,
	sample_cap: usize,
	pub extra: Map<String, Value>,
	pub assumptions: Vec<String>,
	counters: BTreeMap<String, u64>,
	classes: BTreeMap<String, BTreeSet<u64>>,
}

pub fn hash_of<T: Hash + ?Sized>(t: &T) -> u64 {
	let mut h = std::collections::hash_map::DefaultHasher::new();
	t.hash(&mut h);
	h.finish()
}

impl Evidence {
	pub fn new(rule: impl Into<String>) -> Self {
		Evidence {
			evaluations: 0,
			distinct: BTreeSet::new(),
			rule: rule.into(),
			samples: Vec::new(),
			sample_cap: 12,
			extra: Map::new(),
			assumptions: Vec::new(),
			counters: BTreeMap::new(),
			classes: BTreeMap::new(),
		}
	}
	pub fn eval(&mut self) {
		self.evaluations += 1;
	}
	pub fn evals(&mut self, n: u64) {
		self.evaluations += n;
	}
	/// Record a case that was non-trivial by the stated rule; distinctness is by the hash of `sig`.
	pub fn nontrivial<T: Hash + ?Sized>(&mut self, sig: &T) {
		self.distinct.insert(hash_of(sig));
	}
	pub fn nontrivial_hash(&mut self, h: u64) {
		self.distinct.insert(h);
	}
	pub fn distinct_nontrivial(&self) -> usize {
		self.distinct.len()
	}
	pub fn sample(&mut self, v: Value) {
		if self.samples.len() < self.sample_cap {
			self.samples.push(v);
		}
	}
	/// Keep a sample for the first occurrence of each class name (so samples show the variety).
	pub fn sample_class(&mut self, class: &str, v: Value) {
		let key = format!("__sampled_{class}");
		if !self.counters.contains_key(&key) && self.samples.len() < 40 {
			self.counters.insert(key, 1);
			self.samples.push(json!({"class": class, "case": v}));
		}
	}
	pub fn count(&mut self, name: &str, n: u64) {
		*self.counters.entry(name.to_string()).or_insert(0) += n;
	}
	pub fn counter(&self, name: &str) -> u64 {
		self.counters.get(name).copied().unwrap_or(0)
	}
	/// Count distinct values per named class (e.g. distinct schedule traces, model states).
	pub fn class<T: Hash + ?Sized>(&mut self, name: &str, v: &T) {
		self.classes.entry(name.to_string()).or_default().insert(hash_of(v));
	}
	pub fn class_size(&self, name: &str) -> usize {
		self.classes.get(name).map(|s| s.len()).unwrap_or(0)
	}
	pub fn set(&mut self, k: &str, v: Value) {
		self.extra.insert(k.to_string(), v);
	}
	pub fn assume(&mut self, s: impl Into<String>) {
		self.assumptions.push(s.into());
	}
	/// Merge another evidence object (from a parallel worker).
	pub fn merge(&mut self, other: Evidence) {
		self.evaluations += other.evaluations;
		self.distinct.extend(other.distinct);
		for s in other.samples {
			if self.samples.len() < 40 {
				self.samples.push(s);
			}
		}
		for (k, v) in other.counters {
			if k.starts_with("__sampled_") {
				self.counters.entry(k).or_insert(v);
			} else {
				*self.counters.entry(k).or_insert(0) += v;
			}
		}
		for (k, v) in other.classes {
			self.classes.entry(k).or_default().extend(v);
		}
		for (k, v) in other.extra {
			self.extra.insert(k, v);
		}
	}
}

#[derive(Debug, Clone)]
struct Finding {
	property: String,
	signature: String,
	status: String,
	text: String,
}

fn load_findings() -> Vec<Finding> {
	let path = verif_root().join("known_findings.json");
	let Ok(text) = std::fs::read_to_string(&path) else { return Vec::new() };
	let v: Value = match serde_json::from_str(&text) {
		Ok(v) => v,
		Err(e) => {
			eprintln!("harness error: {} does not parse: {e}", path.display());
			std::process::exit(2);
		}
	};
	v["findings"]
		.as_array()
		.map(|a| {
			a.iter()
				.map(|f| Finding {
					property: f["property"].as_str().unwrap_or("").to_string(),
					signature: f["signature"].as_str().unwrap_or("").to_string(),
					status: f["status"].as_str().unwrap_or("").to_string(),
					text: f["text"].as_str().unwrap_or("").to_string(),
				})
				.collect()
		})
		.unwrap_or_default()
}

fn sanitize(s: &str) -> String {
	s.chars().map(|c| if c.is_ascii_alphanumeric() || c == '-' || c == '_' { c } else { '_' }).take(80).collect()
}

/// Write evidence, print verdict lines and exit.
pub fn finish(ctx: &Ctx, mut ev: Evidence, violations: Vec<Violation>, inconclusive: Option<String>) -> ! {
	let findings = load_findings();
	let root = verif_root();
	let wall = ctx.start.elapsed().as_secs_f64();

	// Group by signature, keep the first witness of each.
	let mut by_sig: BTreeMap<String, (usize, Violation)> = BTreeMap::new();
	for v in violations {
		by_sig.entry(v.signature.clone()).and_modify(|e| e.0 += 1).or_insert((1, v));
	}

	let mut unlisted = 0usize;
	let mut known = Vec::new();
	let mut out_lines = Vec::new();
	let _ = std::fs::create_dir_all(root.join("replays"));
	for (sig, (n, v)) in &by_sig {
		let listed = findings.iter().find(|f| f.property == ctx.id && f.signature == *sig && f.status == "open");
		if let Some(f) = listed {
			out_lines.push(format!("KNOWN-FINDING: property={} {} [{} occurrence(s) this run] {}", ctx.id, sig, n, f.text));
			known.push(json!({"signature": sig, "occurrences": n}));
		} else {
			unlisted += 1;
			let path = root.join("replays").join(format!("{}-{}-{:08x}.json", ctx.id, sanitize(sig), hash_of(sig) as u32));
			let body = json!({
				"property": ctx.id, "signature": sig, "detail": v.detail, "occurrences": n,
				"tier": ctx.tier.name(), "seed": ctx.seed, "witness": v.witness,
			});
			let _ = std::fs::write(&path, serde_json::to_string_pretty(&body).unwrap_or_default());
			out_lines.push(format!("violation signature={} occurrences={} detail={}", sig, n, v.detail.replace('\n', " ")));
			out_lines.push(format!("VIOLATION property={} replay={}", ctx.id, path.display()));
		}
	}

	// Floors: evidence that observed (almost) nothing is inconclusive, never "held".
	let mut inconclusive = inconclusive;
	if inconclusive.is_none() && unlisted == 0 && (ev.evaluations == 0 || ev.distinct_nontrivial() < 2) {
		inconclusive = Some(format!(
			"too little observed: evaluations={} distinct_nontrivial={}",
			ev.evaluations,
			ev.distinct_nontrivial()
		));
	}

	let mut coverage = Map::new();
	coverage.insert("evaluations".into(), json!(ev.evaluations));
	coverage.insert("distinct_nontrivial".into(), json!(ev.distinct_nontrivial()));
	coverage.insert("rule".into(), json!(ev.rule));
	if ev.samples.is_empty() {
		ev.samples.push(json!("(no sample recorded)"));
	}
	coverage.insert("samples".into(), Value::Array(ev.samples.clone()));
	let counters: Map<String, Value> =
		ev.counters.iter().filter(|(k, _)| !k.starts_with("__sampled_")).map(|(k, v)| (k.clone(), json!(v))).collect();
	coverage.insert("observed".into(), Value::Object(counters));
	let classes: Map<String, Value> = ev.classes.iter().map(|(k, v)| (format!("distinct_{k}"), json!(v.len()))).collect();
	coverage.insert("distinct".into(), Value::Object(classes));
	for (k, v) in ev.extra.iter() {
		coverage.insert(k.clone(), v.clone());
	}
	coverage.insert("known_findings_seen".into(), Value::Array(known));
	if let Some(r) = &inconclusive {
		coverage.insert("inconclusive".into(), json!(r));
	}

	let evidence = json!({
		"property_id": ctx.id,
		"tier": ctx.tier.name(),
		"seed": ctx.seed as i64,
		"level": ctx.level,
		"coverage": Value::Object(coverage),
		"assumptions": ev.assumptions,
		"wall_s": (wall * 1000.0).round() / 1000.0,
		"violations": unlisted,
	});
	let _ = std::fs::create_dir_all(root.join("evidence"));
	let epath = root.join("evidence").join(format!("{}.json", ctx.id));
	if let Err(e) = std::fs::write(&epath, serde_json::to_string_pretty(&evidence).unwrap_or_default()) {
		eprintln!("harness error: cannot write {}: {e}", epath.display());
		std::process::exit(2);
	}

	for l in out_lines {
		println!("{l}");
	}
	println!(
		"{} {} seed={} evaluations={} distinct_nontrivial={} unlisted_violations={} known_findings={} wall={:.1}s",
		ctx.id,
		ctx.tier.name(),
		ctx.seed,
		ev.evaluations,
		ev.distinct_nontrivial(),
		unlisted,
		by_sig.len() - unlisted,
		wall
	);
	if unlisted > 0 {
		std::process::exit(1);
	}
	if let Some(r) = inconclusive {
		println!("INCONCLUSIVE property={} reason={}", ctx.id, r);
		std::process::exit(3);
	}
	println!("HELD property={} (on what was explored; see {})", ctx.id, epath.display());
	std::process::exit(0);
}
