//! Sanitizer / interpreter sub-runs: the same property binary is re-built and re-run under Miri or ThreadSanitizer
//! with `--sub <mode>`; it prints one `SUBRESULT <json>` line that the parent merges into its evidence.

use serde_json::Value;
use std::path::PathBuf;
use std::process::{Command, Stdio};
use std::time::{Duration, Instant};

#[derive(Debug)]
pub enum SubOutcome {
	/// the sub-run completed; its SUBRESULT payload
	Clean(Value),
	/// the tool reported undefined behaviour / a data race (text excerpt, first in-repo frame)
	Report { excerpt: String, frame: String },
	/// the tool could not run the workload (unsupported operation, build failure, timeout): inconclusive
	Failed(String),
}

fn harness_dir() -> PathBuf {
	PathBuf::from(env!("CARGO_MANIFEST_DIR"))
}

fn run_with_timeout(mut cmd: Command, limit: Duration) -> Result<(i32, String, String), String> {
	cmd.stdout(Stdio::piped()).stderr(Stdio::piped()).stdin(Stdio::null());
	let mut child = cmd.spawn().map_err(|e| format!("spawn failed: {e}"))?;
	let mut out = child.stdout.take().unwrap();
	let mut err = child.stderr.take().unwrap();
	let t_out = std::thread::spawn(move || {
		let mut s = String::new();
		let _ = std::io::Read::read_to_string(&mut out, &mut s);
		s
	});
	let t_err = std::thread::spawn(move || {
		let mut s = Vec::new();
		let _ = std::io::Read::read_to_end(&mut err, &mut s);
		String::from_utf8_lossy(&s).into_owned()
	});
	let start = Instant::now();
	loop {
		match child.try_wait() {
			Ok(Some(st)) => {
				let o = t_out.join().unwrap_or_default();
				let e = t_err.join().unwrap_or_default();
				return Ok((st.code().unwrap_or(-1), o, e));
			}
			Ok(None) => {
				if start.elapsed() > limit {
					let _ = child.kill();
					let _ = child.wait();
					return Err(format!("timed out after {limit:?}"));
				}
				std::thread::sleep(Duration::from_millis(100));
			}
			Err(e) => return Err(format!("wait failed: {e}")),
		}
	}
}

fn subresult(stdout: &str) -> Option<Value> {
	stdout.lines().rev().find_map(|l| l.strip_prefix("SUBRESULT ").and_then(|j| serde_json::from_str(j).ok()))
}

fn first_repo_frame(text: &str) -> String {
	text.lines()
		.map(|l| l.trim())
		.find(|l| l.contains("/repo/") && !l.contains("/repo/target"))
		.map(|l| {
			// strip line numbers so the signature is stable under unrelated edits
			let l = l.split(" at ").last().unwrap_or(l);
			let l = l.rsplit_once("/repo/").map(|(_, r)| r).unwrap_or(l);
			l.split(':').next().unwrap_or(l).to_string()
		})
		.unwrap_or_else(|| "unknown-frame".into())
}

/// `cargo +nightly miri run --bin <bin> -- --sub miri <args>` (tree borrows, isolation off).
pub fn run_miri(bin: &str, args: &[String], limit: Duration) -> SubOutcome {
	let mut cmd = Command::new("cargo");
	cmd.current_dir(harness_dir())
		.env("CARGO_NET_OFFLINE", "true")
		.env("CARGO_TARGET_DIR", harness_dir().join("target-miri"))
		.env("MIRIFLAGS", "-Zmiri-disable-isolation -Zmiri-tree-borrows -Zmiri-ignore-leaks")
		.env_remove("RUSTFLAGS")
		.args(["+nightly", "miri", "run", "--offline", "--bin", bin, "--", "--sub", "miri"])
		.args(args);
	match run_with_timeout(cmd, limit) {
		Err(e) => SubOutcome::Failed(format!("miri: {e}")),
		Ok((code, out, err)) => {
			if err.contains("Undefined Behavior") || err.contains("Data race detected") || err.contains("data race") {
				let start = err.find("error: Undefined Behavior").or_else(|| err.find("error:")).unwrap_or(0);
				let excerpt: String = err[start..].chars().take(3000).collect();
				return SubOutcome::Report { frame: first_repo_frame(&excerpt), excerpt };
			}
			if code == 0 {
				match subresult(&out) {
					Some(v) => SubOutcome::Clean(v),
					None => SubOutcome::Failed("miri: run ended without SUBRESULT line".into()),
				}
			} else if let Some(v) = subresult(&out) {
				// the workload itself completed and reported (e.g. oracle violations => exit code 1)
				SubOutcome::Clean(v)
			} else {
				let tail: String = err.lines().rev().take(25).collect::<Vec<_>>().into_iter().rev().collect::<Vec<_>>().join("\n");
				SubOutcome::Failed(format!("miri: exit code {code}: {tail}"))
			}
		}
	}
}

/// Build the binary with `-Zsanitizer=thread -Zbuild-std` and run it with `--sub tsan <args>`.
/// Returns the SUBRESULT of the run and the de-duplicated race reports (first in-repo frame, excerpt).
pub fn run_tsan(bin: &str, args: &[String], limit: Duration) -> (SubOutcome, Vec<(String, String)>) {
	let target_dir = harness_dir().join("target-tsan");
	let mut build = Command::new("cargo");
	build
		.current_dir(harness_dir())
		.env("CARGO_NET_OFFLINE", "true")
		.env("CARGO_TARGET_DIR", &target_dir)
		.env("RUSTFLAGS", "-Zsanitizer=thread")
		.args(["+nightly", "build", "--offline", "-Zbuild-std", "--target", "x86_64-unknown-linux-gnu", "--bin", bin]);
	match run_with_timeout(build, Duration::from_secs(1500)) {
		Err(e) => return (SubOutcome::Failed(format!("tsan build: {e}")), vec![]),
		Ok((code, _o, e)) if code != 0 => {
			let tail: String = e.lines().rev().take(25).collect::<Vec<_>>().into_iter().rev().collect::<Vec<_>>().join("\n");
			return (SubOutcome::Failed(format!("tsan build failed: {tail}")), vec![]);
		}
		Ok(_) => {}
	}
	let exe = target_dir.join("x86_64-unknown-linux-gnu").join("debug").join(bin);
	let mut cmd = Command::new(exe);
	cmd.current_dir(harness_dir())
		.env("TSAN_OPTIONS", "halt_on_error=0 exitcode=66 second_deadlock_stack=1 history_size=4")
		.args(["--sub", "tsan"])
		.args(args);
	match run_with_timeout(cmd, limit) {
		Err(e) => (SubOutcome::Failed(format!("tsan run: {e}")), vec![]),
		Ok((code, out, err)) => {
			let mut reports: Vec<(String, String)> = Vec::new();
			for block in err.split("==================").filter(|b| b.contains("WARNING: ThreadSanitizer")) {
				let frame = first_repo_frame(block);
				if !reports.iter().any(|(f, _)| *f == frame) {
					reports.push((frame, block.chars().take(3000).collect()));
				}
			}
			match subresult(&out) {
				Some(v) => (SubOutcome::Clean(v), reports),
				None => {
					let tail: String =
						err.lines().rev().take(25).collect::<Vec<_>>().into_iter().rev().collect::<Vec<_>>().join("\n");
					(SubOutcome::Failed(format!("tsan run: exit code {code} without SUBRESULT: {tail}")), reports)
				}
			}
		}
	}
}

/// Build the binary with AddressSanitizer (`-Zsanitizer=address`, nightly, explicit target) and run its whole QUICK tier
/// under it (real hyper / soketto / tokio IO with the hostile workload of that check; leak detection off: a leak is not
/// one of the properties). Evidence and replays of that run go to a scratch root inside the sanitizer's target directory.
/// Returns the run's summary line as JSON; an AddressSanitizer report is a `Report`; anything else that keeps the run
/// from completing cleanly is `Failed` (inconclusive).
pub fn run_asan(bin: &str, id: &str, seed: u64, limit: Duration) -> SubOutcome {
	let target_dir = harness_dir().join("target-asan");
	let mut build = Command::new("cargo");
	build
		.current_dir(harness_dir())
		.env("CARGO_NET_OFFLINE", "true")
		.env("CARGO_TARGET_DIR", &target_dir)
		.env("RUSTFLAGS", "-Zsanitizer=address -Cforce-frame-pointers=yes")
		.args(["+nightly", "build", "--offline", "--target", "x86_64-unknown-linux-gnu", "--bin", bin]);
	match run_with_timeout(build, Duration::from_secs(1800)) {
		Err(e) => return SubOutcome::Failed(format!("asan build: {e}")),
		Ok((code, _o, e)) if code != 0 => {
			let tail: String = e.lines().rev().take(25).collect::<Vec<_>>().into_iter().rev().collect::<Vec<_>>().join("\n");
			return SubOutcome::Failed(format!("asan build failed: {tail}"));
		}
		Ok(_) => {}
	}
	let root = target_dir.join(format!("root-{bin}"));
	let _ = std::fs::create_dir_all(&root);
	let _ = std::fs::copy(crate::report::verif_root().join("known_findings.json"), root.join("known_findings.json"));
	let exe = target_dir.join("x86_64-unknown-linux-gnu").join("debug").join(bin);
	let mut cmd = Command::new(exe);
	cmd.current_dir(harness_dir())
		.env("ASAN_OPTIONS", "detect_leaks=0:halt_on_error=1:abort_on_error=0:exitcode=77")
		.env("VERIF_ROOT", &root)
		.env("VERIF_SEED", seed.to_string())
		.arg("quick");
	match run_with_timeout(cmd, limit) {
		Err(e) => SubOutcome::Failed(format!("asan run: {e}")),
		Ok((code, out, err)) => {
			if err.contains("ERROR: AddressSanitizer") || code == 77 {
				let start = err.find("ERROR: AddressSanitizer").unwrap_or(0);
				let excerpt: String = err[start..].chars().take(3000).collect();
				return SubOutcome::Report { frame: first_repo_frame(&excerpt), excerpt };
			}
			let summary = out.lines().rev().find(|l| l.starts_with(&format!("{id} quick "))).unwrap_or("").to_string();
			let num = |key: &str| summary.split_whitespace().find_map(|t| t.strip_prefix(key)).and_then(|v| v.parse::<u64>().ok());
			if code == 0 && !summary.is_empty() {
				SubOutcome::Clean(serde_json::json!({"tier": "quick", "evaluations": num("evaluations="), "distinct_nontrivial": num("distinct_nontrivial="), "summary": summary}))
			} else {
				let tail: String = out.lines().rev().take(6).collect::<Vec<_>>().into_iter().rev().collect::<Vec<_>>().join(" | ");
				SubOutcome::Failed(format!("asan run: exit code {code} without an AddressSanitizer report: {tail}"))
			}
		}
	}
}

/// Merge the outcome of an ASan sub-run into a check's evidence / violations; returns an inconclusive reason if any.
pub fn merge_asan(out: SubOutcome, ev: &mut crate::report::Evidence, violations: &mut Vec<crate::report::Violation>) -> Option<String> {
	match out {
		SubOutcome::Clean(v) => {
			ev.set("asan", serde_json::json!({"status": "no report", "workload": v}));
			None
		}
		SubOutcome::Report { excerpt, frame } => {
			violations.push(crate::report::Violation::new(format!("asan:{frame}"), "AddressSanitizer reported a memory error", serde_json::json!({"excerpt": excerpt})));
			ev.set("asan", serde_json::json!({"status": "report"}));
			None
		}
		SubOutcome::Failed(why) => {
			ev.set("asan", serde_json::json!({"status": "inconclusive", "why": why}));
			Some("AddressSanitizer sub-run did not complete".into())
		}
	}
}
