//! C08 — no JSON-RPC response above `max_response_body_size` is ever sent, other than the fixed small "too big"
//! error itself; replies that fit (exactly at the limit included) are sent unchanged.
//!
//! Monitor: the harness owns the handlers, so it knows the payload `P` of every call exactly. An independent size
//! model builds the reply the statement promises — `{"jsonrpc":"2.0","id":I,"result":P}` / the error form — with
//! serde_json and decides from its byte length alone whether it fits the configured limit:
//!   fits  ⇒ the wire reply parses to the same object AND has exactly that length,
//!   else  ⇒ error -32008 carrying the call's id.
//! Batches: expected array text from the entry replies (an entry that is itself too big counts as its -32008
//! replacement, whose text is taken from the entry-alone probe); fits ⇒ unchanged, else ⇒ -32011 with id null.
//! Every wire reply must be valid UTF-8 JSON and satisfy `len ≤ max(limit, F + len(id))`, F = size of the largest
//! constant library error (the statement's own exemption). Observed on HTTP (direct tower call), WebSocket (raw
//! in-memory peer, probe + sentinel + idle drain, mode D) and on `MethodResponse::response` / `BatchResponseBuilder`
//! directly (also under Miri). An unlimited server answers every request too: acceptance must not depend on the limit.

use jrv::jgen;
use jrv::memsrv::{MemServer, RawWs};
use jrv::report::*;
use jrv::rng::Rng;
use jrv::runner::*;
use jrv::sanit::{self, SubOutcome};
use jsonrpsee_core::server::{BatchResponseBuilder, MethodResponse, ResponsePayload};
use jsonrpsee_server::{IdProvider, RpcModule, ServerConfig};
use jsonrpsee_types::{ErrorObjectOwned, Id, Params, SubscriptionId};
use serde::{Deserialize, Serialize};
use serde_json::{Value, json};
use std::sync::atomic::{AtomicUsize, Ordering};
use std::sync::{Arc, Mutex};
use std::time::Duration;

const IDLE: Duration = Duration::from_secs(10);
const LIMITS: [u32; 10] = [1, 10, 50, 63, 64, 100, 127, 128, 1000, 65536];
/// request limit of every other server: below the largest response limit, above the others
const SMALL_REQUEST_LIMIT: u32 = 8192;
const TOO_BIG: i64 = -32008;
const BATCH_TOO_BIG: i64 = -32011;
/// marks sentinel ids; never part of a generated id
const SENTINEL_MARK: char = '\u{1}';

// ---------------------------------------------------------------------------------------------------------------
// Payloads: a pure function of the request's params, shared by the handlers (real side) and the model.

/// (name, one unit). JSON cost per unit: 1, 2, 2, 6, 2, 3, 4, 2, 6, 1, 3 bytes.
const UNITS: [(&str, &str); 11] = [
	("ascii", "a"),
	("quote", "\""),
	("newline", "\n"),
	("nul", "\u{0}"),
	("utf8-2", "é"),
	("utf8-3", "日"),
	("utf8-4", "😀"),
	("backslash", "\\"),
	("ctl-1f", "\u{1f}"),
	("del", "\u{7f}"),
	("ls-2028", "\u{2028}"),
];
const MIXED: u8 = UNITS.len() as u8;
const KINDS: u8 = MIXED + 1;
/// error without `data`: the generated string is the message
const SHAPE_MSG_ONLY: u8 = 9;

#[derive(Clone, Copy, Debug, PartialEq, Eq, Hash, Serialize, Deserialize)]
struct PaySpec {
	/// 0 string, 1 `[s]`, 2 `{"v":s}`, 9 (errors only) no data, the string is the message
	shape: u8,
	kind: u8,
	units: u32,
	fill: u32,
}

fn kind_name(kind: u8) -> &'static str {
	if kind == MIXED { "mixed" } else { UNITS.get(kind as usize).map(|u| u.0).unwrap_or("?") }
}

fn unit_of(kind: u8, i: usize) -> &'static str {
	if kind >= MIXED { UNITS[i % UNITS.len()].1 } else { UNITS[kind as usize].1 }
}

/// JSON-encoded size of unit `i` of a class (steering only; the oracle serialises the whole payload with serde_json).
fn unit_cost(kind: u8, i: usize) -> usize {
	const COST: [usize; 11] = [1, 2, 2, 6, 2, 3, 4, 2, 6, 1, 3];
	if kind >= MIXED { COST[i % UNITS.len()] } else { COST[kind as usize] }
}

fn pay_string(kind: u8, units: u32, fill: u32) -> String {
	let mut s = String::with_capacity(units as usize * 4 + fill as usize);
	for i in 0..units as usize {
		s.push_str(unit_of(kind, i));
	}
	for _ in 0..fill {
		s.push('a');
	}
	s
}

fn payload(p: &PaySpec) -> Value {
	let s = pay_string(p.kind, p.units, p.fill);
	match p.shape {
		1 => json!([s]),
		2 => json!({ "v": s }),
		_ => Value::String(s),
	}
}

/// (message, data) of the error a handler returns for this spec.
fn err_parts(p: &PaySpec) -> (String, Option<Value>) {
	if p.shape == SHAPE_MSG_ONLY { (pay_string(p.kind, p.units, p.fill), None) } else { ("m".to_string(), Some(payload(p))) }
}

// ---------------------------------------------------------------------------------------------------------------
// Cases.

#[derive(Clone, Debug, PartialEq, Eq, Hash, Serialize, Deserialize)]
enum What {
	Gen(PaySpec),
	Err { code: i32, pay: PaySpec },
	/// call to a method that is not registered (constant protocol error -32601)
	Unknown,
	/// call to a blocking method whose callback panics with a message of this many bytes: the library answers with its
	/// constant -32603 (how long the panic message is must not show in the reply)
	Panic(u32),
	/// call to a method that succeeds with a value whose `Serialize` fails with a message of this many bytes: the
	/// library's constant -32603 again (flavor selects the sync / async / blocking callback)
	Unser(u32),
	/// no id: never answered, contributes nothing to a batch reply
	Notif,
	/// batch entry that is no request: the number `1` (answered -32600 with id null) or an object with nothing but an id
	/// (answered -32600 with that id). Only used inside batches.
	Invalid { with_id: bool },
}

#[derive(Clone, Debug, PartialEq, Eq, Hash, Serialize, Deserialize)]
struct Call {
	/// canonical JSON text of the id (what serde_json prints for the id value)
	id: String,
	/// spelling of the id in the request (may use other escapes for the same value)
	id_wire: String,
	/// 0 sync, 1 async, 2 blocking callback kind
	flavor: u8,
	what: What,
	/// bytes of an ignored extra params element: makes the request larger without changing the reply
	pad: u32,
}

#[derive(Clone, Debug, PartialEq, Eq, Hash, Serialize, Deserialize)]
enum Case {
	Single { limit: u32, call: Call },
	Batch { limit: u32, entries: Vec<Call> },
	/// subscribe call over WebSocket; mode 0 accept (subscription id = string of `n` bytes), 1 reject (error data of `n` bytes)
	Subscribe { limit: u32, id: String, mode: u8, n: u32 },
	/// unsubscribe call over WebSocket whose request id (a JSON string, given as text) makes the acknowledgement land
	/// around or beyond the limit; `live`: a subscription with that subscription id exists (answer true), else false
	Unsubscribe { limit: u32, id: String, live: bool },
}

impl Case {
	fn limit(&self) -> u32 {
		match self {
			Case::Single { limit, .. } | Case::Batch { limit, .. } | Case::Subscribe { limit, .. } | Case::Unsubscribe { limit, .. } => *limit,
		}
	}
}

const FLAVOR_SUFFIX: [&str; 3] = ["", "_async", "_blocking"];
const FLAVOR_NAME: [&str; 3] = ["sync", "async", "blocking"];

fn enc(v: &Value) -> String {
	serde_json::to_string(v).expect("Value serialises")
}

fn request_text(c: &Call) -> String {
	let fl = FLAVOR_SUFFIX[c.flavor as usize % 3];
	let pad = if c.pad > 0 { format!(",\"{}\"", "p".repeat(c.pad as usize)) } else { String::new() };
	match &c.what {
		What::Gen(p) => format!(
			"{{\"jsonrpc\":\"2.0\",\"id\":{},\"method\":\"gen{fl}\",\"params\":[{},{},{},{}{pad}]}}",
			c.id_wire, p.shape, p.kind, p.units, p.fill
		),
		What::Err { code, pay: p } => format!(
			"{{\"jsonrpc\":\"2.0\",\"id\":{},\"method\":\"err{fl}\",\"params\":[{code},{},{},{},{}{pad}]}}",
			c.id_wire, p.shape, p.kind, p.units, p.fill
		),
		What::Unknown => format!("{{\"jsonrpc\":\"2.0\",\"id\":{},\"method\":\"no_such_method\",\"params\":[1{pad}]}}", c.id_wire),
		What::Panic(n) => format!("{{\"jsonrpc\":\"2.0\",\"id\":{},\"method\":\"panic_blocking\",\"params\":[{n}{pad}]}}", c.id_wire),
		What::Unser(n) => format!("{{\"jsonrpc\":\"2.0\",\"id\":{},\"method\":\"unser{fl}\",\"params\":[{n}{pad}]}}", c.id_wire),
		What::Notif => format!("{{\"jsonrpc\":\"2.0\",\"method\":\"gen{fl}\",\"params\":[0,0,1,1{pad}]}}"),
		What::Invalid { with_id: true } => format!("{{\"jsonrpc\":\"2.0\",\"id\":{}}}", c.id_wire),
		What::Invalid { with_id: false } => "1".to_string(),
	}
}

/// THE SIZE MODEL: the reply the statement promises when no limit interferes, as text.
fn expected_single(c: &Call) -> Option<String> {
	match &c.what {
		What::Gen(p) => Some(format!("{{\"jsonrpc\":\"2.0\",\"id\":{},\"result\":{}}}", c.id, enc(&payload(p)))),
		What::Err { code, pay } => {
			let (m, d) = err_parts(pay);
			let data = d.map(|d| format!(",\"data\":{}", enc(&d))).unwrap_or_default();
			Some(format!(
				"{{\"jsonrpc\":\"2.0\",\"id\":{},\"error\":{{\"code\":{code},\"message\":{}{data}}}}}",
				c.id,
				enc(&Value::String(m))
			))
		}
		What::Unknown => {
			Some(format!("{{\"jsonrpc\":\"2.0\",\"id\":{},\"error\":{{\"code\":-32601,\"message\":\"Method not found\"}}}}", c.id))
		}
		What::Panic(_) | What::Unser(_) => Some(format!("{{\"jsonrpc\":\"2.0\",\"id\":{},\"error\":{{\"code\":-32603,\"message\":\"Internal error\"}}}}", c.id)),
		What::Notif => None,
		What::Invalid { with_id } => Some(format!(
			"{{\"jsonrpc\":\"2.0\",\"id\":{},\"error\":{{\"code\":-32600,\"message\":\"Invalid request\"}}}}",
			if *with_id { c.id.as_str() } else { "null" }
		)),
	}
}

/// Size of the largest constant library error, without the id (the statement's exemption "the fixed small 'too big'
/// error itself"; protocol errors such as -32601 are smaller).
fn floor_f(limit: u32) -> usize {
	format!(
		"{{\"jsonrpc\":\"2.0\",\"id\":,\"error\":{{\"code\":-32011,\"message\":\"The batch response was too large\",\"data\":\"Exceeded max limit of {limit}\"}}}}"
	)
	.len()
}

/// Workload steering only (never used by the oracle): the size the -32008 replacement is expected to have.
fn est_replaced_len(id: &str, limit: u32) -> usize {
	format!(
		"{{\"jsonrpc\":\"2.0\",\"id\":{id},\"error\":{{\"code\":-32008,\"message\":\"Response is too big\",\"data\":\"Exceeded max limit of {limit}\"}}}}"
	)
	.len()
}

fn what_name(w: &What) -> &'static str {
	match w {
		What::Gen(_) => "result",
		What::Err { .. } => "error",
		What::Unknown => "unknown-method",
		What::Panic(_) => "panicking-blocking-method",
		What::Unser(_) => "unserialisable-result",
		What::Notif => "notification",
		What::Invalid { .. } => "invalid-entry",
	}
}

/// Coarse position of a reply length relative to the limit (part of violation signatures).
fn dcoarse(len: usize, limit: u32) -> &'static str {
	let d = len as i64 - limit as i64;
	if d < 0 {
		"fits-below-limit"
	} else if d == 0 {
		"fits-at-limit"
	} else if d <= 2 {
		"over-by-1-2"
	} else {
		"over"
	}
}

fn dfine(len: usize, limit: u32) -> String {
	let d = len as i64 - limit as i64;
	if (-2..=2).contains(&d) { format!("{d:+}") } else if d < 0 { "far-below".into() } else { "far-above".into() }
}

fn class_single(c: &Call, limit: u32) -> String {
	let len = expected_single(c).map(|t| t.len()).unwrap_or(0);
	format!("{}:{}:{}", what_name(&c.what), FLAVOR_NAME[c.flavor as usize % 3], dcoarse(len, limit))
}

fn cut(b: &[u8]) -> String {
	let s = String::from_utf8_lossy(b);
	if s.len() > 600 {
		let mut a = 300;
		while !s.is_char_boundary(a) {
			a -= 1;
		}
		let mut z = s.len() - 200;
		while !s.is_char_boundary(z) {
			z += 1;
		}
		format!("{}…[{} bytes]…{}", &s[..a], s.len(), &s[z..])
	} else {
		s.into_owned()
	}
}

// ---------------------------------------------------------------------------------------------------------------
// Oracle.

struct Judged {
	violations: Vec<Violation>,
	/// the observed reply text when it is exactly what the statement allows (input of the batch model)
	accepted_text: Option<String>,
	replaced: bool,
}

fn parse_reply(bytes: &[u8]) -> Result<Value, &'static str> {
	let Ok(s) = std::str::from_utf8(bytes) else { return Err("invalid-utf8-reply") };
	serde_json::from_str::<Value>(s).map_err(|_| "malformed-reply")
}

fn error_code(v: &Value) -> Option<i64> {
	v.get("error").and_then(|e| e.get("code")).and_then(|c| c.as_i64())
}

/// Judge the replies observed for one call `c` at `limit`. `invocations` = handler runs observed for this probe
/// (None: not observable, e.g. direct API).
fn judge_single(c: &Call, limit: u32, replies: &[Vec<u8>], invocations: Option<usize>, via: &str, case: &Case) -> Judged {
	let class = class_single(c, limit);
	let mut out = Judged { violations: Vec::new(), accepted_text: None, replaced: false };
	let exp = expected_single(c);
	let witness = || json!({
		"case": case, "via": via, "limit": limit, "request": cut(request_text(c).as_bytes()),
		"expected_len": exp.as_ref().map(|e| e.len()), "expected": exp.as_ref().map(|e| cut(e.as_bytes())),
		"replies": replies.iter().map(|r| cut(r)).collect::<Vec<_>>(), "reply_lens": replies.iter().map(|r| r.len()).collect::<Vec<_>>(),
		"handler_invocations": invocations,
	});
	let mut v = |kind: &str, detail: String| out.violations.push(Violation::new(format!("{kind}/{class}"), format!("[{via}] {detail}"), witness()));

	// acceptance does not depend on the response limit: a registered method runs exactly once, whatever the limit
	if let Some(n) = invocations {
		let want = matches!(c.what, What::Gen(_) | What::Err { .. } | What::Panic(_) | What::Unser(_)) as usize;
		if n != want {
			v("handler-invocations", format!("handler ran {n} time(s), expected {want}"));
		}
	}
	let Some(exp) = exp.as_ref() else {
		if !replies.is_empty() {
			v("notification-answered", format!("{} reply(ies) to a notification", replies.len()));
		}
		return out;
	};
	if replies.is_empty() {
		v("unanswered", "no reply to a call".into());
		return out;
	}
	if replies.len() > 1 {
		v("multiple-replies", format!("{} replies to one call", replies.len()));
		return out;
	}
	let wire = &replies[0];
	let parsed = match parse_reply(wire) {
		Ok(p) => p,
		Err(kind) => {
			v(kind, format!("reply of {} bytes is not valid UTF-8 JSON", wire.len()));
			return out;
		}
	};
	let id_val: Value = serde_json::from_str(&c.id).expect("canonical id parses");
	let exp_val: Value = serde_json::from_str(&exp).expect("model text parses");
	let fits = exp.len() <= limit as usize;
	let is_too_big = error_code(&parsed) == Some(TOO_BIG) && parsed.get("result").is_none() && parsed != exp_val;

	// hard bound with the statement's exemption (reported on its own only when the reply is otherwise as expected)
	let bound = (limit as usize).max(floor_f(limit) + c.id.len());

	if fits {
		if parsed != exp_val {
			if is_too_big {
				v("fitting-reply-refused", format!("expected reply has {} bytes ≤ limit {limit} but was replaced by -32008", exp.len()));
			} else {
				v("fitting-reply-altered", format!("expected {} got {}", cut(exp.as_bytes()), cut(wire)));
			}
		} else if wire.len() != exp.len() {
			v("fitting-reply-length-differs", format!("same object but {} bytes on the wire vs {} in the model", wire.len(), exp.len()));
		} else {
			out.accepted_text = Some(String::from_utf8_lossy(wire).into_owned());
		}
	} else if matches!(c.what, What::Unknown | What::Panic(_) | What::Unser(_)) && parsed == exp_val {
		// constant protocol error above a tiny limit: covered by the floor (design relaxation), sent as is
		out.accepted_text = Some(String::from_utf8_lossy(wire).into_owned());
	} else if parsed == exp_val {
		v("oversized-reply-sent", format!("reply of {} bytes sent unchanged although the limit is {limit}", wire.len()));
	} else {
		let code = error_code(&parsed);
		if code != Some(TOO_BIG) || parsed.get("result").is_some() {
			v("replacement-wrong-code", format!("expected error -32008, got {}", cut(wire)));
		} else if parsed.get("id") != Some(&id_val) {
			v("replacement-wrong-id", format!("expected id {} got {:?}", c.id, parsed.get("id")));
		} else {
			out.replaced = true;
			out.accepted_text = Some(String::from_utf8_lossy(wire).into_owned());
		}
	}
	if out.accepted_text.is_some() && wire.len() > bound {
		v("reply-above-limit-and-floor", format!("reply has {} bytes, limit {limit}, constant-error floor {bound}", wire.len()));
		out.accepted_text = None;
	}
	out
}

fn class_batch(total: usize, limit: u32, any_replaced: bool) -> String {
	let _ = any_replaced; // evidence only: the same accounting decides with and without replaced entries
	format!("batch:{}", dcoarse(total, limit))
}

/// Judge a batch reply. `entry_texts` = the reply of each reply-producing entry when sent alone at the same limit
/// (already judged by `judge_single`); `n_calls` = entries with a registered method.
fn judge_batch(
	limit: u32,
	entry_texts: &[String],
	any_replaced: bool,
	replies: &[Vec<u8>],
	invocations: Option<(usize, usize)>,
	via: &str,
	case: &Case,
) -> (Vec<Violation>, bool) {
	let array = format!("[{}]", entry_texts.join(","));
	let class = class_batch(array.len(), limit, any_replaced);
	let vs = std::cell::RefCell::new(Vec::new());
	let witness = || json!({
		"case": case, "via": via, "limit": limit, "expected_array_len": array.len(), "expected_array": cut(array.as_bytes()),
		"replies": replies.iter().map(|r| cut(r)).collect::<Vec<_>>(), "reply_lens": replies.iter().map(|r| r.len()).collect::<Vec<_>>(),
		"handler_invocations": invocations.map(|x| x.0),
	});
	let v = |kind: &str, detail: String| vs.borrow_mut().push(Violation::new(format!("{kind}/{class}"), format!("[{via}] {detail}"), witness()));
	let fits = array.len() <= limit as usize;
	if let Some((n, n_calls)) = invocations {
		// a refused batch may stop early; an answered batch ran every call exactly once
		if n > n_calls || (fits && n != n_calls) {
			v("handler-invocations", format!("handlers ran {n} time(s) for {n_calls} call entries"));
		}
	}
	if replies.is_empty() {
		v("unanswered", "no reply to a batch with call entries".into());
		return (vs.into_inner(), false);
	}
	if replies.len() > 1 {
		v("multiple-replies", format!("{} replies to one batch", replies.len()));
		return (vs.into_inner(), false);
	}
	let wire = &replies[0];
	let parsed = match parse_reply(wire) {
		Ok(p) => p,
		Err(kind) => {
			v(kind, format!("reply of {} bytes is not valid UTF-8 JSON", wire.len()));
			return (vs.into_inner(), false);
		}
	};
	let is_refusal = parsed.is_object() && error_code(&parsed) == Some(BATCH_TOO_BIG);
	let canon = |v: &Value| -> Vec<String> {
		let mut e: Vec<String> = v.as_array().map(|a| a.iter().map(enc).collect()).unwrap_or_default();
		e.sort();
		e
	};
	if fits {
		let exp_val: Value = serde_json::from_str(&array).expect("model array parses");
		if is_refusal {
			v("fitting-batch-refused", format!("expected array has {} bytes ≤ limit {limit} but was replaced by -32011", array.len()));
		} else if !parsed.is_array() || canon(&parsed) != canon(&exp_val) {
			v("fitting-batch-altered", format!("expected {} got {}", cut(array.as_bytes()), cut(wire)));
		} else if wire.len() != array.len() {
			v("fitting-batch-length-differs", format!("same entries but {} bytes on the wire vs {} in the model", wire.len(), array.len()));
		}
	} else if parsed.is_array() {
		v("oversized-batch-sent", format!("array of {} bytes sent although the limit is {limit}", wire.len()));
	} else if !is_refusal {
		v("batch-replacement-wrong-code", format!("expected error -32011, got {}", cut(wire)));
	} else if parsed.get("id") != Some(&Value::Null) {
		v("batch-replacement-wrong-id", format!("expected id null, got {:?}", parsed.get("id")));
	}
	// hard bounds, reported on their own only when the reply is otherwise as expected
	if vs.borrow().is_empty() {
		if parsed.is_array() && wire.len() > limit as usize {
			v("batch-array-above-limit", format!("array reply has {} bytes, limit {limit}", wire.len()));
		} else if !parsed.is_array() && wire.len() > (limit as usize).max(floor_f(limit) + 4) {
			v("reply-above-limit-and-floor", format!("reply has {} bytes, limit {limit}", wire.len()));
		}
	}
	(vs.into_inner(), is_refusal)
}

// ---------------------------------------------------------------------------------------------------------------
// Workload generation (steering uses the model's own lengths; it never looks at the implementation).

fn gen_id(r: &mut Rng, short: bool) -> (String, String) {
	let roll = r.below(100);
	if short || roll < 45 {
		// number of 1..20 digits
		let digits = if short { r.range(1, 3) } else { r.range(1, 20) };
		let n: u64 = match r.below(24) {
			0 => 0,
			1 if !short => u64::MAX,
			_ => {
				if digits >= 20 {
					r.range(10_000_000_000_000_000_000, u64::MAX)
				} else {
					let lo = 10u64.pow(digits as u32 - 1);
					let hi = if digits == 19 { 9_999_999_999_999_999_999 } else { 10u64.pow(digits as u32) - 1 };
					r.range(lo, hi)
				}
			}
		};
		let t = n.to_string();
		(t.clone(), t)
	} else {
		let len = match r.below(20) {
			0 => 0,
			1..=9 => r.usize(8) + 1,
			10..=17 => r.usize(32) + 9,
			_ => r.usize(200) + 41,
		};
		const PLAIN: [&str; 8] = ["a", "Z", "7", "-", "_", "x", "q", " "];
		const ODD: [&str; 9] = ["\"", "\\", "\n", "\u{0}", "é", "日", "😀", "/", "\u{7f}"];
		let odd = r.chance(1, 3);
		let s: String = (0..len).map(|_| if odd && r.chance(1, 3) { *r.pick(&ODD) } else { *r.pick(&PLAIN) }).collect();
		let canon = enc(&Value::String(s.clone()));
		let wire = if r.chance(1, 4) { jgen::string_literal(r, &s) } else { canon.clone() };
		(canon, wire)
	}
}

/// A call of the given kind whose *model* reply has exactly `want` bytes when that is reachable (else the smallest one).
fn tune_call(r: &mut Rng, id: (String, String), flavor: u8, is_err: bool, want: usize, pad: u32) -> Call {
	let kind = r.below(KINDS as u64) as u8;
	let shape = if is_err { *r.pick(&[0u8, 0, 1, 2, SHAPE_MSG_ONLY, SHAPE_MSG_ONLY]) } else { *r.pick(&[0u8, 0, 0, 1, 2]) };
	let code = if is_err { *r.pick(&[1i32, -1, 1234, -32000, -32099, -32603, -32602, i32::MAX, i32::MIN, 0, -32008, 77]) } else { 0 };
	let mk = |units: u32, fill: u32| {
		let pay = PaySpec { shape, kind, units, fill };
		Call {
			id: id.0.clone(),
			id_wire: id.1.clone(),
			flavor,
			what: if is_err { What::Err { code, pay } } else { What::Gen(pay) },
			pad,
		}
	};
	let base = expected_single(&mk(0, 0)).unwrap().len();
	if want <= base {
		return mk(0, 0);
	}
	let rem = want - base;
	// share of the free bytes spent on units of the chosen escape class ("mostly escapes"), the rest is ASCII fill
	let budget = if r.chance(1, 8) { r.usize(rem + 1) } else { rem * r.range(50, 100) as usize / 100 };
	let mut used = 0usize;
	let mut units = 0u32;
	loop {
		let cost = unit_cost(kind, units as usize);
		if used + cost > budget {
			break;
		}
		used += cost;
		units += 1;
	}
	let c = mk(units, (rem - used) as u32);
	debug_assert_eq!(expected_single(&c).unwrap().len(), want);
	c
}

fn pick_pad(r: &mut Rng) -> u32 {
	match r.below(10) {
		0 => r.range(1, 300) as u32,
		1 => r.range(1000, 2000) as u32,
		_ => 0,
	}
}

/// Target reply length for a limit: mostly limit-2..limit+2.
fn pick_target(r: &mut Rng, limit: u32) -> usize {
	let l = limit as i64;
	let t = match r.below(20) {
		0..=13 => l + r.range(0, 4) as i64 - 2,
		14 => r.range(0, l.max(1) as u64) as i64,
		15 => l / 2,
		16 | 17 => l + r.range(3, 40) as i64,
		18 => l * 2 + 7,
		_ => l + r.range(3, (l as u64).clamp(4, 3000)) as i64,
	};
	t.max(0) as usize
}

fn plan_single(r: &mut Rng, limit: u32) -> Call {
	let short = limit < 100 && r.chance(2, 3);
	let id = gen_id(r, short);
	let flavor = r.below(3) as u8;
	if r.chance(1, 40) {
		return Call { id: id.0, id_wire: id.1, flavor: 0, what: What::Unknown, pad: pick_pad(r) };
	}
	if r.chance(1, 30) {
		// the panic message as long as a result that would land around the limit, or far beyond it
		let n = if r.bool() { pick_target(r, limit) as u32 } else { limit.saturating_add(r.below(2000) as u32) };
		return Call { id: id.0, id_wire: id.1, flavor: 2, what: What::Panic(n.min(100_000)), pad: 0 };
	}
	if r.chance(1, 30) {
		let n = if r.bool() { pick_target(r, limit) as u32 } else { limit.saturating_add(r.below(2000) as u32) };
		return Call { id: id.0, id_wire: id.1, flavor, what: What::Unser(n.min(100_000)), pad: 0 };
	}
	let is_err = r.chance(1, 3);
	let want = pick_target(r, limit);
	let pad = pick_pad(r);
	tune_call(r, id, flavor, is_err, want, pad)
}

/// Batch of 1..6 entries; the array made of the replies of entries 0..=j is steered to limit-2..limit+2.
fn plan_batch(r: &mut Rng, limit: u32, max_entries: usize) -> Vec<Call> {
	let l = limit as usize;
	// as many entries as can fit at all (a minimal reply has 36 bytes), plus one
	let feasible = ((l + 2).saturating_sub(2) / 37).max(1);
	let n = r.usize(max_entries.min(feasible + 1)) + 1;
	let j = r.usize(n);
	let target: usize = match r.below(10) {
		0..=7 => (l as i64 + r.range(0, 4) as i64 - 2).max(0) as usize,
		8 => l / 2,
		_ => l + r.usize(l.clamp(4, 2000)) + 3,
	};
	let mut entries: Vec<Call> = Vec::new();
	let mut sum = 0usize; // bytes of entry replies so far
	let mut cnt = 0usize; // reply-producing entries so far
	let reserve = 64usize;
	let share = target.saturating_sub(2 + reserve) / (j + 1);
	for _ in 0..j {
		let short = share < 120;
		let id = gen_id(r, short);
		let flavor = r.below(3) as u8;
		let roll = r.below(20);
		let c = if roll == 0 {
			Call { id: id.0, id_wire: id.1, flavor, what: What::Notif, pad: 0 }
		} else if roll == 1 && share >= 90 + id.0.len() {
			Call { id: id.0, id_wire: id.1, flavor: 0, what: What::Unknown, pad: 0 }
		} else if roll <= 4 && share >= est_replaced_len(&id.0, limit) {
			// entry that is too big on its own: replaced by -32008 inside the array
			let is_err = r.bool();
			let over = l + 1 + r.usize(40);
			tune_call(r, id, flavor, is_err, over, 0)
		} else if share >= 36 {
			let is_err = r.chance(1, 4);
			let want = 36 + r.usize(share - 35);
			let c = tune_call(r, id, flavor, is_err, want.min(share), 0);
			if expected_single(&c).unwrap().len() > share { continue } else { c }
		} else {
			continue;
		};
		if let Some(t) = expected_single(&c) {
			sum += if t.len() > l && !matches!(c.what, What::Unknown) { est_replaced_len(&c.id, limit) } else { t.len() };
			cnt += 1;
		}
		entries.push(c);
	}
	// the tuned entry: closes the array at `target` bytes
	let want = target.saturating_sub(2 + cnt + sum);
	let flavor = r.below(3) as u8;
	let tuned = {
		// an entry that is too big on its own, the array length steered through the id width
		let base_no_id = est_replaced_len("", limit);
		let w = want as i64 - base_no_id as i64;
		if (1..=20).contains(&w) && r.chance(1, 2) {
			let w = w as u32;
			let n: u64 = if w >= 20 {
				r.range(10_000_000_000_000_000_000, u64::MAX)
			} else {
				let lo = 10u64.pow(w - 1);
				let hi = if w == 19 { 9_999_999_999_999_999_999 } else { 10u64.pow(w) - 1 };
				r.range(lo, hi)
			};
			let t = n.to_string();
			let is_err = r.bool();
			let over = l + 1 + r.usize(20);
			tune_call(r, (t.clone(), t), flavor, is_err, over, 0)
		} else {
			let id = gen_id(r, want < 100);
			let is_err = r.chance(1, 3);
			let pad = pick_pad(r);
			tune_call(r, id, flavor, is_err, want, pad)
		}
	};
	entries.push(tuned);
	for _ in (j + 1)..n {
		let id = gen_id(r, true);
		let flavor = r.below(3) as u8;
		let is_err = r.chance(1, 4);
		let want = 36 + r.usize(40);
		entries.push(if r.chance(1, 12) {
			Call { id: id.0, id_wire: id.1, flavor, what: What::Notif, pad: 0 }
		} else {
			tune_call(r, id, flavor, is_err, want, 0)
		});
	}
	if entries.iter().all(|c| matches!(c.what, What::Notif)) {
		let id = gen_id(r, true);
		entries.push(tune_call(r, id, 0, false, 40, 0));
	}
	entries
}

/// A batch whose reply first crosses the limit at an invalid entry, followed only by invalid entries or notifications
/// (0..2 small valid calls in front).
fn plan_batch_invalid_tail(r: &mut Rng, limit: u32) -> Vec<Call> {
	let l = limit as usize;
	let mut entries: Vec<Call> = Vec::new();
	let mut sum = 1usize;
	for _ in 0..r.usize(3) {
		let id = gen_id(r, true);
		let (flavor, want) = (r.below(3) as u8, 36 + r.usize(30));
		let c = tune_call(r, id, flavor, false, want, 0);
		let t = expected_single(&c).unwrap().len();
		if sum + t + 1 > l {
			break;
		}
		sum += t + 1;
		entries.push(c);
	}
	let mut crossed = 0;
	while crossed < 1 + r.usize(3) && entries.len() < 400 {
		let with_id = r.chance(1, 3);
		let id = gen_id(r, true);
		let c = Call { id: id.0, id_wire: id.1, flavor: 0, what: What::Invalid { with_id }, pad: 0 };
		sum += expected_single(&c).unwrap().len() + 1;
		if sum > l {
			crossed += 1;
		}
		entries.push(c);
		if r.chance(1, 8) {
			let id = gen_id(r, true);
			entries.push(Call { id: id.0, id_wire: id.1, flavor: r.below(3) as u8, what: What::Notif, pad: 0 });
		}
	}
	entries
}

fn plan_subscribe(r: &mut Rng, limit: u32) -> Case {
	let id = gen_id(r, true).0;
	let mode = r.below(2) as u8;
	let base = if mode == 0 {
		format!("{{\"jsonrpc\":\"2.0\",\"id\":{id},\"result\":\"\"}}").len()
	} else {
		format!("{{\"jsonrpc\":\"2.0\",\"id\":{id},\"error\":{{\"code\":77,\"message\":\"rej\",\"data\":\"\"}}}}").len()
	};
	// above the limit AND above the constant-error floor (otherwise the exemption applies), or around the limit
	let want = if r.bool() { (limit as usize).max(floor_f(limit) + id.len()) + 1 + r.usize(60) } else { pick_target(r, limit) };
	Case::Subscribe { limit, id, mode, n: want.saturating_sub(base) as u32 }
}

fn plan_unsubscribe(r: &mut Rng, limit: u32) -> Case {
	// the subscribe call that precedes a live case is answered `{"jsonrpc":"2.0","id":0,"result":"s"}` (36 bytes)
	let live = limit >= 36 && r.chance(2, 3);
	let base = format!("{{\"jsonrpc\":\"2.0\",\"id\":\"\",\"result\":{}}}", if live { "true" } else { "false" }).len();
	let want = if r.chance(1, 3) { limit as usize + 1 + r.usize(80) } else { pick_target(r, limit) };
	let k = want.saturating_sub(base).min(60_000);
	Case::Unsubscribe { limit, id: format!("\"{}\"", "u".repeat(k)), live }
}

fn subscribe_expected(id: &str, mode: u8, n: u32) -> String {
	if mode == 0 {
		format!("{{\"jsonrpc\":\"2.0\",\"id\":{id},\"result\":{}}}", enc(&Value::String("s".repeat(n as usize))))
	} else {
		format!(
			"{{\"jsonrpc\":\"2.0\",\"id\":{id},\"error\":{{\"code\":77,\"message\":\"rej\",\"data\":{}}}}}",
			enc(&Value::String("x".repeat(n as usize)))
		)
	}
}

// ---------------------------------------------------------------------------------------------------------------
// Real side: the module under the real server.

#[derive(Clone, Default)]
struct HLog(Arc<Mutex<Vec<&'static str>>>);
impl HLog {
	fn push(&self, m: &'static str) {
		self.0.lock().unwrap().push(m);
	}
	fn take(&self) -> Vec<&'static str> {
		std::mem::take(&mut *self.0.lock().unwrap())
	}
}

fn parse_pay(s: &mut jsonrpsee_types::params::ParamsSequence<'_>) -> Result<PaySpec, ErrorObjectOwned> {
	Ok(PaySpec { shape: s.next()?, kind: s.next()?, units: s.next()?, fill: s.next()? })
}

/// A handler result that can be serialised once: the first serialisation emits the value, any later one emits `null`
/// (the serde `collect_seq` pattern over a consumed iterator). Half of the results are of this kind (odd `fill`); the
/// reply the statement promises is what the value serialises to - the library has exactly one serialisation to decide
/// with and to send.
/// A result whose serialisation fails with a message of the given length.
#[derive(Clone)]
struct Unser(usize);
impl Serialize for Unser {
	fn serialize<S: serde::Serializer>(&self, _: S) -> Result<S::Ok, S::Error> {
		Err(serde::ser::Error::custom("u".repeat(self.0)))
	}
}

#[derive(Clone)]
struct OneShot {
	value: Value,
	one_shot: bool,
	used: Arc<std::sync::atomic::AtomicBool>,
}
static ONE_SHOT_RESULTS: AtomicUsize = AtomicUsize::new(0);
impl Serialize for OneShot {
	fn serialize<S: serde::Serializer>(&self, ser: S) -> Result<S::Ok, S::Error> {
		if self.one_shot && self.used.swap(true, Ordering::SeqCst) {
			return ser.serialize_unit();
		}
		self.value.serialize(ser)
	}
}

fn do_gen(p: &Params<'_>) -> Result<OneShot, ErrorObjectOwned> {
	let mut s = p.sequence();
	let spec = parse_pay(&mut s)?;
	let one_shot = spec.fill % 2 == 1;
	if one_shot {
		ONE_SHOT_RESULTS.fetch_add(1, Ordering::Relaxed);
	}
	Ok(OneShot { value: payload(&spec), one_shot, used: Default::default() })
}

fn do_err(p: &Params<'_>) -> Result<Value, ErrorObjectOwned> {
	let mut s = p.sequence();
	let code: i32 = s.next()?;
	let spec = parse_pay(&mut s)?;
	let (m, d) = err_parts(&spec);
	Err(ErrorObjectOwned::owned(code, m, d))
}

fn module(log: HLog) -> RpcModule<HLog> {
	let mut m = RpcModule::new(log);
	m.register_method("gen", |p, log, _| {
		log.push("gen");
		do_gen(&p)
	})
	.unwrap();
	m.register_async_method("gen_async", |p, log, _| async move {
		log.push("gen_async");
		tokio::task::yield_now().await;
		do_gen(&p)
	})
	.unwrap();
	m.register_blocking_method("gen_blocking", |p, log, _| {
		log.push("gen_blocking");
		do_gen(&p)
	})
	.unwrap();
	m.register_method("err", |p, log, _| {
		log.push("err");
		do_err(&p)
	})
	.unwrap();
	m.register_async_method("err_async", |p, log, _| async move {
		log.push("err_async");
		tokio::task::yield_now().await;
		do_err(&p)
	})
	.unwrap();
	m.register_blocking_method("err_blocking", |p, log, _| {
		log.push("err_blocking");
		do_err(&p)
	})
	.unwrap();
	// the handler succeeds; what it returns cannot be serialised, and says so at length
	m.register_method("unser", |p, log, _| {
		log.push("unser");
		Ok::<_, ErrorObjectOwned>(Unser(p.sequence().next().unwrap_or(0)))
	})
	.unwrap();
	m.register_async_method("unser_async", |p, log, _| async move {
		log.push("unser_async");
		Ok::<_, ErrorObjectOwned>(Unser(p.sequence().next().unwrap_or(0)))
	})
	.unwrap();
	m.register_blocking_method("unser_blocking", |p, log, _| {
		log.push("unser_blocking");
		Ok::<_, ErrorObjectOwned>(Unser(p.sequence().next().unwrap_or(0)))
	})
	.unwrap();
	m.register_blocking_method("panic_blocking", |p, log, _| {
		log.push("panic_blocking");
		let n: usize = p.sequence().next().unwrap_or(0);
		if true {
			panic!("{}: {}", jrv::handlers::PANIC_MARK, "x".repeat(n));
		}
		0u8
	})
	.unwrap();
	m.register_subscription("sub", "sub_notif", "unsub", |p, pending, log, _| async move {
		log.push("sub");
		let mut s = p.sequence();
		let mode: u8 = s.next().unwrap_or(0);
		let n: usize = s.next().unwrap_or(0);
		if mode == 1 {
			pending.reject(ErrorObjectOwned::owned(77, "rej", Some("x".repeat(n)))).await;
			return Ok(());
		}
		let sink = pending.accept().await?;
		sink.closed().await;
		Ok(())
	})
	.unwrap();
	// not logged; liveness probe
	m.register_method("sentinel", |_, _, _| 1u8).unwrap();
	m
}

/// Subscription ids are strings of a length the harness sets before each subscribe probe.
#[derive(Debug, Clone)]
struct SizedIds(Arc<AtomicUsize>);
impl IdProvider for SizedIds {
	fn next_id(&self) -> SubscriptionId<'static> {
		SubscriptionId::Str("s".repeat(self.0.load(Ordering::SeqCst)).into())
	}
}

struct Env {
	srv: MemServer,
	log: HLog,
	base: MemServer,
	base_log: HLog,
	ws: RawWs,
	/// the same configuration and module behind the low-level assembly (`ws::connect`)
	low: jrv::lowlevel::LowLevel,
	low_ws: RawWs,
	sub_len: Arc<AtomicUsize>,
	/// requests longer than this are not sent (they would be refused for their own size: C07's subject)
	max_request: usize,
	probe_no: u64,
	chunk: u64,
}

impl Env {
	async fn new(limit: u32, small_req_limit: bool, chunk: u64) -> Env {
		let sub_len = Arc::new(AtomicUsize::new(4));
		let mut b = ServerConfig::builder().max_connections(1000).max_response_body_size(limit).set_id_provider(SizedIds(sub_len.clone()));
		if small_req_limit {
			// request limit below some response limits and above others: acceptance must follow this one only
			b = b.max_request_body_size(SMALL_REQUEST_LIMIT);
		}
		let log = HLog::default();
		let cfg = b.build();
		let low = jrv::lowlevel::LowLevel::new(cfg.clone(), module(log.clone()));
		let low_ws = low.ws().await.expect("ws::connect");
		let srv = MemServer::new(cfg, module(log.clone()));
		let base_log = HLog::default();
		let base =
			MemServer::new(ServerConfig::builder().max_connections(1000).max_response_body_size(u32::MAX).build(), module(base_log.clone()));
		let ws = srv.ws().await.expect("ws connect");
		Env { srv, log, base, base_log, ws, low, low_ws, sub_len, max_request: if small_req_limit { SMALL_REQUEST_LIMIT as usize - 64 } else { 1 << 20 }, probe_no: 0, chunk }
	}

	async fn http(&self, body: &str) -> (Vec<Vec<u8>>, usize, u16) {
		let _ = self.log.take();
		let rep = self.srv.http_post(body.as_bytes().to_vec()).await;
		let inv = self.log.take().len();
		let replies = if rep.body.is_empty() { vec![] } else { vec![rep.body] };
		(replies, inv, rep.status)
	}

	async fn http_base(&self, body: &str) -> (Vec<Vec<u8>>, usize) {
		let _ = self.base_log.take();
		let rep = self.base.http_post(body.as_bytes().to_vec()).await;
		let inv = self.base_log.take().len();
		let replies = if rep.body.is_empty() { vec![] } else { vec![rep.body] };
		(replies, inv)
	}

	/// probe + sentinel + drain until idle: returns (non-sentinel frames, handler invocations, liveness violation text)
	async fn ws(&mut self, text: &str) -> (Vec<Vec<u8>>, usize, Option<String>) {
		self.ws_via(text, false).await
	}

	/// the same probe on the connection served by the low-level `ws::connect`
	async fn ws_low(&mut self, text: &str) -> (Vec<Vec<u8>>, usize, Option<String>) {
		self.ws_via(text, true).await
	}

	async fn ws_via(&mut self, text: &str, low: bool) -> (Vec<Vec<u8>>, usize, Option<String>) {
		if low {
			if self.low_ws.is_ended() {
				self.low_ws = self.low.ws().await.expect("ws::connect reconnect");
			}
			std::mem::swap(&mut self.ws, &mut self.low_ws);
		}
		let r = self.ws_inner(text).await;
		if low {
			std::mem::swap(&mut self.ws, &mut self.low_ws);
		}
		r
	}

	async fn ws_inner(&mut self, text: &str) -> (Vec<Vec<u8>>, usize, Option<String>) {
		if self.ws.is_ended() {
			self.ws = self.srv.ws().await.expect("ws reconnect");
		}
		let _ = self.log.take();
		self.probe_no += 1;
		let sid = format!("{SENTINEL_MARK}sentinel-{}-{}", self.chunk, self.probe_no);
		let sid_json = enc(&Value::String(sid.clone()));
		let sent = self.ws.send_text(text).await;
		let sent2 = self.ws.send_text(&format!("{{\"jsonrpc\":\"2.0\",\"id\":{sid_json},\"method\":\"sentinel\"}}")).await;
		let frames = self.ws.drain_until_idle(IDLE).await;
		let mut replies = Vec::new();
		let mut sentinel_ok = false;
		for f in frames {
			let is_sentinel = f.json().map(|v| v["id"] == Value::String(sid.clone())).unwrap_or(false);
			if is_sentinel && !sentinel_ok {
				sentinel_ok = true;
			} else {
				replies.push(f.data);
			}
		}
		let inv = self.log.take().len();
		let dead = if self.ws.is_ended() || sent.is_err() || sent2.is_err() || !sentinel_ok {
			Some(format!("sentinel answered={sentinel_ok} connection ended={:?} send errors={:?}/{:?}", self.ws.ended, sent.err(), sent2.err()))
		} else {
			None
		};
		(replies, inv, dead)
	}
}

fn record_len_stats(ev: &mut Evidence, prefix: &str, len: usize, limit: u32) {
	ev.count(&format!("{prefix}_len_minus_limit_{}", dfine(len, limit)), 1);
}

/// Run one case against the real server (HTTP + WS + unlimited baseline).
async fn run_case(env: &mut Env, case: &Case, ev: &mut Evidence, violations: &mut Vec<Violation>) {
	let limit = case.limit();
	let request_len = match case {
		Case::Single { call, .. } => request_text(call).len(),
		Case::Batch { entries, .. } => entries.iter().map(|c| request_text(c).len() + 1).sum::<usize>() + 1,
		Case::Subscribe { .. } => 0,
		Case::Unsubscribe { id, .. } => id.len() + 60,
	};
	if request_len > env.max_request {
		ev.count("skipped_request_near_request_limit", 1);
		return;
	}
	ev.count(&format!("limit_{limit}_cases"), 1);
	match case {
		Case::Single { call, .. } => {
			let text = request_text(call);
			let exp = expected_single(call);
			let (h, hinv, status) = env.http(&text).await;
			let jh = judge_single(call, limit, &h, Some(hinv), "http", case);
			let (w, winv, dead) = env.ws(&text).await;
			let class = class_single(call, limit);
			let jw = match dead {
				// frames cannot be attributed without the sentinel's reply: reported once, replies not judged
				Some(why) => {
					violations.push(Violation::new(
						"connection-dead-after/ws-probe",
						why,
						json!({"case": case, "request": cut(text.as_bytes()), "frames": w.iter().map(|x| cut(x)).collect::<Vec<_>>()}),
					));
					Judged { violations: vec![], accepted_text: None, replaced: false }
				}
				None => judge_single(call, limit, &w, Some(winv), "ws", case),
			};
			let ws_judged = jw.accepted_text.is_some() || !jw.violations.is_empty() || matches!(call.what, What::Notif);
			// low-level assembly: same limits, same oracle
			let (lw, _linv, ldead) = env.ws_low(&text).await;
			if ldead.is_none() {
				let jl = judge_single(call, limit, &lw, None, "ws-connect", case);
				ev.count("ws_connect_probes", 1);
				violations.extend(jl.violations);
			} else {
				ev.count("ws_connect_probes_unjudged_dead_connection", 1);
			}
			let (b, binv) = env.http_base(&text).await;
			// baseline: the unlimited server sends exactly the model text and runs the handler equally often
			if let Some(e) = &exp {
				if b.len() != 1 || b[0] != e.as_bytes() {
					violations.push(Violation::new(
						format!("unlimited-server-differs-from-model/{}", what_name(&call.what)),
						format!("model {} vs unlimited server {:?}", cut(e.as_bytes()), b.first().map(|x| cut(x))),
						json!({"case": case, "request": cut(text.as_bytes())}),
					));
				}
				if binv != hinv || (ws_judged && binv != winv) {
					violations.push(Violation::new(
						format!("acceptance-depends-on-response-limit/{class}"),
						format!("handler runs: unlimited {binv}, http {hinv}, ws {winv}"),
						json!({"case": case, "request": cut(text.as_bytes())}),
					));
				}
				record_len_stats(ev, "single", e.len(), limit);
				let d = e.len() as i64 - limit as i64;
				if d >= -2 {
					ev.nontrivial(&(limit, &text));
				}
				if text.len() > limit as usize {
					ev.count("requests_larger_than_response_limit", 1);
				}
			}
			ev.eval();
			ev.count("single_cases", 1);
			ev.count("http_replies", h.len() as u64);
			ev.count("ws_frames", w.len() as u64 + 1);
			ev.count("handler_invocations", (hinv + winv) as u64);
			ev.count("replaced_by_32008", jh.replaced as u64 + jw.replaced as u64);
			ev.count(&format!("flavor_{}", FLAVOR_NAME[call.flavor as usize % 3]), 1);
			if let What::Gen(p) | What::Err { pay: p, .. } = &call.what {
				ev.count(&format!("escape_class_{}", kind_name(p.kind)), 1);
			}
			ev.class("http_status", &status);
			ev.sample_class(&format!("{class}@{limit}"), json!({"request": cut(text.as_bytes()), "http_reply": h.first().map(|x| cut(x)), "expected_len": exp.map(|e| e.len())}));
			violations.extend(jh.violations);
			violations.extend(jw.violations);
		}
		Case::Batch { entries, .. } => {
			// every entry alone (HTTP): judged by the single oracle, its reply text feeds the batch model
			let mut texts = Vec::new();
			let mut ok = true;
			let mut any_replaced = false;
			let mut n_calls = 0usize;
			for c in entries {
				if matches!(c.what, What::Gen(_) | What::Err { .. }) {
					n_calls += 1;
				}
				if matches!(c.what, What::Notif) {
					continue;
				}
				if matches!(c.what, What::Invalid { .. }) {
					// not a message of its own (alone it would be a different kind of input): its reply inside the array is the
					// constant -32600 object
					texts.push(expected_single(c).unwrap());
					continue;
				}
				let sub_case = Case::Single { limit, call: c.clone() };
				let (h, hinv, _) = env.http(&request_text(c)).await;
				let j = judge_single(c, limit, &h, Some(hinv), "http", &sub_case);
				ev.eval();
				ev.count("entry_alone_probes", 1);
				ev.count("handler_invocations", hinv as u64);
				any_replaced |= j.replaced;
				match j.accepted_text {
					Some(t) => texts.push(t),
					None => ok = false,
				}
				violations.extend(j.violations);
			}
			if !ok || texts.is_empty() {
				// an entry reply is already in violation (reported above): the batch model has no input
				ev.count("batch_skipped_entry_violation", 1);
				return;
			}
			let body = format!("[{}]", entries.iter().map(request_text).collect::<Vec<_>>().join(","));
			let (h, hinv, _) = env.http(&body).await;
			let (vh, refused_h) = judge_batch(limit, &texts, any_replaced, &h, Some((hinv, n_calls)), "http", case);
			let (w, winv, dead) = env.ws(&body).await;
			let total = 2 + texts.iter().map(|t| t.len()).sum::<usize>() + texts.len() - 1;
			let class = class_batch(total, limit, any_replaced);
			let (vw, refused_w) = match dead {
				Some(why) => {
					violations.push(Violation::new(
						"connection-dead-after/ws-probe",
						why,
						json!({"case": case, "frames": w.iter().map(|x| cut(x)).collect::<Vec<_>>()}),
					));
					(vec![], false)
				}
				None => judge_batch(limit, &texts, any_replaced, &w, Some((winv, n_calls)), "ws", case),
			};
			let (lw, _linv, ldead) = env.ws_low(&body).await;
			if ldead.is_none() {
				let (vl, _) = judge_batch(limit, &texts, any_replaced, &lw, None, "ws-connect", case);
				ev.count("ws_connect_probes", 1);
				violations.extend(vl);
			}
			let (_b, binv) = env.http_base(&body).await;
			if binv != n_calls {
				violations.push(Violation::new(
					format!("unlimited-server-handler-invocations/{class}"),
					format!("unlimited server ran {binv} handlers for {n_calls} call entries"),
					json!({"case": case}),
				));
			}
			ev.eval();
			ev.count("batch_cases", 1);
			ev.count(&format!("batch_entries_{}", entries.len()), 1);
			ev.count("http_replies", h.len() as u64);
			ev.count("ws_frames", w.len() as u64 + 1);
			ev.count("handler_invocations", (hinv + winv) as u64);
			ev.count("batch_refused_32011", refused_h as u64 + refused_w as u64);
			ev.count("batch_with_replaced_entry", any_replaced as u64);
			record_len_stats(ev, "batch", total, limit);
			// position (among reply-producing entries) at which the running total first exceeds the limit
			let mut run = 1usize;
			let mut cross = None;
			let mut nearest: Option<usize> = None;
			for (i, t) in texts.iter().enumerate() {
				run += t.len() + 1;
				if run > limit as usize && cross.is_none() {
					cross = Some(i);
				}
				if nearest.map(|n| (n as i64 - limit as i64).abs() > (run as i64 - limit as i64).abs()).unwrap_or(true) {
					nearest = Some(run);
				}
			}
			// running total (array closed after some entry) that comes closest to the limit
			record_len_stats(ev, "batch_nearest_running_total", nearest.unwrap_or(0), limit);
			let mut run2 = 1usize;
			for (i, t) in texts.iter().enumerate() {
				run2 += t.len() + 1;
				if (run2 as i64 - limit as i64).abs() <= 2 {
					ev.count(&format!("batch_running_total_within_2_of_limit_at_entry_{i}"), 1);
				}
			}
			ev.count(&format!("batch_crosses_at_entry_{}", cross.map(|c| c.to_string()).unwrap_or("none".into())), 1);
			if total as i64 - limit as i64 >= -2 {
				ev.nontrivial(&(limit, &body));
			}
			ev.sample_class(&format!("{class}@{limit}"), json!({"request": cut(body.as_bytes()), "http_reply": h.first().map(|x| cut(x)), "expected_array_len": total}));
			violations.extend(vh);
			violations.extend(vw);
		}
		Case::Unsubscribe { id, live, .. } => {
			let mut live = *live;
			if live {
				env.sub_len.store(1, Ordering::SeqCst);
				let (w, _, dead) = env.ws("{\"jsonrpc\":\"2.0\",\"id\":0,\"method\":\"sub\",\"params\":[0,1]}").await;
				let ok = dead.is_none() && w.len() == 1 && parse_reply(&w[0]).ok().map(|v| v["result"] == json!("s")).unwrap_or(false);
				if !ok {
					ev.count("unsubscribe_cases_without_the_live_subscription", 1);
					live = false;
				}
			}
			let sub_id = if live { "s" } else { "no-such-subscription" };
			let exp = format!("{{\"jsonrpc\":\"2.0\",\"id\":{id},\"result\":{live}}}");
			let text = format!("{{\"jsonrpc\":\"2.0\",\"id\":{id},\"method\":\"unsub\",\"params\":[\"{sub_id}\"]}}");
			let (w, _, dead) = env.ws(&text).await;
			let class = if live { "unsubscribe-true" } else { "unsubscribe-false" };
			let witness = json!({"case": case, "request": cut(text.as_bytes()), "expected_len": exp.len(), "replies": w.iter().map(|x| cut(x)).collect::<Vec<_>>(), "reply_lens": w.iter().map(|x| x.len()).collect::<Vec<_>>()});
			let mut v = |k: &str, d: String| violations.push(Violation::new(format!("{k}/{class}"), format!("[ws] {d}"), witness.clone()));
			if let Some(why) = &dead {
				drop(v);
				violations.push(Violation::new("connection-dead-after/ws-probe", why.clone(), witness.clone()));
			} else if w.len() != 1 {
				v(if w.is_empty() { "unanswered" } else { "multiple-replies" }, format!("{} frames for one unsubscribe call", w.len()));
			} else {
				let wire = &w[0];
				match parse_reply(wire) {
					Err(k) => v(k, format!("reply of {} bytes is not valid UTF-8 JSON", wire.len())),
					Ok(parsed) => {
						let exp_val: Value = serde_json::from_str(&exp).unwrap();
						let fits = exp.len() <= limit as usize;
						if fits {
							if parsed != exp_val || wire.len() != exp.len() {
								v("fitting-reply-altered", format!("expected {} got {}", cut(exp.as_bytes()), cut(wire)));
							}
						} else if parsed == exp_val {
							v("oversized-reply-sent", format!("acknowledgement of {} bytes sent unchanged although the limit is {limit}", wire.len()));
						} else if error_code(&parsed) != Some(TOO_BIG) || parsed.get("id") != Some(&serde_json::from_str::<Value>(id).unwrap()) {
							v("replacement-wrong-code", format!("expected -32008 with id {}, got {}", cut(id.as_bytes()), cut(wire)));
						} else {
							ev.count("unsubscribe_replaced_by_32008", 1);
						}
					}
				}
			}
			ev.eval();
			ev.count("unsubscribe_cases", 1);
			ev.count(if live { "unsubscribe_cases_with_a_live_subscription" } else { "unsubscribe_cases_unknown_subscription" }, 1);
			ev.count("ws_frames", w.len() as u64 + 1);
			record_len_stats(ev, "unsubscribe", exp.len(), limit);
			if exp.len() as i64 - limit as i64 >= -2 {
				ev.nontrivial(&(limit, &text));
			}
		}
		Case::Subscribe { id, mode, n, .. } => {
			let exp = subscribe_expected(id, *mode, *n);
			env.sub_len.store(*n as usize, Ordering::SeqCst);
			let text = format!("{{\"jsonrpc\":\"2.0\",\"id\":{id},\"method\":\"sub\",\"params\":[{mode},{n}]}}");
			let (w, winv, dead) = env.ws(&text).await;
			let kind = if *mode == 0 { "subscribe-accept" } else { "subscribe-reject" };
			// the classifying feature is the reply path (accept / reject), not the distance to the limit
			let class = kind.to_string();
			let witness = json!({"case": case, "request": text, "expected_len": exp.len(), "replies": w.iter().map(|x| cut(x)).collect::<Vec<_>>(), "reply_lens": w.iter().map(|x| x.len()).collect::<Vec<_>>()});
			let mut v = |k: &str, d: String| violations.push(Violation::new(format!("{k}/{class}"), format!("[ws] {d}"), witness.clone()));
			if let Some(why) = &dead {
				// frames cannot be attributed without the sentinel's reply: reported once, replies not judged
				drop(v);
				violations.push(Violation::new("connection-dead-after/ws-probe", why.clone(), witness.clone()));
			} else if winv != 1 {
				v("handler-invocations", format!("subscription handler ran {winv} time(s)"));
			} else if w.len() != 1 {
				v(if w.is_empty() { "unanswered" } else { "multiple-replies" }, format!("{} frames for one subscribe call", w.len()));
			} else {
				let wire = &w[0];
				match parse_reply(wire) {
					Err(k) => v(k, format!("reply of {} bytes is not valid UTF-8 JSON", wire.len())),
					Ok(parsed) => {
						let exp_val: Value = serde_json::from_str(&exp).unwrap();
						let bound = (limit as usize).max(floor_f(limit) + id.len());
						let fits = exp.len() <= limit as usize;
						if fits {
							if parsed != exp_val || wire.len() != exp.len() {
								v("fitting-reply-altered", format!("expected {} got {}", cut(exp.as_bytes()), cut(wire)));
							}
						} else if parsed == exp_val {
							if wire.len() <= bound {
								// above the limit but within the constant-error floor: covered by the design relaxation
								ev.count("subscribe_reply_above_limit_within_floor", 1);
							} else {
								v(
									"oversized-reply-sent",
									format!("reply of {} bytes sent unchanged although the limit is {limit} (constant-error floor {bound})", wire.len()),
								);
							}
						} else if error_code(&parsed) != Some(TOO_BIG) || parsed.get("id") != Some(&serde_json::from_str::<Value>(id).unwrap()) {
							v("replacement-wrong-code", format!("expected -32008 with id {id}, got {}", cut(wire)));
						} else if wire.len() > bound {
							v("reply-above-limit-and-floor", format!("reply has {} bytes, limit {limit}, constant-error floor {bound}", wire.len()));
						} else {
							ev.count("subscribe_replaced_by_32008", 1);
						}
					}
				}
			}
			ev.eval();
			ev.count("subscribe_cases", 1);
			ev.count("ws_frames", w.len() as u64 + 1);
			record_len_stats(ev, "subscribe", exp.len(), limit);
			if exp.len() as i64 - limit as i64 >= -2 {
				ev.nontrivial(&(limit, &text));
			}
			ev.sample_class(&format!("{kind}:{}@{limit}", dcoarse(exp.len(), limit)), json!({"request": text, "ws_reply": w.first().map(|x| cut(x)), "expected_len": exp.len()}));
		}
	}
}

#[derive(Clone)]
enum Job {
	/// one server per chunk
	Server { limit: u32, seed: u64, n: usize, small_req_limit: bool },
	Fixed { cases: Vec<Case> },
	Direct { seed: u64, n: usize },
}

fn gen_cases(seed: u64, limit: u32, n: usize) -> Vec<Case> {
	let mut r = Rng::new(seed);
	// large limits leave room for long batches: more of them there
	let singles = if limit >= 1000 { 35 } else { 55 };
	(0..n)
		.map(|_| match r.below(100) {
			x if x < singles => Case::Single { limit, call: plan_single(&mut r, limit) },
			x if x < 90 => Case::Batch { limit, entries: plan_batch(&mut r, limit, 6) },
			x if x < 96 && (100..=20_000).contains(&limit) => Case::Batch { limit, entries: plan_batch_invalid_tail(&mut r, limit) },
			x if x < 96 => Case::Batch { limit, entries: plan_batch(&mut r, limit, 6) },
			x if x < 98 => plan_subscribe(&mut r, limit),
			_ => plan_unsubscribe(&mut r, limit),
		})
		.collect()
}

fn run_server_chunk(chunk: u64, limit: u32, small_req_limit: bool, cases: Vec<Case>) -> (Evidence, Vec<Violation>) {
	let mut ev = Evidence::new("");
	let mut violations = Vec::new();
	block_on_virtual(async {
		let mut env = Env::new(limit, small_req_limit, chunk).await;
		for case in &cases {
			run_case(&mut env, case, &mut ev, &mut violations).await;
		}
	});
	(ev, violations)
}

// ---------------------------------------------------------------------------------------------------------------
// Direct API workload (native and under Miri): MethodResponse::response + BatchResponseBuilder.

fn to_id(canon: &str) -> Id<'static> {
	match serde_json::from_str::<Value>(canon).expect("id") {
		Value::Number(n) => Id::Number(n.as_u64().expect("u64 id")),
		Value::String(s) => Id::Str(s.into()),
		_ => Id::Null,
	}
}

fn direct_response(c: &Call, limit: u32) -> MethodResponse {
	let id = to_id(&c.id);
	match &c.what {
		What::Gen(p) => MethodResponse::response(id, ResponsePayload::success(payload(p)), limit as usize),
		What::Err { code, pay } => {
			let (m, d) = err_parts(pay);
			MethodResponse::response(id, ResponsePayload::<Value>::error(ErrorObjectOwned::owned(*code, m, d)), limit as usize)
		}
		_ => unreachable!("direct workload only builds result/error calls"),
	}
}

fn only_calls(mut entries: Vec<Call>, r: &mut Rng) -> Vec<Call> {
	entries.retain(|c| matches!(c.what, What::Gen(_) | What::Err { .. }));
	if entries.is_empty() {
		let id = gen_id(r, true);
		entries.push(tune_call(r, id, 0, false, 40, 0));
	}
	entries
}

fn run_direct_case(case: &Case, ev: &mut Evidence, violations: &mut Vec<Violation>) {
	let limit = case.limit();
	let r = std::panic::catch_unwind(std::panic::AssertUnwindSafe(|| {
		let mut vs = Vec::new();
		let mut evals = 0u64;
		let mut replaced_n = 0u64;
		let mut refused_n = 0u64;
		match case {
			Case::Single { call, .. } => {
				let rp = direct_response(call, limit);
				let text: &str = rp.as_ref();
				let j = judge_single(call, limit, &[text.as_bytes().to_vec()], None, "direct", case);
				// the flags of the response object agree with what it carries
				let exp_fits = expected_single(call).unwrap().len() <= limit as usize;
				let want_code = match (&call.what, exp_fits) {
					(_, false) => Some(TOO_BIG as i32),
					(What::Err { code, .. }, true) => Some(*code),
					_ => None,
				};
				if j.violations.is_empty() && (rp.as_error_code() != want_code || rp.is_success() != want_code.is_none()) {
					vs.push(Violation::new(
						format!("response-flags-disagree/{}", class_single(call, limit)),
						format!("as_error_code={:?} is_success={} expected code {:?}", rp.as_error_code(), rp.is_success(), want_code),
						json!({"case": case, "via": "direct", "text": cut(text.as_bytes())}),
					));
				}
				replaced_n += j.replaced as u64;
				vs.extend(j.violations);
				evals += 1;
			}
			Case::Batch { entries, .. } => {
				let mut texts = Vec::new();
				let mut any_replaced = false;
				let mut ok = true;
				let mut builder = BatchResponseBuilder::new_with_limit(limit as usize);
				let mut early: Option<String> = None;
				for c in entries {
					let rp = direct_response(c, limit);
					let text: String = AsRef::<str>::as_ref(&rp).to_string();
					let j = judge_single(c, limit, &[text.as_bytes().to_vec()], None, "direct", &Case::Single { limit, call: c.clone() });
					evals += 1;
					any_replaced |= j.replaced;
					replaced_n += j.replaced as u64;
					match j.accepted_text {
						Some(t) => texts.push(t),
						None => ok = false,
					}
					vs.extend(j.violations);
					if early.is_none() {
						if let Err(e) = builder.append(rp) {
							early = Some(AsRef::<str>::as_ref(&e).to_string());
						}
					}
				}
				if ok {
					let wire = match early {
						Some(e) => e,
						None => {
							let rp = MethodResponse::from_batch(builder.finish());
							AsRef::<str>::as_ref(&rp).to_string()
						}
					};
					let (v, refused) = judge_batch(limit, &texts, any_replaced, &[wire.into_bytes()], None, "direct", case);
					refused_n += refused as u64;
					vs.extend(v);
					evals += 1;
				}
			}
			Case::Subscribe { .. } | Case::Unsubscribe { .. } => {}
		}
		(vs, evals, replaced_n, refused_n)
	}));
	match r {
		Ok((vs, evals, replaced_n, refused_n)) => {
			ev.evals(evals);
			ev.count("direct_api_cases", 1);
			ev.count("direct_replaced_by_32008", replaced_n);
			ev.count("direct_batch_refused_32011", refused_n);
			violations.extend(vs);
		}
		Err(_) => violations.push(Violation::new("panic/direct-api", "MethodResponse/BatchResponseBuilder panicked", json!({"case": case, "via": "direct"}))),
	}
	match case {
		Case::Single { call, .. } => {
			let len = expected_single(call).unwrap().len();
			record_len_stats(ev, "direct_single", len, limit);
			if len as i64 - limit as i64 >= -2 {
				ev.nontrivial(&("direct", case));
			}
		}
		Case::Batch { entries, .. } => {
			ev.count(&format!("direct_batch_entries_{}", entries.len()), 1);
			ev.nontrivial(&("direct", case));
		}
		_ => {}
	}
}

fn direct_workload(seed: u64, n: usize, limits: &[u32], ev: &mut Evidence, violations: &mut Vec<Violation>) {
	let mut r = Rng::new(seed);
	for _ in 0..n {
		let limit = *r.pick(limits);
		let case = if r.chance(3, 5) {
			let mut c = plan_single(&mut r, limit);
			if matches!(c.what, What::Unknown | What::Panic(_) | What::Unser(_)) {
				let id = gen_id(&mut r, true);
				c = tune_call(&mut r, id, 0, false, limit as usize, 0);
			}
			Case::Single { limit, call: c }
		} else {
			let e = plan_batch(&mut r, limit, 6);
			Case::Batch { limit, entries: only_calls(e, &mut r) }
		};
		run_direct_case(&case, ev, violations);
	}
}

// ---------------------------------------------------------------------------------------------------------------

/// Fixed cases every run executes: exact boundaries for every limit, every flavor, result and error.
fn fixed_cases(limit: u32) -> Vec<Case> {
	let mut out = Vec::new();
	let mut r = Rng::new(0xC08 ^ limit as u64);
	for d in -2i64..=2 {
		let want = (limit as i64 + d).max(0) as usize;
		for flavor in 0..3u8 {
			for is_err in [false, true] {
				let c = tune_call(&mut r, ("1".into(), "1".into()), flavor, is_err, want, 0);
				out.push(Case::Single { limit, call: c });
			}
		}
		// one-entry and two-entry batches closing exactly at limit+d
		let c1 = tune_call(&mut r, ("7".into(), "7".into()), 0, false, want.saturating_sub(2), 0);
		out.push(Case::Batch { limit, entries: vec![c1] });
		if want >= 2 + 37 + 1 + 37 {
			let a = tune_call(&mut r, ("1".into(), "1".into()), 1, false, 37, 0);
			let alen = expected_single(&a).unwrap().len();
			let b = tune_call(&mut r, ("2".into(), "2".into()), 2, true, want - 3 - alen, 0);
			out.push(Case::Batch { limit, entries: vec![a, b] });
		}
	}
	out
}

/// One defect = one signature: when the same anomaly (same payload kind, same distance class) was seen for all three
/// callback kinds, the callback kind is not the classifying feature and is replaced by `all-kinds`.
fn collapse_callback_kinds(violations: &mut [Violation]) {
	use std::collections::{BTreeMap, BTreeSet};
	let split = |sig: &str| -> Option<(String, String, String, String)> {
		let (anomaly, class) = sig.split_once('/')?;
		let parts: Vec<&str> = class.split(':').collect();
		if parts.len() == 3 && FLAVOR_NAME.contains(&parts[1]) {
			Some((anomaly.to_string(), parts[0].to_string(), parts[1].to_string(), parts[2].to_string()))
		} else {
			None
		}
	};
	let mut seen: BTreeMap<(String, String, String), BTreeSet<String>> = BTreeMap::new();
	for v in violations.iter() {
		if let Some((a, w, f, d)) = split(&v.signature) {
			seen.entry((a, w, d)).or_default().insert(f);
		}
	}
	for v in violations.iter_mut() {
		if let Some((a, w, _f, d)) = split(&v.signature) {
			if seen.get(&(a.clone(), w.clone(), d.clone())).map(|s| s.len() == 3).unwrap_or(false) {
				v.signature = format!("{a}/{w}:all-kinds:{d}");
			}
		}
	}
}

fn gen_jobs(seed: u64, tier: Tier) -> Vec<Job> {
	let mut jobs = Vec::new();
	let (chunks_per_limit, per_chunk) = tier.pick((16usize, 24usize), (150usize, 100usize));
	let mut k = 0u64;
	for (li, limit) in LIMITS.iter().enumerate() {
		jobs.push(Job::Fixed { cases: fixed_cases(*limit) });
		for c in 0..chunks_per_limit {
			jobs.push(Job::Server { limit: *limit, seed: Rng::fork(seed, k).next_u64(), n: per_chunk, small_req_limit: (c + li) % 2 == 0 });
			k += 1;
		}
	}
	let (dshards, dper) = tier.pick((16u64, 160usize), (16u64, 4000usize));
	for s in 0..dshards {
		jobs.push(Job::Direct { seed: Rng::fork(seed, 1_000_000 + s).next_u64(), n: dper });
	}
	jobs
}

fn main() {
	let ctx = Ctx::from_env("C08", "exploration");
	if ctx.sub.as_deref() == Some("miri") {
		let n: usize = ctx.arg_value("--n").and_then(|s| s.parse().ok()).unwrap_or(100);
		let mut ev = Evidence::new("");
		let mut v = Vec::new();
		// small limits keep the payloads (and Miri's run time) small
		direct_workload(ctx.seed, n, &[1, 10, 50, 63, 64, 100, 127, 128], &mut ev, &mut v);
		let sigs: Vec<String> = v.iter().map(|x| x.signature.clone()).collect();
		println!(
			"SUBRESULT {}",
			json!({"cases": ev.counter("direct_api_cases"), "evaluations": ev.evaluations, "replaced_by_32008": ev.counter("direct_replaced_by_32008"),
				"batch_refused_32011": ev.counter("direct_batch_refused_32011"), "violation_signatures": sigs})
		);
		return;
	}
	install_panic_capture(true);
	let _wd = watchdog("C08", Duration::from_secs(ctx.tier.pick(600, 3600)));
	let mut ev = Evidence::new(
		"cases = single calls, batches of 1..6 entries and subscribe calls against servers with max_response_body_size in \
		 {1,10,50,63,64,100,127,128,1000,65536}; handlers (sync/async/blocking) return payloads fixed by the params (strings of \
		 12 escape classes, wrapped in array/object, error objects with data or long messages), sized by the model so that the \
		 reply (or the batch array closed at a chosen entry) has limit-2..limit+2 bytes (70%), else far below/above; ids of 1..20 \
		 digits and strings with escapes; each request sent over HTTP (direct tower call), WebSocket (raw peer, sentinel, idle \
		 drain) and to an unlimited server; the same cases also run on MethodResponse::response/BatchResponseBuilder directly. \
		 Non-trivial = the model reply length is >= limit-2 (the comparison with the limit decides the outcome: boundary or \
		 replacement path); distinct by (limit, request text).",
	);
	ev.assume("constant-error floor: a reply may exceed the limit only up to F+len(id), F = size of the library's largest constant error (-32011 text); a -32601 reply above a tiny limit is accepted unchanged or replaced");
	ev.assume("batch model: the array is built from each entry's own reply at the same limit (observed alone over HTTP and judged by the single-call oracle), so the exact text of the -32008 replacement is not assumed");
	ev.assume("batch entries are compared as a multiset plus exact total length (entry order is C02's concern)");
	ev.assume("a refused batch (-32011) may have run any prefix of its handlers; an answered batch ran each exactly once");
	ev.assume("mode D: no further WebSocket frame = connection idle for 10 virtual seconds on a paused clock");
	let mut violations = Vec::new();

	let jobs: Vec<Job> = if let Some(path) = &ctx.replay {
		let w: Value = serde_json::from_str(&std::fs::read_to_string(path).expect("replay file")).expect("json");
		let case: Case = serde_json::from_value(w["witness"]["case"].clone()).expect("witness.case");
		println!("replaying {}", cut(enc(&w["witness"]["case"]).as_bytes()));
		vec![Job::Fixed { cases: vec![case] }]
	} else {
		gen_jobs(ctx.seed, ctx.tier)
	};

	let results = run_parallel(jobs, |i, job| match job {
		Job::Server { limit, seed, n, small_req_limit } => run_server_chunk(i as u64, limit, small_req_limit, gen_cases(seed, limit, n)),
		Job::Fixed { cases } => {
			let limit = cases.first().map(|c| c.limit()).unwrap_or(100);
			let (mut ev, mut v) = run_server_chunk(i as u64, limit, false, cases.clone());
			for c in &cases {
				if let Case::Batch { limit, entries } = c {
					let mut r = Rng::new(1);
					let c2 = Case::Batch { limit: *limit, entries: only_calls(entries.clone(), &mut r) };
					run_direct_case(&c2, &mut ev, &mut v);
				} else if matches!(c, Case::Single { call, .. } if !matches!(call.what, What::Unknown | What::Panic(_) | What::Unser(_) | What::Notif)) {
					run_direct_case(c, &mut ev, &mut v);
				}
			}
			(ev, v)
		}
		Job::Direct { seed, n } => {
			let mut ev = Evidence::new("");
			let mut v = Vec::new();
			direct_workload(seed, n, &LIMITS, &mut ev, &mut v);
			(ev, v)
		}
	});
	for (e, v) in results {
		ev.merge(e);
		violations.extend(v);
	}
	for p in take_panics() {
		// documented API behaviour, not a defect: `PendingSubscriptionSink::accept` panics in the user's handler when
		// the subscribe response was too big
		if p.in_library && !p.message.contains("The subscription response was too big") {
			violations.push(Violation::new(
				format!("library-panic/{}", p.location.rsplit('/').next().unwrap_or("").split(':').next().unwrap_or("")),
				p.message.clone(),
				json!({"location": p.location, "backtrace": p.backtrace_head, "thread": p.thread}),
			));
		}
	}
	if ctx.replay.is_some() {
		for v in &violations {
			println!("replay violation: {} — {}", v.signature, v.detail);
		}
		finish(&ctx, ev, violations, None);
	}
	collapse_callback_kinds(&mut violations);

	let mut inconclusive = None;
	if ctx.tier == Tier::Thorough {
		match sanit::run_miri("c08", &["--n".into(), "100".into()], Duration::from_secs(1500)) {
			SubOutcome::Clean(v) => {
				ev.set("miri", json!({"status": "no report", "workload": v}));
				for s in v["violation_signatures"].as_array().cloned().unwrap_or_default() {
					violations.push(Violation::new(s.as_str().unwrap_or("?").to_string(), "seen in the Miri sub-run", json!({"sub": "miri"})));
				}
			}
			SubOutcome::Report { excerpt, frame } => {
				violations.push(Violation::new(format!("miri:{frame}"), "Miri reported undefined behaviour", json!({"excerpt": excerpt})))
			}
			SubOutcome::Failed(why) => {
				ev.set("miri", json!({"status": "inconclusive", "why": why}));
				inconclusive = Some(format!("Miri sub-run did not complete: {}", why.chars().take(300).collect::<String>()));
			}
		}
	}
	ev.set("handler_results_that_serialise_only_once", json!(ONE_SHOT_RESULTS.load(Ordering::Relaxed)));
	finish(&ctx, ev, violations, inconclusive);
}
