//! C13 — Method registry: names are unique and failed registrations change nothing.
//!
//! Monitor: operation sequences over a small static name alphabet are applied both to real `RpcModule`s and to a
//! reference model (`BTreeMap<name, Bound>` per module, written from the property statement). Every registration
//! gets a fresh number; the handler registered under it answers with that number ("m<reg>" for methods, a first
//! notification "s<reg>" for subscriptions), so a response identifies the handler that ran. After EVERY operation
//! the monitor compares, on the operated module and on all retained clones:
//!   * the `Result` of the operation (Ok / Err, `Some` / `None` for `remove_method`),
//!   * `method_names()` as a set,
//!   * the response of a call (`raw_json_request`) to every name of the alphabet: handler tag, or -32601,
//!   * for unsubscribe names: that the bound handler is the one paired with its subscription (it ends a live
//!     subscription created through the subscribe name of the same registration).

use futures_util::FutureExt;
use jrv::report::*;
use jrv::rng::Rng;
use jrv::runner::*;
use jrv::sanit::{self, SubOutcome};
use jsonrpsee::RpcModule;
use jsonrpsee::core::server::MethodsError;
use serde::{Deserialize, Serialize};
use serde_json::value::RawValue;
use serde_json::{Value, json};
use std::collections::{BTreeMap, BTreeSet};
use std::panic::AssertUnwindSafe;
use std::time::Duration;
use tokio::sync::mpsc;

/// Name alphabet: five general names plus two names that the generator prefers as unsubscribe names.
/// Every name can appear in every role (so "equal" and "taken" combinations all occur).
const NAMES: [&str; 7] = ["a", "b", "c", "d", "e", "ua", "ub"];
const NOTIF_NAME: &str = "n";
const METHOD_NOT_FOUND: i64 = -32601;
const MAX_MODULES: usize = 5;

#[derive(Clone, Copy, Debug, PartialEq, Eq, Hash, Serialize, Deserialize)]
enum Kind {
	Sync,
	Async,
	Blocking,
}

impl Kind {
	fn api(self) -> &'static str {
		match self {
			Kind::Sync => "register_method",
			Kind::Async => "register_async_method",
			Kind::Blocking => "register_blocking_method",
		}
	}
}

/// Content of a fresh module that is built and then merged.
#[derive(Clone, Debug, PartialEq, Eq, Hash, Serialize, Deserialize)]
enum Item {
	M(Kind, u8),
	S(u8, u8),
}

/// `on`/`of`/`from` are module indices taken modulo the number of live modules (0 = the original, others = retained
/// clones in order of creation).
#[derive(Clone, Debug, PartialEq, Eq, Hash, Serialize, Deserialize)]
enum Op {
	Reg { on: u8, kind: Kind, name: u8 },
	/// `raw`: `register_subscription_raw`; `notif`: 0 = the fixed notification name, k = the (k-1)-th method-name of the
	/// alphabet used as notification name (notification names live in no table: they may coincide with anything)
	Sub {
		on: u8,
		sub: u8,
		unsub: u8,
		#[serde(default)]
		raw: bool,
		#[serde(default)]
		notif: u8,
	},
	Alias { on: u8, alias: u8, existing: u8 },
	Merge { on: u8, items: Vec<Item> },
	/// merge a copy of module `from` (shares its table with `from`) into module `on`
	MergeClone { on: u8, from: u8 },
	Remove { on: u8, name: u8 },
	Clone { of: u8 },
	/// typed `Methods::call` (the other call entry point; every op is followed by raw_json_request probes anyway)
	Call { on: u8, name: u8 },
}

/// What the reference model says a name is bound to. The number is the registration that created the handler.
#[derive(Clone, Copy, Debug, PartialEq, Eq, Hash, PartialOrd, Ord)]
enum Bound {
	Method(u32),
	Sub(u32),
	Unsub(u32),
}

type Model = BTreeMap<&'static str, Bound>;

fn name_of(i: u8) -> &'static str {
	NAMES[i as usize % NAMES.len()]
}

fn model_json(m: &Model) -> Value {
	Value::Object(m.iter().map(|(k, v)| (k.to_string(), json!(format!("{v:?}")))).collect())
}

// ---------------------------------------------------------------------------------------------------------------
// Applying one operation to a real module and to its model.

struct StepRes {
	api: &'static str,
	/// classifying feature of the operation's precondition
	cond: &'static str,
	/// what the statement demands (None: the operation cannot fail)
	expected_ok: Option<bool>,
	/// what the module answered; Err = it panicked
	got: Result<bool, String>,
}

fn guard<T>(f: impl FnOnce() -> T) -> Result<T, String> {
	std::panic::catch_unwind(AssertUnwindSafe(f)).map_err(|p| {
		if let Some(s) = p.downcast_ref::<&str>() {
			s.to_string()
		} else if let Some(s) = p.downcast_ref::<String>() {
			s.clone()
		} else {
			"<non-string panic>".into()
		}
	})
}

fn do_reg(m: &mut RpcModule<()>, model: &mut Model, reg: &mut u32, kind: Kind, name: &'static str) -> StepRes {
	let r = *reg;
	*reg += 1;
	let tag = format!("m{r}");
	let free = !model.contains_key(name);
	let got = guard(|| match kind {
		Kind::Sync => m.register_method(name, move |_, _, _| tag.clone()).is_ok(),
		Kind::Async => m
			.register_async_method(name, move |_, _, _| {
				let t = tag.clone();
				async move { t }
			})
			.is_ok(),
		Kind::Blocking => m.register_blocking_method(name, move |_, _, _| tag.clone()).is_ok(),
	});
	if free {
		model.insert(name, Bound::Method(r));
	}
	StepRes { api: kind.api(), cond: if free { "name-free" } else { "name-taken" }, expected_ok: Some(free), got }
}

fn do_sub(m: &mut RpcModule<()>, model: &mut Model, reg: &mut u32, sub: &'static str, unsub: &'static str, raw: bool, notif: u8) -> StepRes {
	let notif_name: &'static str = if notif == 0 { NOTIF_NAME } else { name_of(notif - 1) };
	let r = *reg;
	*reg += 1;
	let tag = format!("s{r}");
	let cond = if sub == unsub {
		"equal-names"
	} else {
		match (model.contains_key(sub), model.contains_key(unsub)) {
			(false, false) => "both-free",
			(true, false) => "subscribe-name-taken",
			(false, true) => "unsubscribe-name-taken",
			(true, true) => "both-taken",
		}
	};
	let ok = cond == "both-free";
	let got = guard(|| {
		if raw {
			m.register_subscription_raw(sub, notif_name, unsub, move |_, pending, _, _| {
				let t = tag.clone();
				tokio::spawn(async move {
					let Ok(sink) = pending.accept().await else { return };
					let msg = serde_json::value::to_raw_value(&t).expect("string serializes");
					let _ = sink.send(msg).await;
					sink.closed().await;
				});
			})
			.is_ok()
		} else {
			m.register_subscription(sub, notif_name, unsub, move |_, pending, _, _| {
				let t = tag.clone();
				async move {
					let Ok(sink) = pending.accept().await else { return };
					let msg = serde_json::value::to_raw_value(&t).expect("string serializes");
					let _ = sink.send(msg).await;
					// stay subscribed until unsubscribed or the receiver is dropped
					sink.closed().await;
				}
			})
			.is_ok()
		}
	});
	if ok {
		model.insert(sub, Bound::Sub(r));
		model.insert(unsub, Bound::Unsub(r));
	}
	StepRes { api: if raw { "register_subscription_raw" } else { "register_subscription" }, cond, expected_ok: Some(ok), got }
}

fn do_alias(m: &mut RpcModule<()>, model: &mut Model, alias: &'static str, existing: &'static str) -> StepRes {
	let cond = if model.contains_key(alias) {
		if alias == existing { "alias-is-existing-name" } else { "alias-taken" }
	} else if !model.contains_key(existing) {
		"target-unbound"
	} else {
		"alias-free"
	};
	let ok = cond == "alias-free";
	let got = guard(|| m.register_alias(alias, existing).is_ok());
	if ok {
		let b = model[existing];
		model.insert(alias, b);
	}
	StepRes { api: "register_alias", cond, expected_ok: Some(ok), got }
}

fn do_remove(m: &mut RpcModule<()>, model: &mut Model, name: &'static str) -> StepRes {
	let bound = model.remove(name).is_some();
	let got = guard(|| m.remove_method(name).is_some());
	StepRes { api: "remove_method", cond: if bound { "bound" } else { "unbound" }, expected_ok: Some(bound), got }
}

fn do_merge(m: &mut RpcModule<()>, model: &mut Model, other: RpcModule<()>, omodel: &Model, api: &'static str) -> StepRes {
	let shared = omodel.keys().filter(|k| model.contains_key(*k)).count();
	let cond = if omodel.is_empty() {
		"empty"
	} else if shared == 0 {
		"disjoint"
	} else if shared == omodel.len() {
		"all-names-shared"
	} else {
		"some-names-shared"
	};
	let ok = shared == 0;
	let got = guard(|| m.merge(other).is_ok());
	if ok {
		for (k, v) in omodel {
			model.insert(k, *v);
		}
	}
	StepRes { api, cond, expected_ok: Some(ok), got }
}

// ---------------------------------------------------------------------------------------------------------------
// Observing a module through calls.

#[derive(Debug, Clone, PartialEq, Eq)]
enum Obs {
	NotFound,
	/// a method handler answered with this tag
	Method(String),
	/// a subscription handler accepted and sent this tag as first notification
	Sub(String),
	/// an unsubscribe handler answered (with this boolean)
	Unsub(bool),
	Other(String),
}

fn expected_obs(b: Option<&Bound>) -> Obs {
	match b {
		None => Obs::NotFound,
		Some(Bound::Method(r)) => Obs::Method(format!("m{r}")),
		Some(Bound::Sub(r)) => Obs::Sub(format!("s{r}")),
		Some(Bound::Unsub(_)) => Obs::Unsub(false),
	}
}

type Live = (Value, mpsc::Receiver<Box<RawValue>>);

struct Probe {
	next_id: u64,
	calls: u64,
	handler_answers: u64,
}

const QUIESCE: Duration = Duration::from_secs(60); // virtual time: fires only if nothing can make progress

impl Probe {
	/// One call through `raw_json_request`; `param` is the JSON text of the single positional parameter.
	async fn request(&mut self, m: &RpcModule<()>, name: &str, param: &str) -> Result<(Value, u64, mpsc::Receiver<Box<RawValue>>), String> {
		self.next_id += 1;
		self.calls += 1;
		let id = self.next_id;
		let req = format!(r#"{{"jsonrpc":"2.0","id":{id},"method":"{name}","params":[{param}]}}"#);
		let fut = AssertUnwindSafe(m.raw_json_request(&req, 4)).catch_unwind();
		match tokio::time::timeout(QUIESCE, fut).await {
			Err(_) => Err("call never completed (runtime quiescent)".into()),
			Ok(Err(_)) => Err("call panicked".into()),
			Ok(Ok(Err(e))) => Err(format!("request text rejected: {e}")),
			Ok(Ok(Ok((raw, rx)))) => match serde_json::from_str::<Value>(raw.get()) {
				Ok(v) => Ok((v, id, rx)),
				Err(e) => Err(format!("response is not JSON: {e}: {}", raw.get())),
			},
		}
	}

	/// Call `name` and say which handler (if any) answered. For subscriptions the live subscription is returned.
	async fn observe(&mut self, m: &RpcModule<()>, name: &str, param: &str) -> (Obs, Option<Live>) {
		let (v, id, mut rx) = match self.request(m, name, param).await {
			Ok(x) => x,
			Err(e) => return (Obs::Other(e), None),
		};
		if v["id"] != json!(id) {
			return (Obs::Other(format!("response id differs from the call's id {id}: {v}")), None);
		}
		if let Some(err) = v.get("error") {
			return if err["code"] == json!(METHOD_NOT_FOUND) {
				(Obs::NotFound, None)
			} else {
				(Obs::Other(format!("error response {err}")), None)
			};
		}
		match v.get("result") {
			Some(Value::String(s)) if s.starts_with('m') => {
				self.handler_answers += 1;
				(Obs::Method(s.clone()), None)
			}
			Some(Value::Bool(b)) => {
				self.handler_answers += 1;
				(Obs::Unsub(*b), None)
			}
			Some(sid @ (Value::Number(_) | Value::String(_))) => {
				// a subscription id: the handler's first notification carries its tag
				match tokio::time::timeout(QUIESCE, rx.recv()).await {
					Ok(Some(n)) => {
						let nv: Value = serde_json::from_str(n.get()).unwrap_or(Value::Null);
						match nv["params"]["result"].as_str() {
							Some(t) if nv["params"]["subscription"] == *sid && t.starts_with('s') => {
								self.handler_answers += 1;
								(Obs::Sub(t.to_string()), Some((sid.clone(), rx)))
							}
							_ => (Obs::Other(format!("unexpected notification {}", n.get())), None),
						}
					}
					Ok(None) => (Obs::Other(format!("subscription {sid} closed without a notification")), None),
					Err(_) => (Obs::Other(format!("subscription {sid} never sent its first notification")), None),
				}
			}
			_ => (Obs::Other(format!("unclassifiable response {v}")), None),
		}
	}
}

struct Mismatch {
	module: usize,
	facet: &'static str,
	detail: String,
}

/// Compare one real module with its model: names set, a call to every probed name, unsubscribe pairing.
async fn verify_module(p: &mut Probe, idx: usize, m: &RpcModule<()>, model: &Model, probe_names: &[&'static str]) -> Option<Mismatch> {
	let listed: Vec<&'static str> = match guard(|| m.method_names().collect::<Vec<_>>()) {
		Ok(l) => l,
		Err(e) => return Some(Mismatch { module: idx, facet: "names", detail: format!("method_names() panicked: {e}") }),
	};
	let got: BTreeSet<&str> = listed.iter().copied().collect();
	let want: BTreeSet<&str> = model.keys().copied().collect();
	if got != want || listed.len() != got.len() {
		return Some(Mismatch {
			module: idx,
			facet: "names",
			detail: format!("method_names() = {listed:?}, reference model has {want:?}"),
		});
	}
	for name in probe_names {
		let want = expected_obs(model.get(name));
		let (obs, _live) = p.observe(m, name, "\"no-such-subscription\"").await;
		if obs != want {
			return Some(Mismatch {
				module: idx,
				facet: "dispatch",
				detail: format!("call of `{name}` observed {obs:?}, reference model says {want:?}"),
			});
		}
	}
	// Unsubscribe names: the handler bound must be the one created together with subscription registration r.
	for (u, b) in model.iter() {
		let Bound::Unsub(r) = b else { continue };
		let Some((s, _)) = model.iter().find(|(_, b2)| **b2 == Bound::Sub(*r)) else { continue };
		let (obs, live) = p.observe(m, s, "0").await;
		let Some((sid, _rx)) = live else {
			return Some(Mismatch { module: idx, facet: "dispatch", detail: format!("subscribe through `{s}` observed {obs:?}") });
		};
		let (obs, _) = p.observe(m, u, &sid.to_string()).await;
		if obs != Obs::Unsub(true) {
			return Some(Mismatch {
				module: idx,
				facet: "unsub-pairing",
				detail: format!(
					"`{u}` is bound to the unsubscribe handler of registration {r}, but unsubscribing live subscription {sid} made through `{s}` observed {obs:?}"
				),
			});
		}
	}
	None
}

// ---------------------------------------------------------------------------------------------------------------
// One sequence.

struct SeqStats {
	ops: u64,
	expected_failures: u64,
	mutations_with_retained_clone: u64,
	module_checks: u64,
}

/// Build the fresh module that a `Merge` op merges. Its registrations are checked like any other (Result and state),
/// so a defect that shows while building is reported under the registering operation, not as a merge anomaly.
async fn build_items(
	items: &[Item],
	reg: &mut u32,
	log: &mut Vec<String>,
	probe: &mut Probe,
	probe_names: &[&'static str],
) -> Result<(RpcModule<()>, Model), (String, String)> {
	let mut other = RpcModule::new(());
	let mut om = Model::new();
	for it in items {
		let res = match it {
			Item::M(k, n) => do_reg(&mut other, &mut om, reg, *k, name_of(*n)),
			Item::S(s, u) => do_sub(&mut other, &mut om, reg, name_of(*s), name_of(*u), (*s + *u) % 2 == 0, 0),
		};
		log.push(format!("  (module to merge) {it:?}: {} [{}] -> {:?}", res.api, res.cond, res.got));
		if let Some(bad) = result_anomaly(&res) {
			return Err(bad);
		}
		if let Some(mm) = verify_module(probe, 0, &other, &om, probe_names).await {
			let (sig, detail) = state_anomaly(&mm, 0, res.api, res.cond, res.expected_ok, true);
			return Err((sig, format!("while building the module to merge: {detail}")));
		}
	}
	Ok((other, om))
}

/// Signature + detail for a module that disagrees with its model after an operation on module `target`.
fn state_anomaly(mm: &Mismatch, target: usize, api: &str, cond: &str, expected_ok: Option<bool>, mutating: bool) -> (String, String) {
	let kind = if mm.module != target {
		"other-module-changed"
	} else if expected_ok == Some(false) {
		"failed-op-changed-module"
	} else if !mutating {
		"read-only-op-changed-module"
	} else {
		"wrong-state-after-success"
	};
	(
		format!("{kind}/{api}/{cond}/{}", mm.facet),
		format!("after {api} [{cond}] module {}{}: {}", mm.module, if mm.module == target { " (operated on)" } else { "" }, mm.detail),
	)
}

/// Signature + detail if the returned Result disagrees with the statement.
fn result_anomaly(res: &StepRes) -> Option<(String, String)> {
	match (&res.got, res.expected_ok) {
		(Err(p), _) => Some((format!("panic/{}/{}", res.api, res.cond), format!("{} panicked: {p}", res.api))),
		(Ok(got), Some(want)) if *got != want => {
			let what = match (res.api, got) {
				("remove_method", true) => "remove-returned-some",
				("remove_method", false) => "remove-returned-none",
				(_, true) => "unexpected-ok",
				(_, false) => "unexpected-err",
			};
			Some((
				format!("{what}/{}/{}", res.api, res.cond),
				format!("{} with precondition `{}` returned {}", res.api, res.cond, if *got { "Ok/Some" } else { "Err/None" }),
			))
		}
		_ => None,
	}
}

async fn run_sequence(ops: &[Op], probe_names: &[&'static str], ev: &mut Evidence) -> Option<Violation> {
	let mut mods: Vec<RpcModule<()>> = vec![RpcModule::new(())];
	let mut models: Vec<Model> = vec![Model::new()];
	let mut reg = 0u32;
	let mut probe = Probe { next_id: 0, calls: 0, handler_answers: 0 };
	let mut st = SeqStats { ops: 0, expected_failures: 0, mutations_with_retained_clone: 0, module_checks: 0 };
	let mut log: Vec<String> = Vec::new();
	let mut violation: Option<Violation> = None;

	for (step, op) in ops.iter().enumerate() {
		st.ops += 1;
		let n = mods.len();
		let before: Vec<Value> = models.iter().map(model_json).collect();
		let target: usize;
		let mut mutating = true;
		let mut anomaly: Option<(String, String)> = None;
		let res: Option<StepRes> = match op {
			Op::Reg { on, kind, name } => {
				target = *on as usize % n;
				Some(do_reg(&mut mods[target], &mut models[target], &mut reg, *kind, name_of(*name)))
			}
			Op::Sub { on, sub, unsub, raw, notif } => {
				target = *on as usize % n;
				Some(do_sub(&mut mods[target], &mut models[target], &mut reg, name_of(*sub), name_of(*unsub), *raw, *notif))
			}
			Op::Alias { on, alias, existing } => {
				target = *on as usize % n;
				Some(do_alias(&mut mods[target], &mut models[target], name_of(*alias), name_of(*existing)))
			}
			Op::Remove { on, name } => {
				target = *on as usize % n;
				Some(do_remove(&mut mods[target], &mut models[target], name_of(*name)))
			}
			Op::Merge { on, items } => {
				target = *on as usize % n;
				match build_items(items, &mut reg, &mut log, &mut probe, probe_names).await {
					Ok((other, om)) => Some(do_merge(&mut mods[target], &mut models[target], other, &om, "merge")),
					Err(bad) => {
						anomaly = Some(bad);
						None
					}
				}
			}
			Op::MergeClone { on, from } => {
				target = *on as usize % n;
				let from = *from as usize % n;
				let om = models[from].clone();
				match guard(|| mods[from].clone()) {
					Ok(other) => Some(do_merge(&mut mods[target], &mut models[target], other, &om, "merge-of-clone")),
					Err(p) => {
						anomaly = Some(("panic/clone/-".into(), format!("clone panicked: {p}")));
						None
					}
				}
			}
			Op::Clone { of } => {
				mutating = false;
				target = *of as usize % n;
				match guard(|| mods[target].clone()) {
					Ok(c) => {
						if mods.len() < MAX_MODULES {
							mods.push(c);
							let mc = models[target].clone();
							models.push(mc);
						}
						Some(StepRes { api: "clone", cond: "-", expected_ok: None, got: Ok(true) })
					}
					Err(p) => {
						anomaly = Some(("panic/clone/-".into(), format!("clone panicked: {p}")));
						None
					}
				}
			}
			Op::Call { on, name } => {
				mutating = false;
				target = *on as usize % n;
				let name = name_of(*name);
				let want = models[target].get(name).copied();
				probe.calls += 1;
				let fut = AssertUnwindSafe(mods[target].call::<_, Value>(name, ["no-such-subscription"])).catch_unwind();
				let got = tokio::time::timeout(QUIESCE, fut).await;
				let kind = match want {
					None => "unbound",
					Some(Bound::Method(_)) => "method",
					Some(Bound::Sub(_)) => "subscribe-name",
					Some(Bound::Unsub(_)) => "unsubscribe-name",
				};
				let ok = match (&got, want) {
					(Ok(Ok(Err(MethodsError::JsonRpc(e)))), None) => e.code() as i64 == METHOD_NOT_FOUND,
					(Ok(Ok(Ok(Value::String(s)))), Some(Bound::Method(r))) => *s == format!("m{r}"),
					(Ok(Ok(Ok(Value::Number(_) | Value::String(_)))), Some(Bound::Sub(_))) => true,
					(Ok(Ok(Ok(Value::Bool(false)))), Some(Bound::Unsub(_))) => true,
					_ => false,
				};
				if !ok {
					let what = match &got {
						Err(_) => "never completed".to_string(),
						Ok(Err(_)) => "panicked".to_string(),
						Ok(Ok(r)) => format!("{r:?}"),
					};
					anomaly = Some((
						format!("call-api-mismatch/{kind}"),
						format!("Methods::call(`{name}`) gave {what}; the name is {kind} in the reference model ({want:?})"),
					));
				}
				Some(StepRes { api: "call", cond: kind, expected_ok: None, got: Ok(true) })
			}
		};

		let (api, cond, expected_ok) = match &res {
			Some(r) => (r.api, r.cond, r.expected_ok),
			None => ("merge", "build", None),
		};
		if let Some(r) = &res {
			log.push(format!("{step}: {op:?} on module {target}: {} [{}] -> {:?}", r.api, r.cond, r.got));
			ev.count(&format!("op_{}_{}", r.api, r.cond), 1);
			if anomaly.is_none() {
				anomaly = result_anomaly(r);
			}
		}
		if expected_ok == Some(false) {
			st.expected_failures += 1;
		}
		if mutating && expected_ok == Some(true) && mods.len() > 1 {
			st.mutations_with_retained_clone += 1;
		}

		// Compare every module with its model.
		if anomaly.is_none() {
			for i in 0..mods.len() {
				st.module_checks += 1;
				if let Some(mm) = verify_module(&mut probe, i, &mods[i], &models[i], probe_names).await {
					let (sig, detail) = state_anomaly(&mm, target, api, cond, expected_ok, mutating);
					anomaly = Some((sig, format!("step {step}: {detail}")));
					break;
				}
			}
		}

		if let Some((sig, detail)) = anomaly {
			violation = Some(Violation::new(
				sig,
				detail,
				json!({
					"ops": &ops[..=step],
					"probe_names": probe_names,
					"failing_step": step,
					"models_before_step": before,
					"models_expected_after_step": models.iter().map(model_json).collect::<Vec<_>>(),
					"history": log,
				}),
			));
			break;
		}
		ev.class("model_states", &models[0]);
	}

	// the final module behind a real server, over HTTP (calls only): a bound name - method, subscribe or unsubscribe name,
	// alias - is never answered "method not found", an unbound one always
	if violation.is_none() && !cfg!(miri) {
		let srv = jrv::memsrv::MemServer::new(jsonrpsee_server::ServerConfig::default(), mods[0].clone());
		for name in probe_names {
			let body = format!("{{\"jsonrpc\":\"2.0\",\"id\":1,\"method\":\"{name}\",\"params\":[0]}}");
			let rep = srv.http_post(body.into_bytes()).await;
			let code = serde_json::from_slice::<Value>(&rep.body).ok().and_then(|v| v["error"]["code"].as_i64());
			let bound = models[0].contains_key(name);
			ev.count("http_probes_of_the_final_module", 1);
			if (code == Some(-32601)) == bound {
				let what = match models[0].get(name) {
					Some(Bound::Method(_)) => "method",
					Some(Bound::Sub(_)) => "subscribe-name",
					Some(Bound::Unsub(_)) => "unsubscribe-name",
					None => "unbound",
				};
				violation = Some(Violation::new(
					format!("method-not-found-iff-unbound/http/{what}"),
					format!("over HTTP the name `{name}` ({what}) was answered with status {} code {code:?}", rep.status),
					json!({"ops": ops, "probe_names": probe_names, "models_expected_after_step": models.iter().map(model_json).collect::<Vec<_>>(), "history": log}),
				));
				break;
			}
		}
	}

	ev.eval();
	ev.count("ops", st.ops);
	ev.count("calls", probe.calls);
	ev.count("handler_answers_identified", probe.handler_answers);
	ev.count("ops_expected_to_fail", st.expected_failures);
	ev.count("successful_mutations_while_clone_retained", st.mutations_with_retained_clone);
	ev.count("module_vs_model_comparisons", st.module_checks);
	if st.expected_failures > 0 || st.mutations_with_retained_clone > 0 {
		ev.nontrivial(ops);
	}
	violation
}

// ---------------------------------------------------------------------------------------------------------------
// Workloads.

fn gen_name(r: &mut Rng) -> u8 {
	// the five general names carry most of the traffic so that collisions are frequent
	if r.chance(5, 6) { r.below(5) as u8 } else { 5 + r.below(2) as u8 }
}

fn gen_unsub(r: &mut Rng, sub: u8) -> u8 {
	match r.below(10) {
		0 => sub,
		1..=5 => 5 + r.below(2) as u8,
		_ => r.below(5) as u8,
	}
}

fn gen_kind(r: &mut Rng) -> Kind {
	*r.pick(&[Kind::Sync, Kind::Sync, Kind::Async, Kind::Async, Kind::Blocking])
}

fn gen_on(r: &mut Rng) -> u8 {
	if r.chance(7, 10) { 0 } else { r.below(MAX_MODULES as u64) as u8 }
}

fn gen_items(r: &mut Rng) -> Vec<Item> {
	let n = r.usize(4);
	let mut items = Vec::new();
	for _ in 0..n {
		if r.chance(1, 4) {
			let s = gen_name(r);
			items.push(Item::S(s, gen_unsub(r, s)));
		} else {
			items.push(Item::M(gen_kind(r), gen_name(r)));
		}
	}
	items
}

/// `used` = names mentioned by earlier registrations of this sequence (probably bound somewhere): alias targets and
/// removals prefer them, so that the success paths of those operations are frequent too.
fn gen_used(r: &mut Rng, used: &[u8]) -> u8 {
	if !used.is_empty() && r.chance(7, 10) { *r.pick(used) } else { gen_name(r) }
}

fn gen_op(r: &mut Rng, used: &mut Vec<u8>) -> Op {
	match r.below(100) {
		0..=23 => {
			let name = gen_name(r);
			used.push(name);
			Op::Reg { on: gen_on(r), kind: gen_kind(r), name }
		}
		24..=38 => {
			let sub = gen_name(r);
			let unsub = gen_unsub(r, sub);
			used.extend([sub, unsub]);
			Op::Sub { on: gen_on(r), sub, unsub, raw: r.chance(1, 3), notif: if r.chance(1, 2) { 0 } else { 1 + gen_name(r) } }
		}
		39..=50 => {
			let alias = gen_name(r);
			let existing = gen_used(r, used);
			used.push(alias);
			Op::Alias { on: gen_on(r), alias, existing }
		}
		51..=65 => {
			let items = gen_items(r);
			for it in &items {
				match it {
					Item::M(_, n) => used.push(*n),
					Item::S(s, u) => used.extend([*s, *u]),
				}
			}
			Op::Merge { on: gen_on(r), items }
		}
		66..=71 => Op::MergeClone { on: r.below(MAX_MODULES as u64) as u8, from: r.below(MAX_MODULES as u64) as u8 },
		72..=82 => Op::Remove { on: gen_on(r), name: gen_used(r, used) },
		83..=91 => Op::Clone { of: gen_on(r) },
		_ => Op::Call { on: gen_on(r), name: gen_used(r, used) },
	}
}

fn gen_sequence(r: &mut Rng, max_len: usize) -> Vec<Op> {
	let len = 1 + r.usize(max_len);
	let mut used = Vec::new();
	let mut ops: Vec<Op> = Vec::with_capacity(len);
	// some sequences keep an (empty) clone from the very start: it then diverges from the original in both directions
	if len > 2 && r.chance(1, 6) {
		ops.push(Op::Clone { of: 0 });
	}
	while ops.len() < len {
		ops.push(gen_op(r, &mut used));
	}
	ops
}

/// Reduced alphabet for the exhaustive part: names a, b, c; operations on the original (module 0) and a few on the
/// first retained clone (module 1, which is the original itself while no clone exists).
fn exhaustive_alphabet() -> Vec<Op> {
	let mut v = Vec::new();
	for (kind, name) in [(Kind::Sync, 0u8), (Kind::Async, 1), (Kind::Blocking, 2)] {
		v.push(Op::Reg { on: 0, kind, name });
	}
	for sub in 0..3u8 {
		for unsub in 0..3u8 {
			v.push(Op::Sub { on: 0, sub, unsub, raw: (sub + unsub) % 2 == 1, notif: if sub == 0 { 0 } else { 1 + (unsub + 1) % 3 } });
		}
	}
	for alias in 0..3u8 {
		for existing in 0..3u8 {
			v.push(Op::Alias { on: 0, alias, existing });
		}
	}
	for items in [
		vec![],
		vec![Item::M(Kind::Sync, 0)],
		vec![Item::M(Kind::Async, 1), Item::M(Kind::Sync, 2)],
		vec![Item::M(Kind::Sync, 0), Item::M(Kind::Sync, 1), Item::M(Kind::Sync, 2)],
		vec![Item::S(0, 1)],
		vec![Item::S(1, 2), Item::M(Kind::Sync, 0)],
	] {
		v.push(Op::Merge { on: 0, items });
	}
	v.push(Op::MergeClone { on: 0, from: 1 });
	for name in 0..3u8 {
		v.push(Op::Remove { on: 0, name });
	}
	v.push(Op::Clone { of: 0 });
	v.push(Op::Reg { on: 1, kind: Kind::Sync, name: 0 });
	v.push(Op::Remove { on: 1, name: 1 });
	v.push(Op::Sub { on: 1, sub: 2, unsub: 0, raw: true, notif: 2 });
	v
}

/// Number of sequences of length 1..=max_len over an alphabet of k operations.
fn exhaustive_total(k: u64, max_len: u32) -> u64 {
	(1..=max_len).map(|l| k.pow(l)).sum()
}

/// The idx-th sequence in the order: all of length 1, all of length 2, ...
fn exhaustive_decode(mut idx: u64, alphabet: &[Op]) -> Vec<Op> {
	let k = alphabet.len() as u64;
	let mut len = 1u32;
	while idx >= k.pow(len) {
		idx -= k.pow(len);
		len += 1;
	}
	let mut seq = Vec::with_capacity(len as usize);
	for _ in 0..len {
		seq.push(alphabet[(idx % k) as usize].clone());
		idx /= k;
	}
	seq
}

fn all_names() -> Vec<&'static str> {
	NAMES.to_vec()
}

/// Fold the 7-name alphabet onto {a, b, c, ua} (for the Miri sub-run, where every call costs ~0.3 s).
fn shrink_names(ops: &mut [Op]) {
	fn f(n: &mut u8) {
		*n = if *n < 5 { *n % 3 } else { 5 };
	}
	for op in ops {
		match op {
			Op::Reg { name, .. } | Op::Remove { name, .. } | Op::Call { name, .. } => f(name),
			Op::Sub { sub, unsub, .. } => {
				f(sub);
				f(unsub);
			}
			Op::Alias { alias, existing, .. } => {
				f(alias);
				f(existing);
			}
			Op::Merge { items, .. } => {
				for it in items {
					match it {
						Item::M(_, n) => f(n),
						Item::S(s, u) => {
							f(s);
							f(u);
						}
					}
				}
			}
			Op::MergeClone { .. } | Op::Clone { .. } => {}
		}
	}
}

/// Seeded sequences `lo..hi` of the stream identified by `seed`, in one virtual-time runtime.
fn seeded_shard(seed: u64, lo: u64, hi: u64, max_len: usize, small: bool, ev: &mut Evidence, violations: &mut Vec<Violation>) {
	let names = if small { vec![NAMES[0], NAMES[1], NAMES[2], NAMES[5]] } else { all_names() };
	block_on_virtual(async {
		for i in lo..hi {
			let mut r = Rng::fork(seed, i);
			let mut ops = gen_sequence(&mut r, max_len);
			if small {
				shrink_names(&mut ops);
			}
			if i % 701 == 0 {
				ev.sample(json!({"ops": ops}));
			}
			if let Some(v) = run_sequence(&ops, &names, ev).await {
				violations.push(v);
			}
		}
	});
}

fn exhaustive_shard(alphabet: &[Op], lo: u64, hi: u64, ev: &mut Evidence, violations: &mut Vec<Violation>) {
	let names: Vec<&'static str> = NAMES[..3].to_vec();
	block_on_virtual(async {
		for i in lo..hi {
			let ops = exhaustive_decode(i, alphabet);
			if let Some(v) = run_sequence(&ops, &names, ev).await {
				// one witness per signature and shard is enough; the count is kept by `finish`
				violations.push(v);
			}
		}
	});
}

const RULE: &str = "cases = operation sequences over {register_method, register_async_method, register_blocking_method, \
	register_subscription, register_alias, merge(fresh module of 0-3 items), merge(copy of a retained module), remove_method, \
	clone (retained, up to 4), Methods::call} on the original module and on retained clones, names from a 7-name static \
	alphabet; after EVERY operation the Result, method_names() and a raw_json_request call of every alphabet name are compared \
	with a BTreeMap reference model on the operated module and on every retained clone. Non-trivial = the sequence contains at \
	least one operation that the statement requires to fail, or a successful mutation while a clone was retained; distinct by \
	the operation sequence.";

fn main() {
	let ctx = Ctx::from_env("C13", "exploration");

	if ctx.sub.as_deref() == Some("miri") {
		let n: u64 = ctx.arg_value("--n").and_then(|s| s.parse().ok()).unwrap_or(30);
		let mut ev = Evidence::new("");
		let mut v = Vec::new();
		seeded_shard(ctx.seed ^ 0x4D49_5249, 0, n, 6, true, &mut ev, &mut v);
		let sigs: Vec<String> = v.iter().map(|x| x.signature.clone()).collect();
		println!(
			"SUBRESULT {}",
			json!({"sequences": ev.evaluations, "ops": ev.counter("ops"), "calls": ev.counter("calls"),
				"handler_answers_identified": ev.counter("handler_answers_identified"), "violation_signatures": sigs})
		);
		return;
	}

	install_panic_capture(true);
	let _wd = watchdog("C13", Duration::from_secs(ctx.tier.pick(600, 3600)));
	let mut ev = Evidence::new(RULE);
	ev.assume("each registration's handler answers with a number unique to that registration, so a response identifies the handler that ran");
	ev.assume("an alias of an unbound name must fail (there is no handler a map could bind)");
	ev.assume("error values of failed operations are not compared, only Ok/Err (Some/None for remove_method)");
	let mut violations: Vec<Violation> = Vec::new();

	if let Some(path) = &ctx.replay {
		let w: Value = serde_json::from_str(&std::fs::read_to_string(path).expect("replay file")).expect("json");
		let ops: Vec<Op> = serde_json::from_value(w["witness"]["ops"].clone()).expect("witness.ops");
		let names: Vec<&'static str> = match w["witness"]["probe_names"].as_array() {
			Some(a) => NAMES.iter().copied().filter(|n| a.iter().any(|x| x.as_str() == Some(n))).collect(),
			None => all_names(),
		};
		println!("replaying {} operations, probing names {names:?}", ops.len());
		let v = block_on_virtual(run_sequence(&ops, &names, &mut ev));
		match &v {
			Some(v) => {
				println!("replay violation: {} — {}", v.signature, v.detail);
				for l in v.witness["history"].as_array().cloned().unwrap_or_default() {
					println!("  {}", l.as_str().unwrap_or(""));
				}
			}
			None => println!("replay: the module agreed with the reference model after every operation"),
		}
		violations.extend(v);
		// Neighbours of the stored case (every proper prefix, every one-operation deletion) are run as further cases,
		// so that the evidence of a replay is measured on more than one history.
		let mut neighbours: Vec<Vec<Op>> = (1..ops.len()).map(|l| ops[..l].to_vec()).collect();
		for i in 0..ops.len() {
			let mut o = ops.clone();
			o.remove(i);
			if !o.is_empty() {
				neighbours.push(o);
			}
		}
		let mut v: Vec<Violation> = Vec::new();
		for nb in &neighbours {
			if let Some(x) = block_on_virtual(run_sequence(nb, &names, &mut ev)) {
				println!("neighbour case ({} ops) also violates: {}", nb.len(), x.signature);
				v.push(x);
			}
		}
		violations.extend(v);
		finish(&ctx, ev, violations, None);
	}

	// Seeded sequences.
	let seeded_total: u64 = ctx.tier.pick(32_000, 1_200_000);
	let shards: u64 = ctx.tier.pick(32, 256);
	let per = seeded_total / shards;
	let results = run_parallel((0..shards).collect(), |_, s| {
		let mut ev = Evidence::new("");
		let mut v = Vec::new();
		seeded_shard(ctx.seed, s * per, (s + 1) * per, 14, false, &mut ev, &mut v);
		(ev, v)
	});
	for (e, v) in results {
		ev.merge(e);
		violations.extend(v);
	}
	ev.set("seeded_sequences", json!(seeded_total));

	// Exhaustive: every sequence up to length 4 (thorough) / 2 (quick) over the reduced alphabet.
	let alphabet = exhaustive_alphabet();
	let max_len = ctx.tier.pick(2, 4);
	let total = exhaustive_total(alphabet.len() as u64, max_len);
	let chunk: u64 = 4_000;
	let chunks: Vec<u64> = (0..total.div_ceil(chunk)).collect();
	let results = run_parallel(chunks, |_, c| {
		let mut ev = Evidence::new("");
		let mut v = Vec::new();
		exhaustive_shard(&alphabet, c * chunk, ((c + 1) * chunk).min(total), &mut ev, &mut v);
		// keep one witness per signature per chunk
		let mut seen = BTreeSet::new();
		let mut kept = Vec::new();
		let mut dropped: BTreeMap<String, u64> = BTreeMap::new();
		for x in v {
			if seen.insert(x.signature.clone()) || kept.len() < 8 {
				kept.push(x);
			} else {
				*dropped.entry(x.signature).or_insert(0) += 1;
			}
		}
		for (sig, n) in dropped {
			ev.count(&format!("further_occurrences_{sig}"), n);
		}
		(ev, kept)
	});
	for (e, v) in results {
		ev.merge(e);
		violations.extend(v);
	}
	// (the key `exhaustive` is reserved by the evidence schema for a boolean; it is not set, because only this
	// reduced-alphabet sub-space is enumerated completely, not the property's whole bounded history space)
	ev.set(
		"exhaustive_part",
		json!({"fully_enumerated": true, "alphabet_size": alphabet.len(), "max_length": max_len, "sequences": total,
			"alphabet": alphabet.iter().map(|o| format!("{o:?}")).collect::<Vec<_>>()}),
	);

	for p in take_panics() {
		if p.in_library {
			violations.push(Violation::new(
				format!("panic/{}", p.location.rsplit('/').next().unwrap_or("")),
				p.message.clone(),
				json!({"location": p.location, "backtrace": p.backtrace_head}),
			));
		}
	}

	let mut inconclusive = None;
	if ctx.tier == Tier::Thorough {
		match sanit::run_miri("c13", &["--n".into(), "30".into()], Duration::from_secs(1500)) {
			SubOutcome::Clean(v) => {
				ev.set("miri", json!({"status": "no report", "workload": v}));
				for s in v["violation_signatures"].as_array().cloned().unwrap_or_default() {
					violations.push(Violation::new(s.as_str().unwrap_or("?").to_string(), "seen in the Miri sub-run", json!({"sub": "miri"})));
				}
			}
			SubOutcome::Report { excerpt, frame } => {
				violations.push(Violation::new(format!("miri:{frame}"), "Miri reported undefined behaviour", json!({"excerpt": excerpt})))
			}
			SubOutcome::Failed(why) => {
				ev.set("miri", json!({"status": "inconclusive", "why": why}));
				inconclusive = Some(format!("Miri sub-run did not complete: {}", why.chars().take(300).collect::<String>()));
			}
		}
	}
	finish(&ctx, ev, violations, inconclusive);
}
