//! C17 — generated APIs: a call on a generated client stub reaches the server trait method of that name with equal
//! argument values and the client receives exactly the value / error object the method returned.
//!
//! Monitor: a fixed family of traits declared with `jsonrpsee::proc_macros::rpc` (see `mod api`). One server object
//! implements all server traits; every method records its arguments (as `serde_json::Value`) in a shared log and
//! returns a pure function of (salt, arguments). The harness calls the API
//!   * through the generated client traits over the real WS client (in-memory duplex) and the real HTTP client
//!     (http middleware forwarding to the in-memory tower service, which also shows the request text on the wire),
//!   * through raw `request/notification/subscribe` calls by the *declared* wire names (namespace + separator + name,
//!     aliases verbatim) with positional and by-name params, optional tails passed / null / omitted,
//!   * for subscriptions additionally through a raw WebSocket peer (notification method name, unsubscribe aliases),
//! and compares sent == recorded, returned == expected. Cases run sequentially per server, so the log must contain
//! exactly the one invocation of the expected handler.

use bytes::Bytes;
use http_body_util::{BodyExt, StreamBody};
use jrv::jgen;
use jrv::memsrv::{MemServer, Recv};
use jrv::report::*;
use jrv::rng::Rng;
use jrv::runner::*;
use jsonrpsee::core::client::{Error as ClientError, Subscription, SubscriptionClientT, SubscriptionKind};
use jsonrpsee::core::traits::ToRpcParams;
use jsonrpsee::http_client::{HttpClient, HttpClientBuilder, HttpRequest, HttpResponse, RpcLogger, RpcService, transport};
use jsonrpsee::server::{RpcModule, ServerConfig};
use serde::de::DeserializeOwned;
use serde::{Deserialize, Serialize};
use serde_json::value::RawValue;
use serde_json::{Value, json};
use std::borrow::Cow;
use std::collections::HashMap;
use std::future::Future;
use std::pin::Pin;
use std::sync::{Arc, Mutex};
use std::time::Duration;

/// The family contains one method with a `&str` parameter (as the repository's own tests declare). Set to false to
/// take that method out of the workload.
const INCLUDE_BORROWED_STR: bool = true;
/// The family contains three methods without a return type (the generated client sends them as notifications).
const INCLUDE_NOTIFICATIONS: bool = true;

// ---------------------------------------------------------------------------------------------------------------
// Argument / return types.

/// A "request struct" whose members are all optional (so it also deserialises from any object that has none of them)
#[derive(Serialize, Deserialize, Clone, Debug, PartialEq, Default)]
pub struct Filter {
	#[serde(default)]
	pub min: Option<i64>,
	#[serde(default)]
	pub max: Option<i64>,
	#[serde(default)]
	pub tag: Option<String>,
}

#[derive(Serialize, Deserialize, Clone, Debug, PartialEq)]
pub struct Inner {
	pub id: i64,
	pub big: u64,
	pub label: String,
	pub flags: Vec<bool>,
}

#[derive(Serialize, Deserialize, Clone, Debug, PartialEq)]
pub enum Kind {
	Unit,
	New(u64),
	Tup(i32, String),
	Rec { a: Option<i64>, b: Vec<String> },
}

#[derive(Serialize, Deserialize, Clone, Debug, PartialEq)]
#[serde(tag = "t", content = "c")]
pub enum Tagged {
	A,
	B(Vec<i64>),
	C { x: String, y: u64 },
}

#[derive(Serialize, Deserialize, Clone, Debug, PartialEq)]
#[serde(rename_all = "camelCase")]
pub struct Rec {
	pub name: String,
	pub kind: Kind,
	pub tagged: Tagged,
	pub inner_opt: Option<Inner>,
	pub list: Vec<Inner>,
	pub map: HashMap<String, i64>,
	#[serde(rename = "type")]
	pub ty: u8,
	pub nested: Option<Box<Rec>>,
}

#[derive(Serialize, Deserialize, Clone, Debug, PartialEq)]
pub struct Item {
	pub nonce: u64,
	pub seq: u32,
	pub salt: u64,
	pub payload: Rec,
}

pub struct CustomErr(pub Inner);

impl From<CustomErr> for jsonrpsee::types::ErrorObjectOwned {
	fn from(e: CustomErr) -> Self {
		jsonrpsee::types::ErrorObject::owned(e.0.id as i32, e.0.label.clone(), Some(e.0))
	}
}

// ---------------------------------------------------------------------------------------------------------------
// The declared family.

#[allow(non_snake_case)]
mod api {
	use super::{CustomErr, Filter, Inner, Item, Kind, Rec, Tagged};
	use jsonrpsee::ResponsePayload;
	use jsonrpsee::core::{RpcResult, SubscriptionResult};
	use jsonrpsee::proc_macros::rpc;
	use jsonrpsee::types::ErrorObjectOwned;
	use serde_json::Value;
	use std::borrow::Cow;
	use std::collections::HashMap;

	/// no namespace; 0..4 value params; sync / async / blocking; aliases; notifications
	#[rpc(server, client)]
	pub trait Plain {
		#[method(name = "zero", aliases = ["z0"])]
		fn zero(&self) -> RpcResult<String>;
		#[method(name = "one")]
		async fn one(&self, nonce: u64) -> RpcResult<u64>;
		#[method(name = "two", aliases = ["two_alias", "dotted.alias.two"])]
		fn two(&self, nonce: u64, s: String) -> RpcResult<String>;
		#[method(name = "three", blocking)]
		fn three(&self, nonce: u64, a: i64, b: i64) -> Result<(i64, i64), ErrorObjectOwned>;
		#[method(name = "four", aliases = ["Four/4"])]
		async fn four(&self, nonce: u64, a: String, b: String, c: Vec<i64>, d: Rec) -> RpcResult<Rec>;
		#[method(name = "note")]
		fn note(&self, nonce: u64, s: String);
		#[method(name = "noteAsync", aliases = ["note.async"])]
		async fn note_async(&self, nonce: u64, m: HashMap<String, i64>);
	}

	/// namespace with the default separator; Option tails and an Option in the middle
	#[rpc(server, client, namespace = "pos")]
	pub trait Pos {
		#[method(name = "opt1")]
		async fn opt1(&self, nonce: u64, a: Option<u32>) -> RpcResult<Option<u32>>;
		/// the same signature with the optional type written with its full paths
		#[method(name = "opt1q")]
		async fn opt1q(&self, nonce: u64, a: core::option::Option<u32>) -> RpcResult<Option<u32>>;
		#[method(name = "opt1s", blocking)]
		fn opt1s(&self, nonce: u64, a: ::std::option::Option<u32>) -> RpcResult<Option<u32>>;
		#[method(name = "opt2", aliases = ["pos.opt2"])]
		fn opt2(&self, nonce: u64, a: String, b: Option<String>, c: Option<Inner>) -> RpcResult<Value>;
		#[method(name = "mid", blocking)]
		fn mid(&self, nonce: u64, a: Option<i64>, b: String) -> RpcResult<(Option<i64>, String)>;
		#[method(name = "opt3")]
		async fn opt3(
			&self,
			nonce: u64,
			a: Option<Vec<u8>>,
			b: Option<Kind>,
			c: Option<HashMap<String, i64>>,
		) -> RpcResult<HashMap<String, Value>>;
	}

	/// namespace with `.`; by-name encoding; renamed / camelCase arguments
	#[rpc(server, client, namespace = "map", namespace_separator = ".")]
	pub trait Named {
		#[method(name = "m1", param_kind = map)]
		fn m1(&self, nonce: u64, #[argument(rename = "Count.Total")] count: i64) -> RpcResult<i64>;
		#[method(name = "m2", param_kind = map, aliases = ["map_m2"])]
		async fn m2(&self, nonce: u64, first_arg: String, second_arg: String) -> RpcResult<Vec<String>>;
		#[method(name = "m3", param_kind = map, blocking)]
		fn m3(
			&self,
			nonce: u64,
			#[argument(rename = "type")] kind: Kind,
			#[allow(non_snake_case)] camelCase: Tagged,
			snake_case_arg: Vec<String>,
		) -> RpcResult<(Kind, Tagged, Vec<String>)>;
		#[method(name = "mOpt", param_kind = map)]
		async fn m_opt(&self, nonce: u64, a: String, b: Option<i64>, c: Option<Rec>) -> RpcResult<Option<Rec>>;
		#[method(name = "mArr", param_kind = array)]
		fn m_arr(&self, nonce: u64, x: u64, y: u64) -> RpcResult<Vec<u64>>;
		#[method(name = "mNote", param_kind = map)]
		async fn m_note(&self, nonce: u64, payload: Rec);
		/// by-name methods with exactly ONE parameter whose type would also accept the enclosing params object
		#[method(name = "onlyFilter", param_kind = map)]
		async fn only_filter(&self, filter: Filter) -> RpcResult<Filter>;
		#[method(name = "onlyLabels", param_kind = map)]
		fn only_labels(&self, labels: HashMap<String, i64>) -> RpcResult<HashMap<String, i64>>;
		/// arguments declared with raw identifiers
		#[method(name = "rawIdent", param_kind = map)]
		fn raw_ident(&self, nonce: u64, r#type: String, r#match: Option<i64>) -> RpcResult<String>;
	}

	/// namespace with `/`
	#[rpc(server, client, namespace = "chain", namespace_separator = "/")]
	pub trait Chain {
		#[method(name = "head", aliases = ["chain_head"])]
		async fn head(&self, nonce: u64, h: Tagged) -> RpcResult<Tagged>;
		#[method(name = "ping", blocking)]
		fn ping(&self) -> RpcResult<()>;
		#[method(name = "kinds")]
		fn kinds(&self, nonce: u64, v: Vec<Kind>, m: HashMap<String, i64>) -> RpcResult<HashMap<String, Vec<Kind>>>;
	}

	/// explicit `_` separator; error objects with data, custom error type, ResponsePayload, extensions
	#[rpc(server, client, namespace = "err", namespace_separator = "_")]
	pub trait Errs {
		#[method(name = "fail")]
		async fn fail(&self, nonce: u64, code: i32, message: String, data: Option<Rec>) -> RpcResult<u8>;
		#[method(name = "maybe")]
		fn maybe(&self, nonce: u64, ok: bool, v: Inner) -> Result<Inner, CustomErr>;
		#[method(name = "payload")]
		fn payload(&self, nonce: u64, v: Vec<Kind>, fail: bool) -> ResponsePayload<'static, Vec<Kind>>;
		#[method(name = "failBlocking", blocking, param_kind = map)]
		fn fail_blocking(&self, nonce: u64, code: i32, data: HashMap<String, i64>) -> RpcResult<String>;
		#[method(name = "withExt", with_extensions)]
		async fn with_ext(&self, nonce: u64, s: String) -> RpcResult<String>;
	}

	/// generic trait (bounds generated by the macro)
	#[rpc(server, client, namespace = "gen")]
	pub trait Generic<T, U> {
		#[method(name = "echo")]
		async fn echo(&self, nonce: u64, a: T, b: Option<U>) -> RpcResult<(T, Option<U>)>;
		#[subscription(name = "subscribeG", item = T)]
		async fn gsub(&self, nonce: u64, a: T) -> SubscriptionResult;
	}

	/// borrowed parameter types
	#[rpc(server, client, namespace = "bw")]
	pub trait Borrowed {
		#[method(name = "cow")]
		fn cow(&self, nonce: u64, a: Cow<'_, str>, b: Option<Cow<'_, str>>) -> RpcResult<String>;
		#[method(name = "refstr")]
		fn refstr(&self, nonce: u64, a: &str) -> RpcResult<String>;
	}

	/// subscriptions: params, custom notification name, aliases, unsubscribe aliases, by-name, sync, no params
	#[rpc(server, client, namespace = "sub")]
	pub trait Subs {
		#[subscription(name = "subscribeItems" => "itemsNotif", unsubscribe = "unsubscribeItems", item = Item,
			aliases = ["items_sub_alias"], unsubscribe_aliases = ["items_unsub_alias", "sub.unsubItems2"])]
		async fn items(&self, nonce: u64, count: u8, payload: Rec, mode: u8) -> SubscriptionResult;
		#[subscription(name = "subscribeOpt", item = (u64, u32, Option<Kind>), param_kind = map)]
		async fn sub_opt(&self, nonce: u64, tag: String, extra: Option<Kind>) -> SubscriptionResult;
		#[subscription(name = "subscribeSync", unsubscribe = "unsubSync", item = String)]
		fn sub_sync(&self, nonce: u64, s: String);
		#[subscription(name = "subscribeTick", item = u64)]
		async fn tick(&self) -> SubscriptionResult;
		#[method(name = "plain")]
		fn plain(&self, nonce: u64, x: i64) -> RpcResult<i64>;
	}
}
use api::*;

// ---------------------------------------------------------------------------------------------------------------
// Server side: record arguments, return a pure function of (salt, arguments).

#[derive(Clone, Debug)]
struct Entry {
	tag: &'static str,
	args: Vec<Value>,
}

#[derive(Default)]
struct Log {
	entries: Mutex<Vec<Entry>>,
	closed: Mutex<Vec<u64>>,
	notify: tokio::sync::Notify,
}

impl Log {
	fn rec(&self, tag: &'static str, args: Vec<Value>) {
		self.entries.lock().unwrap().push(Entry { tag, args });
		self.notify.notify_waiters();
	}
	fn closed(&self, nonce: u64) {
		self.closed.lock().unwrap().push(nonce);
		self.notify.notify_waiters();
	}
	fn drain(&self) -> Vec<Entry> {
		std::mem::take(&mut *self.entries.lock().unwrap())
	}
	fn len(&self) -> usize {
		self.entries.lock().unwrap().len()
	}
	fn was_closed(&self, nonce: u64) -> bool {
		self.closed.lock().unwrap().contains(&nonce)
	}
}

fn v<T: Serialize>(t: &T) -> Value {
	serde_json::to_value(t).expect("harness: value serialises")
}
/// `send_timeout` attempts of `Subs::items` (mode 3) that ran into their time limit and were repeated
static SEND_TIMEOUTS: std::sync::atomic::AtomicU64 = std::sync::atomic::AtomicU64::new(0);

fn raw<T: Serialize>(t: &T) -> Box<RawValue> {
	serde_json::value::to_raw_value(t).expect("harness: value serialises")
}

macro_rules! rec {
	($self:ident, $tag:expr $(, $a:expr)*) => {
		$self.log.rec($tag, vec![$(v(&$a)),*])
	};
}

/// Pure result functions shared by the server impl and the oracle.
mod ret {
	use super::*;
	use jsonrpsee::types::{ErrorObject, ErrorObjectOwned};

	pub fn zero(salt: u64) -> String {
		format!("zero:{salt}")
	}
	pub fn one(salt: u64, nonce: u64) -> u64 {
		salt ^ nonce.rotate_left(17)
	}
	pub fn two(salt: u64, nonce: u64, s: &str) -> String {
		format!("{salt}|{nonce}|{s}|{}", s.chars().rev().collect::<String>())
	}
	pub fn four(salt: u64, nonce: u64, a: &str, b: &str, c: &[i64], d: &Rec) -> Rec {
		let mut out = d.clone();
		out.name = format!("{a}\u{1}{b}");
		out.map.insert(format!("nonce{}", salt % 7), nonce as i64);
		out.list.push(Inner { id: c.iter().fold(0i64, |x, y| x.wrapping_add(*y)), big: salt, label: b.to_string(), flags: vec![] });
		out.nested = Some(Box::new(d.clone()));
		out
	}
	pub fn opt2(salt: u64, nonce: u64, a: &str, b: &Option<String>, c: &Option<Inner>) -> Value {
		json!({"salt": salt, "nonce": nonce, "a": a, "b": b, "c": c, "shape": [b.is_some(), c.is_some()]})
	}
	pub fn opt3(salt: u64, a: &Option<Vec<u8>>, b: &Option<Kind>, c: &Option<HashMap<String, i64>>) -> HashMap<String, Value> {
		let mut m = HashMap::new();
		m.insert("a".to_string(), v(a));
		m.insert(format!("b{salt}"), v(b));
		m.insert("c\"\\".to_string(), v(c));
		m
	}
	pub fn kinds(salt: u64, vk: &[Kind], m: &HashMap<String, i64>) -> HashMap<String, Vec<Kind>> {
		let mut out = HashMap::new();
		out.insert(format!("all{salt}"), vk.to_vec());
		for (k, n) in m {
			out.insert(format!("k:{k}"), vec![Kind::New(*n as u64), Kind::Rec { a: Some(*n), b: vec![k.clone()] }]);
		}
		out
	}
	pub fn err(salt: u64, code: i32, message: &str, data: Option<Value>) -> ErrorObjectOwned {
		ErrorObject::owned(code, format!("{message}#{}", salt % 1000), data)
	}
	pub fn item(salt: u64, nonce: u64, seq: u32, payload: &Rec) -> Item {
		let mut p = payload.clone();
		p.ty = p.ty.wrapping_add(seq as u8);
		Item { nonce, seq, salt, payload: p }
	}
	pub fn cow(salt: u64, a: &str, b: Option<&str>) -> String {
		format!("{salt}<{a}>{}", b.map(|b| format!("[{b}]")).unwrap_or_default())
	}
}

#[derive(Clone)]
struct Srv {
	log: Arc<Log>,
	salt: u64,
}

use jsonrpsee::core::{RpcResult, SubscriptionResult, async_trait};
use jsonrpsee::types::ErrorObjectOwned;
use jsonrpsee::{Extensions, PendingSubscriptionSink, ResponsePayload};

#[async_trait]
impl PlainServer for Srv {
	fn zero(&self) -> RpcResult<String> {
		rec!(self, "Plain::zero");
		Ok(ret::zero(self.salt))
	}
	async fn one(&self, nonce: u64) -> RpcResult<u64> {
		rec!(self, "Plain::one", nonce);
		Ok(ret::one(self.salt, nonce))
	}
	fn two(&self, nonce: u64, s: String) -> RpcResult<String> {
		rec!(self, "Plain::two", nonce, s);
		Ok(ret::two(self.salt, nonce, &s))
	}
	fn three(&self, nonce: u64, a: i64, b: i64) -> Result<(i64, i64), ErrorObjectOwned> {
		rec!(self, "Plain::three", nonce, a, b);
		Ok((b, a))
	}
	async fn four(&self, nonce: u64, a: String, b: String, c: Vec<i64>, d: Rec) -> RpcResult<Rec> {
		rec!(self, "Plain::four", nonce, a, b, c, d);
		Ok(ret::four(self.salt, nonce, &a, &b, &c, &d))
	}
	fn note(&self, nonce: u64, s: String) {
		rec!(self, "Plain::note", nonce, s);
	}
	async fn note_async(&self, nonce: u64, m: HashMap<String, i64>) {
		rec!(self, "Plain::note_async", nonce, m);
	}
}

#[async_trait]
impl PosServer for Srv {
	async fn opt1(&self, nonce: u64, a: Option<u32>) -> RpcResult<Option<u32>> {
		rec!(self, "Pos::opt1", nonce, a);
		Ok(a.map(|x| x ^ (self.salt as u32)))
	}
	async fn opt1q(&self, nonce: u64, a: core::option::Option<u32>) -> RpcResult<Option<u32>> {
		rec!(self, "Pos::opt1q", nonce, a);
		Ok(a.map(|x| x ^ (self.salt as u32)))
	}
	fn opt1s(&self, nonce: u64, a: ::std::option::Option<u32>) -> RpcResult<Option<u32>> {
		rec!(self, "Pos::opt1s", nonce, a);
		Ok(a.map(|x| x ^ (self.salt as u32)))
	}
	fn opt2(&self, nonce: u64, a: String, b: Option<String>, c: Option<Inner>) -> RpcResult<Value> {
		rec!(self, "Pos::opt2", nonce, a, b, c);
		Ok(ret::opt2(self.salt, nonce, &a, &b, &c))
	}
	fn mid(&self, nonce: u64, a: Option<i64>, b: String) -> RpcResult<(Option<i64>, String)> {
		rec!(self, "Pos::mid", nonce, a, b);
		Ok((a, format!("{b}{}", self.salt)))
	}
	async fn opt3(
		&self,
		nonce: u64,
		a: Option<Vec<u8>>,
		b: Option<Kind>,
		c: Option<HashMap<String, i64>>,
	) -> RpcResult<HashMap<String, Value>> {
		rec!(self, "Pos::opt3", nonce, a, b, c);
		Ok(ret::opt3(self.salt, &a, &b, &c))
	}
}

#[async_trait]
impl NamedServer for Srv {
	fn m1(&self, nonce: u64, count: i64) -> RpcResult<i64> {
		rec!(self, "Named::m1", nonce, count);
		Ok(count ^ (self.salt as i64))
	}
	async fn m2(&self, nonce: u64, first_arg: String, second_arg: String) -> RpcResult<Vec<String>> {
		rec!(self, "Named::m2", nonce, first_arg, second_arg);
		Ok(vec![second_arg, self.salt.to_string(), first_arg])
	}
	#[allow(non_snake_case)]
	fn m3(&self, nonce: u64, kind: Kind, camelCase: Tagged, snake_case_arg: Vec<String>) -> RpcResult<(Kind, Tagged, Vec<String>)> {
		rec!(self, "Named::m3", nonce, kind, camelCase, snake_case_arg);
		Ok((kind, camelCase, snake_case_arg))
	}
	async fn m_opt(&self, nonce: u64, a: String, b: Option<i64>, c: Option<Rec>) -> RpcResult<Option<Rec>> {
		rec!(self, "Named::m_opt", nonce, a, b, c);
		Ok(c.map(|mut r| {
			r.name = a;
			r.map.insert("b".into(), b.unwrap_or(self.salt as i64));
			r
		}))
	}
	fn m_arr(&self, nonce: u64, x: u64, y: u64) -> RpcResult<Vec<u64>> {
		rec!(self, "Named::m_arr", nonce, x, y);
		Ok(vec![y, x, self.salt])
	}
	async fn m_note(&self, nonce: u64, payload: Rec) {
		rec!(self, "Named::m_note", nonce, payload);
	}
	async fn only_filter(&self, filter: Filter) -> RpcResult<Filter> {
		rec!(self, "Named::only_filter", filter);
		Ok(Filter { min: filter.max, max: filter.min, tag: Some(format!("{}:{}", self.salt, filter.tag.unwrap_or_default())) })
	}
	fn raw_ident(&self, nonce: u64, r#type: String, r#match: Option<i64>) -> RpcResult<String> {
		rec!(self, "Named::raw_ident", nonce, r#type, r#match);
		Ok(format!("{}:{}:{}", self.salt, r#type, r#match.unwrap_or(-1)))
	}
	fn only_labels(&self, labels: HashMap<String, i64>) -> RpcResult<HashMap<String, i64>> {
		rec!(self, "Named::only_labels", labels);
		let mut out = labels;
		out.insert("salt".into(), self.salt as i64);
		Ok(out)
	}
}

#[async_trait]
impl ChainServer for Srv {
	async fn head(&self, nonce: u64, h: Tagged) -> RpcResult<Tagged> {
		rec!(self, "Chain::head", nonce, h);
		Ok(match h {
			Tagged::A => Tagged::C { x: "from-a".into(), y: self.salt },
			Tagged::B(b) => Tagged::B(b.into_iter().rev().collect()),
			Tagged::C { x, y } => Tagged::C { x: format!("{x}{x}"), y: y ^ self.salt },
		})
	}
	fn ping(&self) -> RpcResult<()> {
		rec!(self, "Chain::ping");
		Ok(())
	}
	fn kinds(&self, nonce: u64, vk: Vec<Kind>, m: HashMap<String, i64>) -> RpcResult<HashMap<String, Vec<Kind>>> {
		rec!(self, "Chain::kinds", nonce, vk, m);
		Ok(ret::kinds(self.salt, &vk, &m))
	}
}

#[async_trait]
impl ErrsServer for Srv {
	async fn fail(&self, nonce: u64, code: i32, message: String, data: Option<Rec>) -> RpcResult<u8> {
		rec!(self, "Errs::fail", nonce, code, message, data);
		Err(ret::err(self.salt, code, &message, data.map(|d| v(&d))))
	}
	fn maybe(&self, nonce: u64, ok: bool, x: Inner) -> Result<Inner, CustomErr> {
		rec!(self, "Errs::maybe", nonce, ok, x);
		if ok { Ok(Inner { big: self.salt, ..x }) } else { Err(CustomErr(x)) }
	}
	fn payload(&self, nonce: u64, vk: Vec<Kind>, fail: bool) -> ResponsePayload<'static, Vec<Kind>> {
		rec!(self, "Errs::payload", nonce, vk, fail);
		if fail {
			ResponsePayload::error(ret::err(self.salt, -32000 - (vk.len() as i32), "payload", Some(v(&vk))))
		} else {
			ResponsePayload::success(vk.into_iter().rev().collect())
		}
	}
	fn fail_blocking(&self, nonce: u64, code: i32, data: HashMap<String, i64>) -> RpcResult<String> {
		rec!(self, "Errs::fail_blocking", nonce, code, data);
		Err(ret::err(self.salt, code, "blocking", Some(v(&data))))
	}
	async fn with_ext(&self, _ext: &Extensions, nonce: u64, s: String) -> RpcResult<String> {
		rec!(self, "Errs::with_ext", nonce, s);
		Ok(ret::two(self.salt, nonce, &s))
	}
}

#[async_trait]
impl GenericServer<Rec, Kind> for Srv {
	async fn echo(&self, nonce: u64, a: Rec, b: Option<Kind>) -> RpcResult<(Rec, Option<Kind>)> {
		rec!(self, "Generic::echo", nonce, a, b);
		Ok((a, b))
	}
	async fn gsub(&self, pending: PendingSubscriptionSink, nonce: u64, a: Rec) -> SubscriptionResult {
		rec!(self, "Generic::gsub", nonce, a);
		let sink = pending.accept().await?;
		let _ = sink.send(raw(&a)).await;
		sink.closed().await;
		self.log.closed(nonce);
		Ok(())
	}
}

#[async_trait]
impl BorrowedServer for Srv {
	fn cow(&self, nonce: u64, a: Cow<'_, str>, b: Option<Cow<'_, str>>) -> RpcResult<String> {
		rec!(self, "Borrowed::cow", nonce, a, b);
		Ok(ret::cow(self.salt, &a, b.as_deref()))
	}
	fn refstr(&self, nonce: u64, a: &str) -> RpcResult<String> {
		rec!(self, "Borrowed::refstr", nonce, a);
		Ok(ret::cow(self.salt, a, None))
	}
}

#[async_trait]
impl SubsServer for Srv {
	async fn items(&self, pending: PendingSubscriptionSink, nonce: u64, count: u8, payload: Rec, mode: u8) -> SubscriptionResult {
		rec!(self, "Subs::items", nonce, count, payload, mode);
		if mode == 2 {
			pending.reject(ret::err(self.salt, -32050 - count as i32, "rejected", Some(v(&payload)))).await;
			return Ok(());
		}
		let sink = pending.accept().await?;
		for seq in 0..count as u32 {
			let item = raw(&ret::item(self.salt, nonce, seq, &payload));
			if mode == 3 {
				// a handler that bounds each attempt and tries again with what the error hands back
				let mut msg: jsonrpsee::SubscriptionMessage = item.into();
				loop {
					match sink.send_timeout(msg, Duration::from_millis(2)).await {
						Ok(()) => break,
						Err(jsonrpsee::core::server::SendTimeoutError::Timeout(m)) => {
							SEND_TIMEOUTS.fetch_add(1, std::sync::atomic::Ordering::Relaxed);
							msg = m;
						}
						Err(jsonrpsee::core::server::SendTimeoutError::Closed(_)) => break,
					}
				}
			} else {
				let _ = sink.send(item).await;
			}
		}
		sink.closed().await;
		self.log.closed(nonce);
		Ok(())
	}
	async fn sub_opt(&self, pending: PendingSubscriptionSink, nonce: u64, tag: String, extra: Option<Kind>) -> SubscriptionResult {
		rec!(self, "Subs::sub_opt", nonce, tag, extra);
		let sink = pending.accept().await?;
		for seq in 0..2u32 {
			let _ = sink.send(raw(&(nonce, seq, extra.clone()))).await;
		}
		sink.closed().await;
		self.log.closed(nonce);
		Ok(())
	}
	fn sub_sync(&self, pending: PendingSubscriptionSink, nonce: u64, s: String) {
		rec!(self, "Subs::sub_sync", nonce, s);
		let log = self.log.clone();
		let text = ret::two(self.salt, nonce, &s);
		tokio::spawn(async move {
			let Ok(sink) = pending.accept().await else { return };
			let _ = sink.send(raw(&text)).await;
			sink.closed().await;
			log.closed(nonce);
		});
	}
	async fn tick(&self, pending: PendingSubscriptionSink) -> SubscriptionResult {
		rec!(self, "Subs::tick");
		let sink = pending.accept().await?;
		for seq in 0..2u64 {
			let _ = sink.send(raw(&self.salt.wrapping_add(seq))).await;
		}
		sink.closed().await;
		Ok(())
	}
	fn plain(&self, nonce: u64, x: i64) -> RpcResult<i64> {
		rec!(self, "Subs::plain", nonce, x);
		Ok(x.wrapping_sub(self.salt as i64))
	}
}

fn build_module(srv: &Srv) -> RpcModule<()> {
	let mut m = RpcModule::new(());
	m.merge(PlainServer::into_rpc(srv.clone())).expect("merge Plain");
	m.merge(PosServer::into_rpc(srv.clone())).expect("merge Pos");
	m.merge(NamedServer::into_rpc(srv.clone())).expect("merge Named");
	m.merge(ChainServer::into_rpc(srv.clone())).expect("merge Chain");
	m.merge(ErrsServer::into_rpc(srv.clone())).expect("merge Errs");
	m.merge(GenericServer::<Rec, Kind>::into_rpc(srv.clone())).expect("merge Generic");
	m.merge(BorrowedServer::into_rpc(srv.clone())).expect("merge Borrowed");
	m.merge(SubsServer::into_rpc(srv.clone())).expect("merge Subs");
	m
}

// ---------------------------------------------------------------------------------------------------------------
// Description of the declared family, written from the declarations (wire name = namespace + separator + name;
// aliases verbatim; by-name keys = argument names after `rename`).

#[derive(Clone, Copy, Debug, PartialEq, Eq, Hash)]
enum Ty {
	U64,
	I64,
	I32,
	U32,
	Bool,
	Str,
	VecI64,
	VecStr,
	Bytes,
	Inner,
	Kind,
	Tagged,
	Rec,
	MapI64,
	Filter,
	VecKind,
	/// small count of subscription items
	Count,
	/// 0 = accept, 2 = reject
	Mode,
}

#[derive(Clone, Copy, Debug)]
struct P {
	name: &'static str,
	/// other spellings the by-name decoder is documented to accept (snake_case / lowerCamelCase of the name)
	alts: &'static [&'static str],
	ty: Ty,
	opt: bool,
}
const fn p(name: &'static str, ty: Ty) -> P {
	P { name, alts: &[], ty, opt: false }
}
const fn pa(name: &'static str, alts: &'static [&'static str], ty: Ty) -> P {
	P { name, alts, ty, opt: false }
}
const fn o(name: &'static str, ty: Ty) -> P {
	P { name, alts: &[], ty, opt: true }
}
const NONCE: P = p("nonce", Ty::U64);

#[derive(Clone, Copy, Debug, PartialEq, Eq)]
enum Enc {
	Array,
	Map,
}
impl Enc {
	fn name(self) -> &'static str {
		match self {
			Enc::Array => "array",
			Enc::Map => "map",
		}
	}
}

#[derive(Clone, Copy, Debug)]
struct SubD {
	/// `method` member of the notifications
	notif: &'static str,
	unsub: &'static str,
	unsub_aliases: &'static [&'static str],
}

#[derive(Clone, Copy, Debug)]
struct MD {
	tag: &'static str,
	wire: &'static str,
	aliases: &'static [&'static str],
	params: &'static [P],
	kind: Enc,
	notif: bool,
	sub: Option<SubD>,
	/// variant of the method (sync / async / blocking), for evidence only
	flavor: &'static str,
}
const fn md(tag: &'static str, wire: &'static str, aliases: &'static [&'static str], params: &'static [P], kind: Enc, flavor: &'static str) -> MD {
	MD { tag, wire, aliases, params, kind, notif: false, sub: None, flavor }
}
const fn note(m: MD) -> MD {
	MD { notif: true, ..m }
}
const fn sub(m: MD, notif: &'static str, unsub: &'static str, unsub_aliases: &'static [&'static str]) -> MD {
	MD { sub: Some(SubD { notif, unsub, unsub_aliases }), ..m }
}

use Enc::{Array, Map as ByName};
static METHODS: &[MD] = &[
	md("Plain::zero", "zero", &["z0"], &[], Array, "sync"),
	md("Plain::one", "one", &[], &[NONCE], Array, "async"),
	md("Plain::two", "two", &["two_alias", "dotted.alias.two"], &[NONCE, p("s", Ty::Str)], Array, "sync"),
	md("Plain::three", "three", &[], &[NONCE, p("a", Ty::I64), p("b", Ty::I64)], Array, "blocking"),
	md(
		"Plain::four",
		"four",
		&["Four/4"],
		&[NONCE, p("a", Ty::Str), p("b", Ty::Str), p("c", Ty::VecI64), p("d", Ty::Rec)],
		Array,
		"async",
	),
	note(md("Plain::note", "note", &[], &[NONCE, p("s", Ty::Str)], Array, "sync")),
	note(md("Plain::note_async", "noteAsync", &["note.async"], &[NONCE, p("m", Ty::MapI64)], Array, "async")),
	md("Pos::opt1", "pos_opt1", &[], &[NONCE, o("a", Ty::U32)], Array, "async"),
	md("Pos::opt1q", "pos_opt1q", &[], &[NONCE, o("a", Ty::U32)], Array, "async"),
	md("Pos::opt1s", "pos_opt1s", &[], &[NONCE, o("a", Ty::U32)], Array, "blocking"),
	md("Pos::opt2", "pos_opt2", &["pos.opt2"], &[NONCE, p("a", Ty::Str), o("b", Ty::Str), o("c", Ty::Inner)], Array, "sync"),
	md("Pos::mid", "pos_mid", &[], &[NONCE, o("a", Ty::I64), p("b", Ty::Str)], Array, "blocking"),
	md("Pos::opt3", "pos_opt3", &[], &[NONCE, o("a", Ty::Bytes), o("b", Ty::Kind), o("c", Ty::MapI64)], Array, "async"),
	md("Named::m1", "map.m1", &[], &[NONCE, pa("Count.Total", &["count_total"], Ty::I64)], ByName, "sync"),
	md(
		"Named::m2",
		"map.m2",
		&["map_m2"],
		&[NONCE, pa("first_arg", &["firstArg"], Ty::Str), pa("second_arg", &["secondArg"], Ty::Str)],
		ByName,
		"async",
	),
	md(
		"Named::m3",
		"map.m3",
		&[],
		&[NONCE, p("type", Ty::Kind), pa("camelCase", &["camel_case"], Ty::Tagged), pa("snake_case_arg", &["snakeCaseArg"], Ty::VecStr)],
		ByName,
		"blocking",
	),
	md("Named::m_opt", "map.mOpt", &[], &[NONCE, p("a", Ty::Str), o("b", Ty::I64), o("c", Ty::Rec)], ByName, "async"),
	md("Named::m_arr", "map.mArr", &[], &[NONCE, p("x", Ty::U64), p("y", Ty::U64)], Array, "sync"),
	note(md("Named::m_note", "map.mNote", &[], &[NONCE, p("payload", Ty::Rec)], ByName, "async")),
	md("Named::only_filter", "map.onlyFilter", &[], &[p("filter", Ty::Filter)], ByName, "async"),
	md("Named::only_labels", "map.onlyLabels", &[], &[p("labels", Ty::MapI64)], ByName, "sync"),
	md("Named::raw_ident", "map.rawIdent", &[], &[NONCE, p("r#type", Ty::Str), o("r#match", Ty::I64)], ByName, "sync"),
	md("Chain::head", "chain/head", &["chain_head"], &[NONCE, p("h", Ty::Tagged)], Array, "async"),
	md("Chain::ping", "chain/ping", &[], &[], Array, "blocking"),
	md("Chain::kinds", "chain/kinds", &[], &[NONCE, p("v", Ty::VecKind), p("m", Ty::MapI64)], Array, "sync"),
	md("Errs::fail", "err_fail", &[], &[NONCE, p("code", Ty::I32), p("message", Ty::Str), o("data", Ty::Rec)], Array, "async"),
	md("Errs::maybe", "err_maybe", &[], &[NONCE, p("ok", Ty::Bool), p("v", Ty::Inner)], Array, "sync"),
	md("Errs::payload", "err_payload", &[], &[NONCE, p("v", Ty::VecKind), p("fail", Ty::Bool)], Array, "sync"),
	md("Errs::fail_blocking", "err_failBlocking", &[], &[NONCE, p("code", Ty::I32), p("data", Ty::MapI64)], ByName, "blocking"),
	md("Errs::with_ext", "err_withExt", &[], &[NONCE, p("s", Ty::Str)], Array, "async"),
	md("Generic::echo", "gen_echo", &[], &[NONCE, p("a", Ty::Rec), o("b", Ty::Kind)], Array, "async"),
	md("Borrowed::cow", "bw_cow", &[], &[NONCE, p("a", Ty::Str), o("b", Ty::Str)], Array, "sync"),
	md("Borrowed::refstr", "bw_refstr", &[], &[NONCE, p("a", Ty::Str)], Array, "sync"),
	md("Subs::plain", "sub_plain", &[], &[NONCE, p("x", Ty::I64)], Array, "sync"),
	sub(
		md(
			"Subs::items",
			"sub_subscribeItems",
			&["items_sub_alias"],
			&[NONCE, p("count", Ty::Count), p("payload", Ty::Rec), p("mode", Ty::Mode)],
			Array,
			"async",
		),
		"sub_itemsNotif",
		"sub_unsubscribeItems",
		&["items_unsub_alias", "sub.unsubItems2"],
	),
	sub(
		md("Subs::sub_opt", "sub_subscribeOpt", &[], &[NONCE, p("tag", Ty::Str), o("extra", Ty::Kind)], ByName, "async"),
		"sub_subscribeOpt",
		"sub_unsubscribeOpt",
		&[],
	),
	sub(md("Subs::sub_sync", "sub_subscribeSync", &[], &[NONCE, p("s", Ty::Str)], Array, "sync"), "sub_subscribeSync", "sub_unsubSync", &[]),
	sub(md("Subs::tick", "sub_subscribeTick", &[], &[], Array, "async"), "sub_subscribeTick", "sub_unsubscribeTick", &[]),
	sub(md("Generic::gsub", "gen_subscribeG", &[], &[NONCE, p("a", Ty::Rec)], Array, "async"), "gen_subscribeG", "gen_unsubscribeG", &[]),
];

fn method(tag: &str) -> Option<&'static MD> {
	METHODS.iter().find(|m| m.tag == tag)
}

// ---------------------------------------------------------------------------------------------------------------
// Generators (no floats).

fn g_u64(r: &mut Rng) -> u64 {
	match r.below(10) {
		0 => 0,
		1 => u64::MAX,
		2 => u64::MAX - 1,
		3 => i64::MAX as u64,
		4 => i64::MAX as u64 + 1,
		5 => (1 << 53) + 1,
		6 => 1,
		_ => r.next_u64() >> r.below(64),
	}
}
fn g_i64(r: &mut Rng) -> i64 {
	match r.below(10) {
		0 => i64::MIN,
		1 => i64::MIN + 1,
		2 => i64::MAX,
		3 => -1,
		4 => 0,
		5 => -(1 << 53) - 1,
		6 => 1,
		_ => (r.next_u64() as i64) >> r.below(64),
	}
}
fn g_i32(r: &mut Rng) -> i32 {
	*r.pick(&[i32::MIN, i32::MAX, -32700, -32603, -32602, -32601, -32600, -32099, -32000, -32009, -32050, -1, 0, 1, 42, 7000, -123456])
}
fn g_u32(r: &mut Rng) -> u32 {
	match r.below(5) {
		0 => 0,
		1 => u32::MAX,
		_ => (r.next_u64() >> r.below(64)) as u32,
	}
}
fn g_str(r: &mut Rng) -> String {
	jgen::string(r)
}
fn g_vec<T>(r: &mut Rng, max: usize, mut f: impl FnMut(&mut Rng) -> T) -> Vec<T> {
	let n = if r.chance(1, 5) { 0 } else { r.usize(max) + 1 };
	(0..n).map(|_| f(r)).collect()
}
fn g_map(r: &mut Rng) -> HashMap<String, i64> {
	let n = r.usize(4);
	(0..n).map(|i| (if i == 0 && r.chance(1, 4) { String::new() } else { format!("{}{i}", g_str(r)) }, g_i64(r))).collect()
}
fn g_inner(r: &mut Rng) -> Inner {
	Inner { id: g_i64(r), big: g_u64(r), label: g_str(r), flags: g_vec(r, 3, |r| r.bool()) }
}
fn g_kind(r: &mut Rng) -> Kind {
	match r.below(4) {
		0 => Kind::Unit,
		1 => Kind::New(g_u64(r)),
		2 => Kind::Tup(g_i32(r), g_str(r)),
		_ => Kind::Rec { a: if r.bool() { Some(g_i64(r)) } else { None }, b: g_vec(r, 3, g_str) },
	}
}
fn g_tagged(r: &mut Rng) -> Tagged {
	match r.below(3) {
		0 => Tagged::A,
		1 => Tagged::B(g_vec(r, 4, g_i64)),
		_ => Tagged::C { x: g_str(r), y: g_u64(r) },
	}
}
fn g_rec(r: &mut Rng, depth: usize) -> Rec {
	Rec {
		name: g_str(r),
		kind: g_kind(r),
		tagged: g_tagged(r),
		inner_opt: if r.bool() { Some(g_inner(r)) } else { None },
		list: g_vec(r, 2, g_inner),
		map: g_map(r),
		ty: r.below(256) as u8,
		nested: if depth > 0 && r.chance(1, 3) { Some(Box::new(g_rec(r, depth - 1))) } else { None },
	}
}

fn gen_ty(r: &mut Rng, ty: Ty) -> Value {
	match ty {
		Ty::U64 => v(&g_u64(r)),
		Ty::I64 => v(&g_i64(r)),
		Ty::I32 => v(&g_i32(r)),
		Ty::U32 => v(&g_u32(r)),
		Ty::Bool => v(&r.bool()),
		Ty::Str => v(&g_str(r)),
		Ty::VecI64 => v(&g_vec(r, 5, g_i64)),
		Ty::VecStr => v(&g_vec(r, 4, g_str)),
		Ty::Bytes => v(&g_vec(r, 6, |r| r.below(256) as u8)),
		Ty::Inner => v(&g_inner(r)),
		Ty::Kind => v(&g_kind(r)),
		Ty::Tagged => v(&g_tagged(r)),
		Ty::Rec => v(&g_rec(r, 2)),
		Ty::MapI64 => v(&g_map(r)),
		Ty::Filter => v(&Filter { min: if r.bool() { Some(g_i64(r)) } else { None }, max: if r.bool() { Some(g_i64(r)) } else { None }, tag: if r.bool() { Some(g_str(r)) } else { None } }),
		Ty::VecKind => v(&g_vec(r, 4, g_kind)),
		Ty::Count => v(&(r.below(5) as u8)),
		Ty::Mode => v(&(if r.chance(1, 5) { 2u8 } else { 0u8 })),
	}
}

/// Harness self-check: the generated value is a fixed point of the argument type (Value -> T -> Value).
fn roundtrips(ty: Ty, val: &Value) -> bool {
	fn rt<T: DeserializeOwned + Serialize>(val: &Value) -> bool {
		serde_json::from_value::<T>(val.clone()).map(|t| v(&t) == *val).unwrap_or(false)
	}
	match ty {
		Ty::U64 => rt::<u64>(val),
		Ty::I64 => rt::<i64>(val),
		Ty::I32 => rt::<i32>(val),
		Ty::U32 => rt::<u32>(val),
		Ty::Bool => rt::<bool>(val),
		Ty::Str => rt::<String>(val),
		Ty::VecI64 => rt::<Vec<i64>>(val),
		Ty::VecStr => rt::<Vec<String>>(val),
		Ty::Bytes => rt::<Vec<u8>>(val),
		Ty::Inner => rt::<Inner>(val),
		Ty::Kind => rt::<Kind>(val),
		Ty::Tagged => rt::<Tagged>(val),
		Ty::Rec => rt::<Rec>(val),
		Ty::MapI64 => rt::<HashMap<String, i64>>(val),
		Ty::Filter => rt::<Filter>(val),
		Ty::VecKind => rt::<Vec<Kind>>(val),
		Ty::Count | Ty::Mode => rt::<u8>(val),
	}
}

fn gen_args(r: &mut Rng, m: &MD, nonce: u64) -> Vec<Value> {
	m.params
		.iter()
		.enumerate()
		.map(|(i, p)| {
			if i == 0 && p.name == "nonce" {
				return v(&nonce);
			}
			if p.opt && r.chance(1, 3) {
				return Value::Null;
			}
			let val = gen_ty(r, p.ty);
			assert!(roundtrips(p.ty, &val), "harness: generator for {:?} is not a fixed point: {val}", p.ty);
			val
		})
		.collect()
}

fn fv<T: DeserializeOwned>(val: &Value) -> T {
	serde_json::from_value(val.clone()).unwrap_or_else(|e| panic!("harness: argument {val} does not fit its declared type: {e}"))
}

// ---------------------------------------------------------------------------------------------------------------
// Expected outcome of a call: a pure function of (handler, salt, arguments).

#[derive(Clone, Debug, PartialEq)]
enum Want {
	Ok(Value),
	Err { code: i32, message: String, data: Option<Value> },
	/// subscription accepted; these items follow
	Items(Vec<Value>),
}

fn want_err(e: ErrorObjectOwned) -> Want {
	Want::Err {
		code: e.code(),
		message: e.message().to_string(),
		data: e.data().map(|d| serde_json::from_str(d.get()).expect("harness: error data is JSON")),
	}
}

fn expected(tag: &str, salt: u64, a: &[Value]) -> Want {
	let n = || fv::<u64>(&a[0]);
	match tag {
		"Plain::zero" => Want::Ok(v(&ret::zero(salt))),
		"Plain::one" => Want::Ok(v(&ret::one(salt, n()))),
		"Plain::two" | "Errs::with_ext" => Want::Ok(v(&ret::two(salt, n(), &fv::<String>(&a[1])))),
		"Plain::three" => Want::Ok(v(&(fv::<i64>(&a[2]), fv::<i64>(&a[1])))),
		"Plain::four" => Want::Ok(v(&ret::four(
			salt,
			n(),
			&fv::<String>(&a[1]),
			&fv::<String>(&a[2]),
			&fv::<Vec<i64>>(&a[3]),
			&fv::<Rec>(&a[4]),
		))),
		"Plain::note" | "Plain::note_async" | "Named::m_note" | "Chain::ping" => Want::Ok(Value::Null),
		"Pos::opt1" | "Pos::opt1q" | "Pos::opt1s" => Want::Ok(v(&fv::<Option<u32>>(&a[1]).map(|x| x ^ (salt as u32)))),
		"Pos::opt2" => Want::Ok(ret::opt2(salt, n(), &fv::<String>(&a[1]), &fv(&a[2]), &fv(&a[3]))),
		"Pos::mid" => Want::Ok(v(&(fv::<Option<i64>>(&a[1]), format!("{}{salt}", fv::<String>(&a[2]))))),
		"Pos::opt3" => Want::Ok(v(&ret::opt3(salt, &fv(&a[1]), &fv(&a[2]), &fv(&a[3])))),
		"Named::m1" => Want::Ok(v(&(fv::<i64>(&a[1]) ^ (salt as i64)))),
		"Named::m2" => Want::Ok(v(&vec![fv::<String>(&a[2]), salt.to_string(), fv::<String>(&a[1])])),
		"Named::only_filter" => {
			let f = fv::<Filter>(&a[0]);
			Want::Ok(v(&Filter { min: f.max, max: f.min, tag: Some(format!("{salt}:{}", f.tag.unwrap_or_default())) }))
		}
		"Named::raw_ident" => Want::Ok(v(&format!("{salt}:{}:{}", fv::<String>(&a[1]), fv::<Option<i64>>(&a[2]).unwrap_or(-1)))),
		"Named::only_labels" => {
			let mut m = fv::<HashMap<String, i64>>(&a[0]);
			m.insert("salt".into(), salt as i64);
			Want::Ok(v(&m))
		}
		"Named::m3" => Want::Ok(v(&(fv::<Kind>(&a[1]), fv::<Tagged>(&a[2]), fv::<Vec<String>>(&a[3])))),
		"Named::m_opt" => Want::Ok(v(&fv::<Option<Rec>>(&a[3]).map(|mut r| {
			r.name = fv::<String>(&a[1]);
			r.map.insert("b".into(), fv::<Option<i64>>(&a[2]).unwrap_or(salt as i64));
			r
		}))),
		"Named::m_arr" => Want::Ok(v(&vec![fv::<u64>(&a[2]), fv::<u64>(&a[1]), salt])),
		"Chain::head" => Want::Ok(v(&match fv::<Tagged>(&a[1]) {
			Tagged::A => Tagged::C { x: "from-a".into(), y: salt },
			Tagged::B(b) => Tagged::B(b.into_iter().rev().collect()),
			Tagged::C { x, y } => Tagged::C { x: format!("{x}{x}"), y: y ^ salt },
		})),
		"Chain::kinds" => Want::Ok(v(&ret::kinds(salt, &fv::<Vec<Kind>>(&a[1]), &fv(&a[2])))),
		"Errs::fail" => want_err(ret::err(salt, fv(&a[1]), &fv::<String>(&a[2]), fv::<Option<Rec>>(&a[3]).map(|d| v(&d)))),
		"Errs::maybe" => {
			let x = fv::<Inner>(&a[2]);
			if fv::<bool>(&a[1]) { Want::Ok(v(&Inner { big: salt, ..x })) } else { want_err(CustomErr(x).into()) }
		}
		"Errs::payload" => {
			let vk = fv::<Vec<Kind>>(&a[1]);
			if fv::<bool>(&a[2]) {
				want_err(ret::err(salt, -32000 - (vk.len() as i32), "payload", Some(v(&vk))))
			} else {
				Want::Ok(v(&vk.into_iter().rev().collect::<Vec<_>>()))
			}
		}
		"Errs::fail_blocking" => want_err(ret::err(salt, fv(&a[1]), "blocking", Some(a[2].clone()))),
		"Generic::echo" => Want::Ok(v(&(fv::<Rec>(&a[1]), fv::<Option<Kind>>(&a[2])))),
		"Borrowed::cow" => Want::Ok(v(&ret::cow(salt, &fv::<String>(&a[1]), fv::<Option<String>>(&a[2]).as_deref()))),
		"Borrowed::refstr" => Want::Ok(v(&ret::cow(salt, &fv::<String>(&a[1]), None))),
		"Subs::plain" => Want::Ok(v(&fv::<i64>(&a[1]).wrapping_sub(salt as i64))),
		"Subs::items" => {
			let (count, payload, mode) = (fv::<u8>(&a[1]), fv::<Rec>(&a[2]), fv::<u8>(&a[3]));
			if mode == 2 {
				want_err(ret::err(salt, -32050 - count as i32, "rejected", Some(v(&payload))))
			} else {
				Want::Items((0..count as u32).map(|seq| v(&ret::item(salt, n(), seq, &payload))).collect())
			}
		}
		"Subs::sub_opt" => Want::Items((0..2u32).map(|seq| v(&(n(), seq, fv::<Option<Kind>>(&a[2])))).collect()),
		"Subs::sub_sync" => Want::Items(vec![v(&ret::two(salt, n(), &fv::<String>(&a[1])))]),
		"Subs::tick" => Want::Items(vec![v(&salt), v(&salt.wrapping_add(1))]),
		"Generic::gsub" => Want::Items(vec![a[1].clone()]),
		other => panic!("harness: no expectation for {other}"),
	}
}

// ---------------------------------------------------------------------------------------------------------------
// Environment: in-memory server, real WS client over a duplex pipe, real HTTP client over a forwarding middleware.

type Seen = Arc<Mutex<Vec<Value>>>;

#[derive(Clone)]
struct MemLayer {
	builder: jrv::memsrv::SvcBuilder,
	methods: jsonrpsee::server::Methods,
	stop: jsonrpsee::server::StopHandle,
	seen: Seen,
}

impl<S> tower::Layer<S> for MemLayer {
	type Service = MemSvc;
	fn layer(&self, _backend: S) -> MemSvc {
		MemSvc(self.clone())
	}
}

type Chunked = StreamBody<futures_util::stream::Iter<std::vec::IntoIter<Result<http_body::Frame<Bytes>, std::convert::Infallible>>>>;

/// Mixed into the choice of the cuts. 0 in a run; a replay walks through 0..256, because the bytes of a replayed request
/// differ from the recorded ones in the request id (a fresh client counts from 0) and would be cut elsewhere.
pub static CUT_SALT: std::sync::atomic::AtomicU64 = std::sync::atomic::AtomicU64::new(0);
pub static HTTP_BODIES_IN_SEVERAL_FRAMES: std::sync::atomic::AtomicU64 = std::sync::atomic::AtomicU64::new(0);
pub static HTTP_FRAME_STARTS_AT_BLANK: std::sync::atomic::AtomicU64 = std::sync::atomic::AtomicU64::new(0);
pub static HTTP_FRAME_STARTS_INSIDE_CHARACTER: std::sync::atomic::AtomicU64 = std::sync::atomic::AtomicU64::new(0);

/// A body travels in whatever frames the transport cuts it into. The cuts are a function of the bytes (so that a case
/// replays): none for a quarter of the bodies; otherwise up to three, preferably right before a blank or in the middle of
/// a multi-byte character, now and then with an empty frame in between.
fn chunked(bytes: Bytes) -> Chunked {
	use std::sync::atomic::Ordering::Relaxed;
	let mut h: u64 = 0xcbf29ce484222325;
	for b in bytes.iter() {
		h = (h ^ *b as u64).wrapping_mul(0x100000001b3);
	}
	let salt = CUT_SALT.load(Relaxed);
	if salt != 0 {
		h = (h ^ salt).wrapping_mul(0x100000001b3) | 1;
	}
	let mut cuts: Vec<usize> = Vec::new();
	if h % 4 != 0 && bytes.len() > 1 {
		let blanks: Vec<usize> = (1..bytes.len()).filter(|p| bytes[*p] == b' ').collect();
		let inside: Vec<usize> = (1..bytes.len()).filter(|p| bytes[*p] & 0xC0 == 0x80).collect();
		let mut x = h >> 2;
		for _ in 0..(1 + (h >> 8) % 3) {
			x = x.wrapping_mul(6364136223846793005).wrapping_add(1442695040888963407);
			let pick = (x >> 33) as usize;
			let at = match (x >> 29) % 4 {
				0 | 1 if !blanks.is_empty() => blanks[pick % blanks.len()],
				2 if !inside.is_empty() => inside[pick % inside.len()],
				0 if !inside.is_empty() => inside[pick % inside.len()],
				_ => 1 + pick % (bytes.len() - 1),
			};
			cuts.push(at);
		}
		cuts.sort();
		cuts.dedup();
		HTTP_BODIES_IN_SEVERAL_FRAMES.fetch_add(1, Relaxed);
	}
	let mut frames = Vec::new();
	let mut from = 0;
	for c in cuts.iter().copied().chain(std::iter::once(bytes.len())) {
		if from > 0 {
			if bytes[from] == b' ' {
				HTTP_FRAME_STARTS_AT_BLANK.fetch_add(1, Relaxed);
			} else if bytes[from] & 0xC0 == 0x80 {
				HTTP_FRAME_STARTS_INSIDE_CHARACTER.fetch_add(1, Relaxed);
			}
			if (h >> 16) % 5 == 0 {
				frames.push(Ok(http_body::Frame::data(Bytes::new())));
			}
		}
		frames.push(Ok(http_body::Frame::data(bytes.slice(from..c))));
		from = c;
	}
	StreamBody::new(futures_util::stream::iter(frames))
}

/// Replaces the socket backend of the HTTP client: every request goes to a fresh per-connection tower service of the
/// in-memory server. The request text is kept (the wire as the server sees it).
#[derive(Clone)]
struct MemSvc(MemLayer);

impl tower::Service<HttpRequest> for MemSvc {
	type Response = HttpResponse<Chunked>;
	type Error = transport::Error;
	type Future = Pin<Box<dyn Future<Output = Result<Self::Response, Self::Error>> + Send>>;

	fn poll_ready(&mut self, _cx: &mut std::task::Context<'_>) -> std::task::Poll<Result<(), Self::Error>> {
		std::task::Poll::Ready(Ok(()))
	}

	fn call(&mut self, req: HttpRequest) -> Self::Future {
		let l = self.0.clone();
		Box::pin(async move {
			let mut svc = l.builder.clone().build(l.methods.clone(), l.stop.clone());
			let (parts, body) = req.into_parts();
			let bytes = body.collect().await.map_err(|e| transport::Error::Url(format!("harness: request body: {e}")))?.to_bytes();
			l.seen.lock().unwrap().push(serde_json::from_slice(&bytes).unwrap_or_else(|_| json!({"unparsable": String::from_utf8_lossy(&bytes)})));
			let req = http::Request::from_parts(parts, chunked(bytes));
			let resp = tower::Service::call(&mut svc, req).await.map_err(|e| transport::Error::Url(format!("harness: service: {e}")))?;
			let (parts, body) = resp.into_parts();
			let bytes = body.collect().await.map_err(|e| transport::Error::Url(format!("harness: response body: {e}")))?.to_bytes();
			Ok(http::Response::from_parts(parts, chunked(bytes)))
		})
	}
}

type WsC = jsonrpsee::core::client::Client;
type HttpC = HttpClient<RpcLogger<RpcService<MemSvc>>>;

struct Env {
	srv: MemServer,
	log: Arc<Log>,
	salt: u64,
	ws: WsC,
	http: HttpC,
	seen: Seen,
}

const REAL_REQUEST_TIMEOUT: Duration = Duration::from_secs(3600);
/// virtual time: firing means the runtime was idle, i.e. the awaited thing can never complete
const QUIESCENCE: Duration = Duration::from_secs(120);

async fn tmo<F: Future>(f: F) -> Option<F::Output> {
	tokio::time::timeout(QUIESCENCE, f).await.ok()
}

async fn ws_client(srv: &MemServer) -> Result<WsC, String> {
	let (io, _jh) = srv.raw_conn();
	let url = url::Url::parse("ws://localhost:9944").expect("url");
	let (tx, rx) = tmo(jsonrpsee_client_transport::ws::WsTransportClientBuilder::default().build_with_stream(url, io))
		.await
		.ok_or("ws handshake never completed")?
		.map_err(|e| format!("ws handshake: {e}"))?;
	Ok(jsonrpsee::core::client::ClientBuilder::default().request_timeout(REAL_REQUEST_TIMEOUT).build_with_tokio(tx, rx))
}

impl Env {
	async fn new(salt: u64) -> Result<Env, String> {
		let log = Arc::new(Log::default());
		let module = build_module(&Srv { log: log.clone(), salt });
		let srv = MemServer::new(ServerConfig::default(), module);
		let ws = ws_client(&srv).await?;
		let seen: Seen = Default::default();
		let layer = MemLayer { builder: srv.builder.clone(), methods: srv.methods.clone(), stop: srv.stop_handle.clone(), seen: seen.clone() };
		let http = HttpClientBuilder::default()
			.request_timeout(REAL_REQUEST_TIMEOUT)
			.set_http_middleware(tower::ServiceBuilder::new().layer(layer))
			.build("http://localhost:9944")
			.map_err(|e| format!("http client: {e}"))?;
		Ok(Env { srv, log, salt, ws, http, seen })
	}
}

// ---------------------------------------------------------------------------------------------------------------
// Cases.

#[derive(Clone, Debug, Serialize, Deserialize)]
struct Case {
	/// handler, e.g. "Plain::two"
	tag: String,
	/// "typed" (generated client stub) | "raw" (request/notification/subscribe by wire name) | "peer" (raw WebSocket peer)
	path: String,
	/// "ws" | "http"
	via: String,
	/// wire name used by raw / peer calls
	name: String,
	/// "primary" | "alias"
	name_kind: String,
	/// raw / peer: "array" | "map" | "none" (no params member); typed: the declared kind
	enc: String,
	/// all declared arguments in declaration order (absent optional = null)
	args: Vec<Value>,
	/// raw / peer: argument i is not transmitted (only null-valued optionals; for "array" only a suffix)
	omit: Vec<bool>,
	/// raw map: use the alternative spelling of the keys where one exists
	alt_keys: bool,
	/// raw map: member order
	order: Vec<usize>,
	/// subscriptions: "handle" (Subscription::unsubscribe) or the wire name of the unsubscribe call
	unsub: String,
	/// raw / peer: how the params text is laid out - 0 compact, 1 spaces, 2 line feeds and tabs, 3 CRLF line ends (what a
	/// pretty-printer on Windows produces); insignificant whitespace never changes the arguments
	#[serde(default)]
	ws_style: u8,
}

struct RawParams(Option<String>);
impl ToRpcParams for RawParams {
	fn to_rpc_params(self) -> Result<Option<Box<RawValue>>, serde_json::Error> {
		self.0.map(RawValue::from_string).transpose()
	}
}

fn params_text(md: &MD, case: &Case) -> Option<String> {
	match case.enc.as_str() {
		"none" => None,
		"array" => {
			let parts: Vec<String> =
				case.args.iter().zip(&case.omit).filter(|(_, o)| !**o).map(|(a, _)| serde_json::to_string(a).unwrap()).collect();
			let (open, sep, close) = layout(case.ws_style);
			Some(format!("[{open}{}{close}]", parts.join(&format!(",{sep}"))))
		}
		_ => {
			let mut parts = Vec::new();
			for &i in &case.order {
				if case.omit[i] {
					continue;
				}
				let p = &md.params[i];
				let key = if case.alt_keys && !p.alts.is_empty() { p.alts[0] } else { p.name };
				parts.push(format!("{}:{}", serde_json::to_string(key).unwrap(), serde_json::to_string(&case.args[i]).unwrap()));
			}
			let (open, sep, close) = layout(case.ws_style);
			Some(format!("{{{open}{}{close}}}", parts.join(&format!(",{sep}"))))
		}
	}
}

/// (after the opening bracket, after each comma, before the closing bracket)
fn layout(style: u8) -> (&'static str, &'static str, &'static str) {
	match style {
		1 => (" ", " ", " "),
		2 => ("\n\t", "\n\t", "\n"),
		3 => ("\r\n  ", "\r\n  ", "\r\n"),
		_ => ("", "", ""),
	}
}

fn gen_case(r: &mut Rng, nonce: u64) -> Case {
	let md = loop {
		let m = r.pick(METHODS);
		if (m.tag == "Borrowed::refstr" && !INCLUDE_BORROWED_STR) || (m.notif && !INCLUDE_NOTIFICATIONS) {
			continue;
		}
		break m;
	};
	let mut args = gen_args(r, md, nonce);
	let n = md.params.len();
	let is_sub = md.sub.is_some();
	let path = if is_sub {
		match r.below(20) {
			0..=7 => "typed",
			8..=14 => "raw",
			_ => "peer",
		}
	} else if r.bool() {
		"typed"
	} else {
		"raw"
	};
	let via = if is_sub || r.bool() { "ws" } else { "http" };
	let mut omit = vec![false; n];
	let mut order: Vec<usize> = (0..n).collect();
	let mut alt_keys = false;
	let (mut name, mut name_kind, mut enc) = (md.wire, "primary", md.kind.name());
	if path != "typed" {
		if !md.aliases.is_empty() && r.chance(2, 5) {
			name = *r.pick(md.aliases);
			name_kind = "alias";
		}
		enc = if n == 0 {
			if r.bool() { "none" } else { "array" }
		} else if r.bool() {
			"array"
		} else {
			"map"
		};
		if enc == "array" {
			let run = md.params.iter().rev().take_while(|p| p.opt).count();
			if run > 0 && r.chance(2, 3) {
				// omit a suffix: those arguments are absent, i.e. None on the server
				let j = r.usize(run) + 1;
				for i in n - j..n {
					args[i] = Value::Null;
					omit[i] = true;
				}
			}
		} else if enc == "map" {
			for i in 0..n {
				if md.params[i].opt {
					if r.chance(1, 4) {
						args[i] = Value::Null;
					}
					if args[i].is_null() && r.chance(2, 3) {
						omit[i] = true;
					}
				}
			}
			r.shuffle(&mut order);
			alt_keys = r.chance(1, 6) && md.params.iter().any(|p| !p.alts.is_empty());
		}
	}
	let unsub = match md.sub {
		Some(s) => match r.below(3) {
			0 if path != "peer" => "handle".to_string(),
			1 if !s.unsub_aliases.is_empty() => r.pick(s.unsub_aliases).to_string(),
			_ => s.unsub.to_string(),
		},
		None => String::new(),
	};
	Case {
		tag: md.tag.into(),
		path: path.into(),
		via: via.into(),
		name: name.into(),
		name_kind: name_kind.into(),
		enc: enc.into(),
		args,
		omit,
		alt_keys,
		order,
		unsub,
		ws_style: r.below(4) as u8,
	}
}

// ---------------------------------------------------------------------------------------------------------------
// Observations.

#[derive(Clone, Debug, PartialEq)]
enum Got {
	Ok(Value),
	CallErr { code: i32, message: String, data: Option<Value> },
	/// any other client-side error: (variant, text)
	ClientErr(String, String),
	/// the future did not complete although the runtime went idle
	Stuck,
}

fn got_from<T: Serialize>(r: Option<Result<T, ClientError>>) -> Got {
	match r {
		None => Got::Stuck,
		Some(Ok(t)) => Got::Ok(v(&t)),
		Some(Err(ClientError::Call(e))) => Got::CallErr {
			code: e.code(),
			message: e.message().to_string(),
			data: e.data().map(|d| serde_json::from_str(d.get()).unwrap_or_else(|_| json!({"unparsable": d.get()}))),
		},
		Some(Err(e)) => {
			let dbg = format!("{e:?}");
			let variant: String = dbg.chars().take_while(|c| c.is_ascii_alphanumeric()).collect();
			Got::ClientErr(variant, e.to_string())
		}
	}
}

#[derive(Clone, Debug, Default)]
struct SubObs {
	sub_id: Value,
	items: Vec<Result<Value, String>>,
	/// what stopped the item loop early, if anything
	short: Option<String>,
	/// result of the unsubscribe operation (true expected)
	unsub: Option<Got>,
	/// the server-side sink reported closed after the unsubscribe
	closed_seen: Option<bool>,
	/// peer path: `method` members of the notifications
	notif_methods: Vec<String>,
}

enum Obs {
	Call(Got),
	Sub(SubObs),
}

async fn wait_log(log: &Log, cond: impl Fn(&Log) -> bool) -> bool {
	loop {
		let n = log.notify.notified();
		tokio::pin!(n);
		n.as_mut().enable();
		if cond(log) {
			return true;
		}
		if tokio::time::timeout(QUIESCENCE, n).await.is_err() {
			return cond(log);
		}
	}
}

async fn drive_sub<T, C>(c: &C, mut sub: Subscription<T>, want_items: usize, unsub: &str, log: &Log, nonce: Option<u64>) -> Obs
where
	T: DeserializeOwned + Serialize,
	C: SubscriptionClientT + Sync,
{
	let mut o = SubObs::default();
	o.sub_id = match sub.kind() {
		SubscriptionKind::Subscription(id) => v(id),
		SubscriptionKind::Method(m) => json!({"method": m}),
		_ => json!("unknown subscription kind"),
	};
	for _ in 0..want_items {
		match tmo(sub.next()).await {
			None => {
				o.short = Some("no further item although the runtime went idle".into());
				break;
			}
			Some(None) => {
				o.short = Some("stream ended".into());
				break;
			}
			Some(Some(Ok(t))) => o.items.push(Ok(v(&t))),
			Some(Some(Err(e))) => o.items.push(Err(e.to_string())),
		}
	}
	if unsub == "handle" {
		o.unsub = Some(got_from(tmo(sub.unsubscribe()).await.map(|r| r.map(|()| true))));
	} else {
		let params = RawParams(Some(format!("[{}]", o.sub_id)));
		o.unsub = Some(got_from(tmo(c.request::<Value, _>(unsub, params)).await));
		drop(sub);
	}
	if let Some(nonce) = nonce {
		o.closed_seen = Some(wait_log(log, |l| l.was_closed(nonce)).await);
	}
	Obs::Sub(o)
}

/// Call through the generated client trait.
async fn typed_call<C: SubscriptionClientT + Sync>(c: &C, case: &Case, log: &Log) -> Obs {
	let a = &case.args;
	macro_rules! tc {
		($f:path $(, $t:ty)*) => {{
			let mut _i = 0usize;
			Obs::Call(got_from(tmo($f(c $(, { let x = fv::<$t>(&a[_i]); _i += 1; x })*)).await))
		}};
	}
	macro_rules! ts {
		($n:expr, $f:path $(, $t:ty)*) => {{
			let mut _i = 0usize;
			match tmo($f(c $(, { let x = fv::<$t>(&a[_i]); _i += 1; x })*)).await {
				Some(Ok(sub)) => drive_sub(c, sub, $n, &case.unsub, log, a.first().map(|n| fv::<u64>(n))).await,
				Some(Err(e)) => Obs::Call(got_from::<Value>(Some(Err(e)))),
				None => Obs::Call(Got::Stuck),
			}
		}};
	}
	let n_items = match expected(&case.tag, 0, a) {
		Want::Items(i) => i.len(),
		_ => 0,
	};
	match case.tag.as_str() {
		"Plain::zero" => tc!(PlainClient::zero),
		"Plain::one" => tc!(PlainClient::one, u64),
		"Plain::two" => tc!(PlainClient::two, u64, String),
		"Plain::three" => tc!(PlainClient::three, u64, i64, i64),
		"Plain::four" => tc!(PlainClient::four, u64, String, String, Vec<i64>, Rec),
		"Plain::note" => tc!(PlainClient::note, u64, String),
		"Plain::note_async" => tc!(PlainClient::note_async, u64, HashMap<String, i64>),
		"Pos::opt1" => tc!(PosClient::opt1, u64, Option<u32>),
		"Pos::opt1q" => tc!(PosClient::opt1q, u64, Option<u32>),
		"Pos::opt1s" => tc!(PosClient::opt1s, u64, Option<u32>),
		"Pos::opt2" => tc!(PosClient::opt2, u64, String, Option<String>, Option<Inner>),
		"Pos::mid" => tc!(PosClient::mid, u64, Option<i64>, String),
		"Pos::opt3" => tc!(PosClient::opt3, u64, Option<Vec<u8>>, Option<Kind>, Option<HashMap<String, i64>>),
		"Named::m1" => tc!(NamedClient::m1, u64, i64),
		"Named::m2" => tc!(NamedClient::m2, u64, String, String),
		"Named::m3" => tc!(NamedClient::m3, u64, Kind, Tagged, Vec<String>),
		"Named::m_opt" => tc!(NamedClient::m_opt, u64, String, Option<i64>, Option<Rec>),
		"Named::m_arr" => tc!(NamedClient::m_arr, u64, u64, u64),
		"Named::m_note" => tc!(NamedClient::m_note, u64, Rec),
		"Named::only_filter" => tc!(NamedClient::only_filter, Filter),
		"Named::only_labels" => tc!(NamedClient::only_labels, HashMap<String, i64>),
		"Named::raw_ident" => tc!(NamedClient::raw_ident, u64, String, Option<i64>),
		"Chain::head" => tc!(ChainClient::head, u64, Tagged),
		"Chain::ping" => tc!(ChainClient::ping),
		"Chain::kinds" => tc!(ChainClient::kinds, u64, Vec<Kind>, HashMap<String, i64>),
		"Errs::fail" => tc!(ErrsClient::fail, u64, i32, String, Option<Rec>),
		"Errs::maybe" => tc!(ErrsClient::maybe, u64, bool, Inner),
		"Errs::payload" => tc!(ErrsClient::payload, u64, Vec<Kind>, bool),
		"Errs::fail_blocking" => tc!(ErrsClient::fail_blocking, u64, i32, HashMap<String, i64>),
		"Errs::with_ext" => tc!(ErrsClient::with_ext, u64, String),
		"Generic::echo" => tc!(GenericClient::<Rec, Kind>::echo, u64, Rec, Option<Kind>),
		"Borrowed::cow" => {
			let (s, b) = (fv::<String>(&a[1]), fv::<Option<String>>(&a[2]));
			Obs::Call(got_from(tmo(BorrowedClient::cow(c, fv(&a[0]), Cow::Borrowed(s.as_str()), b.as_deref().map(Cow::Borrowed))).await))
		}
		"Borrowed::refstr" => {
			let s = fv::<String>(&a[1]);
			Obs::Call(got_from(tmo(BorrowedClient::refstr(c, fv(&a[0]), s.as_str())).await))
		}
		"Subs::plain" => tc!(SubsClient::plain, u64, i64),
		"Subs::items" => ts!(n_items, SubsClient::items, u64, u8, Rec, u8),
		"Subs::sub_opt" => ts!(n_items, SubsClient::sub_opt, u64, String, Option<Kind>),
		"Subs::sub_sync" => ts!(n_items, SubsClient::sub_sync, u64, String),
		"Subs::tick" => ts!(n_items, SubsClient::tick),
		"Generic::gsub" => ts!(n_items, GenericClient::<Rec, Kind>::gsub, u64, Rec),
		other => panic!("harness: no typed call for {other}"),
	}
}

/// Call by wire name with hand-built params.
async fn raw_call<C: SubscriptionClientT + Sync>(c: &C, md: &MD, case: &Case, log: &Log) -> Obs {
	let params = RawParams(params_text(md, case));
	if let Some(s) = md.sub {
		let n_items = match expected(&case.tag, 0, &case.args) {
			Want::Items(i) => i.len(),
			_ => 0,
		};
		// the unsubscribe name handed to `subscribe` is only used by the handle
		match tmo(c.subscribe::<Value, _>(&case.name, params, s.unsub)).await {
			Some(Ok(sub)) => drive_sub(c, sub, n_items, &case.unsub, log, case.args.first().map(fv::<u64>)).await,
			Some(Err(e)) => Obs::Call(got_from::<Value>(Some(Err(e)))),
			None => Obs::Call(Got::Stuck),
		}
	} else if md.notif {
		Obs::Call(got_from(tmo(c.notification(&case.name, params)).await))
	} else {
		Obs::Call(got_from(tmo(c.request::<Value, _>(&case.name, params)).await))
	}
}

/// Subscription through a raw WebSocket peer: shows the notification method name on the wire.
async fn peer_sub(env: &Env, md: &MD, case: &Case) -> Result<Obs, String> {
	let mut peer = env.srv.ws().await.map_err(|e| format!("peer handshake: {e:?}"))?;
	let params = params_text(md, case).map(|p| format!(",\"params\":{p}")).unwrap_or_default();
	let msg = format!("{{\"jsonrpc\":\"2.0\",\"id\":1,\"method\":{}{params}}}", serde_json::to_string(&case.name).unwrap());
	peer.send_text(&msg).await?;
	let n_items = match expected(&case.tag, 0, &case.args) {
		Want::Items(i) => i.len(),
		_ => 0,
	};
	let mut o = SubObs::default();
	let mut have_response = false;
	while !have_response || o.items.len() < n_items {
		let f = match peer.recv(QUIESCENCE).await {
			Recv::Frame(f) => f,
			Recv::Idle => {
				if !have_response {
					return Ok(Obs::Call(Got::Stuck));
				}
				o.short = Some("no further frame although the runtime went idle".into());
				break;
			}
			Recv::Closed(_) => {
				if !have_response {
					return Ok(Obs::Call(Got::ClientErr("PeerClosed".into(), "connection closed before the response".into())));
				}
				o.short = Some("connection closed".into());
				break;
			}
		};
		let j = f.json().ok_or_else(|| format!("peer: frame is not JSON: {}", f.text()))?;
		if j.get("id") == Some(&json!(1)) {
			have_response = true;
			if let Some(e) = j.get("error") {
				return Ok(Obs::Call(Got::CallErr {
					code: e["code"].as_i64().unwrap_or(0) as i32,
					message: e["message"].as_str().unwrap_or("").to_string(),
					data: e.get("data").cloned(),
				}));
			}
			o.sub_id = j["result"].clone();
		} else if let Some(m) = j.get("method").and_then(|m| m.as_str()) {
			o.notif_methods.push(m.to_string());
			if have_response && j["params"]["subscription"] != o.sub_id {
				o.items.push(Err(format!("notification for another subscription: {j}")));
			} else {
				o.items.push(Ok(j["params"]["result"].clone()));
			}
		} else {
			return Err(format!("peer: unexpected frame {j}"));
		}
	}
	let unsub = format!("{{\"jsonrpc\":\"2.0\",\"id\":2,\"method\":{},\"params\":[{}]}}", serde_json::to_string(&case.unsub).unwrap(), o.sub_id);
	peer.send_text(&unsub).await?;
	o.unsub = Some(loop {
		match peer.recv(QUIESCENCE).await {
			Recv::Frame(f) => {
				let Some(j) = f.json() else { continue };
				if j.get("id") == Some(&json!(2)) {
					break match j.get("error") {
						Some(e) => Got::CallErr {
							code: e["code"].as_i64().unwrap_or(0) as i32,
							message: e["message"].as_str().unwrap_or("").to_string(),
							data: e.get("data").cloned(),
						},
						None => Got::Ok(j["result"].clone()),
					};
				}
			}
			Recv::Idle => break Got::Stuck,
			Recv::Closed(_) => break Got::ClientErr("PeerClosed".into(), "connection closed before the unsubscribe response".into()),
		}
	});
	if let Some(n) = case.args.first() {
		let nonce = fv::<u64>(n);
		o.closed_seen = Some(wait_log(&env.log, |l| l.was_closed(nonce)).await);
	}
	peer.close().await;
	Ok(Obs::Sub(o))
}

/// Directed family: the items of a macro-declared subscription reach a consumer that does not read for a while. The
/// handler (mode 3) bounds every send with `send_timeout` and sends again what the error gives back; the connection's
/// message buffer and the pipe are small, so attempts run into the limit. Every item the consumer eventually reads must be
/// the value the handler produced, in order, under the declared notification name.
async fn slow_consumer_case(seed: u64) -> Result<(Vec<Violation>, u64, u64), String> {
	let mut r = Rng::new(seed);
	let salt = r.next_u64() | 1;
	let log = Arc::new(Log::default());
	let module = build_module(&Srv { log: log.clone(), salt });
	let mut srv = MemServer::new(ServerConfig::builder().set_message_buffer_capacity(1 + r.below(2) as u32).build(), module);
	srv.duplex_capacity = 256 + r.usize(512);
	let mut peer = srv.ws().await.map_err(|e| format!("peer handshake: {e:?}"))?;
	let nonce = r.next_u64() >> 12;
	let count = 3 + r.below(6) as u8;
	let payload = g_rec(&mut r, 2);
	let args = vec![v(&nonce), v(&count), v(&payload), v(&3u8)];
	let before = SEND_TIMEOUTS.load(std::sync::atomic::Ordering::Relaxed);
	let msg = format!("{{\"jsonrpc\":\"2.0\",\"id\":1,\"method\":\"sub_subscribeItems\",\"params\":{}}}", Value::Array(args.clone()));
	peer.send_text(&msg).await?;
	peer.set_reading(false);
	tokio::time::sleep(Duration::from_millis(5 + r.below(40))).await;
	peer.set_reading(true);
	let Want::Items(want) = expected("Subs::items", salt, &args) else { unreachable!() };
	let mut sub_id = Value::Null;
	let mut got: Vec<Value> = Vec::new();
	let mut names = Vec::new();
	let mut have_response = false;
	let mut short = None;
	while !have_response || got.len() < want.len() {
		match peer.recv(QUIESCENCE).await {
			Recv::Frame(f) => {
				let j = f.json().ok_or_else(|| format!("peer: frame is not JSON: {}", f.text()))?;
				if j.get("id") == Some(&json!(1)) {
					have_response = true;
					sub_id = j["result"].clone();
				} else {
					names.push(j["method"].as_str().unwrap_or("").to_string());
					if j["params"]["subscription"] != sub_id {
						got.push(json!({"notification for another subscription": j}));
					} else {
						got.push(j["params"]["result"].clone());
					}
				}
			}
			Recv::Idle => {
				short = Some("no further frame although the runtime went idle");
				break;
			}
			Recv::Closed(_) => {
				short = Some("connection closed");
				break;
			}
		}
	}
	let timeouts = SEND_TIMEOUTS.load(std::sync::atomic::Ordering::Relaxed) - before;
	let mut violations = Vec::new();
	let witness = json!({"scenario": "slow consumer", "seed": seed, "count": count, "send_timeouts_during_case": timeouts});
	if got != want {
		let first = got.iter().zip(want.iter()).position(|(g, w)| g != w).unwrap_or(got.len().min(want.len()));
		violations.push(Violation::new(
			"items-differ/slow-consumer/send_timeout-then-resend",
			format!(
				"subscription Subs::items (mode 3: send_timeout, re-send on timeout), consumer paused: {} item(s) read, {} produced{}; first difference at index {first}: read {} produced {}",
				got.len(),
				want.len(),
				short.map(|s| format!(" ({s})")).unwrap_or_default(),
				got.get(first).map(|g| g.to_string()).unwrap_or("nothing".into()),
				want.get(first).map(|g| g.to_string()).unwrap_or("nothing".into()),
			),
			witness.clone(),
		));
	} else if names.iter().any(|n| n != "sub_itemsNotif") {
		violations.push(Violation::new("notification-name-wrong/slow-consumer", format!("notification names {names:?}, declared sub_itemsNotif"), witness));
	}
	peer.close().await;
	Ok((violations, got.len() as u64, timeouts))
}

// ---------------------------------------------------------------------------------------------------------------
// Oracle.

#[derive(Default)]
struct CaseOut {
	violations: Vec<Violation>,
	invocations: u64,
	items: u64,
	/// handler ran exactly once with a recorded argument list and the client-side operation completed
	nontrivial: bool,
	alt_key_rejected: bool,
	feature: String,
}

fn tail_shape(md: &MD, case: &Case) -> &'static str {
	let mut shape = "na";
	for (i, p) in md.params.iter().enumerate() {
		if !p.opt {
			continue;
		}
		if case.omit[i] {
			return "omitted";
		}
		if case.args[i].is_null() {
			shape = "null";
		} else if shape == "na" {
			shape = "passed";
		}
	}
	shape
}

fn feature(md: &MD, case: &Case) -> String {
	let kind = if md.sub.is_some() {
		"subscription"
	} else if md.notif {
		"notification"
	} else {
		"method"
	};
	format!("enc={},tail={},name={}{},kind={}", case.enc, tail_shape(md, case), case.name_kind, if case.alt_keys { ",keys=alt" } else { "" }, kind)
}

fn got_json(g: &Got) -> Value {
	match g {
		Got::Ok(x) => json!({"ok": x}),
		Got::CallErr { code, message, data } => json!({"error": {"code": code, "message": message, "data": data}}),
		Got::ClientErr(variant, text) => json!({"client_error": variant, "text": text}),
		Got::Stuck => json!("never completed (runtime idle)"),
	}
}
fn want_json(w: &Want) -> Value {
	match w {
		Want::Ok(x) => json!({"ok": x}),
		Want::Err { code, message, data } => json!({"error": {"code": code, "message": message, "data": data}}),
		Want::Items(i) => json!({"items": i}),
	}
}

async fn run_case(env: &Env, case: &Case) -> Result<CaseOut, String> {
	let md = method(&case.tag).ok_or_else(|| format!("unknown handler {}", case.tag))?;
	if case.args.len() != md.params.len() || case.omit.len() != md.params.len() {
		return Err("case does not match the declaration".into());
	}
	let feat = feature(md, case);
	let mut out = CaseOut { feature: feat.clone(), ..Default::default() };
	let want = expected(&case.tag, env.salt, &case.args);

	let late = env.log.drain();
	env.seen.lock().unwrap().clear();

	let obs = match (case.path.as_str(), case.via.as_str()) {
		("typed", "ws") => typed_call(&env.ws, case, &env.log).await,
		("typed", _) => typed_call(&env.http, case, &env.log).await,
		("raw", "ws") => raw_call(&env.ws, md, case, &env.log).await,
		("raw", _) => raw_call(&env.http, md, case, &env.log).await,
		_ => peer_sub(env, md, case).await?,
	};
	if md.notif && matches!(obs, Obs::Call(Got::Ok(_))) {
		// a notification has no reply: wait until the handler ran or the runtime is idle
		wait_log(&env.log, |l| l.len() >= 1).await;
	}
	let entries = env.log.drain();
	let wire = std::mem::take(&mut *env.seen.lock().unwrap());
	out.invocations = entries.len() as u64;

	let (got_j, sub_j) = match &obs {
		Obs::Call(g) => (got_json(g), Value::Null),
		Obs::Sub(o) => (
			Value::Null,
			json!({"sub_id": o.sub_id, "items": o.items.iter().map(|i| match i { Ok(x) => x.clone(), Err(e) => json!({"item_error": e}) }).collect::<Vec<_>>(),
				"short": o.short, "unsubscribe": o.unsub.as_ref().map(got_json), "closed_seen": o.closed_seen, "notification_methods": o.notif_methods}),
		),
	};
	let witness = json!({
		"case": case, "salt": env.salt, "params_text": params_text(md, case), "expected": want_json(&want),
		"returned": got_j, "subscription": sub_j,
		"recorded": entries.iter().map(|e| json!({"handler": e.tag, "args": e.args})).collect::<Vec<_>>(),
		"http_wire": wire,
	});
	let mut viol = |kind: &str, extra: &str, detail: String| {
		// subscription-stream anomalies do not depend on how the subscribe call was encoded: classify by handler
		let scope = match kind {
			"item-mismatch" | "item-undecodable" | "items-missing" | "notification-name-mismatch" | "unsubscribe-failed" | "unsubscribe-not-effective" => {
				format!("handler={}", case.tag)
			}
			_ => feat.clone(),
		};
		let sig = if extra.is_empty() { format!("{kind}/{scope}") } else { format!("{kind}/{scope},{extra}") };
		out.violations.push(Violation::new(sig, format!("{} [path={} via={} {feat}]: {detail}", case.tag, case.path, case.via), witness.clone()));
	};

	if !late.is_empty() {
		viol("late-invocation", "", format!("handler(s) ran after the previous case had completed: {:?}", late.iter().map(|e| e.tag).collect::<Vec<_>>()));
	}

	// by-name keys in the other spelling: the statement does not demand acceptance; if accepted, values must be equal
	if case.alt_keys && entries.is_empty() && matches!(&obs, Obs::Call(Got::CallErr { code: -32602, .. })) {
		out.alt_key_rejected = true;
		return Ok(out);
	}

	// A notification has no reply: non-invocation is the only observable, whatever the encoding / name used.
	if md.notif && entries.is_empty() && matches!(&obs, Obs::Call(Got::Ok(_))) {
		out.violations.push(Violation::new(
			"notification-not-delivered/kind=notification",
			format!("{}: the client operation succeeded but no server method ever ran (runtime idle)", case.tag),
			witness.clone(),
		));
		return Ok(out);
	}
	// The server refused the call before any method ran: one anomaly (not also a lost value).
	if entries.is_empty() {
		if let Obs::Call(Got::CallErr { code, message, data }) = &obs {
			out.violations.push(Violation::new(
				format!("call-rejected/code={code},handler={}", case.tag),
				format!("{} [{feat}]: no server method ran, the call was answered {code} {message:?} {}", case.tag, data.clone().unwrap_or_default()),
				witness.clone(),
			));
			return Ok(out);
		}
	}

	// (a) exactly one invocation, of the declared handler, with equal argument values
	let mut invoked_ok = false;
	match entries.as_slice() {
		[] => viol("handler-not-invoked", "", format!("no server method ran; client saw {got_j} {sub_j}")),
		[e] if e.tag != md.tag => viol("wrong-handler", "", format!("{} ran instead", e.tag)),
		[e] => {
			if e.args == case.args {
				invoked_ok = true;
			} else if e.args.len() != case.args.len() {
				viol("args-mismatch", "arg-type=arity", format!("sent {} arguments, handler saw {}", case.args.len(), e.args.len()));
			} else {
				let i = (0..e.args.len()).find(|&i| e.args[i] != case.args[i]).unwrap();
				viol(
					"args-mismatch",
					&format!("arg-type={:?}{}", md.params[i].ty, if md.params[i].opt { "?" } else { "" }),
					format!("argument {i} ({}): sent {} recorded {}", md.params[i].name, case.args[i], e.args[i]),
				);
			}
		}
		many => viol("handler-invoked-multiple", "", format!("{} invocations: {:?}", many.len(), many.iter().map(|e| e.tag).collect::<Vec<_>>())),
	}

	// (b) the client receives exactly what the method returned
	let mut completed = false;
	let bad_got = |g: &Got| match g {
		Got::Ok(_) => "value".to_string(),
		Got::CallErr { code, .. } => format!("error-code={code}"),
		Got::ClientErr(variant, _) => format!("client-error={variant}"),
		Got::Stuck => "never-completed".to_string(),
	};
	match (&want, &obs) {
		(Want::Ok(w), Obs::Call(Got::Ok(g))) if w == g => completed = true,
		(Want::Ok(w), Obs::Call(Got::Ok(g))) => viol("return-mismatch", "", format!("expected {w} got {g}")),
		(Want::Ok(_), Obs::Call(g)) => viol("value-lost", &format!("got={}", bad_got(g)), format!("expected a value, client saw {}", got_json(g))),
		(Want::Err { code, message, data }, Obs::Call(Got::CallErr { code: c, message: m, data: d })) => {
			if (code, message, data) == (c, m, d) {
				completed = true;
			} else {
				let part = if code != c { "code" } else if message != m { "message" } else { "data" };
				viol("error-object-mismatch", &format!("part={part}"), format!("expected {} got {got_j}", want_json(&want)));
			}
		}
		(Want::Err { .. }, Obs::Call(g)) => viol("error-lost", &format!("got={}", bad_got(g)), format!("expected {} got {}", want_json(&want), got_json(g))),
		(Want::Err { .. }, Obs::Sub(_)) => viol("error-lost", "got=subscription", "the method rejected the subscription but the client got a subscription".into()),
		(Want::Items(_), Obs::Call(g)) => viol("subscribe-failed", &format!("got={}", bad_got(g)), format!("client saw {}", got_json(g))),
		(Want::Items(w), Obs::Sub(o)) => {
			out.items = o.items.len() as u64;
			let mut ok = true;
			for (i, it) in o.items.iter().enumerate() {
				match it {
					Ok(x) if Some(x) == w.get(i) => {}
					Ok(x) => {
						ok = false;
						viol("item-mismatch", "", format!("item {i}: expected {:?} got {x}", w.get(i)));
						break;
					}
					Err(e) => {
						ok = false;
						viol("item-undecodable", "", format!("item {i}: {e}"));
						break;
					}
				}
			}
			if let Some(why) = &o.short {
				ok = false;
				viol("items-missing", "", format!("{} of {} items, then: {why}", o.items.len(), w.len()));
			}
			if let Some(s) = md.sub {
				if let Some(m) = o.notif_methods.iter().find(|m| *m != s.notif) {
					ok = false;
					viol("notification-name-mismatch", "", format!("notification method {m:?}, declared {:?}", s.notif));
				}
				let how = if case.unsub == "handle" {
					"handle"
				} else if case.unsub == s.unsub {
					"primary"
				} else {
					"alias"
				};
				match &o.unsub {
					Some(Got::Ok(Value::Bool(true))) => {}
					other => {
						ok = false;
						viol("unsubscribe-failed", &format!("unsub={how}"), format!("unsubscribe via {:?} gave {:?}", case.unsub, other.as_ref().map(got_json)));
					}
				}
				if o.closed_seen == Some(false) {
					ok = false;
					viol("unsubscribe-not-effective", &format!("unsub={how}"), format!("the method's sink never saw the unsubscribe via {:?}", case.unsub));
				}
			}
			completed = ok;
		}
		(Want::Ok(_), Obs::Sub(_)) => viol("return-mismatch", "", "a method call produced a subscription".into()),
	}

	// (c) generated stub over HTTP: the request on the wire uses the declared name and encoding
	if case.path == "typed" && case.via == "http" {
		match wire.as_slice() {
			[req] => {
				if req["method"] != json!(md.wire) {
					viol("wire-name-mismatch", "", format!("stub sent method {} but the declaration says {:?}", req["method"], md.wire));
				}
				let ok = match (md.params.len(), md.kind, req.get("params")) {
					(0, _, None) => true,
					(0, _, Some(Value::Array(a))) => a.is_empty(),
					(_, Enc::Array, Some(Value::Array(a))) => *a == case.args,
					(_, Enc::Map, Some(Value::Object(o))) => {
						o.len() == md.params.len() && md.params.iter().zip(&case.args).all(|(p, a)| o.get(p.name) == Some(a))
					}
					_ => false,
				};
				if !ok {
					viol("wire-params-mismatch", "", format!("stub sent params {:?}", req.get("params")));
				}
			}
			other => viol("wire-request-count", "", format!("{} HTTP requests for one stub call", other.len())),
		}
	}
	out.nontrivial = invoked_ok && completed;
	Ok(out)
}

// ---------------------------------------------------------------------------------------------------------------

struct ShardOut {
	ev: Evidence,
	violations: Vec<Violation>,
	harness_errors: Vec<String>,
}

fn run_shard(seed: u64, shard: u64, n_cases: u64) -> ShardOut {
	let mut ev = Evidence::new("");
	let mut violations = Vec::new();
	let mut harness_errors = Vec::new();
	let mut r = Rng::fork(seed, shard);
	let mut witnessed: HashMap<String, u32> = HashMap::new();
	block_on_virtual(async {
		let mut env: Option<Env> = None;
		for i in 0..n_cases {
			if i % 200 == 0 {
				// fresh server + connections (new salt, request ids start over)
				env = match Env::new(r.next_u64()).await {
					Ok(e) => Some(e),
					Err(e) => {
						harness_errors.push(e);
						return;
					}
				};
			}
			let env = env.as_ref().unwrap();
			let nonce = (shard << 40) | (i + 1);
			let case = gen_case(&mut r, nonce);
			match run_case(env, &case).await {
				Ok(out) => {
					ev.eval();
					ev.count("handler_invocations", out.invocations);
					ev.count("subscription_items_received", out.items);
					ev.count(&format!("calls_{}_{}", case.path, case.via), 1);
					ev.count(&format!("enc_{}", case.enc), 1);
					if out.alt_key_rejected {
						ev.count("alt_key_spelling_rejected_not_judged", 1);
					}
					ev.class("features", &out.feature);
					ev.class("handler_x_path", &(case.tag.as_str(), case.path.as_str(), case.via.as_str()));
					ev.class("handlers", &case.tag);
					ev.count(&format!("flavor_{}", method(&case.tag).map(|m| m.flavor).unwrap_or("?")), 1);
					ev.class("wire_names", &case.name);
					if out.nontrivial {
						ev.nontrivial(&serde_json::to_string(&case).unwrap());
						ev.sample_class(&format!("{} {}", case.tag, case.path), json!({"case": case, "params_text": method(&case.tag).and_then(|m| params_text(m, &case))}));
					}
					for mut vi in out.violations {
						// keep the full witness only for the first few occurrences of a signature (memory)
						let seen = witnessed.entry(vi.signature.clone()).or_insert(0u32);
						*seen += 1;
						if *seen > 3 {
							vi.witness = Value::Null;
						}
						violations.push(vi);
					}
				}
				Err(e) => harness_errors.push(format!("case {i} of shard {shard}: {e}")),
			}
		}
	});
	ShardOut { ev, violations, harness_errors }
}

fn main() {
	let ctx = Ctx::from_env("C17", "exploration");
	install_panic_capture(true);
	let _wd = watchdog("C17", Duration::from_secs(ctx.tier.pick(300, 1800)));
	let mut ev = Evidence::new(
		"case = one call of one of the 34 declared methods/subscriptions (8 traits: no namespace / `_` / `.` / `/` separators, \
		 aliases, sync/async/blocking, notifications, Option tails, by-name, renamed args, generic trait, borrowed params, \
		 error objects, subscriptions) through {generated stub, raw call by declared wire name, raw WebSocket peer} over \
		 {real WS client, real HTTP client} in memory; raw calls vary encoding (positional / by-name / none), optional tails \
		 (passed / null / omitted), member order, primary name / alias. Non-trivial = the declared handler ran exactly once \
		 with a recorded argument list equal to the sent one AND the client-side operation completed with the expected \
		 value / error object / items; distinct by the whole case (handler, path, encoding, argument values).",
	);
	ev.assume("cases run sequentially per server, so 'exactly one log entry' identifies the invocation caused by the call");
	ev.assume("values are compared as serde_json::Value (no floats generated); every generated argument is checked to be a fixed point of its declared type");
	ev.assume("by-name keys in the alternative (snake/camel) spelling may be refused with -32602 without that counting as a violation; if accepted the values must be equal");
	ev.assume("virtual time: a 120 s timeout firing means the runtime was idle, i.e. the awaited operation can never complete; the clients' real-time request timeout is 1 h");
	let mut violations = Vec::new();
	let mut slow_errors: Vec<String> = Vec::new();

	if let Some(path) = &ctx.replay {
		let w: Value = serde_json::from_str(&std::fs::read_to_string(path).expect("replay file")).expect("json");
		if w["witness"]["scenario"] == "slow consumer" {
			let s = w["witness"]["seed"].as_u64().expect("seed");
			match block_on_virtual(slow_consumer_case(s)) {
				Ok((v, items, timeouts)) => {
					ev.eval();
					println!("replay: slow consumer seed {s}: {items} items read, {timeouts} send_timeout attempts repeated, {} violation(s)", v.len());
					for x in &v {
						println!("replay violation: {} — {}", x.signature, x.detail);
					}
					violations.extend(v);
					finish(&ctx, ev, violations, None);
				}
				Err(e) => finish(&ctx, ev, violations, Some(format!("harness error during replay: {e}"))),
			}
		}
		let case: Case = serde_json::from_value(w["witness"]["case"].clone()).expect("witness.case");
		let salt = w["witness"]["salt"].as_u64().unwrap_or(1);
		println!("replaying {} via {}/{} name={:?} enc={} params={:?}", case.tag, case.path, case.via, case.name, case.enc, method(&case.tag).and_then(|m| params_text(m, &case)));
		let mut res = block_on_virtual(async {
			let env = Env::new(salt).await?;
			run_case(&env, &case).await
		});
		if case.via == "http" {
			// the same case under other cuts of the HTTP bodies
			for cut in 1..256u64 {
				if !matches!(&res, Ok(o) if o.violations.is_empty()) {
					break;
				}
				CUT_SALT.store(cut, std::sync::atomic::Ordering::Relaxed);
				res = block_on_virtual(async {
					let env = Env::new(salt).await?;
					run_case(&env, &case).await
				});
			}
			println!("replay: HTTP bodies cut under salt {}", CUT_SALT.load(std::sync::atomic::Ordering::Relaxed));
		}
		match res {
			Ok(out) => {
				ev.eval();
				if out.nontrivial {
					ev.nontrivial("replay");
					ev.nontrivial("replay-2");
					println!("replay: the oracle accepts this case (sent == recorded, returned == expected)");
				}
				for v in &out.violations {
					println!("replay violation: {} — {}", v.signature, v.detail);
				}
				violations.extend(out.violations);
				finish(&ctx, ev, violations, None);
			}
			Err(e) => finish(&ctx, ev, violations, Some(format!("harness error during replay: {e}"))),
		}
	}

	{
		let n = ctx.tier.pick(if cfg!(miri) { 2u64 } else { 400 }, 20_000);
		let seed = ctx.seed;
		let res = run_parallel((0..n).collect(), |_, i| {
			let s = Rng::fork(seed, 77_000_000 + i).next_u64();
			(s, block_on_virtual(slow_consumer_case(s)))
		});
		for (s, r) in res {
			match r {
				Ok((v, items, timeouts)) => {
					ev.eval();
					ev.count("cases_slow_consumer", 1);
					ev.count("slow_consumer_items_read", items);
					ev.count("slow_consumer_send_timeouts_then_resent", timeouts);
					if v.is_empty() && items > 0 {
						ev.nontrivial(&("slow-consumer", s));
					}
					violations.extend(v);
				}
				Err(e) => slow_errors.push(e),
			}
		}
	}
	let total: u64 = ctx.tier.pick(16_000, 2_560_000);
	let shards = 16u64;
	let results = run_parallel((0..shards).collect(), |_, s| run_shard(ctx.seed, s, total / shards));
	let mut harness_errors = slow_errors;
	for r in results {
		ev.merge(r.ev);
		violations.extend(r.violations);
		harness_errors.extend(r.harness_errors);
	}
	for p in take_panics() {
		if p.in_library {
			violations.push(Violation::new(
				format!("panic/{}", p.location.rsplit('/').next().unwrap_or("")),
				p.message.clone(),
				json!({"location": p.location, "thread": p.thread, "backtrace": p.backtrace_head}),
			));
		}
	}
	ev.set("declared_methods", json!(METHODS.len()));
	{
		use std::sync::atomic::Ordering::Relaxed;
		ev.count("http_bodies_cut_into_several_frames", HTTP_BODIES_IN_SEVERAL_FRAMES.load(Relaxed));
		ev.count("http_frames_starting_at_a_blank", HTTP_FRAME_STARTS_AT_BLANK.load(Relaxed));
		ev.count("http_frames_starting_inside_a_character", HTTP_FRAME_STARTS_INSIDE_CHARACTER.load(Relaxed));
	}
	let mut inconclusive = None;
	if !harness_errors.is_empty() {
		inconclusive = Some(format!("{} harness error(s), first: {}", harness_errors.len(), harness_errors[0]));
	} else if ev.class_size("handlers") < METHODS.len() - usize::from(!INCLUDE_BORROWED_STR) - if INCLUDE_NOTIFICATIONS { 0 } else { 3 } {
		inconclusive = Some(format!("only {} of {} declared handlers were exercised", ev.class_size("handlers"), METHODS.len()));
	}
	finish(&ctx, ev, violations, inconclusive);
}
