//! Scratch probe (not a registered check).
use jrv::handlers::{self, Log};
use jrv::memsrv::*;
use jrv::runner::*;
use jsonrpsee_server::ServerConfig;
use std::time::Duration;

fn main() {
	block_on_virtual(async {
		let log = Log::default();
		let cfg = ServerConfig::builder().max_request_body_size(100).set_message_buffer_capacity(1).build();
		let mut srv = MemServer::new(cfg, handlers::echo_module(log.clone()));
		srv.duplex_capacity = 200;
		let mut ws = srv.ws().await.unwrap();
		ws.set_reading(false);
		tokio::time::sleep(Duration::from_millis(2)).await;
		for i in 0..6 {
			let r = ws.send_text(&format!("{{\"jsonrpc\":\"2.0\",\"id\":{i},\"method\":\"echo_sync\",\"params\":[\"{}\"]}}", "p".repeat(30))).await;
			println!("send {i}: {r:?}");
		}
		tokio::time::sleep(Duration::from_millis(5)).await;
		let big = format!("{{\"jsonrpc\":\"2.0\",\"id\":777,\"method\":\"echo_sync\",\"params\":[\"{}\"]}}", "o".repeat(60));
		println!("big len {}", big.len());
		let r = ws.send_text(&big).await;
		println!("send big: {r:?}");
		tokio::time::sleep(Duration::from_millis(20)).await;
		ws.set_reading(true);
		let r = ws.send_text("{\"jsonrpc\":\"2.0\",\"id\":\"s\",\"method\":\"sentinel\"}").await;
		println!("send sentinel: {r:?}");
		let frames = ws.drain_until_idle(Duration::from_secs(10)).await;
		for f in &frames {
			println!("frame: {}", f.text());
		}
		println!("ended: {:?}", ws.ended);
	});
}
