//! Scratch probe (not a registered check).
use jrv::clientsim::*;
use jrv::runner::*;
use jsonrpsee_core::client::{Subscription, SubscriptionClientT};
use jsonrpsee_core::rpc_params;
use serde_json::{Value, json};
use std::time::Duration;

fn main() {
	block_on_virtual(async {
		let (client, mut srv) = client(ClientCfg::default());
		let c = client.clone();
		let t = tokio::spawn(async move { c.subscribe::<Value, _>("sub", rpc_params!["a"], "unsub").await });
		let (_, WireMsg::Single(q)) = srv.next_msg().await.unwrap() else { panic!() };
		srv.push_text(ok_response(q.id.as_ref().unwrap(), json!("S")));
		let mut a: Subscription<Value> = t.await.unwrap().unwrap();
		srv.push_text(sub_notif("m", &json!("S"), json!(1)));
		println!("A item: {:?}", a.next().await);
		srv.push_text(sub_close("m", &json!("S"), json!("closed by server")));
		println!("A after close: {:?}", a.next().await);
		let c = client.clone();
		let t = tokio::spawn(async move { c.subscribe::<Value, _>("sub", rpc_params!["b"], "unsub").await });
		let (_, WireMsg::Single(q)) = srv.next_msg().await.unwrap() else { panic!() };
		srv.push_text(ok_response(q.id.as_ref().unwrap(), json!("S")));
		let mut b: Subscription<Value> = t.await.unwrap().unwrap();
		srv.push_text(sub_notif("m", &json!("S"), json!(2)));
		println!("B item: {:?}", b.next().await);
		drop(a);
		tokio::time::sleep(Duration::from_millis(50)).await;
		srv.push_text(sub_notif("m", &json!("S"), json!(3)));
		println!("B item after dropping the ended A: {:?}", tokio::time::timeout(Duration::from_secs(5), b.next()).await);
		let out = srv.collect_until_idle(Duration::from_secs(1)).await;
		println!("client wrote: {out:?}");
	});
}
