//! Scratch probe (not a registered check).
use jrv::runner::*;
use jsonrpsee_server::{RpcModule, ServerConfig};
use std::time::Duration;
use tokio::io::AsyncWriteExt;

const UPGRADE_REQ: &str = "GET / HTTP/1.1\r\nHost: localhost\r\nUpgrade: websocket\r\nConnection: Upgrade\r\nSec-WebSocket-Key: dGhlIHNhbXBsZSBub25jZQ==\r\nSec-WebSocket-Version: 13\r\n\r\n";

fn main() {
	jrv::tcp::install_branch_counter();
	block_on_stress_io(4, async {
		let m = RpcModule::new(());
		let server = jsonrpsee_server::Server::builder().set_config(ServerConfig::builder().max_connections(100).build()).build("127.0.0.1:0").await.unwrap();
		let addr = server.local_addr().unwrap();
		let _h = server.start(m);
		for variant in 0..8u32 {
			let b0 = jrv::tcp::branches();
			for _ in 0..300 {
				let mut s = jrv::tcp::connect(addr).await.unwrap();
				match variant {
					0 => { let _ = s.write_all(UPGRADE_REQ.as_bytes()).await; jrv::tcp::reset(s); }
					1..=5 => {
						let _ = s.write_all(UPGRADE_REQ.as_bytes()).await;
						let t = std::time::Instant::now();
						let d = Duration::from_micros([0, 5, 15, 30, 60, 120][variant as usize]);
						while t.elapsed() < d { std::hint::spin_loop(); }
						jrv::tcp::reset(s);
					}
					6 => {
						// request in two writes: the last byte and the reset back to back
						let (a, b) = UPGRADE_REQ.as_bytes().split_at(UPGRADE_REQ.len() - 1);
						let _ = s.write_all(a).await;
						tokio::time::sleep(Duration::from_millis(1)).await;
						let _ = s.write_all(b).await;
						jrv::tcp::reset(s);
					}
					_ => {
						// shutdown(write) first, then reset shortly after
						let _ = s.write_all(UPGRADE_REQ.as_bytes()).await;
						let _ = s.shutdown().await;
						jrv::tcp::reset(s);
					}
				}
				tokio::time::sleep(Duration::from_micros(300)).await;
			}
			tokio::time::sleep(Duration::from_millis(100)).await;
			let b = jrv::tcp::branches();
			println!("variant {variant}: upgrade_failed {} serve_failed {} accepted {}", b.upgrade_failed - b0.upgrade_failed, b.serve_connection_failed - b0.serve_connection_failed, b.accepted - b0.accepted);
		}
	});
}
