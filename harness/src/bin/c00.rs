//! Scratch probe (not a registered check).
use jrv::memsrv::*;
use jrv::runner::*;
use jsonrpsee_server::{ConnectionGuard, RpcModule, ServerConfig};
use std::time::Duration;
use tokio::io::{AsyncReadExt, AsyncWriteExt};

fn main() {
	let r = block_on_virtual(async {
		let mut m = RpcModule::new(());
		m.register_method("probe", |_, _, ext| {
			let g = ext.get::<ConnectionGuard>().unwrap();
			(g.max_connections() - g.available_connections()) as u64
		})
		.unwrap();
		let srv = MemServer::new(ServerConfig::builder().max_connections(3).build(), m);
		let mut res = Vec::new();
		for variant in 0..3 {
			let (mut io, jh) = srv.raw_conn();
			let req = "GET / HTTP/1.1\r\nHost: localhost\r\nUpgrade: websocket\r\nConnection: Upgrade\r\nSec-WebSocket-Key: dGhlIHNhbXBsZSBub25jZQ==\r\nSec-WebSocket-Version: 13\r\n\r\n";
			io.write_all(req.as_bytes()).await.unwrap();
			match variant {
				0 => drop(io),
				1 => {
					let _ = io.shutdown().await;
					drop(io)
				}
				_ => {
					tokio::time::sleep(Duration::from_millis(2)).await;
					let mut buf = [0u8; 16];
					let n = io.read(&mut buf).await.unwrap_or(0);
					res.push(format!("read {n} bytes: {:?}", String::from_utf8_lossy(&buf[..n])));
					drop(io)
				}
			}
			tokio::time::sleep(Duration::from_millis(100)).await;
			let h = srv.http_post(br#"{"jsonrpc":"2.0","id":1,"method":"probe"}"#.to_vec()).await;
			res.push(format!("variant {variant}: conn task finished={} probe={}", jh.is_finished(), h.text()));
		}
		res
	});
	for l in r {
		println!("{l}");
	}
}
