//! Smoke test of the common machinery (not a registered check).
use jrv::memsrv::*;
use jrv::runner::*;
use jsonrpsee_server::{RpcModule, ServerConfig};
use std::time::Duration;

fn main() {
	let r = block_on_virtual(async {
		let mut m = RpcModule::new(());
		m.register_method("echo", |p, _, _| p.as_str().unwrap_or("null").to_string()).unwrap();
		let srv = MemServer::new(ServerConfig::default(), m);
		let mut ws = srv.ws().await.unwrap();
		ws.send_text(r#"{"jsonrpc":"2.0","id":1,"method":"echo","params":[1,2]}"#).await.unwrap();
		let f = ws.drain_until_idle(Duration::from_secs(10)).await;
		let h = srv.http_post(br#"{"jsonrpc":"2.0","id":"x","method":"echo","params":[3]}"#.to_vec()).await;
		(f.iter().map(|f| f.text()).collect::<Vec<_>>(), h.status, h.text())
	});
	println!("{r:?}");
}
