//! C19 — HTTP: only JSON POSTs reach RPC; body chunking never changes the answer.
//!
//! Monitor: the real per-connection tower service (`MemServer::service()`) is called directly with request bodies
//! that are explicit frame sequences (`http_body_util::StreamBody`), in virtual time. Handlers are echo methods that
//! record every invocation (method, params text — the params carry a nonce) in a shared log.
//!
//! Oracle (written from the property statement):
//!  * gate: method != POST => 405; POST whose content type is not one of the accepted spellings (ASCII
//!    case-insensitive) => 415; in both cases the handler log stays empty;
//!  * differential: reference = the answer to the same body bytes delivered as ONE data frame with Content-Length and
//!    `application/json`; every other framing of the same bytes (cuts, empty frames, frames holding only whitespace
//!    of the body, trailers), with or without Content-Length, under every accepted content-type spelling, must give
//!    the identical (status, parsed body) and the identical multiset of handler invocations.
//!
//! Bodies with 128 or more leading whitespace bytes (outside the sniffing window) are generated too: their one-frame answer
//! is a rejection and every chunking must give the same rejection.

use bytes::Bytes;
use futures_util::StreamExt;
use http_body::Frame;
use http_body_util::{BodyExt, StreamBody};
use jrv::jgen;
use jrv::memsrv::{MemServer, http_call};
use jrv::report::*;
use jrv::rng::Rng;
use jrv::runner::*;
use jsonrpsee_server::{RpcModule, ServerConfig};
use jsonrpsee_types::ErrorObjectOwned;
use serde_json::{Value, json};
use std::convert::Infallible;
use std::sync::{Arc, Mutex};
use std::time::Duration;
use tower::layer::util::Identity;

/// The accepted content-type spellings (the property: "which of the accepted content-type spellings is used").
const ACCEPTED: [&str; 6] = [
	"application/json",
	"application/json; charset=utf-8",
	"application/json;charset=utf-8",
	"application/json-rpc",
	"application/json-rpc;charset=utf-8",
	"application/json-rpc; charset=utf-8",
];

const STANDARD_METHODS: [&str; 8] = ["GET", "PUT", "DELETE", "HEAD", "OPTIONS", "PATCH", "TRACE", "CONNECT"];
const EXTENSION_METHODS: [&str; 8] = ["PROPFIND", "FOO", "M-SEARCH", "POSTX", "XPOST", "POS", "POST1", "P"];
const POST_CASE_VARIANTS: [&str; 3] = ["post", "Post", "pOST"];

/// Content types outside the accepted list: (class, header value bytes).
fn near_misses() -> Vec<(&'static str, Vec<u8>)> {
	let s = |c: &'static str, v: &str| (c, v.as_bytes().to_vec());
	vec![
		s("suffix", "application/jsonx"),
		s("suffix", "application/json-rpcx"),
		s("suffix", "application/json-"),
		s("suffix", "application/json+rpc"),
		s("prefix", "application/jso"),
		s("prefix", "xapplication/json"),
		s("prefix", "pplication/json"),
		s("other-type", "text/json"),
		s("other-type", "text/plain"),
		s("other-type", "text/x-json"),
		s("other-type", "application/xml"),
		s("other-type", "application/x-www-form-urlencoded"),
		s("other-type", "application/jsonrpc"),
		s("other-type", "json"),
		s("other-type", "*/*"),
		s("other-type", "application/*"),
		s("parameters", "application/json; charset=utf-16"),
		s("parameters", "application/json; charset=utf8"),
		s("parameters", "application/json; charset=utf-8; x=1"),
		s("parameters", "application/json;  charset=utf-8"),
		s("parameters", "application/json ;charset=utf-8"),
		s("parameters", "application/json; charset=\"utf-8\""),
		s("parameters", "application/json;"),
		s("parameters", "application/json; "),
		s("parameters", "application/json; charset="),
		s("parameters", "application/json-rpc; charset=latin1"),
		s("parameters", "application/json-rpc ; charset=utf-8"),
		s("parameters", "application/json; boundary=x"),
		s("padded", " application/json"),
		s("padded", "application/json "),
		s("padded", "\tapplication/json"),
		s("padded", "application/json\t"),
		s("padded", "application/json; charset=utf-8 "),
		s("list", "application/json, application/json"),
		s("list", "application/json,text/plain"),
		s("empty", ""),
		("non-ascii", b"application/json\xff".to_vec()),
		("non-ascii", "applicat\u{131}on/json".as_bytes().to_vec()),
		("non-ascii", "application/\u{17f}on".as_bytes().to_vec()),
	]
}

type Log = Arc<Mutex<Vec<(String, String)>>>;
type Svc = jsonrpsee_server::TowerService<Identity, Identity>;

fn record(log: &Log, name: &str, p: &jsonrpsee_types::Params<'_>) {
	log.lock().unwrap().push((name.to_string(), p.as_str().unwrap_or("<absent>").to_string()));
}

fn echo(p: &jsonrpsee_types::Params<'_>) -> Result<Value, ErrorObjectOwned> {
	p.parse::<Value>()
}

fn module(log: Log) -> RpcModule<Log> {
	let mut m = RpcModule::new(log);
	for name in ["e", "echo"] {
		m.register_method(name, move |p, log, _| {
			record(log, name, &p);
			echo(&p)
		})
		.unwrap();
	}
	for name in ["a", "echo_async"] {
		m.register_async_method(name, move |p, log, _| async move {
			record(&log, name, &p);
			tokio::task::yield_now().await;
			echo(&p)
		})
		.unwrap();
	}
	m.register_method("fail", |p, log, _| {
		record(log, "fail", &p);
		Err::<Value, _>(ErrorObjectOwned::owned(-32050, "failing handler", echo(&p).ok()))
	})
	.unwrap();
	m
}

// ---------------------------------------------------------------------------------------------------------------
// Request description.

#[derive(Clone, Debug, PartialEq, Eq, Hash)]
enum Fr {
	Data(Vec<u8>),
	Trailers,
}

#[derive(Clone, Copy, Debug, PartialEq, Eq, Hash)]
enum BodyImpl {
	/// StreamBody over the frame list, all frames ready immediately
	Stream,
	/// StreamBody, the stream yields to the scheduler before every frame
	StreamYield,
	/// `http_body_util::Full` (only for a single data frame)
	Full,
}

#[derive(Clone, Debug, PartialEq, Eq, Hash)]
struct ReqSpec {
	method: String,
	/// header values, in order (none = header missing, two = duplicated header)
	content_types: Vec<Vec<u8>>,
	content_length: bool,
	frames: Vec<Fr>,
	body_impl: BodyImpl,
}

impl ReqSpec {
	fn canonical(body: &[u8]) -> ReqSpec {
		ReqSpec {
			method: "POST".into(),
			content_types: vec![ACCEPTED[0].as_bytes().to_vec()],
			content_length: true,
			frames: vec![Fr::Data(body.to_vec())],
			body_impl: BodyImpl::Stream,
		}
	}
	fn body_len(&self) -> usize {
		self.frames
			.iter()
			.map(|f| match f {
				Fr::Data(d) => d.len(),
				Fr::Trailers => 0,
			})
			.sum()
	}
	fn body(&self) -> Vec<u8> {
		let mut out = Vec::new();
		for f in &self.frames {
			if let Fr::Data(d) = f {
				out.extend_from_slice(d);
			}
		}
		out
	}
}

fn hex(b: &[u8]) -> String {
	b.iter().map(|x| format!("{x:02x}")).collect()
}
fn unhex(s: &str) -> Option<Vec<u8>> {
	if s.len() % 2 != 0 {
		return None;
	}
	(0..s.len() / 2).map(|i| u8::from_str_radix(s.get(2 * i..2 * i + 2)?, 16).ok()).collect()
}
fn lossy(b: &[u8]) -> String {
	String::from_utf8_lossy(b).into_owned()
}

fn spec_json(s: &ReqSpec) -> Value {
	json!({
		"method": s.method,
		"content_types": s.content_types.iter().map(|c| lossy(c)).collect::<Vec<_>>(),
		"content_types_hex": s.content_types.iter().map(|c| hex(c)).collect::<Vec<_>>(),
		"content_length_header": s.content_length,
		"frames": s.frames.iter().map(|f| match f { Fr::Data(d) => lossy(d), Fr::Trailers => "<TRAILERS>".into() }).collect::<Vec<_>>(),
		"frames_hex": s.frames.iter().map(|f| match f { Fr::Data(d) => hex(d), Fr::Trailers => "TRAILERS".into() }).collect::<Vec<_>>(),
		"body_impl": match s.body_impl { BodyImpl::Stream => "stream", BodyImpl::StreamYield => "stream-yield", BodyImpl::Full => "full" },
	})
}

fn spec_from_json(v: &Value) -> Option<ReqSpec> {
	let frames = v["frames_hex"]
		.as_array()?
		.iter()
		.map(|f| {
			let s = f.as_str()?;
			if s == "TRAILERS" { Some(Fr::Trailers) } else { unhex(s).map(Fr::Data) }
		})
		.collect::<Option<Vec<_>>>()?;
	let content_types =
		v["content_types_hex"].as_array()?.iter().map(|c| unhex(c.as_str()?)).collect::<Option<Vec<_>>>()?;
	Some(ReqSpec {
		method: v["method"].as_str()?.to_string(),
		content_types,
		content_length: v["content_length_header"].as_bool()?,
		frames,
		body_impl: match v["body_impl"].as_str()? {
			"full" => BodyImpl::Full,
			"stream-yield" => BodyImpl::StreamYield,
			_ => BodyImpl::Stream,
		},
	})
}

type ReqBody = http_body_util::combinators::UnsyncBoxBody<Bytes, Infallible>;

fn build_request(spec: &ReqSpec) -> Result<http::Request<ReqBody>, String> {
	let method = http::Method::from_bytes(spec.method.as_bytes()).map_err(|e| format!("method: {e}"))?;
	let mut b = http::Request::builder().method(method).uri("http://localhost/").header("host", "localhost");
	for ct in &spec.content_types {
		let hv = http::HeaderValue::from_bytes(ct).map_err(|e| format!("content-type value: {e}"))?;
		b = b.header(http::header::CONTENT_TYPE, hv);
	}
	if spec.content_length {
		b = b.header(http::header::CONTENT_LENGTH, spec.body_len());
	}
	let body: ReqBody = match spec.body_impl {
		BodyImpl::Full => http_body_util::Full::new(Bytes::from(spec.body())).boxed_unsync(),
		BodyImpl::Stream | BodyImpl::StreamYield => {
			let frames: Vec<Result<Frame<Bytes>, Infallible>> = spec
				.frames
				.iter()
				.map(|f| {
					Ok(match f {
						Fr::Data(d) => Frame::data(Bytes::from(d.clone())),
						Fr::Trailers => {
							let mut h = http::HeaderMap::new();
							h.insert("x-trailer", http::HeaderValue::from_static("1"));
							Frame::trailers(h)
						}
					})
				})
				.collect();
			if spec.body_impl == BodyImpl::StreamYield {
				let st = futures_util::stream::iter(frames).then(|f| async move {
					tokio::task::yield_now().await;
					f
				});
				StreamBody::new(st.boxed()).boxed_unsync()
			} else {
				StreamBody::new(futures_util::stream::iter(frames)).boxed_unsync()
			}
		}
	};
	b.body(body).map_err(|e| format!("request: {e}"))
}

// ---------------------------------------------------------------------------------------------------------------
// Observation.

#[derive(Clone, Debug, PartialEq)]
enum BodyObs {
	Json(Value),
	Raw(Vec<u8>),
}

#[derive(Clone, Debug, PartialEq)]
struct Obs {
	status: u16,
	body: BodyObs,
	/// handler invocations, sorted (multiset)
	log: Vec<(String, String)>,
	error: Option<String>,
	raw: Vec<u8>,
}

impl Obs {
	fn same_answer(&self, o: &Obs) -> bool {
		self.status == o.status && self.body == o.body && self.error.is_some() == o.error.is_some()
	}
	fn same_log(&self, o: &Obs) -> bool {
		self.log == o.log
	}
	fn same(&self, o: &Obs) -> bool {
		self.same_answer(o) && self.same_log(o)
	}
	fn to_json(&self) -> Value {
		json!({
			"status": self.status,
			"body": lossy(&self.raw),
			"handler_invocations": self.log.iter().map(|(m, p)| json!([m, p])).collect::<Vec<_>>(),
			"service_error": self.error,
		})
	}
	fn brief(&self) -> String {
		let b = lossy(&self.raw);
		let b: String = b.chars().take(90).collect();
		format!("{} {:?} handlers={}", self.status, b, self.log.len())
	}
}

struct Srv {
	_mem: MemServer,
	svc: Svc,
	log: Log,
	limit: u32,
	/// an HTTP/2 connection (prior knowledge) to the same server, through hyper on both sides of an in-memory duplex
	h2: Option<hyper::client::conn::http2::SendRequest<ReqBody>>,
}

impl Srv {
	fn new(limit: u32) -> Srv {
		let log: Log = Arc::new(Mutex::new(Vec::new()));
		let cfg = ServerConfig::builder().max_request_body_size(limit).build();
		let mem = MemServer::new(cfg, module(log.clone()));
		let svc = mem.service();
		Srv { _mem: mem, svc, log, limit, h2: None }
	}

	/// The same request over HTTP/2. None: the transport failed (not judged).
	async fn run_h2(&mut self, spec: &ReqSpec) -> Option<Obs> {
		if self.h2.as_ref().is_none_or(|s| s.is_closed()) {
			let (io, _jh) = self._mem.raw_conn();
			let (send, conn) = hyper::client::conn::http2::handshake(hyper_util::rt::TokioExecutor::new(), hyper_util::rt::TokioIo::new(io)).await.ok()?;
			tokio::spawn(async move {
				let _ = conn.await;
			});
			self.h2 = Some(send);
		}
		self.log.lock().unwrap().clear();
		let req = build_request(spec).ok()?;
		let send = self.h2.as_mut()?;
		if send.ready().await.is_err() {
			self.h2 = None;
			return None;
		}
		let resp = match send.send_request(req).await {
			Ok(r) => r,
			Err(_) => {
				self.h2 = None;
				return None;
			}
		};
		let status = resp.status().as_u16();
		let body = http_body_util::BodyExt::collect(resp.into_body()).await.ok()?.to_bytes().to_vec();
		let mut log = std::mem::take(&mut *self.log.lock().unwrap());
		log.sort();
		let b = match serde_json::from_slice::<Value>(&body) {
			Ok(v) => BodyObs::Json(v),
			Err(_) => BodyObs::Raw(body.clone()),
		};
		Some(Obs { status, body: b, log, error: None, raw: body })
	}

	async fn run(&mut self, spec: &ReqSpec) -> Obs {
		self.log.lock().unwrap().clear();
		let req = build_request(spec).unwrap_or_else(|e| panic!("harness: cannot build request {spec:?}: {e}"));
		let reply = http_call(&mut self.svc, req).await;
		let mut log = std::mem::take(&mut *self.log.lock().unwrap());
		log.sort();
		let body = match serde_json::from_slice::<Value>(&reply.body) {
			Ok(v) => BodyObs::Json(v),
			Err(_) => BodyObs::Raw(reply.body.clone()),
		};
		Obs { status: reply.status, body, log, error: reply.error, raw: reply.body }
	}
}

// ---------------------------------------------------------------------------------------------------------------
// Body generation.

#[derive(Clone, Debug)]
struct BodyCase {
	kind: &'static str,
	bytes: Vec<u8>,
	/// for valid single calls to a registered echo method: (method, nonce) that must show up in the log and result
	expect_call: Option<(String, String)>,
}

fn leading_ws(b: &[u8]) -> usize {
	b.iter().take_while(|c| c.is_ascii_whitespace()).count()
}

fn is_ws_only(b: &[u8]) -> bool {
	!b.is_empty() && b.iter().all(|c| c.is_ascii_whitespace())
}

fn ws_run(r: &mut Rng, n: usize) -> Vec<u8> {
	(0..n).map(|_| *r.pick(b" \t\n\r")).collect()
}

/// 0..=127 leading whitespace bytes (JSON whitespace; rarely one form feed, which the sniffing window also skips).
fn lead(r: &mut Rng, short: bool) -> Vec<u8> {
	let n = if short {
		match r.below(4) {
			0 | 1 => 0,
			2 => 1,
			_ => r.usize(5) + 1,
		}
	} else {
		match r.below(22) {
			0..=8 => 0,
			9..=12 => r.usize(8) + 1,
			13..=16 => r.usize(118) + 9,
			17 => 126,
			18 | 19 => 127,
			// beyond the sniffing window: the one-frame answer is a rejection, and every chunking must give the same
			20 => 128 + r.usize(4),
			_ => 129 + r.usize(300),
		}
	};
	let mut w = ws_run(r, n);
	if n > 0 && r.chance(1, 25) {
		let i = r.usize(n);
		w[i] = 0x0c;
	}
	w
}

fn object_text(r: &mut Rng, mut members: Vec<(String, String)>, wsmax: usize, shuffle: bool) -> String {
	if shuffle {
		r.shuffle(&mut members);
	}
	let mut out = String::from("{");
	out.push_str(&jgen::ws(r, wsmax));
	for (i, (k, v)) in members.iter().enumerate() {
		if i > 0 {
			out.push(',');
			out.push_str(&jgen::ws(r, wsmax));
		}
		out.push_str(&format!("\"{k}\""));
		out.push_str(&jgen::ws(r, wsmax));
		out.push(':');
		out.push_str(&jgen::ws(r, wsmax));
		out.push_str(v);
		out.push_str(&jgen::ws(r, wsmax));
	}
	out.push('}');
	out
}

struct Entry {
	text: String,
	/// Some((method, nonce)) if this is a valid call to a registered echo method
	call: Option<(String, String)>,
	kind: &'static str,
}

/// One JSON-RPC message object. `short` keeps it as small as possible (for the exhaustive cut enumeration).
fn entry(r: &mut Rng, nonce: &str, short: bool, force: Option<&'static str>) -> Entry {
	let kind = force.unwrap_or_else(|| match r.below(12) {
		0..=5 => "call",
		6 | 7 => "notification",
		8 => "call-unknown-method",
		9 => "call-failing",
		_ => "invalid-request",
	});
	let wsmax = if short { 0 } else { 3 };
	let method = match kind {
		"call-unknown-method" => "nope".to_string(),
		"call-failing" => "fail".to_string(),
		_ if short => r.pick(&["e", "a"]).to_string(),
		_ => r.pick(&["e", "a", "echo", "echo_async"]).to_string(),
	};
	let params = if short {
		format!("[\"{nonce}\"]")
	} else {
		match r.below(4) {
			0 => format!("[\"{nonce}\"]"),
			1 => format!("[\"{nonce}\",{}{}]", jgen::ws(r, 2), r.below(100000)),
			2 => {
				let s = jgen::string(r);
				format!("{{\"nonce\":\"{nonce}\",{}\"x\":{}}}", jgen::ws(r, 2), jgen::string_literal(r, &s))
			}
			_ => format!("[\"{nonce}\",{}]", jgen::json_text(r, 2)),
		}
	};
	let id = match r.below(5) {
		0 => format!("\"{nonce}\""),
		1 => "null".to_string(),
		_ => r.below(1000).to_string(),
	};
	let mut members = vec![("jsonrpc".to_string(), "\"2.0\"".to_string()), ("method".to_string(), format!("\"{method}\""))];
	match kind {
		"invalid-request" => {
			match r.below(4) {
				0 => members[0].1 = "\"1.0\"".into(),
				1 => {
					members.remove(1);
				}
				2 => members[1].1 = "7".into(),
				_ => {
					members.remove(0);
				}
			}
			members.push(("params".into(), params));
			members.push(("id".into(), id));
		}
		"notification" => members.push(("params".into(), params)),
		_ => {
			members.push(("params".into(), params));
			members.push(("id".into(), id));
		}
	}
	let shuffle = !short || r.bool();
	let text = object_text(r, members, wsmax, shuffle);
	let call = if kind == "call" { Some((method, nonce.to_string())) } else { None };
	Entry { text, call, kind }
}

fn wrap(r: &mut Rng, core: &[u8], short: bool) -> Vec<u8> {
	let mut out = lead(r, short);
	out.extend_from_slice(core);
	let t = if short { r.usize(2) } else { r.usize(5) };
	out.extend(ws_run(r, t));
	out
}

/// A body for the differential part. `short` => at most 80 bytes (retried by the caller otherwise).
fn gen_body(r: &mut Rng, tag: &str, short: bool) -> BodyCase {
	let nonce = |k: usize| if short { format!("n{k}") } else { format!("{tag}-{k}") };
	let sel = r.below(20);
	match sel {
		0..=6 => {
			let e = entry(r, &nonce(0), short, if sel < 3 { Some("call") } else { None });
			let kind = e.kind;
			BodyCase { kind, bytes: wrap(r, e.text.as_bytes(), short), expect_call: e.call }
		}
		7..=10 => {
			// batch
			let n = if short { r.usize(2) + 1 } else { r.usize(5) + 1 };
			let mut t = String::from("[");
			for i in 0..n {
				if i > 0 {
					t.push(',');
				}
				if !short {
					t.push_str(&jgen::ws(r, 3));
				}
				if short {
					// smallest entries: no params
					let m = *r.pick(&["e", "a"]);
					if r.bool() {
						t.push_str(&format!("{{\"jsonrpc\":\"2.0\",\"method\":\"{m}\",\"id\":{i}}}"));
					} else {
						t.push_str(&format!("{{\"jsonrpc\":\"2.0\",\"method\":\"{m}\"}}"));
					}
				} else if r.chance(1, 10) {
					t.push_str(&jgen::json_text(r, 1));
				} else {
					t.push_str(&entry(r, &nonce(i), false, None).text);
				}
				if !short {
					t.push_str(&jgen::ws(r, 3));
				}
			}
			t.push(']');
			BodyCase { kind: "batch", bytes: wrap(r, t.as_bytes(), short), expect_call: None }
		}
		11 => {
			let t = *r.pick(&["[]", "[ ]", "{}", "{ }", "[{}]", "[[]]", "[1]", "[null]", "{\"jsonrpc\":\"2.0\"}", "{\"id\":1}"]);
			BodyCase { kind: "degenerate-container", bytes: wrap(r, t.as_bytes(), short), expect_call: None }
		}
		12 | 13 => {
			// truncated valid message
			let e = entry(r, &nonce(0), short, Some("call"));
			let b = e.text.as_bytes();
			let cut = r.usize(b.len());
			BodyCase { kind: "invalid-truncated", bytes: wrap(r, &b[..cut], short), expect_call: None }
		}
		14 => {
			// valid message followed by garbage / a second message
			let e = entry(r, &nonce(0), short, Some("call"));
			let mut b = e.text.into_bytes();
			b.extend_from_slice(r.pick(&["}", "]", ",", "x", " {}", "[]", "\0"]).as_bytes());
			BodyCase { kind: "invalid-trailing-garbage", bytes: wrap(r, &b, short), expect_call: None }
		}
		15 => {
			let t = *r.pick(&["1", "\"x\"", "null", "true", "-0.5", "x", "]", "}", ":", ",", "\u{feff}{}", "\u{b}{}", "/**/{}"]);
			BodyCase { kind: "invalid-not-container", bytes: wrap(r, t.as_bytes(), short), expect_call: None }
		}
		16 => {
			// empty or whitespace-only body (< 128 bytes)
			let n = if r.chance(1, 3) { 0 } else { r.usize(if short { 6 } else { 127 }) + 1 };
			BodyCase { kind: "empty-or-whitespace", bytes: ws_run(r, n), expect_call: None }
		}
		17 => {
			// container start followed by arbitrary bytes (incl. invalid UTF-8)
			let n = r.usize(if short { 20 } else { 200 });
			let mut b = vec![*r.pick(b"{[")];
			b.extend((0..n).map(|_| match r.below(6) {
				0 => r.below(256) as u8,
				1 => *r.pick(b" \t\n\r"),
				_ => *r.pick(b"{}[]\",:0a\\"),
			}));
			BodyCase { kind: "invalid-garbage", bytes: wrap(r, &b, short), expect_call: None }
		}
		18 => {
			// valid call with an invalid UTF-8 byte inside a string
			let e = entry(r, &nonce(0), short, Some("call"));
			let mut b = e.text.into_bytes();
			if let Some(p) = b.iter().position(|c| *c == b'n') {
				b[p] = 0xff;
			}
			BodyCase { kind: "invalid-utf8", bytes: wrap(r, &b, short), expect_call: None }
		}
		_ => {
			// interior whitespace everywhere (every token boundary): many whitespace runs to isolate
			let e = entry(r, &nonce(0), short, Some("call"));
			let mut b = Vec::new();
			let mut in_str = false;
			let mut esc = false;
			for c in e.text.bytes() {
				if !in_str && matches!(c, b'{' | b'}' | b'[' | b']' | b':' | b',') {
					{
						let n = r.usize(if short { 2 } else { 3 });
						b.extend(ws_run(r, n));
					}
					b.push(c);
					{
						let n = r.usize(if short { 2 } else { 3 });
						b.extend(ws_run(r, n));
					}
				} else {
					b.push(c);
				}
				if in_str {
					if esc {
						esc = false;
					} else if c == b'\\' {
						esc = true;
					} else if c == b'"' {
						in_str = false;
					}
				} else if c == b'"' {
					in_str = true;
				}
			}
			BodyCase { kind: "call", bytes: b, expect_call: e.call }
		}
	}
}

fn gen_body_bounded(r: &mut Rng, tag: &str, short: bool) -> BodyCase {
	for _ in 0..200 {
		let mut b = gen_body(r, tag, short);
		if (!short || b.bytes.len() <= 80) && b.bytes.len() <= 60_000 {
			if leading_ws(&b.bytes) > 127 {
				// outside the window nothing is "a valid call that must be processed"; only chunking independence is judged
				b.expect_call = None;
				b.kind = "over-window-leading-whitespace";
			}
			return b;
		}
	}
	BodyCase { kind: "degenerate-container", bytes: b"{}".to_vec(), expect_call: None }
}

fn random_accepted(r: &mut Rng) -> Vec<u8> {
	let s = *r.pick(&ACCEPTED);
	random_case(r, s)
}

fn random_case(r: &mut Rng, s: &str) -> Vec<u8> {
	s.bytes().map(|c| if r.bool() { c.to_ascii_uppercase() } else { c.to_ascii_lowercase() }).collect()
}

/// Split `body` at the given cut positions (sorted, distinct, each in 1..len).
fn split(body: &[u8], cuts: &[usize]) -> Vec<Fr> {
	let mut out = Vec::with_capacity(cuts.len() + 1);
	let mut prev = 0;
	for &c in cuts {
		out.push(Fr::Data(body[prev..c].to_vec()));
		prev = c;
	}
	out.push(Fr::Data(body[prev..].to_vec()));
	out
}

fn seeded_cuts(r: &mut Rng, len: usize, k: usize) -> Vec<usize> {
	if len < 2 {
		return vec![];
	}
	let mut cuts: Vec<usize> = (0..k).map(|_| 1 + r.usize(len - 1)).collect();
	cuts.sort();
	cuts.dedup();
	cuts
}

/// Classifying feature of a framing (used in signatures).
fn chunk_feature(spec: &ReqSpec) -> &'static str {
	let datas: Vec<&Vec<u8>> = spec.frames.iter().filter_map(|f| if let Fr::Data(d) = f { Some(d) } else { None }).collect();
	let has_trailers = spec.frames.iter().any(|f| matches!(f, Fr::Trailers));
	match datas.first() {
		None => return "no-data-frame",
		Some(d) if d.is_empty() && datas.len() > 1 => return "first-frame-empty",
		Some(d) if is_ws_only(d) && datas.len() > 1 => return "first-frame-whitespace-only",
		_ => {}
	}
	if datas.iter().skip(1).any(|d| d.is_empty()) {
		"later-frame-empty"
	} else if datas.iter().skip(1).any(|d| is_ws_only(d)) {
		"later-frame-whitespace-only"
	} else if has_trailers {
		"trailers-frame"
	} else if spec.body_impl == BodyImpl::Full {
		"full-body"
	} else if datas.len() > 1 {
		"cuts-only"
	} else if spec.body_impl == BodyImpl::StreamYield {
		"yielding-stream"
	} else {
		"single-frame"
	}
}

// ---------------------------------------------------------------------------------------------------------------
// Executor + oracle.

struct Exec {
	srv: Srv,
	ev: Evidence,
	violations: Vec<Violation>,
	full_witnesses: std::collections::BTreeMap<String, usize>,
	used: u64,
}

struct CaseInfo<'a> {
	kind: &'a str,
	tag: &'a str,
}

impl Exec {
	fn new(limit: u32) -> Exec {
		Exec {
			srv: Srv::new(limit),
			ev: Evidence::new(""),
			violations: Vec::new(),
			full_witnesses: Default::default(),
			used: 0,
		}
	}

	async fn run(&mut self, spec: &ReqSpec) -> Obs {
		let obs = self.srv.run(spec).await;
		self.used += 1;
		self.ev.eval();
		self.ev.count("requests", 1);
		self.ev.count("handler_invocations", obs.log.len() as u64);
		self.ev.count("frames", spec.frames.len() as u64);
		for f in &spec.frames {
			match f {
				Fr::Data(d) if d.is_empty() => self.ev.count("frames_empty", 1),
				Fr::Data(d) if is_ws_only(d) => self.ev.count("frames_whitespace_only", 1),
				Fr::Data(_) => {}
				Fr::Trailers => self.ev.count("frames_trailers", 1),
			}
		}
		if !spec.content_length {
			self.ev.count("requests_without_content_length", 1);
		}
		self.ev.count(&format!("status_{}", obs.status), 1);
		// every 16th request also travels over HTTP/2 (hyper client and server, in-memory connection): same status, same
		// body, same handler invocations as the direct call on the service
		if self.used % 16 == 0 && obs.error.is_none() && !matches!(spec.method.as_str(), "HEAD" | "CONNECT") {
			match self.srv.run_h2(spec).await {
				Some(h2) => {
					self.ev.count("http2_requests_compared", 1);
					if !h2.same(&obs) {
						let feature = format!("{}:{}", spec.method.chars().take(12).collect::<String>(), chunk_feature(spec));
						let (a, b) = (obs.to_json(), h2.to_json());
						let sj = spec_json(spec);
						self.violation(format!("http2-differs-from-direct-call/{feature}"), format!("direct call: {} ; over HTTP/2: {}", obs.brief(), h2.brief()), move || json!({"spec": sj, "direct": a, "http2": b}));
					}
				}
				None => self.ev.count("http2_transport_errors_not_judged", 1),
			}
		}
		obs
	}

	/// Keep the full witness for the first few occurrences of a signature, then only count.
	fn violation(&mut self, sig: String, detail: String, witness: impl FnOnce() -> Value) {
		let n = self.full_witnesses.entry(sig.clone()).or_insert(0);
		*n += 1;
		self.ev.count(&format!("violation_occurrences {sig}"), 1);
		if *n <= 4 {
			self.violations.push(Violation::new(sig, detail, witness()));
		} else if *n <= 300 {
			// light record (finish counts occurrences); beyond that only the evidence counter grows
			self.violations.push(Violation::new(sig, String::new(), Value::Null));
		}
	}

	fn limit_feature(&self, spec: &ReqSpec) -> &'static str {
		if spec.body_len() > self.srv.limit as usize { "body-over-limit" } else { "body-within-limit" }
	}

	/// Differential oracle: `var` carries the same body bytes as `reference`; the answers must be identical.
	async fn compare(&mut self, info: &CaseInfo<'_>, ref_spec: &ReqSpec, reference: &Obs, var: &ReqSpec) {
		debug_assert_eq!(ref_spec.body(), var.body(), "harness: variant must carry the reference's bytes");
		let obs = self.run(var).await;
		self.ev.count("variants_compared", 1);
		self.ev.class("framing_shapes", &var.frames.iter().map(|f| match f { Fr::Data(d) => d.len() as i64, Fr::Trailers => -1 }).collect::<Vec<_>>());
		// non-trivial: the reference reached the RPC layer (200) and the variant really differs in framing /
		// Content-Length / spelling
		if reference.status == 200 && var != ref_spec {
			self.ev.nontrivial(var);
			self.ev.count("variants_of_processed_bodies", 1);
		}
		if obs.same(reference) {
			return;
		}
		let over = self.limit_feature(var);
		let body = var.body();
		let mut attributed = Vec::new();
		// attribute the difference to one axis by varying one axis at a time
		let only_framing = ReqSpec {
			content_types: ref_spec.content_types.clone(),
			content_length: true,
			..var.clone()
		};
		let only_cl = ReqSpec { content_length: var.content_length, ..ref_spec.clone() };
		let only_ct = ReqSpec { content_types: var.content_types.clone(), ..ref_spec.clone() };
		let mut axes: Vec<(&str, ReqSpec)> = Vec::new();
		if only_framing != *ref_spec {
			axes.push(("chunking", only_framing));
		}
		if only_cl != *ref_spec {
			axes.push(("content-length", only_cl));
		}
		if only_ct != *ref_spec {
			axes.push(("content-type", only_ct));
		}
		for (axis, spec) in axes {
			let o = if spec == *var { obs.clone() } else { self.run(&spec).await };
			if o.same(reference) {
				continue;
			}
			// reduce the framing to the smallest one that still changes the answer, so that the signature names
			// the feature that matters and the witness is minimal
			let (spec, o) = if axis == "chunking" { self.minimize_framing(ref_spec, reference, spec, o).await } else { (spec, o) };
			let what = if !o.same_answer(reference) { "answer" } else { "handler-invocations" };
			let sig = match axis {
				"chunking" => {
					let f = chunk_feature(&spec);
					if over == "body-over-limit" { format!("chunking-changes-{what}/{f}+{over}") } else { format!("chunking-changes-{what}/{f}") }
				}
				"content-length" => format!("content-length-absent-changes-{what}/{over}"),
				_ => {
					let ct = spec.content_types.first().map(|c| lossy(c).to_ascii_lowercase()).unwrap_or_default();
					format!("content-type-spelling-changes-{what}/{ct}")
				}
			};
			attributed.push((sig, spec, o));
		}
		if attributed.is_empty() {
			let mut feats = vec![chunk_feature(var).to_string()];
			if !var.content_length {
				feats.push("no-content-length".into());
			}
			if var.content_types != ref_spec.content_types {
				feats.push("other-spelling".into());
			}
			attributed.push((format!("combination-changes-answer/{}", feats.join("+")), var.clone(), obs.clone()));
		}
		for (sig, spec, o) in attributed {
			let detail = format!(
				"same {} body bytes ({} kind): one frame + Content-Length + application/json => {}; variant ({}, content-length header {}, content-type {:?}) => {}",
				body.len(),
				info.kind,
				reference.brief(),
				chunk_feature(&spec),
				if spec.content_length { "present" } else { "absent" },
				spec.content_types.first().map(|c| lossy(c)).unwrap_or_default(),
				o.brief()
			);
			let limit = self.srv.limit;
			let (kind, tag) = (info.kind.to_string(), info.tag.to_string());
			let (rs, ro) = (spec_json(ref_spec), reference.to_json());
			let bl = body.len();
			let bt = lossy(&body);
			self.violation(sig, detail, move || {
				json!({
					"max_request_body_size": limit, "body_kind": kind, "case": tag, "body_len": bl, "body": bt,
					"reference": {"spec": rs, "observed": ro},
					"variant": {"spec": spec_json(&spec), "observed": o.to_json()},
				})
			});
		}
	}

	/// Greedy reduction of a framing whose answer differs from the reference: drop the trailers frame, use the plain
	/// stream, merge adjacent data frames — each step is kept only if the answer still differs.
	async fn minimize_framing(&mut self, ref_spec: &ReqSpec, reference: &Obs, mut spec: ReqSpec, mut obs: Obs) -> (ReqSpec, Obs) {
		loop {
			let mut cands: Vec<ReqSpec> = Vec::new();
			if let Some(pos) = spec.frames.iter().position(|f| matches!(f, Fr::Trailers)) {
				let mut c = spec.clone();
				c.frames.remove(pos);
				cands.push(c);
			}
			if spec.body_impl != BodyImpl::Stream {
				cands.push(ReqSpec { body_impl: BodyImpl::Stream, ..spec.clone() });
			}
			for i in 0..spec.frames.len().saturating_sub(1) {
				if let (Fr::Data(a), Fr::Data(b)) = (&spec.frames[i], &spec.frames[i + 1]) {
					let mut merged = a.clone();
					merged.extend_from_slice(b);
					let mut c = spec.clone();
					c.frames[i] = Fr::Data(merged);
					c.frames.remove(i + 1);
					cands.push(c);
				}
			}
			let mut progressed = false;
			for c in cands {
				if c == *ref_spec {
					continue;
				}
				let o = self.run(&c).await;
				self.ev.count("minimization_requests", 1);
				if !o.same(reference) {
					spec = c;
					obs = o;
					progressed = true;
					break;
				}
			}
			if !progressed {
				return (spec, obs);
			}
		}
	}

	/// Gate oracle for a request that must be refused.
	async fn check_refused(&mut self, spec: &ReqSpec, class: &str) {
		let obs = self.run(spec).await;
		self.ev.count("gate_requests", 1);
		let expected: u16 = if spec.method != "POST" { 405 } else { 415 };
		let axis = if expected == 405 { "method" } else { "content-type" };
		if obs.status == expected && obs.log.is_empty() && spec.body_len() > 0 {
			self.ev.nontrivial(spec);
			self.ev.count(&format!("gate_refused_{expected}"), 1);
		}
		self.ev.class("gate_inputs", &(&spec.method, &spec.content_types));
		let limit = self.srv.limit;
		let cls = class.to_string();
		if obs.status != expected {
			let cls = cls.clone();
			let (sj, oj) = (spec_json(spec), obs.to_json());
			self.violation(
				format!("gate-{axis}-not-{expected}/{class}"),
				format!(
					"{} with content-type {:?} (content-length header {}) answered {} instead of {expected}",
					spec.method,
					spec.content_types.iter().map(|c| lossy(c)).collect::<Vec<_>>(),
					if spec.content_length { "present" } else { "absent" },
					obs.brief()
				),
				move || json!({"max_request_body_size": limit, "gate": {"spec": sj, "observed": oj, "expected_status": expected, "class": cls}}),
			);
		}
		// a handler that ran although the status was the expected refusal is a defect of its own; together with
		// a wrong status it is the same defect (the request passed the gate) and already reported above
		if !obs.log.is_empty() && obs.status == expected {
			let (sj, oj) = (spec_json(spec), obs.to_json());
			self.violation(
				format!("gate-handler-ran-despite-{expected}/{class}"),
				format!("{} with content-type {:?}: answered {expected} but handler(s) ran: {:?}", spec.method, spec.content_types.iter().map(|c| lossy(c)).collect::<Vec<_>>(), obs.log),
				move || json!({"max_request_body_size": limit, "gate": {"spec": sj, "observed": oj, "expected_status": expected, "class": cls}}),
			);
		}
	}

	/// Duplicated Content-Type header where at least one value is an accepted spelling: the statement does not say
	/// which value counts, so the request must be either refused (415, no handler) or answered exactly like the
	/// reference.
	async fn check_duplicate(&mut self, ref_spec: &ReqSpec, reference: &Obs, spec: &ReqSpec) {
		let obs = self.run(spec).await;
		self.ev.count("gate_requests", 1);
		self.ev.count("gate_duplicate_header_requests", 1);
		let refused = obs.status == 415 && obs.log.is_empty();
		if refused || obs.same(reference) {
			return;
		}
		let limit = self.srv.limit;
		let (sj, oj, rs, ro) = (spec_json(spec), obs.to_json(), spec_json(ref_spec), reference.to_json());
		self.violation(
			"gate-duplicate-content-type/neither-refused-nor-reference-answer".into(),
			format!("duplicated content-type {:?} answered {} (reference {})", spec.content_types.iter().map(|c| lossy(c)).collect::<Vec<_>>(), obs.brief(), reference.brief()),
			move || json!({"max_request_body_size": limit, "reference": {"spec": rs, "observed": ro}, "variant": {"spec": sj, "observed": oj}, "duplicate": true}),
		);
	}

	/// Reference for a body + sanity of the reference itself for valid calls.
	async fn reference(&mut self, bc: &BodyCase, tag: &str) -> (ReqSpec, Obs) {
		let ref_spec = ReqSpec::canonical(&bc.bytes);
		let reference = self.run(&ref_spec).await;
		self.ev.count("references", 1);
		self.ev.count(&format!("body_kind_{}", bc.kind), 1);
		self.ev.count(&format!("reference_status_{}", reference.status), 1);
		self.ev.class("bodies", &bc.bytes);
		self.ev.sample_class(bc.kind, json!({"body": lossy(&bc.bytes), "reference": reference.to_json()}));
		if let Some((method, nonce)) = &bc.expect_call {
			if bc.bytes.len() <= self.srv.limit as usize {
				let logged = reference.log.len() == 1 && reference.log[0].0 == *method && reference.log[0].1.contains(nonce.as_str());
				let answered = reference.status == 200
					&& matches!(&reference.body, BodyObs::Json(v) if v.get("result").is_some_and(|r| r.to_string().contains(nonce.as_str())));
				if !(logged && answered) {
					let limit = self.srv.limit;
					let (rs, ro) = (spec_json(&ref_spec), reference.to_json());
					let (t, k) = (tag.to_string(), bc.kind.to_string());
					self.violation(
						format!("accepted-request-not-processed/{}", bc.kind),
						format!("valid call in one frame with application/json: {}", reference.brief()),
						move || json!({"max_request_body_size": limit, "case": t, "body_kind": k, "reference": {"spec": rs.clone(), "observed": ro}, "variant": {"spec": rs, "observed": Value::Null}}),
					);
				} else {
					self.ev.count("valid_calls_processed", 1);
				}
			}
		}
		(ref_spec, reference)
	}

	/// All variants of one body.
	async fn body_case(&mut self, r: &mut Rng, bc: &BodyCase, tag: &str, exhaustive: bool) {
		let body = &bc.bytes;
		let len = body.len();
		let info = CaseInfo { kind: bc.kind, tag };
		let (ref_spec, reference) = self.reference(bc, tag).await;
		self.ev.count(if exhaustive { "bodies_exhaustive_cuts" } else { "bodies_seeded_cuts" }, 1);

		// accepted spellings, each in random letter case
		for sp in ACCEPTED {
			let var = ReqSpec { content_types: vec![random_case(r, sp)], ..ref_spec.clone() };
			self.compare(&info, &ref_spec, &reference, &var).await;
		}
		// Content-Length absent; other body implementations
		self.compare(&info, &ref_spec, &reference, &ReqSpec { content_length: false, ..ref_spec.clone() }).await;
		self.compare(&info, &ref_spec, &reference, &ReqSpec { body_impl: BodyImpl::Full, ..ref_spec.clone() }).await;
		self.compare(&info, &ref_spec, &reference, &ReqSpec { body_impl: BodyImpl::Full, content_length: false, ..ref_spec.clone() }).await;
		self.compare(&info, &ref_spec, &reference, &ReqSpec { body_impl: BodyImpl::StreamYield, ..ref_spec.clone() }).await;
		// one frame + trailers
		let mut fr = ref_spec.frames.clone();
		fr.push(Fr::Trailers);
		self.compare(&info, &ref_spec, &reference, &ReqSpec { frames: fr, content_length: r.bool(), ..ref_spec.clone() }).await;
		// no frame at all for an empty body
		if len == 0 {
			self.compare(&info, &ref_spec, &reference, &ReqSpec { frames: vec![], ..ref_spec.clone() }).await;
			self.compare(&info, &ref_spec, &reference, &ReqSpec { frames: vec![Fr::Trailers], content_length: false, ..ref_spec.clone() }).await;
		}

		// framings by cuts
		let mut bases: Vec<Vec<Fr>> = vec![ref_spec.frames.clone()];
		if exhaustive {
			for c in 1..len {
				let frames = split(body, &[c]);
				for cl in [true, false] {
					self.compare(&info, &ref_spec, &reference, &ReqSpec { frames: frames.clone(), content_length: cl, ..ref_spec.clone() }).await;
				}
				bases.push(frames);
			}
			for a in 1..len {
				for b in a + 1..len {
					let var = self.decorate(r, &ref_spec, split(body, &[a, b]));
					self.compare(&info, &ref_spec, &reference, &var).await;
				}
			}
		} else {
			for _ in 0..12 {
				let k = 1 + r.usize(4);
				let frames = split(body, &seeded_cuts(r, len, k));
				let var = self.decorate(r, &ref_spec, frames.clone());
				self.compare(&info, &ref_spec, &reference, &var).await;
				if bases.len() < 5 {
					bases.push(frames);
				}
			}
			// every cut inside / right after the leading whitespace, and one byte further
			let lw = leading_ws(body);
			for c in 1..=(lw + 1).min(len.saturating_sub(1)) {
				let var = self.decorate(r, &ref_spec, split(body, &[c]));
				self.compare(&info, &ref_spec, &reference, &var).await;
			}
			// the leading whitespace spread over several whitespace-only frames
			if lw >= 2 && lw < len {
				for _ in 0..6 {
					let k = 2 + r.usize(3);
					let mut cuts: Vec<usize> = (0..k).map(|_| 1 + r.usize(lw)).collect();
					cuts.push(lw);
					cuts.sort();
					cuts.dedup();
					cuts.retain(|c| *c > 0 && *c < len);
					let var = self.decorate(r, &ref_spec, split(body, &cuts));
					self.compare(&info, &ref_spec, &reference, &var).await;
				}
			}
		}
		// isolate every whitespace run of the body in a frame of its own
		let mut i = 0;
		let mut runs = 0;
		while i < len && runs < 40 {
			if body[i].is_ascii_whitespace() {
				let s = i;
				while i < len && body[i].is_ascii_whitespace() {
					i += 1;
				}
				let cuts: Vec<usize> = [s, i].into_iter().filter(|c| *c > 0 && *c < len).collect();
				if !cuts.is_empty() {
					let var = self.decorate(r, &ref_spec, split(body, &cuts));
					self.compare(&info, &ref_spec, &reference, &var).await;
					runs += 1;
				}
			} else {
				i += 1;
			}
		}

		// empty frames inserted at every position of the base framings
		for base in &bases {
			for pos in 0..=base.len() {
				let mut frames = base.clone();
				frames.insert(pos, Fr::Data(vec![]));
				if r.chance(1, 8) {
					frames.insert(pos, Fr::Data(vec![]));
				}
				if r.chance(1, 10) {
					frames.push(Fr::Trailers);
				}
				let var = ReqSpec { frames, content_length: r.chance(2, 3), ..ref_spec.clone() };
				self.compare(&info, &ref_spec, &reference, &var).await;
			}
		}

		// whitespace-only frames inserted at every position: the inserted bytes become part of the body, so the
		// reference is the answer to the *new* bytes in one frame
		let positions: Vec<usize> = if exhaustive {
			(0..=len).collect()
		} else {
			let mut p: Vec<usize> = (0..8).map(|_| r.usize(len + 1)).collect();
			p.push(0);
			p.push(len);
			p.push(leading_ws(body));
			p.sort();
			p.dedup();
			p
		};
		for p in positions {
			let wn = 1 + r.usize(3);
			let w = ws_run(r, wn);
			let mut nb = body[..p].to_vec();
			nb.extend_from_slice(&w);
			nb.extend_from_slice(&body[p..]);
			if leading_ws(&nb) > 127 {
				continue;
			}
			let spec2 = ReqSpec::canonical(&nb);
			let ref2 = self.run(&spec2).await;
			self.ev.count("references", 1);
			let mut frames = Vec::new();
			if p > 0 {
				frames.push(Fr::Data(body[..p].to_vec()));
			}
			frames.push(Fr::Data(w));
			if p < len {
				frames.push(Fr::Data(body[p..].to_vec()));
			}
			if frames.len() == 1 {
				// the whole body is the inserted whitespace: put an empty frame next to it
				frames.push(Fr::Data(vec![]));
			}
			let info2 = CaseInfo { kind: bc.kind, tag };
			let var = ReqSpec { frames, content_length: r.chance(2, 3), ..spec2.clone() };
			self.compare(&info2, &spec2, &ref2, &var).await;
		}
	}

	/// Seeded decorations of a framing: Content-Length presence, spelling, trailers, yielding stream.
	fn decorate(&self, r: &mut Rng, ref_spec: &ReqSpec, mut frames: Vec<Fr>) -> ReqSpec {
		if r.chance(1, 16) {
			frames.push(Fr::Trailers);
		}
		ReqSpec {
			method: "POST".into(),
			content_types: if r.chance(1, 8) { vec![random_accepted(r)] } else { ref_spec.content_types.clone() },
			content_length: r.chance(2, 3),
			frames,
			body_impl: if r.chance(1, 12) { BodyImpl::StreamYield } else { BodyImpl::Stream },
		}
	}

	/// Gate sweep: every non-POST method and every near-miss content type, with a valid call as body.
	async fn gate_sweep(&mut self, r: &mut Rng, tag: &str) {
		let nonce = format!("{tag}-g");
		let e = entry(r, &nonce, false, Some("call"));
		let body = wrap(r, e.text.as_bytes(), false);
		let bc = BodyCase { kind: "call", bytes: body.clone(), expect_call: e.call };
		if leading_ws(&body) > 127 {
			return;
		}
		let (ref_spec, reference) = self.reference(&bc, tag).await;
		let misses = near_misses();
		let framing = |r: &mut Rng| -> Vec<Fr> {
			match r.below(4) {
				0 | 1 => vec![Fr::Data(body.clone())],
				2 => {
					let k = 1 + r.usize(2);
					split(&body, &seeded_cuts(r, body.len(), k))
				}
				_ => vec![Fr::Data(vec![]), Fr::Data(body.clone())],
			}
		};
		// methods
		let groups: [(&str, &[&str]); 3] =
			[("standard-method", &STANDARD_METHODS), ("extension-method", &EXTENSION_METHODS), ("post-in-other-letter-case", &POST_CASE_VARIANTS)];
		for (class, methods) in groups {
			for m in methods {
				let cts: Vec<Vec<Vec<u8>>> = vec![
					vec![ACCEPTED[0].as_bytes().to_vec()],
					vec![random_accepted(r)],
					vec![{
						let m = lossy(&r.pick(&misses).1);
						random_case(r, &m)
					}],
					vec![],
				];
				for ct in cts {
					let Ok(ct) = ct.into_iter().map(|c| http::HeaderValue::from_bytes(&c).map(|_| c)).collect::<Result<Vec<_>, _>>() else { continue };
					let spec = ReqSpec { method: m.to_string(), content_types: ct, content_length: r.bool(), frames: framing(r), body_impl: BodyImpl::Stream };
					self.check_refused(&spec, class).await;
				}
			}
		}
		// content types on POST
		let mut cases: Vec<(&str, Vec<Vec<u8>>)> = misses.iter().map(|(c, v)| (*c, vec![v.clone()])).collect();
		for (c, v) in &misses {
			if *c != "non-ascii" && *c != "empty" {
				cases.push((*c, vec![random_case(r, &lossy(v))]));
			}
		}
		cases.push(("missing", vec![]));
		cases.push(("duplicate-both-outside", vec![b"text/plain".to_vec(), b"text/html".to_vec()]));
		cases.push(("duplicate-both-outside", vec![b"application/jsonx".to_vec(), b"application/jsonx".to_vec()]));
		for (class, ct) in cases {
			let fr = framing(r);
			for cl in [true, false] {
				let spec = ReqSpec { method: "POST".into(), content_types: ct.clone(), content_length: cl, frames: fr.clone(), body_impl: BodyImpl::Stream };
				self.check_refused(&spec, class).await;
			}
		}
		// duplicated header with at least one accepted value
		let a = random_accepted(r);
		let a2 = random_accepted(r);
		let bad = lossy(&r.pick(&misses[..35]).1);
		let bad = random_case(r, &bad);
		for ct in [vec![a.clone(), a.clone()], vec![a.clone(), a2.clone()], vec![a.clone(), bad.clone()], vec![bad.clone(), a.clone()]] {
			// only the header duplication differs from the reference request
			let spec = ReqSpec { content_types: ct, ..ref_spec.clone() };
			self.check_duplicate(&ref_spec, &reference, &spec).await;
		}
	}
}

// ---------------------------------------------------------------------------------------------------------------
// Workloads.

// ---------------------------------------------------------------------------------------------------------------
// The server assembled with `ProxyGetRequestLayer` (GET /health and GET /info/x are mapped to RPC methods): the mapping
// concerns GET on exactly those paths; every other method stays refused with 405 there too, and no handler runs.

async fn proxy_family(seed: u64) -> (Evidence, Vec<Violation>) {
	use jsonrpsee_server::middleware::http::ProxyGetRequestLayer;
	let mut ev = Evidence::new("");
	let mut violations = Vec::new();
	let mut r = Rng::new(seed);
	let log: Log = Arc::new(Mutex::new(Vec::new()));
	let (stop_handle, _server_handle) = jsonrpsee_server::stop_channel();
	let layer = ProxyGetRequestLayer::new([("/health", "e"), ("/info/x", "echo_async")]).expect("paths start with /");
	let builder = jsonrpsee_server::Server::builder().set_http_middleware(tower::ServiceBuilder::new().layer(layer)).to_service_builder();
	let mut svc = builder.build(module(log.clone()), stop_handle);
	let paths = ["/health", "/info/x", "/", "/health/", "/other"];
	let mut methods: Vec<&str> = vec!["GET", "POST"];
	methods.extend(STANDARD_METHODS.iter().copied().filter(|m| *m != "GET" && *m != "CONNECT"));
	methods.extend(EXTENSION_METHODS.iter().copied());
	for path in paths {
		for m in &methods {
			let body: &[u8] = if r.bool() { b"{\"jsonrpc\":\"2.0\",\"id\":1,\"method\":\"fail\"}" } else { b"" };
			let with_ct = r.bool();
			let mut b = http::Request::builder().method(http::Method::from_bytes(m.as_bytes()).expect("method token")).uri(format!("http://localhost{path}")).header("host", "localhost");
			if with_ct {
				b = b.header("content-type", "application/json");
			}
			// a client may state the length of its (empty or not) body: that is no reason for another answer
			if r.bool() {
				b = b.header("content-length", body.len());
			}
			let req = b.body(http_body_util::Full::new(Bytes::copy_from_slice(body))).expect("request");
			log.lock().unwrap().clear();
			let reply = http_call(&mut svc, req).await;
			let ran: Vec<(String, String)> = std::mem::take(&mut *log.lock().unwrap());
			ev.eval();
			ev.count("proxy_layer_requests", 1);
			ev.nontrivial(&("proxy", path, *m, with_ct, body.len()));
			let mapped = path == "/health" || path == "/info/x";
			let w = json!({"family": "proxy-get-layer", "method": m, "path": path, "content_type": with_ct, "body": lossy(body), "status": reply.status, "handlers": ran.iter().map(|x| x.0.clone()).collect::<Vec<_>>()});
			match *m {
				"GET" if mapped => {
					let want = if path == "/health" { "e" } else { "echo_async" };
					if reply.status != 200 || ran.len() != 1 || ran[0].0 != want {
						violations.push(Violation::new("proxy-get-not-mapped/configured-path".to_string(), format!("GET {path}: status {} handlers {ran:?}", reply.status), w));
					}
				}
				"POST" => {
					// judged by the main part of this check
				}
				_ => {
					if reply.status != 405 || !ran.is_empty() {
						let class = if mapped { "proxied-path" } else { "other-path" };
						violations.push(Violation::new(
							format!("gate-method-not-405/{}:{class}", if STANDARD_METHODS.contains(m) { "standard-method" } else { "extension-method" }),
							format!("{m} {path} on a server with ProxyGetRequestLayer: status {} and {} handler invocation(s), expected 405 and none", reply.status, ran.len()),
							w,
						));
					}
				}
			}
		}
	}
	(ev, violations)
}

/// Family: the response depends on the body bytes, not on how the Content-Length header is spelled. The same valid call is
/// sent with one Content-Length header (reference), none, the header twice with the same value, and as the list `N, N`
/// (both are valid spellings of one length; a proxy or an HTTP/2 peer may produce them).
async fn content_length_spelling_family(seed: u64, n: usize) -> (Evidence, Vec<Violation>) {
	let mut ev = Evidence::new("");
	let mut violations = Vec::new();
	let mut r = Rng::new(seed);
	let log: Log = Arc::new(Mutex::new(Vec::new()));
	let (stop_handle, _server_handle) = jsonrpsee_server::stop_channel();
	let mut svc = jsonrpsee_server::Server::builder().to_service_builder().build(module(log.clone()), stop_handle);
	for i in 0..n {
		let nonce = format!("cl{seed:x}-{i}");
		let method = *r.pick(&["e", "echo", "a", "echo_async", "fail"]);
		let body = format!("{}{{\"jsonrpc\":\"2.0\",\"id\":{},\"method\":\"{method}\",\"params\":[\"{nonce}\",\"{}\"]}}", " ".repeat(r.usize(4)), r.below(1000), "x".repeat(r.usize(200))).into_bytes();
		let mut seen: Vec<(&str, u16, Vec<u8>, Vec<(String, String)>)> = Vec::new();
		for spelling in ["single", "absent", "repeated", "list"] {
			let mut b = http::Request::builder().method("POST").uri("http://localhost/").header("host", "localhost").header("content-type", "application/json");
			match spelling {
				"single" => b = b.header("content-length", body.len()),
				"repeated" => b = b.header("content-length", body.len()).header("content-length", body.len()),
				"list" => b = b.header("content-length", format!("{}, {}", body.len(), body.len())),
				_ => {}
			}
			let frames: Vec<Result<Frame<Bytes>, Infallible>> = if r.bool() {
				vec![Ok(Frame::data(Bytes::from(body.clone())))]
			} else {
				let c = 1 + r.usize(body.len() - 1);
				vec![Ok(Frame::data(Bytes::copy_from_slice(&body[..c]))), Ok(Frame::data(Bytes::copy_from_slice(&body[c..])))]
			};
			let req = b.body(StreamBody::new(futures_util::stream::iter(frames))).expect("request");
			log.lock().unwrap().clear();
			let reply = http_call(&mut svc, req).await;
			let mut ran: Vec<(String, String)> = std::mem::take(&mut *log.lock().unwrap());
			ran.sort();
			ev.eval();
			ev.count("content_length_spelling_requests", 1);
			ev.count(&format!("content_length_spelling_{spelling}_status_{}", reply.status), 1);
			seen.push((spelling, reply.status, reply.body, ran));
		}
		let reference = seen[0].clone();
		for (spelling, status, rbody, ran) in &seen[1..] {
			if (*status, rbody, ran) != (reference.1, &reference.2, &reference.3) {
				violations.push(Violation::new(
					format!("content-length-spelling-changes-answer/{spelling}"),
					format!("same {} body bytes: one Content-Length header => {} {:?} handlers={}; Content-Length {spelling} => {} {:?} handlers={}", body.len(), reference.1, lossy(&reference.2), reference.3.len(), status, lossy(rbody), ran.len()),
					json!({"family": "content-length-spelling", "seed": seed, "index": i, "body": lossy(&body), "spelling": spelling}),
				));
			} else if reference.1 == 200 {
				ev.nontrivial(&("cl-spelling", seed, i, *spelling));
			}
		}
	}
	(ev, violations)
}

/// A request body whose stream FAILS (the peer went away before the announced length, a broken final chunk, a reset
/// HTTP/2 stream) is not a received request: whatever prefix arrived, wherever the fault sits between the frames and
/// whichever framing header was sent, no handler may run for it and the answer is never a JSON-RPC result. The same
/// bytes ending normally are the reference (accepted, handler ran once).
async fn broken_body_family(seed: u64, n: usize) -> (Evidence, Vec<Violation>) {
	let mut ev = Evidence::new("");
	let mut violations = Vec::new();
	let mut r = Rng::new(seed);
	let log: Log = Arc::new(Mutex::new(Vec::new()));
	let (stop_handle, _server_handle) = jsonrpsee_server::stop_channel();
	let mut svc = jsonrpsee_server::Server::builder().to_service_builder().build(module(log.clone()), stop_handle);
	for i in 0..n {
		let nonce = format!("bb{seed:x}-{i}");
		let method = *r.pick(&["e", "echo", "a", "echo_async", "fail"]);
		let one = format!("{{\"jsonrpc\":\"2.0\",\"id\":{},\"method\":\"{method}\",\"params\":[\"{nonce}\",\"{}\"]}}", r.below(1000), "x".repeat(r.usize(120)));
		let body = match r.below(4) {
			0 => format!("[{one},{one}]"),
			1 => format!("{}{one}{}", " ".repeat(r.usize(3)), "\n".repeat(r.usize(3))),
			_ => one.clone(),
		}
		.into_bytes();
		// how much of the text arrived before the fault, and in how many frames
		let (arrived, where_) = match r.below(6) {
			0 => (0, "before-any-byte"),
			1 | 2 => (1 + r.usize(body.len() - 1), "inside-the-text"),
			_ => (body.len(), "after-the-whole-text"),
		};
		let k = r.usize(4);
		let mut cuts = seeded_cuts(&mut r, arrived, k);
		cuts.retain(|c| *c < arrived);
		let mut frames: Vec<Result<Frame<Bytes>, std::io::Error>> = Vec::new();
		let mut at = 0;
		for c in cuts.iter().copied().chain(std::iter::once(arrived)) {
			if c > at || r.chance(1, 4) {
				frames.push(Ok(Frame::data(Bytes::copy_from_slice(&body[at..c]))));
			}
			at = c.max(at);
		}
		if r.chance(1, 4) {
			frames.push(Ok(Frame::data(Bytes::new())));
		}
		let kind = *r.pick(&[std::io::ErrorKind::ConnectionReset, std::io::ErrorKind::UnexpectedEof, std::io::ErrorKind::InvalidData, std::io::ErrorKind::Other]);
		frames.push(Err(std::io::Error::new(kind, "the body stream failed here")));
		let framing = *r.pick(&["no-content-length", "content-length-of-whole-text", "content-length-larger", "content-length-of-arrived"]);
		let mut b = http::Request::builder().method("POST").uri("http://localhost/").header("host", "localhost").header("content-type", "application/json");
		match framing {
			"content-length-of-whole-text" => b = b.header("content-length", body.len()),
			"content-length-larger" => b = b.header("content-length", body.len() + 1 + r.usize(64)),
			"content-length-of-arrived" => b = b.header("content-length", arrived),
			_ => {}
		}
		let n_frames = frames.len() - 1;
		let req = b.body(StreamBody::new(futures_util::stream::iter(frames))).expect("request");
		log.lock().unwrap().clear();
		let reply = http_call(&mut svc, req).await;
		let ran: Vec<(String, String)> = std::mem::take(&mut *log.lock().unwrap());
		ev.eval();
		ev.count("broken_body_requests", 1);
		ev.count(&format!("broken_body_{where_}_status_{}", reply.status), 1);
		ev.count(&format!("broken_body_framing_{framing}"), 1);
		let text = lossy(&reply.body);
		let answered_as_rpc = reply.status == 200 && (text.contains("\"result\"") || text.contains(&nonce) || text.contains("-32050"));
		let wit = json!({"family": "broken-body", "seed": seed, "index": i, "body": lossy(&body), "arrived_bytes": arrived, "frames_before_fault": n_frames, "framing": framing, "error_kind": format!("{kind:?}"), "status": reply.status, "reply": text, "handlers": ran.iter().map(|x| x.0.clone()).collect::<Vec<_>>()});
		if !ran.is_empty() {
			violations.push(Violation::new(
				format!("handler-ran-for-body-that-failed/{where_}"),
				format!("the body stream failed after {arrived} of {} bytes ({n_frames} frames, {framing}), yet handler(s) {:?} ran; answer {} {:?}", body.len(), ran.iter().map(|x| x.0.as_str()).collect::<Vec<_>>(), reply.status, text),
				wit,
			));
		} else if answered_as_rpc {
			violations.push(Violation::new(
				format!("rpc-answer-for-body-that-failed/{where_}"),
				format!("the body stream failed after {arrived} of {} bytes, yet the answer is {} {:?}", body.len(), reply.status, text),
				wit,
			));
		} else {
			ev.nontrivial(&("broken-body", seed, i));
		}
		// the reference: the same bytes, ending normally, are accepted
		if where_ == "after-the-whole-text" && i % 4 == 0 {
			let req = http::Request::builder().method("POST").uri("http://localhost/").header("host", "localhost").header("content-type", "application/json").body(StreamBody::new(futures_util::stream::iter(vec![Ok::<_, std::io::Error>(Frame::data(Bytes::from(body.clone())))]))).expect("request");
			log.lock().unwrap().clear();
			let reply = http_call(&mut svc, req).await;
			let ran = std::mem::take(&mut *log.lock().unwrap());
			ev.count("broken_body_references", 1);
			if reply.status != 200 || ran.is_empty() {
				violations.push(Violation::new(
					"broken-body-reference-refused",
					format!("the same {} bytes ending normally were answered {} {:?} (handlers {})", body.len(), reply.status, lossy(&reply.body), ran.len()),
					json!({"family": "broken-body", "seed": seed, "index": i, "body": lossy(&body)}),
				));
			}
		}
	}
	(ev, violations)
}

const DEFAULT_LIMIT: u32 = 10 * 1024 * 1024;
const SMALL_LIMIT: u32 = 300;

/// A valid echo call padded to exactly `size` bytes.
fn sized_call(nonce: &str, size: usize) -> Option<Vec<u8>> {
	let base = format!("{{\"jsonrpc\":\"2.0\",\"method\":\"e\",\"params\":[\"{nonce}\",\"\"],\"id\":1}}");
	if base.len() > size {
		return None;
	}
	let pad = "p".repeat(size - base.len());
	Some(format!("{{\"jsonrpc\":\"2.0\",\"method\":\"e\",\"params\":[\"{nonce}\",\"{pad}\"],\"id\":1}}").into_bytes())
}

/// Bodies around a small `max_request_body_size`: the answer (processed / rejected as too big) must not depend on
/// framing or on the presence of Content-Length either.
async fn limit_workload(seed: u64, shard: u64) -> Exec {
	let mut x = Exec::new(SMALL_LIMIT);
	let mut r = Rng::new(seed);
	let l = SMALL_LIMIT as usize;
	for (i, size) in [l - 1, l, l + 1, l + 2 + r.usize(l), 2 * l, 8 * l].into_iter().enumerate() {
		let tag = format!("s{shard}-lim{i}");
		let Some(body) = sized_call(&tag, size) else { continue };
		let bc = BodyCase { kind: if size > l { "call-over-limit" } else { "call-at-limit" }, bytes: body.clone(), expect_call: Some(("e".into(), tag.clone())) };
		let info = CaseInfo { kind: bc.kind, tag: &tag };
		let (ref_spec, reference) = x.reference(&bc, &tag).await;
		x.compare(&info, &ref_spec, &reference, &ReqSpec { content_length: false, ..ref_spec.clone() }).await;
		x.compare(&info, &ref_spec, &reference, &ReqSpec { body_impl: BodyImpl::Full, content_length: false, ..ref_spec.clone() }).await;
		for _ in 0..6 {
			let k = 1 + r.usize(4);
			let frames = split(&body, &seeded_cuts(&mut r, body.len(), k));
			for cl in [true, false] {
				x.compare(&info, &ref_spec, &reference, &ReqSpec { frames: frames.clone(), content_length: cl, ..ref_spec.clone() }).await;
			}
		}
		// handler must not run for an oversized body in any framing (it is never complete within the limit)
		// the gate comes first, whatever the size: a body of this size under another method / content type is refused 405 /
		// 415 like any other (with and without a Content-Length that announces the size)
		for cl in [true, false] {
			let m = *r.pick(&["GET", "PUT", "DELETE", "PATCH", "FOO"]);
			x.check_refused(&ReqSpec { method: m.into(), content_length: cl, ..ref_spec.clone() }, if size > l { "standard-method:body-over-limit" } else { "standard-method" }).await;
			x.check_refused(&ReqSpec { content_types: vec![b"text/plain".to_vec()], content_length: cl, ..ref_spec.clone() }, if size > l { "text/plain:body-over-limit" } else { "text/plain" }).await;
			x.check_refused(&ReqSpec { content_types: vec![], content_length: cl, ..ref_spec.clone() }, if size > l { "missing:body-over-limit" } else { "missing" }).await;
		}
	}
	// leading whitespace counts as body bytes: W blanks in front of a call that is W-1..0 bytes under the limit, so that the
	// whole body is 1..W bytes over it - in every framing, with and without Content-Length
	for (i, w) in [1usize, 2, 5, 17, 64].into_iter().enumerate() {
		for over in [1usize, w.div_ceil(2), w] {
			let tag = format!("s{shard}-ws{i}-{over}");
			let Some(call) = sized_call(&tag, l + over - w) else { continue };
			let mut body = vec![b' '; w];
			if w > 2 {
				body[w / 2] = b'\n';
			}
			body.extend_from_slice(&call);
			let bc = BodyCase { kind: "call-over-limit-by-its-leading-whitespace", bytes: body.clone(), expect_call: Some(("e".into(), tag.clone())) };
			let info = CaseInfo { kind: bc.kind, tag: &tag };
			let (ref_spec, reference) = x.reference(&bc, &tag).await;
			x.compare(&info, &ref_spec, &reference, &ReqSpec { content_length: false, ..ref_spec.clone() }).await;
			for _ in 0..8 {
				let k = 1 + r.usize(4);
				let mut cuts = seeded_cuts(&mut r, body.len(), k);
				// one cut shortly after the opening brace, so that some blanks share a frame with it
				cuts.push((w + 1 + r.usize(4)).min(body.len() - 1));
				cuts.sort();
				cuts.dedup();
				let frames = split(&body, &cuts);
				for cl in [true, false] {
					x.compare(&info, &ref_spec, &reference, &ReqSpec { frames: frames.clone(), content_length: cl, ..ref_spec.clone() }).await;
				}
			}
		}
	}
	x
}

async fn shard_workload(seed: u64, shard: u64, budget: u64, with_limit_cases: bool) -> Exec {
	let mut x = Exec::new(DEFAULT_LIMIT);
	let mut r = Rng::new(seed);
	let mut case = 0u64;
	// fixed structure first: one gate sweep and one short body with exhaustive cuts per shard
	x.gate_sweep(&mut r, &format!("s{shard}-c{case}")).await;
	case += 1;
	let bc = gen_body_bounded(&mut r, &format!("s{shard}-c{case}"), true);
	x.body_case(&mut r, &bc, &format!("s{shard}-c{case}"), true).await;
	case += 1;
	while x.used < budget {
		let tag = format!("s{shard}-c{case}");
		case += 1;
		match r.below(40) {
			0..=2 => x.gate_sweep(&mut r, &tag).await,
			3..=5 if budget - x.used.min(budget) > 1500 => {
				let bc = gen_body_bounded(&mut r, &tag, true);
				x.body_case(&mut r, &bc, &tag, true).await;
			}
			_ => {
				let bc = gen_body_bounded(&mut r, &tag, false);
				x.body_case(&mut r, &bc, &tag, false).await;
			}
		}
	}
	if with_limit_cases {
		let y = limit_workload(r.next_u64(), shard).await;
		x.ev.merge(y.ev);
		x.violations.extend(y.violations);
	}
	x
}

const RULE: &str = "evaluation = one HTTP request executed on the real per-connection tower service (body = explicit frame list). \
	Differential cases: a body (valid call / notification / batch / invalid JSON / degenerate, 0..127 leading whitespace bytes) \
	is sent once as one data frame with Content-Length and application/json (reference) and then in every generated framing \
	(all single cuts and all pairs of cuts for bodies <= 80 bytes, seeded 1..4 cuts otherwise, every cut inside the leading whitespace, \
	every whitespace run isolated, empty frames at every position, whitespace-only frames inserted at every position, trailers, \
	Full body, yielding stream), with/without Content-Length, under all six accepted spellings in random letter case. \
	Gate cases: 19 non-POST methods x content types, POST x 39 near-miss content types (+ random letter case, missing, duplicated) x Content-Length present/absent. \
	Non-trivial = (a) a variant that differs from the reference request (framing, Content-Length or spelling) of a body whose reference \
	answer was 200, i.e. the body reached the RPC layer, or (b) a gate request with a non-empty valid call as body that was refused \
	with the expected status; distinct by the full request description.";

fn main() {
	let ctx = Ctx::from_env("C19", "exploration");
	install_panic_capture(true);
	let _wd = watchdog("C19", Duration::from_secs(ctx.tier.pick(900, 5400)));
	let mut ev = Evidence::new(RULE);
	ev.assume("the tower service boundary is the observation point: requests are built with the http crate (no hyper connection in between), so header values such as ' application/json' reach the gate untrimmed");
	ev.assume("a trailers frame only appears after the last data frame; the Content-Length header, when present, is always correct");
	ev.assume("duplicated Content-Type headers with at least one accepted value: either 415 + no handler or the reference answer is accepted (statement silent on which value counts)");
	let mut violations = Vec::new();

	if let Some(path) = &ctx.replay {
		let w: Value = serde_json::from_str(&std::fs::read_to_string(path).expect("replay file")).expect("json");
		let wit = &w["witness"];
		let limit = wit["max_request_body_size"].as_u64().unwrap_or(DEFAULT_LIMIT as u64) as u32;
		if let Some(fam) = wit["family"].as_str().filter(|f| *f != "proxy-get-layer") {
			let (seed, upto) = (wit["seed"].as_u64().unwrap_or(0), wit["index"].as_u64().unwrap_or(0) as usize + 1);
			let (e, v) = block_on_virtual(async {
				if fam == "broken-body" { broken_body_family(seed, upto).await } else { content_length_spelling_family(seed, upto).await }
			});
			for x in &v {
				println!("replay violation: {} — {}", x.signature, x.detail);
			}
			ev.merge(e);
			ev.nontrivial(&"family-replay-a");
			ev.nontrivial(&"family-replay-b");
			finish(&ctx, ev, v, None);
		}
		let x = block_on_virtual(async {
			let mut x = Exec::new(limit);
			if let Some(g) = wit.get("gate") {
				let spec = spec_from_json(&g["spec"]).expect("gate spec");
				println!("replaying gate request: {}", spec_json(&spec));
				let o = x.srv.run(&spec).await;
				println!("observed: {}", o.to_json());
				x.check_refused(&spec, g["class"].as_str().unwrap_or("replayed")).await;
				x.ev.nontrivial(&"gate-replay-a");
				x.ev.nontrivial(&"gate-replay-b");
			} else {
				let rs = spec_from_json(&wit["reference"]["spec"]).expect("reference spec");
				let vs = spec_from_json(&wit["variant"]["spec"]).expect("variant spec");
				println!("replaying reference: {}", spec_json(&rs));
				let reference = x.run(&rs).await;
				println!("reference observed: {}", reference.to_json());
				println!("replaying variant:   {}", spec_json(&vs));
				let o = x.srv.run(&vs).await;
				println!("variant observed:   {}", o.to_json());
				println!("oracle: answers {}", if o.same(&reference) { "identical" } else { "DIFFER" });
				let info = CaseInfo { kind: wit["body_kind"].as_str().unwrap_or("replayed"), tag: "replay" };
				if wit.get("duplicate").is_some() {
					x.check_duplicate(&rs, &reference, &vs).await;
				} else if rs.body() == vs.body() {
					x.compare(&info, &rs, &reference, &vs).await;
				}
				x.ev.nontrivial(&rs);
				x.ev.nontrivial(&vs);
			}
			x
		});
		for v in &x.violations {
			println!("replay violation: {} — {}", v.signature, v.detail);
		}
		ev.merge(x.ev);
		finish(&ctx, ev, x.violations, None);
	}

	let total: u64 = ctx.arg_value("--requests").and_then(|s| s.parse().ok()).unwrap_or(ctx.tier.pick(200_000, 20_000_000));
	let shards: u64 = ctx.tier.pick(32, 192);
	let with_limit = !ctx.args.iter().any(|a| a == "--no-limit-cases");
	let results = run_parallel((0..shards).collect(), |_, s| {
		let seed = Rng::fork(ctx.seed, s).next_u64();
		let x = block_on_virtual(shard_workload(seed, s, total / shards, with_limit && s % 4 == 0));
		(x.ev, x.violations)
	});
	for (e, v) in results {
		ev.merge(e);
		violations.extend(v);
	}
	{
		let seed = ctx.seed;
		let reps = ctx.tier.pick(8u64, 200);
		let res = run_parallel((0..reps).collect(), |_, i| block_on_virtual(proxy_family(Rng::fork(seed ^ 0x9e7, i).next_u64())));
		for (e, v) in res {
			ev.merge(e);
			violations.extend(v);
		}
	}
	{
		let seed = ctx.seed;
		let n = ctx.tier.pick(50usize, 2_500);
		let res = run_parallel((0..16u64).collect(), |_, i| block_on_virtual(content_length_spelling_family(Rng::fork(seed ^ 0xc1e, i).next_u64(), n)));
		for (e, v) in res {
			ev.merge(e);
			violations.extend(v);
		}
	}
	{
		let seed = ctx.seed;
		let n = ctx.tier.pick(60usize, 3_000);
		let res = run_parallel((0..16u64).collect(), |_, i| block_on_virtual(broken_body_family(Rng::fork(seed ^ 0xb0d, i).next_u64(), n)));
		for (e, v) in res {
			ev.merge(e);
			violations.extend(v);
		}
	}
	for p in take_panics() {
		if p.in_library {
			violations.push(Violation::new(
				format!("panic/{}", p.location.rsplit('/').next().unwrap_or("")),
				p.message.clone(),
				json!({"location": p.location, "backtrace": p.backtrace_head}),
			));
		}
	}
	// smallest witness first within each signature (finish keeps the first one)
	violations.sort_by_key(|v| {
		(
			v.signature.clone(),
			v.witness.is_null(),
			v.witness["body_kind"].as_str().is_some_and(|k| k != "call"),
			v.witness["body_len"].as_u64().unwrap_or(u64::MAX),
		)
	});
	let mut inconclusive: Option<String> = None;
	// AddressSanitizer: the quick workload of this check once more on an ASan build (real hyper / soketto / tokio IO)
	if ctx.tier == Tier::Thorough && ctx.replay.is_none() {
		if let Some(why) = jrv::sanit::merge_asan(jrv::sanit::run_asan("c19", "C19", ctx.seed, Duration::from_secs(2400)), &mut ev, &mut violations) {
			inconclusive = inconclusive.or(Some(why));
		}
	}
	finish(&ctx, ev, violations, inconclusive);
}
