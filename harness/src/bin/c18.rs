//! C18 — client bookkeeping returns to empty: no growth with past requests.
//!
//! Monitor: step histories on the real async client over a scripted transport (calls, batches, subscribe with
//! accepted / refused / malformed / duplicate-id answers, unsubscribe, drop, server-side close single or in an
//! array, lag closure, notification-handler register / unregister, unsubscribe acknowledgements delivered in seeded
//! orders). Whenever the model says nothing is outstanding (and at the end of every history) the cfg-guarded
//! accessor `Client::verif_table_sizes()` must read [0, 0, 0, 0]. Long repetitions of each cycle must end at zero.
//! Finally a response bearing an id of finished work must be treated exactly like one bearing a never-used id.

use jrv::clientsim::*;
use jrv::report::*;
use jrv::rng::{Rng, permutations};
use jrv::runner::*;
use jrv::sanit::{self, SubOutcome};
use jrv::script::{ClientOut, ServerSide};
use std::sync::atomic::Ordering;
use jsonrpsee_core::client::{BatchResponse, ClientT, Subscription, SubscriptionClientT};
use jsonrpsee_core::params::BatchRequestBuilder;
use jsonrpsee_core::rpc_params;
use serde_json::{Value, json};
use std::time::Duration;

const SLOTS: usize = 4;
const BUFFER: usize = 2;

#[derive(Debug, Clone, PartialEq, Eq, Hash)]
enum SubAnswer {
	Accept,
	Refuse,
	MalformedId,
	DuplicateSubId,
	/// accepted with the id of a subscription that has ended (server close, lag) while the consumer still holds its stream
	ReuseEndedId,
}

#[derive(Debug, Clone, PartialEq, Eq, Hash)]
enum Step {
	Call { error: bool },
	Batch(usize),
	Subscribe(usize, SubAnswer),
	/// the application gives up the subscribe call (drops its future) before the server's accept arrives
	SubscribeAbandoned,
	Unsubscribe(usize),
	Drop(usize),
	ServerClose { slot: usize, in_array: bool },
	LagClose(usize),
	/// the overflowing notifications and the server's close notification for the same subscription arrive back to back
	/// (the client's own close request for the lagging subscription is still queued when the server's close is handled)
	LagThenServerClose { slot: usize, in_array: bool },
	/// ONE array that carries: the overflowing notifications of `lag` (its close request is produced while the array is
	/// being worked through), then the server's close of ANOTHER subscription `close`, then (with_call) the answer to a
	/// pending call or (with_batch) the answers of a pending batch - everything behind the overflowing item still counts.
	/// (with_call is never generated: responses inside an array are a batch reply by definition, the answer to a single
	/// call does not belong there - the client rightly gives such a connection up)
	MixedArray { lag: usize, close: usize, with_call: bool, with_batch: bool },
	Notify(usize),
	RegisterHandler(usize),
	UnregisterHandler(usize),
	/// deliver the k-th pending unsubscribe acknowledgement (modulo the number pending)
	Ack(usize),
	/// the server answers a pending unsubscribe call with an error object instead of `true`
	AckError(usize),
}

#[derive(Debug, Clone)]
struct Spec {
	seed: u64,
	string_ids: bool,
	steps: Vec<Step>,
	/// at the end, send a response bearing this kind of id
	stale_probe: bool,
}

#[derive(Default, Debug)]
struct Out {
	violations: Vec<(String, String)>,
	history: Vec<String>,
	ops: usize,
	idle_checks: usize,
	subs_accepted: usize,
	subs_refused: usize,
	subs_ended: usize,
	acks: usize,
	max_sizes: [usize; 4],
	final_sizes: [usize; 4],
	stale_probe_done: bool,
}

async fn settle() {
	tokio::time::sleep(Duration::from_millis(1)).await;
}

struct World {
	client: std::sync::Arc<SimClient>,
	srv: ServerSide,
	handles: Vec<Option<Subscription<Value>>>,
	sub_ids: Vec<Option<Value>>,
	/// the client still has it in its tables as far as the model knows
	live: Vec<bool>,
	method_handles: Vec<Option<Subscription<Value>>>,
	pending_acks: Vec<Value>,
	used_request_ids: Vec<Value>,
	next_sub: u64,
	unsub_for: Vec<(Value, Value)>,
}

impl World {
	/// Read what the client wrote; remember ids; queue unsubscribe calls for later acknowledgement.
	fn drain(&mut self, out: &mut Out) -> Vec<WireMsg> {
		let mut msgs = Vec::new();
		for m in self.srv.drain_out() {
			if let ClientOut::Msg { text, .. } = m {
				let w = parse_wire(&text);
				match &w {
					WireMsg::Single(q) => {
						if let Some(id) = &q.id {
							self.used_request_ids.push(id.clone());
							if q.method == "unsub" {
								self.pending_acks.push(id.clone());
								self.unsub_for.push((id.clone(), q.params.get(0).cloned().unwrap_or(Value::Null)));
								out.history.push(format!("client -> unsubscribe {} (id {id})", q.params));
								continue;
							}
						}
					}
					WireMsg::Batch(reqs) => {
						for q in reqs {
							if let Some(id) = &q.id {
								self.used_request_ids.push(id.clone());
							}
						}
					}
					WireMsg::Unparsable(t) => out.violations.push(("client-wrote-garbage/any".into(), t.clone())),
				}
				out.history.push(format!("client -> {w:?}"));
				msgs.push(w);
			}
		}
		msgs
	}

	fn model_idle(&self) -> bool {
		self.live.iter().all(|l| !*l) && self.pending_acks.is_empty() && self.method_handles.iter().all(|h| h.is_none()) && self.handles.iter().all(|h| h.is_none())
	}
}

async fn run_spec(spec: &Spec) -> Out {
	let mut out = Out::default();
	let (client0, srv) = jrv::clientsim::client(ClientCfg { string_ids: spec.string_ids, sub_buffer: BUFFER, build_path: ((spec.seed >> 21) % 4) as u8, ..Default::default() });
	let mut w = World {
		client: client0,
		srv,
		handles: (0..SLOTS).map(|_| None).collect(),
		sub_ids: vec![None; SLOTS],
		live: vec![false; SLOTS],
		method_handles: (0..SLOTS).map(|_| None).collect(),
		pending_acks: Vec::new(),
		used_request_ids: Vec::new(),
		next_sub: 100,
		unsub_for: Vec::new(),
	};
	macro_rules! bad {
		($sig:expr, $($arg:tt)*) => { out.violations.push(($sig.to_string(), format!($($arg)*))) };
	}

	for (si, step) in spec.steps.iter().enumerate() {
		out.ops += 1;
		match step {
			Step::Call { error } => {
				let c = w.client.clone();
				let t = tokio::spawn(async move { c.request::<Value, _>("call", rpc_params!["x"]).await.map_err(|e| err_kind(&e)) });
				settle().await;
				for m in w.drain(&mut out) {
					if let WireMsg::Single(q) = m {
						if let Some(id) = &q.id {
							w.srv.push_text(if *error { err_response(id, 1000, "scripted", None) } else { ok_response(id, json!(si)) });
						}
					}
				}
				match tokio::time::timeout(Duration::from_secs(30), t).await {
					Ok(Ok(Ok(_))) | Ok(Ok(Err(ErrKind::Call(..)))) => {}
					other => bad!("call-not-completed/plain", "{other:?}"),
				}
			}
			Step::Batch(n) => {
				let c = w.client.clone();
				let n = *n;
				let t = tokio::spawn(async move {
					let mut b = BatchRequestBuilder::new();
					for j in 0..n {
						b.insert("call", rpc_params![j]).unwrap();
					}
					let r: Result<BatchResponse<Value>, _> = c.batch_request(b).await;
					r.map(|r| r.len()).map_err(|e| err_kind(&e))
				});
				settle().await;
				for m in w.drain(&mut out) {
					if let WireMsg::Batch(reqs) = m {
						let parts: Vec<String> = reqs.iter().rev().map(|q| ok_response(q.id.as_ref().unwrap_or(&Value::Null), json!(1))).collect();
						w.srv.push_text(array_of(&parts));
					}
				}
				match tokio::time::timeout(Duration::from_secs(30), t).await {
					Ok(Ok(Ok(k))) if k == n => {}
					other => bad!("batch-not-completed/plain", "{other:?}"),
				}
			}
			Step::Subscribe(slot, answer) => {
				if w.handles[*slot].is_some() || w.live[*slot] {
					continue;
				}
				let c = w.client.clone();
				let t = tokio::spawn(async move { c.subscribe::<Value, _>("sub", rpc_params!["s"], "unsub").await });
				settle().await;
				let mut answered_with = Value::Null;
				for m in w.drain(&mut out) {
					if let WireMsg::Single(q) = m {
						if q.method != "sub" {
							continue;
						}
						let id = q.id.clone().unwrap_or(Value::Null);
						let text = match answer {
							SubAnswer::Accept => {
								w.next_sub += 1;
								answered_with = if w.next_sub % 2 == 0 { json!(w.next_sub) } else { json!(format!("sub-{}", w.next_sub)) };
								ok_response(&id, answered_with.clone())
							}
							SubAnswer::Refuse => err_response(&id, -32006, "refused", None),
							SubAnswer::MalformedId => ok_response(&id, json!({"not": "a subscription id"})),
							SubAnswer::ReuseEndedId => {
								match (0..SLOTS).find(|s| !w.live[*s] && w.handles[*s].is_some()).and_then(|s| w.sub_ids[s].clone()) {
									// (not while another live subscription carries it)
									Some(old) if !(0..SLOTS).any(|s| w.live[s] && w.sub_ids[s].as_ref() == Some(&old)) => {
										answered_with = old.clone();
										out.history.push(format!("the server issues the id {old} of an ended subscription again"));
										ok_response(&id, old)
									}
									_ => {
										w.next_sub += 1;
										answered_with = json!(w.next_sub * 1000 + 7);
										ok_response(&id, answered_with.clone())
									}
								}
							}
							SubAnswer::DuplicateSubId => {
								// the id of a subscription that is live right now, if any; else a fresh one (plain accept)
								match (0..SLOTS).find(|s| w.live[*s]).and_then(|s| w.sub_ids[s].clone()) {
									Some(dup) => {
										answered_with = Value::Null;
										ok_response(&id, dup)
									}
									None => {
										w.next_sub += 1;
										answered_with = json!(w.next_sub * 1000);
										ok_response(&id, answered_with.clone())
									}
								}
							}
						};
						out.history.push(format!("server -> {text}"));
						w.srv.push_text(text);
					}
				}
				match tokio::time::timeout(Duration::from_secs(30), t).await {
					Ok(Ok(Ok(s))) => {
						if answered_with.is_null() {
							bad!("subscribe-succeeded/on-bad-answer", "slot {slot}: {answer:?} produced a subscription");
						}
						w.handles[*slot] = Some(s);
						w.sub_ids[*slot] = Some(answered_with);
						w.live[*slot] = true;
						out.subs_accepted += 1;
					}
					Ok(Ok(Err(e))) => {
						if !answered_with.is_null() {
							bad!("subscribe-failed/accepted", "slot {slot}: {:?}", err_kind(&e));
						}
						out.subs_refused += 1;
					}
					other => bad!("subscribe-not-completed/any", "slot {slot}: {other:?}"),
				}
			}
			Step::SubscribeAbandoned => {
				let c = w.client.clone();
				let t = tokio::spawn(async move { c.subscribe::<Value, _>("sub", rpc_params!["abandoned"], "unsub").await.map(|_| ()) });
				settle().await;
				t.abort();
				settle().await;
				for m in w.drain(&mut out) {
					if let WireMsg::Single(q) = m {
						if q.method == "sub" {
							w.next_sub += 1;
							let text = ok_response(q.id.as_ref().unwrap_or(&Value::Null), json!(format!("abandoned-{}", w.next_sub)));
							out.history.push(format!("application dropped the subscribe call; server -> {text}"));
							w.srv.push_text(text);
						}
					}
				}
				out.subs_accepted += 1;
				out.subs_ended += 1;
			}
			Step::Unsubscribe(slot) => {
				if let Some(h) = w.handles[*slot].take() {
					out.history.push(format!("consumer unsubscribes slot {slot}"));
					let t = tokio::spawn(h.unsubscribe());
					settle().await;
					w.drain(&mut out);
					if !matches!(tokio::time::timeout(Duration::from_secs(30), t).await, Ok(Ok(Ok(())))) {
						bad!("unsubscribe-stuck/explicit", "slot {slot}");
					}
					if w.live[*slot] {
						out.subs_ended += 1;
					}
					w.live[*slot] = false;
				}
			}
			Step::Drop(slot) => {
				if w.handles[*slot].take().is_some() {
					out.history.push(format!("consumer drops slot {slot}"));
					if w.live[*slot] {
						out.subs_ended += 1;
					}
					w.live[*slot] = false;
				}
			}
			Step::ServerClose { slot, in_array } => {
				if let (true, Some(id)) = (w.live[*slot], w.sub_ids[*slot].clone()) {
					let c = sub_close("m", &id, json!("bye"));
					let text = if *in_array { array_of(&[plain_notif("noise", json!([1])), c]) } else { c };
					out.history.push(format!("server -> {text}"));
					w.srv.push_text(text);
					w.live[*slot] = false;
					out.subs_ended += 1;
				}
			}
			Step::LagClose(slot) => {
				if let (true, Some(id)) = (w.live[*slot], w.sub_ids[*slot].clone()) {
					if w.handles[*slot].is_some() {
						for k in 0..BUFFER + 1 {
							w.srv.push_text(sub_notif("m", &id, json!(k)));
						}
						out.history.push(format!("server floods slot {slot} with {} notifications (buffer {BUFFER})", BUFFER + 1));
						w.live[*slot] = false;
						out.subs_ended += 1;
						// the subscription has ended for its consumer; the client's own clean-up starts with an unsubscribe call naming
						// it (the request queue has room in these histories) - without it the entries could only go with the connection
						let before = w.unsub_for.iter().filter(|(_, sid)| *sid == id).count();
						settle().await;
						w.drain(&mut out);
						settle().await;
						w.drain(&mut out);
						if w.unsub_for.iter().filter(|(_, sid)| *sid == id).count() == before && w.client.is_connected() {
							bad!(
								format!("lagging-subscription-never-unsubscribed/{}", leak_feature(&spec.steps[..=si])),
								"slot {slot} (subscription {id}) fell more than {BUFFER} notifications behind and was ended; no unsubscribe call naming it followed, the tables hold {:?}",
								w.client.verif_table_sizes()
							);
						}
					}
				}
			}
			Step::LagThenServerClose { slot, in_array } => {
				if let (true, Some(id)) = (w.live[*slot], w.sub_ids[*slot].clone()) {
					if w.handles[*slot].is_some() {
						let mut parts: Vec<String> = (0..BUFFER + 1).map(|k| sub_notif("m", &id, json!(k))).collect();
						parts.push(sub_close("m", &id, json!("bye")));
						if *in_array {
							w.srv.push_text(array_of(&parts));
						} else {
							for p in parts {
								w.srv.push_text(p);
							}
						}
						out.history.push(format!("server floods slot {slot} and closes it at once (in one array: {in_array})"));
						w.live[*slot] = false;
						out.subs_ended += 1;
					}
				}
			}
			Step::MixedArray { lag, close, with_call, with_batch } => {
				let lag_id = match (w.live[*lag], w.handles[*lag].is_some(), w.sub_ids[*lag].clone()) {
					(true, true, Some(id)) => id,
					_ => continue,
				};
				let close_id = if close != lag && w.live[*close] { w.sub_ids[*close].clone() } else { None };
				let mut parts: Vec<String> = (0..BUFFER + 1).map(|k| sub_notif("m", &lag_id, json!(k))).collect();
				if let Some(id) = &close_id {
					parts.push(sub_close("m", id, json!("bye")));
				}
				let mut call_task = None;
				let mut batch_task = None;
				if *with_call {
					let c = w.client.clone();
					call_task = Some(tokio::spawn(async move { c.request::<Value, _>("call", rpc_params!["mixed"]).await.map_err(|e| err_kind(&e)) }));
				}
				if *with_batch {
					let c = w.client.clone();
					batch_task = Some(tokio::spawn(async move {
						let mut b = BatchRequestBuilder::new();
						for j in 0..2 {
							b.insert("call", rpc_params![j]).unwrap();
						}
						let r: Result<BatchResponse<Value>, _> = c.batch_request(b).await;
						r.map(|r| r.len()).map_err(|e| err_kind(&e))
					}));
				}
				settle().await;
				for m in w.drain(&mut out) {
					match m {
						WireMsg::Single(q) => {
							if let Some(id) = &q.id {
								parts.push(ok_response(id, json!("answered inside the array")));
							}
						}
						WireMsg::Batch(reqs) => {
							for q in reqs {
								parts.push(ok_response(q.id.as_ref().unwrap_or(&Value::Null), json!(1)));
							}
						}
						_ => {}
					}
				}
				out.history.push(format!("server -> one array: {} overflowing notifications for slot {lag}, close of slot {close}: {}, {} further answer(s)", BUFFER + 1, close_id.is_some(), parts.len() - BUFFER - 1 - close_id.is_some() as usize));
				w.srv.push_text(array_of(&parts));
				w.live[*lag] = false;
				out.subs_ended += 1;
				if close_id.is_some() {
					w.live[*close] = false;
					out.subs_ended += 1;
				}
				if let Some(t) = call_task {
					match tokio::time::timeout(Duration::from_secs(30), t).await {
						Ok(Ok(Ok(_))) => {}
						other => bad!("call-not-completed/answered-in-an-array-behind-an-overflowing-notification", "{other:?}"),
					}
				}
				if let Some(t) = batch_task {
					match tokio::time::timeout(Duration::from_secs(30), t).await {
						Ok(Ok(Ok(2))) => {}
						other => bad!("batch-not-completed/answered-in-an-array-behind-an-overflowing-notification", "{other:?}"),
					}
				}
			}
			Step::Notify(slot) => {
				// a notification for the slot's subscription id, live or stale
				if let Some(id) = w.sub_ids[*slot].clone() {
					let live = w.live[*slot];
					w.srv.push_text(sub_notif("m", &id, json!("tick")));
					if live {
						// keep the stream from lagging: read it
						if let Some(h) = w.handles[*slot].as_mut() {
							let _ = tokio::time::timeout(Duration::from_millis(20), h.next()).await;
						}
					}
				}
			}
			Step::RegisterHandler(k) => {
				let method = format!("method{k}");
				let c = w.client.clone();
				let already = w.method_handles[*k].is_some();
				let r = tokio::time::timeout(Duration::from_secs(30), c.subscribe_to_method::<Value>(&method)).await;
				match r {
					Ok(Ok(h)) => {
						if already {
							bad!("handler-registered-twice/any", "{method}");
						}
						w.method_handles[*k] = Some(h);
					}
					Ok(Err(_)) => {
						if !already {
							bad!("handler-refused/free-name", "{method}");
						}
					}
					Err(_) => bad!("handler-register-stuck/any", "{method}"),
				}
				// whether the registration was new or refused, the handler that owns the name gets the next notification
				if let Some(h) = w.method_handles[*k].as_mut() {
					let n = out.ops as u64;
					w.srv.push_text(json!({"jsonrpc": "2.0", "method": method, "params": [n]}).to_string());
					match tokio::time::timeout(Duration::from_secs(30), h.next()).await {
						Ok(Some(Ok(v))) if v == json!([n]) => {}
						other => bad!(if already { "handler-lost-its-notifications/after-refused-registration" } else { "handler-lost-its-notifications/after-registration" }, "{method}: the registered handler's stream gave {other:?} for the notification {n}"),
					}
				}
			}
			Step::UnregisterHandler(k) => {
				if let Some(h) = w.method_handles[*k].take() {
					if k % 2 == 0 {
						drop(h);
					} else {
						let t = tokio::spawn(h.unsubscribe());
						settle().await;
						let _ = tokio::time::timeout(Duration::from_secs(30), t).await;
					}
				}
			}
			Step::Ack(k) | Step::AckError(k) => {
				settle().await;
				w.drain(&mut out);
				if !w.pending_acks.is_empty() {
					let id = w.pending_acks.remove(k % w.pending_acks.len());
					let text = if matches!(step, Step::Ack(_)) { ok_response(&id, json!(true)) } else { err_response(&id, -32000, "unsubscribe failed", None) };
					out.history.push(format!("server -> {text}"));
					w.srv.push_text(text);
					out.acks += 1;
				}
			}
		}
		settle().await;
		w.drain(&mut out);
		let sizes = w.client.verif_table_sizes();
		for i in 0..4 {
			out.max_sizes[i] = out.max_sizes[i].max(sizes[i]);
		}
		// a subscription that the model holds live (accepted, not ended, stream held) must be in the client's table
		let live_now = (0..SLOTS).filter(|s| w.live[*s] && w.handles[*s].is_some()).count();
		if sizes[1] < live_now {
			bad!(format!("live-subscription-forgotten/{}", leak_feature(&spec.steps[..=si])), "after step {si} ({step:?}) {live_now} subscription(s) are live but the client's table holds {}", sizes[1]);
			break;
		}
		if w.model_idle() {
			out.idle_checks += 1;
			if sizes != [0, 0, 0, 0] {
				bad!(format!("tables-not-empty-when-idle/{}", leak_feature(&spec.steps[..=si])), "after step {si} ({step:?}) nothing is outstanding but the tables hold {sizes:?} (requests, subscriptions, batches, handlers)");
				break;
			}
		}
	}

	// wind down: drop every handle, acknowledge every unsubscribe in a seeded order
	for h in w.handles.iter_mut() {
		h.take();
	}
	for s in 0..SLOTS {
		w.live[s] = false;
	}
	for h in w.method_handles.iter_mut() {
		h.take();
	}
	settle().await;
	w.drain(&mut out);
	let mut r = Rng::new(spec.seed ^ 0x55);
	while !w.pending_acks.is_empty() {
		let id = w.pending_acks.remove(r.usize(w.pending_acks.len()));
		w.srv.push_text(ok_response(&id, json!(true)));
		out.acks += 1;
		settle().await;
		w.drain(&mut out);
	}
	settle().await;
	let sizes = w.client.verif_table_sizes();
	out.final_sizes = sizes;
	if out.violations.is_empty() && sizes != [0, 0, 0, 0] {
		bad!(format!("tables-not-empty-at-end/{}", leak_feature(&spec.steps)), "every call answered, every subscription ended and acknowledged, but the tables hold {sizes:?} (requests, subscriptions, batches, handlers)");
	}
	if !w.client.is_connected() {
		bad!("client-disconnected/well-behaved-history", "the client gave up the connection during a well-behaved history");
	}

	// stale identifiers: a response bearing the id of finished work must be handled like one bearing a never-used id
	if spec.stale_probe && out.violations.is_empty() && !w.used_request_ids.is_empty() {
		let stale = w.used_request_ids[r.usize(w.used_request_ids.len())].clone();
		w.srv.push_text(ok_response(&stale, json!("late")));
		settle().await;
		let after_stale = w.client.is_connected();
		out.stale_probe_done = true;
		// reference behaviour on a fresh client for a never-used id
		let (c2, srv2) = jrv::clientsim::client(ClientCfg { string_ids: spec.string_ids, ..Default::default() });
		let never = if spec.string_ids { json!("987654321") } else { json!(987654321u64) };
		srv2.push_text(ok_response(&never, json!("late")));
		settle().await;
		let after_never = c2.is_connected();
		if after_stale != after_never {
			bad!("stale-id-captures-message/response", "a response with the finished id {stale} left connected={after_stale}, a never-used id leaves connected={after_never}");
		}
	}
	out
}

/// Directed scenario: a stream is dropped while the request queue is full (the drop's message is lost); after a further
/// notification the client must unsubscribe, and after the acknowledgement its tables must be empty.
///
/// Variants (by seed): 0 the consumer drops the stream while the queue is full; 1 the subscription lags while the queue is
/// full (the read task itself has to hand the close request to the send task); 2 a subscribe call abandoned by the
/// application is accepted by the server while the queue is full (again the read task's close request).
async fn full_queue_drop_case(seed: u64, cycles: usize) -> (Vec<(String, String)>, [usize; 4], usize) {
	let mut violations = Vec::new();
	let mut r = Rng::new(seed);
	let variant = seed % 3;
	let label = ["drop-with-full-queue", "lag-with-full-queue", "abandoned-subscribe-accepted-with-full-queue"][variant as usize];
	let (client, mut srv) = jrv::clientsim::client(ClientCfg { sub_buffer: BUFFER, max_concurrent_requests: 1, string_ids: r.bool(), ..Default::default() });
	let mut unsubs = 0usize;
	for cyc in 0..cycles {
		let c = client.clone();
		let t = tokio::spawn(async move { c.subscribe::<Value, _>("sub", rpc_params!["s"], "unsub").await });
		settle().await;
		let sub_id = json!(format!("fq-{cyc}"));
		for m in srv.drain_out() {
			if let ClientOut::Msg { text, .. } = m {
				if let WireMsg::Single(q) = parse_wire(&text) {
					srv.push_text(ok_response(q.id.as_ref().unwrap_or(&Value::Null), sub_id.clone()));
				}
			}
		}
		let Ok(Ok(Ok(h))) = tokio::time::timeout(Duration::from_secs(30), t).await else {
			violations.push(("subscribe-failed/accepted".into(), "setup of the full-queue scenario".into()));
			break;
		};
		let mut h = Some(h);
		settle().await;
		// what the tables hold for one live subscription
		let base = client.verif_table_sizes();
		// variant 2: a second subscribe call is written, then given up by the application before the server answers
		let mut abandoned_call_id: Option<Value> = None;
		if variant == 2 {
			let c = client.clone();
			let t2 = tokio::spawn(async move { c.subscribe::<Value, _>("sub", rpc_params!["abandoned"], "unsub").await.map(|_| ()) });
			settle().await;
			t2.abort();
			settle().await;
			for m in srv.drain_out() {
				if let ClientOut::Msg { text, .. } = m {
					if let WireMsg::Single(q) = parse_wire(&text) {
						if q.method == "sub" {
							abandoned_call_id = q.id.clone();
						}
					}
				}
			}
		}
		let gate = std::sync::Arc::new(tokio::sync::Notify::new());
		*srv.ctl.send_gate.lock().unwrap() = Some(gate.clone());
		let mut callers = Vec::new();
		for i in 0..2 + r.usize(2) {
			let c = client.clone();
			callers.push(tokio::spawn(async move { c.request::<Value, _>("call", rpc_params![i]).await.map(|_| ()).map_err(|e| err_kind(&e)) }));
			settle().await;
		}
		match variant {
			0 => drop(h.take()),
			1 => {
				// the stream is not read: one notification more than the buffer holds
				for k in 0..BUFFER + 1 {
					srv.push_text(sub_notif("m", &sub_id, json!(k)));
				}
			}
			_ => {
				if let Some(id) = &abandoned_call_id {
					srv.push_text(ok_response(id, json!(format!("abandoned-{cyc}"))));
				}
			}
		}
		settle().await;
		settle().await;
		*srv.ctl.send_gate.lock().unwrap() = None;
		for _ in 0..8 {
			gate.notify_waiters();
			gate.notify_one();
			settle().await;
		}
		let mut pump = |srv: &mut ServerSide, unsubs: &mut usize| {
			for m in srv.drain_out() {
				if let ClientOut::Msg { text, .. } = m {
					if let WireMsg::Single(q) = parse_wire(&text) {
						if q.method == "unsub" {
							*unsubs += 1;
						}
						if let Some(id) = &q.id {
							srv.push_text(ok_response(id, json!(true)));
						}
					}
				}
			}
		};
		pump(&mut srv, &mut unsubs);
		settle().await;
		if variant == 0 {
			srv.push_text(sub_notif("m", &sub_id, json!("tick")));
		}
		for _ in 0..3 {
			settle().await;
			pump(&mut srv, &mut unsubs);
		}
		if variant != 0 && violations.is_empty() {
			// the close request came from the client's own read task: it must get through without any further message from the
			// server, and while the consumer still holds its (lagged) stream
			let sizes = client.verif_table_sizes();
			let want = if variant == 2 { base } else { [0, 0, 0, 0] };
			if sizes != want {
				violations.push((
					format!("tables-not-empty-when-idle/{label}"),
					format!("cycle {cyc}: after the transport was unblocked and every unsubscribe was acknowledged the tables hold {sizes:?} (requests, subscriptions, batches, handlers), expected {want:?}; {unsubs} unsubscribe requests were written so far"),
				));
			}
		}
		// the consumer lets go of what it still holds; the first subscription of variant 2 is unsubscribed normally
		if let Some(hh) = h.take() {
			drop(hh);
			for _ in 0..3 {
				settle().await;
				pump(&mut srv, &mut unsubs);
			}
		}
		for t in callers {
			if !matches!(tokio::time::timeout(Duration::from_secs(30), t).await, Ok(Ok(Ok(())))) {
				violations.push(("call-not-completed/full-queue-scenario".into(), "a call queued behind the blocked transport did not complete".into()));
			}
		}
		settle().await;
	}
	let sizes = client.verif_table_sizes();
	if sizes != [0, 0, 0, 0] && violations.is_empty() {
		violations.push((
			format!("tables-not-empty-when-idle/{label}"),
			format!("{cycles} cycle(s) of subscribe / {label} / acknowledgement: the tables hold {sizes:?} ({unsubs} unsubscribe requests were written)"),
		));
	}
	(violations, sizes, unsubs)
}

/// Directed scenario: the transport refuses to write exactly the unsubscribe call of one subscription (a recoverable send
/// error: message too large for this transport, say) and keeps working for every other message. Whatever the client makes
/// of that error, IF it stays connected the statement applies to it: once the server has closed that subscription itself,
/// the other subscriptions are unsubscribed and acknowledged and every call is answered, its tables must be empty.
/// (A client that gives up the connection on the error is outside the statement; that outcome is counted.)
///
/// Variants (by seed): 0 the consumer drops the stream; 1 it calls `unsubscribe()`; 2 the subscription lags.
async fn unsub_write_refused_case(seed: u64) -> (Vec<(String, String)>, bool, usize) {
	let mut violations = Vec::new();
	let mut r = Rng::new(seed);
	let variant = r.below(3);
	let label = ["drop", "unsubscribe", "lag"][variant as usize];
	let (client, mut srv) = jrv::clientsim::client(ClientCfg { sub_buffer: BUFFER, string_ids: r.bool(), ..Default::default() });
	let n_subs = 1 + r.usize(3);
	let mut handles = Vec::new();
	let mut ids = Vec::new();
	for k in 0..n_subs {
		let c = client.clone();
		let t = tokio::spawn(async move { c.subscribe::<Value, _>("sub", rpc_params!["s"], "unsub").await });
		settle().await;
		let sub_id = if r.bool() { json!(format!("wr-{k}")) } else { json!(1000 + k) };
		for m in srv.drain_out() {
			if let ClientOut::Msg { text, .. } = m {
				if let WireMsg::Single(q) = parse_wire(&text) {
					srv.push_text(ok_response(q.id.as_ref().unwrap_or(&Value::Null), sub_id.clone()));
				}
			}
		}
		let Ok(Ok(Ok(h))) = tokio::time::timeout(Duration::from_secs(30), t).await else {
			violations.push(("subscribe-failed/accepted".into(), "setup of the refused-unsubscribe-write scenario".into()));
			return (violations, false, 0);
		};
		handles.push(Some(h));
		ids.push(sub_id);
	}
	settle().await;
	let victim = r.usize(n_subs);
	let mut unsubs_written = 0usize;
	// only the next write fails; the receive side and later writes stay healthy
	let n = srv.ctl.sends.load(Ordering::SeqCst);
	*srv.ctl.fail_once_at.lock().unwrap() = Some((n, format!("message refused by the transport {seed:x}")));
	let mut unsub_task = None;
	match variant {
		0 => drop(handles[victim].take()),
		1 => {
			let h = handles[victim].take().unwrap();
			unsub_task = Some(tokio::spawn(async move { h.unsubscribe().await.map_err(|e| err_kind(&e)) }));
		}
		_ => {
			for k in 0..BUFFER + 1 {
				srv.push_text(sub_notif("m", &ids[victim], json!(k)));
			}
		}
	}
	for _ in 0..4 {
		settle().await;
	}
	*srv.ctl.fail_once_at.lock().unwrap() = None;
	if srv.ctl.sends.load(Ordering::SeqCst) <= n {
		// the unsubscribe call was never attempted: nothing was refused (not the scenario)
		violations.push((format!("unsubscribe-never-written/{label}"), format!("the subscription ended on the client side ({label}) but no unsubscribe call was handed to the transport")));
		return (violations, client.is_connected(), 0);
	}
	let connected = client.is_connected();
	if !connected {
		return (violations, false, 0);
	}
	// the client carries on: the server closes the victim itself; the rest ends in the ordinary way
	srv.push_text(sub_close("m", &ids[victim], json!("bye")));
	settle().await;
	let c = client.clone();
	let call = tokio::spawn(async move { c.request::<Value, _>("call", rpc_params![1]).await.map(|_| ()).map_err(|e| err_kind(&e)) });
	for h in handles.iter_mut() {
		drop(h.take());
	}
	for _ in 0..4 {
		settle().await;
		for m in srv.drain_out() {
			if let ClientOut::Msg { text, .. } = m {
				if let WireMsg::Single(q) = parse_wire(&text) {
					if q.method == "unsub" {
						unsubs_written += 1;
					}
					if let Some(id) = &q.id {
						srv.push_text(ok_response(id, json!(true)));
					}
				}
			}
		}
	}
	if let Some(t) = unsub_task {
		let _ = tokio::time::timeout(Duration::from_secs(30), t).await;
	}
	if !matches!(tokio::time::timeout(Duration::from_secs(30), call).await, Ok(Ok(Ok(())))) {
		if client.is_connected() {
			violations.push(("call-not-completed/refused-unsubscribe-write".into(), "a call made after the refused write did not complete although the client is connected".into()));
		}
		return (violations, client.is_connected(), unsubs_written);
	}
	settle().await;
	let sizes = client.verif_table_sizes();
	if client.is_connected() && sizes != [0, 0, 0, 0] {
		violations.push((
			format!("tables-not-empty-at-end/unsubscribe-write-refused+{label}+server-close"),
			format!("the transport refused the unsubscribe call of subscription {} ({label}), the client stayed connected, the server closed that subscription, the other {} were unsubscribed and acknowledged and every call was answered: the tables hold {sizes:?} (requests, subscriptions, batches, handlers)", ids[victim], n_subs - 1),
		));
	}
	(violations, true, unsubs_written)
}

/// Directed scenario: the transport's `send` completes late - the bytes are visible to the server at once, the future
/// returns some milliseconds afterwards (a slow flush, back-pressure). The server acknowledges the unsubscribe call as
/// soon as it sees it, i.e. while the client's send task is still inside that `send`. Once the send has returned and
/// everything is acknowledged the tables must be empty, cycle after cycle.
async fn slow_send_case(seed: u64, cycles: usize) -> (Vec<(String, String)>, [usize; 4], usize) {
	let mut violations = Vec::new();
	let mut r = Rng::new(seed);
	let variant = r.below(3);
	let label = ["drop", "unsubscribe", "lag"][variant as usize];
	let (client, mut srv) = jrv::clientsim::client(ClientCfg { sub_buffer: BUFFER, string_ids: r.bool(), build_path: r.below(4) as u8, ..Default::default() });
	let mut acked = 0usize;
	for cyc in 0..cycles {
		let c = client.clone();
		let t = tokio::spawn(async move { c.subscribe::<Value, _>("sub", rpc_params!["s"], "unsub").await });
		settle().await;
		let sub_id = if r.bool() { json!(format!("ss-{cyc}")) } else { json!(5000 + cyc) };
		for m in srv.drain_out() {
			if let ClientOut::Msg { text, .. } = m {
				if let WireMsg::Single(q) = parse_wire(&text) {
					srv.push_text(ok_response(q.id.as_ref().unwrap_or(&Value::Null), sub_id.clone()));
				}
			}
		}
		let Ok(Ok(Ok(h))) = tokio::time::timeout(Duration::from_secs(30), t).await else {
			violations.push(("subscribe-failed/accepted".into(), "setup of the slow-send scenario".into()));
			break;
		};
		settle().await;
		// from now on every send lingers
		let linger = 2 + r.below(6);
		*srv.ctl.linger_after_send.lock().unwrap() = Some(Duration::from_millis(linger));
		let mut held = Some(h);
		let mut unsub_task = None;
		match variant {
			0 => drop(held.take()),
			1 => {
				let h = held.take().unwrap();
				unsub_task = Some(tokio::spawn(async move { h.unsubscribe().await.map_err(|e| err_kind(&e)) }));
			}
			_ => {
				for k in 0..BUFFER + 1 {
					srv.push_text(sub_notif("m", &sub_id, json!(k)));
				}
			}
		}
		// the server answers the unsubscribe call the moment it is visible
		let mut seen_unsub = false;
		for _ in 0..40 {
			tokio::task::yield_now().await;
			for m in srv.drain_out() {
				if let ClientOut::Msg { text, .. } = m {
					if let WireMsg::Single(q) = parse_wire(&text) {
						if q.method == "unsub" {
							seen_unsub = true;
							acked += 1;
						}
						if let Some(id) = &q.id {
							srv.push_text(ok_response(id, json!(true)));
						}
					}
				}
			}
			if seen_unsub {
				break;
			}
		}
		if !seen_unsub {
			// (not yet written: let virtual time pass and answer then)
			settle().await;
			for m in srv.drain_out() {
				if let ClientOut::Msg { text, .. } = m {
					if let WireMsg::Single(q) = parse_wire(&text) {
						if q.method == "unsub" {
							acked += 1;
						}
						if let Some(id) = &q.id {
							srv.push_text(ok_response(id, json!(true)));
						}
					}
				}
			}
		}
		tokio::time::sleep(Duration::from_millis(linger + 3)).await;
		*srv.ctl.linger_after_send.lock().unwrap() = None;
		if let Some(t) = unsub_task {
			let _ = tokio::time::timeout(Duration::from_secs(30), t).await;
		}
		drop(held);
		settle().await;
		settle().await;
		let sizes = client.verif_table_sizes();
		if sizes != [0, 0, 0, 0] {
			violations.push((
				format!("tables-not-empty-when-idle/send-completes-after-the-acknowledgement+{label}"),
				format!("cycle {cyc}: the unsubscribe call was acknowledged while the transport's send() had not returned yet ({linger} ms); afterwards the tables hold {sizes:?} (requests, subscriptions, batches, handlers)"),
			));
			break;
		}
	}
	(violations, client.verif_table_sizes(), acked)
}

/// Directed scenario: a call is given up by its caller (future dropped) while its message is still queued behind a send that
/// has not returned (the transport is slow): whether or not the client still sends it, nothing of it may stay behind once
/// everything that did go out has been answered.
async fn abandoned_while_queued_case(seed: u64, cycles: usize) -> (Vec<(String, String)>, usize) {
	let mut violations = Vec::new();
	let mut r = Rng::new(seed);
	let (client, mut srv) = jrv::clientsim::client(ClientCfg { string_ids: r.bool(), build_path: r.below(4) as u8, ..Default::default() });
	let mut abandoned = 0usize;
	for cyc in 0..cycles {
		let gate = std::sync::Arc::new(tokio::sync::Notify::new());
		*srv.ctl.send_gate.lock().unwrap() = Some(gate.clone());
		// the first operation occupies the send task inside `send`
		let c = client.clone();
		let first = tokio::spawn(async move { c.request::<Value, _>("call", rpc_params!["first"]).await.map(|_| ()).map_err(|e| err_kind(&e)) });
		settle().await;
		// operations queued behind it, some of them given up before the send task gets to them
		let mut kept = Vec::new();
		for k in 0..1 + r.usize(3) {
			let c = client.clone();
			let kind = r.below(3);
			let t = tokio::spawn(async move {
				match kind {
					0 => c.request::<Value, _>("call", rpc_params![k]).await.map(|_| ()).map_err(|e| err_kind(&e)),
					1 => {
						let mut b = BatchRequestBuilder::new();
						b.insert("call", rpc_params![k]).unwrap();
						let r: Result<BatchResponse<Value>, _> = c.batch_request(b).await;
						r.map(|_| ()).map_err(|e| err_kind(&e))
					}
					_ => c.subscribe::<Value, _>("sub", rpc_params![k], "unsub").await.map(|_| ()).map_err(|e| err_kind(&e)),
				}
			});
			settle().await;
			if r.chance(2, 3) {
				t.abort();
				let _ = t.await;
				abandoned += 1;
			} else {
				kept.push(t);
			}
		}
		settle().await;
		*srv.ctl.send_gate.lock().unwrap() = None;
		// the transport moves again; the server answers everything that reaches it, subscriptions included, and acknowledges
		// every unsubscribe call
		for _ in 0..12 {
			gate.notify_waiters();
			gate.notify_one();
			settle().await;
			for m in srv.drain_out() {
				if let ClientOut::Msg { text, .. } = m {
					match parse_wire(&text) {
						WireMsg::Single(q) => {
							if let Some(id) = &q.id {
								let result = match q.method.as_str() {
									"sub" => json!(format!("aq-{cyc}-{id}")),
									"unsub" => json!(true),
									_ => json!("fine"),
								};
								srv.push_text(ok_response(id, result));
							}
						}
						WireMsg::Batch(reqs) => {
							let parts: Vec<String> = reqs.iter().map(|q| ok_response(q.id.as_ref().unwrap_or(&Value::Null), json!(1))).collect();
							srv.push_text(array_of(&parts));
						}
						_ => {}
					}
				}
			}
		}
		let _ = tokio::time::timeout(Duration::from_secs(30), first).await;
		for t in kept {
			// (subscriptions that were kept are dropped with the task's result: their unsubscribe is acknowledged above)
			let _ = tokio::time::timeout(Duration::from_secs(30), t).await;
		}
		for _ in 0..4 {
			settle().await;
			for m in srv.drain_out() {
				if let ClientOut::Msg { text, .. } = m {
					if let WireMsg::Single(q) = parse_wire(&text) {
						if let Some(id) = &q.id {
							srv.push_text(ok_response(id, if q.method == "unsub" { json!(true) } else { json!("fine") }));
						}
					}
				}
			}
		}
		let sizes = client.verif_table_sizes();
		if sizes != [0, 0, 0, 0] {
			violations.push((
				"tables-not-empty-when-idle/operation-abandoned-while-queued-behind-a-slow-send".to_string(),
				format!("cycle {cyc}: operations were given up by their callers while their messages waited behind a send that had not returned; everything that reached the server was answered, the tables hold {sizes:?} (requests, subscriptions, batches, handlers)"),
			));
			break;
		}
	}
	(violations, abandoned)
}

/// The answer and the caller's deadline become ready together: the read task has the server's answer in hand (for a
/// subscribe call: has recorded the subscription as live) when the wall-clock request timeout has also passed, and
/// only then is the caller polled. Whichever of the two the caller reports, nothing may stay behind: a subscription the
/// caller never got a handle for is unsubscribed by the client itself, and the tables are empty once that is acknowledged.
async fn answer_at_deadline_case(seed: u64) -> (Vec<(String, String)>, &'static str, bool) {
	let mut violations = Vec::new();
	let mut r = Rng::new(seed);
	let (client, mut srv) = jrv::clientsim::client(ClientCfg { string_ids: r.bool(), build_path: r.below(4) as u8, request_timeout: Duration::from_millis(60), ..Default::default() });
	let kind = *r.pick(&["subscribe", "subscribe", "call", "batch"]);
	let c = client.clone();
	let op = tokio::spawn(async move {
		match kind {
			"call" => c.request::<Value, _>("call", rpc_params![1]).await.map(|_| None).map_err(|e| err_kind(&e)),
			"batch" => {
				let mut b = BatchRequestBuilder::new();
				b.insert("call", rpc_params![1]).unwrap();
				b.insert("call", rpc_params![2]).unwrap();
				let r: Result<BatchResponse<Value>, _> = c.batch_request(b).await;
				r.map(|_| None).map_err(|e| err_kind(&e))
			}
			_ => c.subscribe::<Value, _>("sub", rpc_params![1], "unsub").await.map(Some).map_err(|e| err_kind(&e)),
		}
	});
	settle().await;
	let mut answered = false;
	for m in srv.drain_out() {
		if let ClientOut::Msg { text, .. } = m {
			// the answer is taken off the wire at once, and handed over only after the deadline has passed
			*srv.ctl.block_thread_once.lock().unwrap() = Some(Duration::from_millis(150));
			match parse_wire(&text) {
				WireMsg::Single(q) => {
					if let Some(id) = &q.id {
						answered = srv.push_text(ok_response(id, if q.method == "sub" { json!(format!("dl-{seed:x}")) } else { json!("fine") }));
					}
				}
				WireMsg::Batch(reqs) => {
					let parts: Vec<String> = reqs.iter().map(|q| ok_response(q.id.as_ref().unwrap_or(&Value::Null), json!(1))).collect();
					answered = srv.push_text(array_of(&parts));
				}
				_ => {}
			}
		}
	}
	let got = tokio::time::timeout(Duration::from_secs(30), op).await;
	let reported_ok = matches!(got, Ok(Ok(Ok(_))));
	match got {
		Ok(Ok(Ok(handle))) => drop(handle),
		Ok(Ok(Err(ErrKind::Timeout))) => {}
		other => violations.push((format!("operation-failed/answer-and-deadline-ready-together/{kind}"), format!("{other:?}"))),
	}
	// the server acknowledges every unsubscribe call it sees
	let mut unsubscribed = false;
	for _ in 0..8 {
		settle().await;
		for m in srv.drain_out() {
			if let ClientOut::Msg { text, .. } = m {
				if let WireMsg::Single(q) = parse_wire(&text) {
					if let Some(id) = &q.id {
						unsubscribed |= q.method == "unsub";
						srv.push_text(ok_response(id, json!(true)));
					}
				}
			}
		}
	}
	let sizes = client.verif_table_sizes();
	if answered && sizes != [0, 0, 0, 0] {
		violations.push((
			format!("tables-not-empty-when-idle/answer-and-deadline-ready-together/{kind}"),
			format!("the {kind} was answered, the answer reached the client together with the caller's deadline, the caller was told {}; unsubscribe seen: {unsubscribed}; every message of the client has been answered, the tables hold {sizes:?} (requests, subscriptions, batches, handlers)", if reported_ok { "Ok" } else { "RequestTimeout" }),
		));
	}
	(violations, kind, reported_ok)
}

/// Which kind of cycle the history contained (for signatures): the last subscription-ending step kinds seen.
fn leak_feature(steps: &[Step]) -> String {
	let mut f: Vec<&str> = Vec::new();
	for s in steps {
		let k = match s {
			Step::SubscribeAbandoned => "abandoned-subscribe-call",
			Step::Subscribe(_, SubAnswer::Accept) => "accepted-subscribe",
			Step::Subscribe(_, SubAnswer::Refuse) => "refused-subscribe",
			Step::Subscribe(_, SubAnswer::MalformedId) => "malformed-subscribe-answer",
			Step::Subscribe(_, SubAnswer::DuplicateSubId) => "duplicate-sub-id",
			Step::Subscribe(_, SubAnswer::ReuseEndedId) => "sub-id-issued-again",
			Step::Unsubscribe(_) => "unsubscribe",
			Step::Drop(_) => "drop",
			Step::ServerClose { .. } => "server-close",
			Step::LagClose(_) => "lag",
			Step::LagThenServerClose { .. } => "lag+server-close",
			Step::MixedArray { .. } => "lag-inside-a-mixed-array",
			Step::AckError(_) => "unsubscribe-error-ack",
			_ => continue,
		};
		if !f.contains(&k) {
			f.push(k);
		}
	}
	if f.is_empty() { "calls-only".into() } else { f.join("+") }
}

fn gen_spec(seed: u64) -> Spec {
	let mut r = Rng::new(seed);
	let n = if cfg!(miri) { 4 + r.usize(5) } else { 3 + r.usize(12) };
	let steps = (0..n)
		.map(|_| match r.below(24) {
			0 | 1 => Step::Call { error: r.bool() },
			2 => Step::Batch(1 + r.usize(4)),
			3..=6 => Step::Subscribe(r.usize(SLOTS), SubAnswer::Accept),
			7 => Step::Subscribe(r.usize(SLOTS), SubAnswer::Refuse),
			8 => Step::Subscribe(r.usize(SLOTS), SubAnswer::MalformedId),
			9 => match r.below(4) {
				0 => Step::Subscribe(r.usize(SLOTS), SubAnswer::DuplicateSubId),
				1 | 2 => Step::Subscribe(r.usize(SLOTS), SubAnswer::ReuseEndedId),
				_ => Step::SubscribeAbandoned,
			},
			10 | 11 => Step::Unsubscribe(r.usize(SLOTS)),
			12 | 13 => Step::Drop(r.usize(SLOTS)),
			14 | 15 => Step::ServerClose { slot: r.usize(SLOTS), in_array: r.bool() },
			16 => match r.below(3) {
				0 => Step::LagClose(r.usize(SLOTS)),
				1 => Step::LagThenServerClose { slot: r.usize(SLOTS), in_array: r.bool() },
				_ => Step::MixedArray { lag: r.usize(SLOTS), close: r.usize(SLOTS), with_call: false, with_batch: r.bool() },
			},
			17 => Step::Notify(r.usize(SLOTS)),
			18 => Step::RegisterHandler(r.usize(SLOTS)),
			19 => Step::UnregisterHandler(r.usize(SLOTS)),
			20 => Step::AckError(r.usize(4)),
			_ => Step::Ack(r.usize(4)),
		})
		.collect();
	Spec { seed, string_ids: r.chance(1, 3), steps, stale_probe: r.chance(1, 2) }
}

/// Directed cycles, each repeated `reps` times in one history (growth check), and every order of 2..4 pending acks.
fn directed_specs(reps: usize) -> Vec<(Spec, String)> {
	let mut v = Vec::new();
	let cycles: Vec<(&str, Vec<Step>)> = vec![
		("call", vec![Step::Call { error: false }, Step::Call { error: true }]),
		("batch", vec![Step::Batch(3)]),
		("subscribe-unsubscribe-ack", vec![Step::Subscribe(0, SubAnswer::Accept), Step::Unsubscribe(0), Step::Ack(0)]),
		("subscribe-drop-ack", vec![Step::Subscribe(0, SubAnswer::Accept), Step::Drop(0), Step::Ack(0)]),
		("subscribe-unsubscribe-error-ack", vec![Step::Subscribe(0, SubAnswer::Accept), Step::Unsubscribe(0), Step::AckError(0)]),
		("subscribe-refused", vec![Step::Subscribe(0, SubAnswer::Refuse)]),
		("subscribe-abandoned-then-accepted", vec![Step::SubscribeAbandoned, Step::Ack(0)]),
		("subscribe-malformed-answer", vec![Step::Subscribe(0, SubAnswer::MalformedId)]),
		("subscribe-server-close", vec![Step::Subscribe(0, SubAnswer::Accept), Step::ServerClose { slot: 0, in_array: false }, Step::Drop(0)]),
		("subscribe-server-close-in-array", vec![Step::Subscribe(0, SubAnswer::Accept), Step::ServerClose { slot: 0, in_array: true }, Step::Drop(0)]),
		("subscribe-lag-close", vec![Step::Subscribe(0, SubAnswer::Accept), Step::LagClose(0), Step::Ack(0), Step::Drop(0)]),
		("subscribe-lag-and-server-close", vec![Step::Subscribe(0, SubAnswer::Accept), Step::LagThenServerClose { slot: 0, in_array: false }, Step::Ack(0), Step::Drop(0)]),
		("subscribe-lag-and-server-close-in-array", vec![Step::Subscribe(0, SubAnswer::Accept), Step::LagThenServerClose { slot: 0, in_array: true }, Step::Ack(0), Step::Drop(0)]),
		(
			"sub-id-issued-again",
			vec![
				Step::Subscribe(0, SubAnswer::Accept),
				Step::ServerClose { slot: 0, in_array: false },
				Step::Subscribe(1, SubAnswer::ReuseEndedId),
				Step::Drop(0),
				Step::Notify(1),
				Step::Unsubscribe(1),
				Step::Ack(0),
			],
		),
		("duplicate-sub-id", vec![Step::Subscribe(0, SubAnswer::Accept), Step::Subscribe(1, SubAnswer::DuplicateSubId), Step::Unsubscribe(0), Step::Ack(0)]),
		(
			"lag-close-then-its-id-issued-again-then-lag-close",
			vec![
				Step::Subscribe(0, SubAnswer::Accept),
				Step::LagClose(0),
				Step::Ack(0),
				Step::Subscribe(1, SubAnswer::ReuseEndedId),
				Step::LagClose(1),
				Step::Ack(0),
				Step::Drop(0),
				Step::Drop(1),
			],
		),
		(
			"lag-inside-a-mixed-array-with-close",
			vec![Step::Subscribe(0, SubAnswer::Accept), Step::Subscribe(1, SubAnswer::Accept), Step::MixedArray { lag: 0, close: 1, with_call: false, with_batch: false }, Step::Ack(0), Step::Drop(0), Step::Drop(1)],
		),
		(
			"lag-inside-a-mixed-array-with-batch",
			vec![Step::Subscribe(0, SubAnswer::Accept), Step::MixedArray { lag: 0, close: 0, with_call: false, with_batch: true }, Step::Ack(0), Step::Drop(0)],
		),
		("handler-register-unregister", vec![Step::RegisterHandler(0), Step::RegisterHandler(1), Step::UnregisterHandler(0), Step::UnregisterHandler(1)]),
	];
	for (name, cyc) in cycles {
		for string_ids in [false, true] {
			let steps: Vec<Step> = std::iter::repeat(cyc.clone()).take(reps).flatten().collect();
			v.push((Spec { seed: 1, string_ids, steps, stale_probe: true }, format!("cycle:{name}")));
		}
	}
	// k subscriptions unsubscribed, their acknowledgements delivered in every order
	for k in 2..=4usize {
		for p in permutations(k) {
			let mut steps: Vec<Step> = (0..k).map(|s| Step::Subscribe(s, SubAnswer::Accept)).collect();
			for s in 0..k {
				steps.push(if s % 2 == 0 { Step::Unsubscribe(s) } else { Step::Drop(s) });
			}
			// Ack(i) removes the i-th pending; translate the permutation into successive indices
			let mut remaining: Vec<usize> = (0..k).collect();
			for target in &p {
				let pos = remaining.iter().position(|x| x == target).unwrap();
				steps.push(Step::Ack(pos));
				remaining.remove(pos);
			}
			v.push((Spec { seed: 2, string_ids: false, steps, stale_probe: true }, format!("ack-orders:{k}")));
		}
	}
	v
}

fn record(spec: &Spec, o: Out, class: &str, ev: &mut Evidence, violations: &mut Vec<Violation>) {
	ev.eval();
	ev.count("operations", o.ops as u64);
	ev.count("idle_points_checked", o.idle_checks as u64 + 1);
	ev.count("subscriptions_accepted", o.subs_accepted as u64);
	ev.count("subscriptions_refused_or_malformed", o.subs_refused as u64);
	ev.count("subscriptions_ended", o.subs_ended as u64);
	ev.count("unsubscribe_acks_delivered", o.acks as u64);
	if o.stale_probe_done {
		ev.count("stale_id_probes", 1);
	}
	ev.class("max_table_sizes_seen", &o.max_sizes);
	if o.subs_accepted + o.subs_refused > 0 {
		ev.nontrivial(&(&spec.steps, spec.string_ids));
	}
	if o.violations.is_empty() {
		ev.sample_class(class, json!({"steps": spec.steps.iter().take(14).map(|s| format!("{s:?}")).collect::<Vec<_>>(), "max_sizes_seen": o.max_sizes, "final_sizes": o.final_sizes}));
	}
	let w = json!({"seed": spec.seed, "string_ids": spec.string_ids, "class": class, "steps": spec.steps.iter().take(60).map(|s| format!("{s:?}")).collect::<Vec<_>>(),
		"n_steps": spec.steps.len(), "history": o.history.iter().take(80).collect::<Vec<_>>(), "final_sizes": o.final_sizes});
	for (sig, d) in o.violations {
		violations.push(Violation::new(sig, d, w.clone()));
	}
}

fn main() {
	let ctx = Ctx::from_env("C18", "exploration");
	if ctx.sub.as_deref() == Some("miri") {
		let mut ev = Evidence::new("");
		let mut v = Vec::new();
		for i in 0..6u64 {
			let spec = gen_spec(Rng::fork(ctx.seed, 300 + i).next_u64());
			let o = block_on_virtual(run_spec(&spec));
			record(&spec, o, "miri", &mut ev, &mut v);
		}
		for (spec, class) in directed_specs(1).into_iter().take(6) {
			let o = block_on_virtual(run_spec(&spec));
			record(&spec, o, &class, &mut ev, &mut v);
		}
		let sigs: Vec<String> = v.iter().map(|x| x.signature.clone()).collect();
		println!("SUBRESULT {}", json!({"cases": ev.evaluations, "operations": ev.counter("operations"), "violation_signatures": sigs}));
		return;
	}
	install_panic_capture(true);
	let _wd = watchdog("C18", Duration::from_secs(ctx.tier.pick(900, 7200)));
	let mut ev = Evidence::new(
		"cases = step histories of 3..14 operations over {call ok/error, batch, subscribe answered accept / refuse / malformed id / \
		 duplicate subscription id, subscribe call abandoned before the accept arrives, unsubscribe, drop, server close single or inside an array, lag closure, notification for a live or \
		 stale id, register / unregister notification handler, unsubscribe acknowledgement (ok or error object) for the k-th pending \
		 unsubscribe}, numeric and string request ids; plus directed cycles repeated 1000 times each and every order of 2..4 pending \
		 acknowledgements. The table-size accessor must read [0,0,0,0] whenever the model says nothing is outstanding and at the end; \
		 then a response bearing a finished id must be handled like one bearing a never-used id. Non-trivial = at least one subscribe \
		 call completed; distinct by (steps, id kind).",
	);
	ev.assume("the accessor Client::verif_table_sizes() (cfg feature verif-hooks) reports requests, subscriptions, batches, notification handlers; it holds the manager weakly");
	ev.assume("mode D: paused clock, the client is quiescent (1 virtual ms sleep) before every reading");
	let mut violations = Vec::new();
	let replay = ctx.replay.is_some();
	let mut specs: Vec<(Spec, String)> = Vec::new();
	let mut replay_class: Option<String> = None;
	let mut replay_seed: Option<u64> = None;
	let mut replay_cycles: Option<usize> = None;
	if let Some(path) = &ctx.replay {
		let w: Value = serde_json::from_str(&std::fs::read_to_string(path).expect("replay")).expect("json");
		let class = w["witness"]["class"].as_str().unwrap_or("seeded").to_string();
		replay_class = Some(class.clone());
		replay_seed = w["witness"]["seed"].as_u64();
		replay_cycles = w["witness"]["cycles"].as_u64().map(|c| c as usize);
		if class == "full-queue" || class == "unsub-write-refused" || class == "slow-send" || class == "abandoned-while-queued" {
			// replayed by the directed families below
		} else if class == "seeded" {
			specs.push((gen_spec(w["witness"]["seed"].as_u64().expect("seed")), class));
		} else {
			let n = w["witness"]["n_steps"].as_u64().unwrap_or(0) as usize;
			specs.extend(directed_specs(1000).into_iter().filter(|(s, c)| *c == class && s.steps.len() == n));
			if specs.is_empty() {
				specs.extend(directed_specs(3).into_iter().filter(|(_, c)| *c == class));
			}
		}
	} else {
		for i in 0..ctx.tier.pick(30_000u64, 1_500_000) {
			specs.push((gen_spec(Rng::fork(ctx.seed, i).next_u64()), "seeded".into()));
		}
		specs.extend(directed_specs(3));
		specs.extend(directed_specs(ctx.tier.pick(1000, 5000)).into_iter().filter(|(_, c)| c.starts_with("cycle:")));
	}
	if !replay || replay_class.as_deref() == Some("full-queue") {
		let n = if replay { 1 } else { ctx.tier.pick(200u64, 10_000) };
		let seed = ctx.seed;
		let res = run_parallel((0..n).collect(), |_, i| {
			let s = replay_seed.filter(|_| replay).unwrap_or_else(|| Rng::fork(seed, 88_000_000 + i).next_u64());
			let cycles = replay_cycles.filter(|_| replay).unwrap_or(if i % 50 == 0 { 200 } else { 1 + (i % 4) as usize });
			(s, cycles, block_on_virtual(full_queue_drop_case(s, cycles)))
		});
		for (s, cycles, (v, _sizes, unsubs)) in res {
			ev.eval();
			ev.count("cases_full_queue_drop", 1);
			ev.count("full_queue_drop_cycles", cycles as u64);
			ev.count("full_queue_unsubscribes_written", unsubs as u64);
			ev.nontrivial(&("full-queue-drop", s));
			for (sig, d) in v {
				violations.push(Violation::new(sig, d, json!({"scenario": "drop with a full request queue", "seed": s, "cycles": cycles, "class": "full-queue"})));
			}
		}
	}
	if !replay || replay_class.as_deref() == Some("abandoned-while-queued") {
		let jobs: Vec<(u64, usize)> = match (&replay_seed, replay) {
			(Some(s), true) => vec![(*s, replay_cycles.unwrap_or(3))],
			_ => (0..ctx.tier.pick(300u64, 20_000)).map(|i| (Rng::fork(ctx.seed, 91_000_000 + i).next_u64(), if i % 50 == 0 { 60 } else { 1 + (i % 4) as usize })).collect(),
		};
		let res = run_parallel(jobs, |_, (s, cycles)| (s, cycles, block_on_virtual(abandoned_while_queued_case(s, cycles))));
		for (s, cycles, (v, abandoned)) in res {
			ev.eval();
			ev.count("cases_operations_abandoned_while_queued", 1);
			ev.count("operations_abandoned_while_queued_behind_a_slow_send", abandoned as u64);
			if abandoned > 0 {
				ev.nontrivial(&("abandoned-while-queued", s));
			}
			for (sig, d) in v {
				violations.push(Violation::new(sig, d, json!({"scenario": "operations abandoned while queued behind a slow send", "seed": s, "cycles": cycles, "class": "abandoned-while-queued"})));
			}
		}
	}
	if !replay || replay_class.as_deref() == Some("answer-at-deadline") {
		let seeds: Vec<u64> = match (&replay_seed, replay) {
			(Some(s), true) => vec![*s],
			_ => (0..ctx.tier.pick(64u64, 2_000)).map(|i| Rng::fork(ctx.seed, 92_000_000 + i).next_u64()).collect(),
		};
		let res = run_parallel(seeds, |_, s| (s, block_on_virtual(answer_at_deadline_case(s))));
		for (s, (v, kind, reported_ok)) in res {
			ev.eval();
			ev.count("cases_answer_and_deadline_ready_together", 1);
			ev.count(&format!("answer_at_deadline_{kind}_caller_told_{}", if reported_ok { "ok" } else { "timeout" }), 1);
			if v.is_empty() {
				ev.nontrivial(&("answer-at-deadline", s));
			}
			for (sig, d) in v {
				violations.push(Violation::new(sig, d, json!({"scenario": "the answer and the caller's deadline become ready together", "seed": s, "class": "answer-at-deadline"})));
			}
		}
	}
	if !replay || replay_class.as_deref() == Some("slow-send") {
		let jobs: Vec<(u64, usize)> = match (&replay_seed, replay) {
			(Some(s), true) => vec![(*s, replay_cycles.unwrap_or(3))],
			_ => (0..ctx.tier.pick(300u64, 20_000)).map(|i| (Rng::fork(ctx.seed, 90_000_000 + i).next_u64(), if i % 50 == 0 { 100 } else { 1 + (i % 4) as usize })).collect(),
		};
		let res = run_parallel(jobs, |_, (s, cycles)| (s, cycles, block_on_virtual(slow_send_case(s, cycles))));
		for (s, cycles, (v, _sizes, acked)) in res {
			ev.eval();
			ev.count("cases_send_completes_after_the_acknowledgement", 1);
			ev.count("slow_send_cycles", cycles as u64);
			ev.count("slow_send_unsubscribes_acknowledged_during_the_send", acked as u64);
			if acked > 0 {
				ev.nontrivial(&("slow-send", s));
			}
			for (sig, d) in v {
				violations.push(Violation::new(sig, d, json!({"scenario": "the unsubscribe call is acknowledged before the transport's send returns", "seed": s, "cycles": cycles, "class": "slow-send"})));
			}
		}
	}
	if !replay || replay_class.as_deref() == Some("unsub-write-refused") {
		let seeds: Vec<u64> = match (&replay_seed, replay) {
			(Some(s), true) => vec![*s],
			_ => (0..ctx.tier.pick(300u64, 20_000)).map(|i| Rng::fork(ctx.seed, 89_000_000 + i).next_u64()).collect(),
		};
		let res = run_parallel(seeds, |_, s| (s, block_on_virtual(unsub_write_refused_case(s))));
		for (s, (v, connected, unsubs)) in res {
			ev.eval();
			ev.count("cases_unsubscribe_write_refused", 1);
			ev.count(if connected { "unsubscribe_write_refused_client_carried_on" } else { "unsubscribe_write_refused_client_gave_up_the_connection" }, 1);
			ev.count("unsubscribe_write_refused_later_unsubscribes_written", unsubs as u64);
			ev.nontrivial(&("unsub-write-refused", s));
			for (sig, d) in v {
				violations.push(Violation::new(sig, d, json!({"scenario": "the transport refuses the unsubscribe call", "seed": s, "class": "unsub-write-refused"})));
			}
		}
	}
	let results = run_parallel(specs.chunks(64).map(|c| c.to_vec()).collect(), |_, chunk| {
		let mut ev = Evidence::new("");
		let mut v = Vec::new();
		for (spec, class) in chunk {
			let mut spec = spec;
			let mut o = block_on_virtual(run_spec(&spec));
			// shrink a leaking seeded history to a minimal one, so that one leak path = one signature
			if class == "seeded" && o.violations.iter().any(|(s, _)| s.starts_with("tables-not-empty")) {
				let kind_of = |o: &Out| o.violations.first().map(|(s, _)| s.split('/').next().unwrap_or("").to_string());
				let kind = kind_of(&o);
				let mut progress = true;
				while progress {
					progress = false;
					for i in 0..spec.steps.len() {
						let mut smaller = spec.clone();
						smaller.steps.remove(i);
						let o2 = block_on_virtual(run_spec(&smaller));
						if kind_of(&o2).is_some() && kind_of(&o2).map(|k| k.starts_with("tables-not-empty")) == kind.as_ref().map(|k| k.starts_with("tables-not-empty")) {
							spec = smaller;
							o = o2;
							progress = true;
							break;
						}
					}
				}
			}
			if replay {
				for h in &o.history {
					println!("  {h}");
				}
				println!("violations: {:?}", o.violations);
			}
			ev.count(&format!("cases_{}", class.split(':').next().unwrap_or("x")), 1);
			record(&spec, o, &class, &mut ev, &mut v);
		}
		(ev, v)
	});
	for (e, v) in results {
		ev.merge(e);
		violations.extend(v);
	}
	for p in take_panics() {
		if p.in_library {
			violations.push(Violation::new(
				format!("library-panic/{}", p.location.rsplit('/').next().unwrap_or("").split(':').next().unwrap_or("")),
				p.message.clone(),
				json!({"location": p.location, "backtrace": p.backtrace_head}),
			));
		}
	}
	let mut inconclusive = None;
	if ctx.tier == Tier::Thorough && !replay {
		match sanit::run_miri("c18", &[], Duration::from_secs(1500)) {
			SubOutcome::Clean(v) => {
				for s in v["violation_signatures"].as_array().cloned().unwrap_or_default() {
					violations.push(Violation::new(s.as_str().unwrap_or("?").to_string(), "seen in the Miri sub-run", json!({"sub": "miri"})));
				}
				ev.set("miri", json!({"status": "no report", "workload": v}));
			}
			SubOutcome::Report { excerpt, frame } => violations.push(Violation::new(format!("miri:{frame}"), "Miri reported undefined behaviour", json!({"excerpt": excerpt}))),
			SubOutcome::Failed(why) => {
				ev.set("miri", json!({"status": "inconclusive", "why": why}));
				inconclusive = Some("Miri sub-run did not complete".into());
			}
		}
	}
	finish(&ctx, ev, violations, inconclusive);
}
