//! C07 — requests above `max_request_body_size` are never parsed or dispatched, on any path.
//!
//! Monitor: a valid call padded to an exact byte size is delivered through every way a server can be assembled
//! (`TowerService` over WebSocket / direct tower call / HTTP/1.1 through hyper, low-level `ws::connect`, low-level
//! `http::call_with_service_builder` and `http::call_with_service`, and — thorough tier — the default `Server` over TCP)
//! for a grid of (request limit, response limit) pairs. Observed: handler invocation log, reply frames / HTTP status,
//! a sentinel call on the same WebSocket connection. Oracle (from the statement): size <= request limit ⇔ processed,
//! whatever the response limit is.

use bytes::Bytes;
use http_body::Frame;
use http_body_util::{BodyExt, StreamBody};
use jrv::classify::{self, Reply};
use jrv::handlers::{self, Invocation, Log};
use jrv::memsrv::{FrameWs, HttpReply, MemServer, RawWs, Recv};
use jrv::report::*;
use jrv::rng::Rng;
use jrv::runner::*;
use jsonrpsee_core::middleware::{Batch, Notification, RpcServiceBuilder, RpcServiceT};
use jsonrpsee_server::{
	BatchRequestConfig, ConnectionGuard, ConnectionState, MethodResponse, Methods, ResponsePayload, ServerConfig,
	ServerHandle, StopHandle, stop_channel,
};
use jsonrpsee_types::{ErrorCode, Id, Request};
use serde::{Deserialize, Serialize};
use serde_json::value::RawValue;
use serde_json::{Value, json};
use std::convert::Infallible;
use std::future::Future;
use std::sync::Arc;
use std::sync::atomic::{AtomicU32, Ordering};
use std::time::Duration;
use tokio::io::{AsyncRead, AsyncReadExt, AsyncWrite, AsyncWriteExt};

const IDLE: Duration = Duration::from_secs(10);
const TOO_BIG: i64 = -32007;
const RESP_TOO_BIG: i64 = -32008;
const LIMITS: [u32; 5] = [64, 100, 1000, 4096, 65536];
const DUPLEX: usize = 1 << 20;
const TCP_ROUNDS: u64 = 30;

// ---------------------------------------------------------------------------------------------------------------
// Probe description (everything needed to rebuild the exact bytes; stored in witnesses).

#[derive(Clone, Copy, Debug, PartialEq, Eq, Hash, Serialize, Deserialize)]
enum Entry {
	/// `TowerService` (what `Server` builds per connection), WebSocket over an in-memory duplex
	TowerWs,
	/// `TowerService`, direct `tower::Service::call` with an explicit body
	TowerHttp,
	/// `TowerService` served by hyper over a duplex, raw HTTP/1.1 bytes
	TowerHttpConn,
	/// low-level `ws::connect` behind a small hyper service over a duplex
	WsConnect,
	/// low-level `http::call_with_service_builder`, direct call with an explicit body
	HttpBuilder,
	/// low-level `http::call_with_service` with a harness-owned `RpcServiceT`, direct call
	HttpService,
	/// the low-level hyper service (`call_with_service_builder`) over a duplex, raw HTTP/1.1 bytes
	LowHttpConn,
	/// `Server::builder().set_config(cfg).build("127.0.0.1:0")`, WebSocket over TCP
	TcpWs,
	/// same server, raw HTTP/1.1 over TCP
	TcpHttp,
}

impl Entry {
	fn name(self) -> &'static str {
		match self {
			Entry::TowerWs => "tower-ws",
			Entry::TowerHttp => "tower-http",
			Entry::TowerHttpConn => "tower-http-conn",
			Entry::WsConnect => "ws-connect",
			Entry::HttpBuilder => "http-call-with-service-builder",
			Entry::HttpService => "http-call-with-service",
			Entry::LowHttpConn => "lowlevel-http-conn",
			Entry::TcpWs => "server-tcp-ws",
			Entry::TcpHttp => "server-tcp-http",
		}
	}
	fn is_ws(self) -> bool {
		matches!(self, Entry::TowerWs | Entry::WsConnect | Entry::TcpWs)
	}
	fn is_tcp(self) -> bool {
		matches!(self, Entry::TcpWs | Entry::TcpHttp)
	}
}

#[derive(Clone, Copy, Debug, PartialEq, Eq, Hash, Serialize, Deserialize)]
enum Shape {
	/// `echo_sync` with one string param padded with letters/digits: reply is as large as the request
	EchoStr,
	/// `need_u64` with params `[7<spaces>]`: reply is tiny, so the response limit cannot matter at all
	U64Ws,
	/// like EchoStr, but 1..127 bytes of the message are whitespace in front of the `{` (they count as message bytes)
	LeadWs,
}

#[derive(Clone, Copy, Debug, PartialEq, Eq, Hash, Serialize, Deserialize)]
enum Cl {
	/// Content-Length = real body size
	True,
	/// no Content-Length (direct call: plain stream body; over a connection: chunked transfer encoding)
	Absent,
	/// Content-Length smaller than the body (direct calls only)
	Understated(usize),
}

impl Cl {
	fn name(self) -> &'static str {
		match self {
			Cl::True => "cl-true",
			Cl::Absent => "cl-absent",
			Cl::Understated(_) => "cl-understated",
		}
	}
}

#[derive(Clone, Debug, PartialEq, Eq, Hash, Serialize, Deserialize)]
struct HttpVar {
	cl: Cl,
	/// split offsets inside the body (sorted, distinct, 0 < c < size): the body is delivered in cuts.len()+1 chunks
	cuts: Vec<usize>,
}

#[derive(Clone, Debug, PartialEq, Eq, Hash, Serialize, Deserialize)]
struct ProbeSpec {
	entry: Entry,
	req: u32,
	resp: u32,
	size: usize,
	shape: Shape,
	msg_seed: u64,
	http: Option<HttpVar>,
	origin: String,
}

struct Msg {
	text: String,
	id: Value,
	id_text: String,
	method: &'static str,
	params: String,
	result: String,
}

/// A valid call of exactly `size` bytes (None if `size` is below the shortest such message).
fn build_msg(shape: Shape, size: usize, msg_seed: u64) -> Option<Msg> {
	let mut r = Rng::new(msg_seed);
	const ALNUM: &[u8] = b"abcdefghijklmnopqrstuvwxyzABCDEFGHIJKLMNOPQRSTUVWXYZ0123456789";
	let (id, id_text) = if r.bool() {
		let n = r.below(100);
		(json!(n), n.to_string())
	} else {
		let s = format!("p{}", *r.pick(ALNUM) as char);
		(json!(s), format!("\"{s}\""))
	};
	let (method, open, close): (&'static str, &str, &str) = match shape {
		Shape::EchoStr | Shape::LeadWs => ("echo_sync", "[\"", "\"]"),
		Shape::U64Ws => ("need_u64", "[7", "]"),
	};
	let order = r.below(3);
	let fixed = 2 + "\"jsonrpc\":\"2.0\"".len() + 1 + "\"id\":".len() + id_text.len() + 1 + "\"method\":\"\"".len() + method.len() + 1
		+ "\"params\":".len()
		+ open.len() + close.len();
	if size < fixed {
		return None;
	}
	let mut pad_len = size - fixed;
	let lead: String = if shape == Shape::LeadWs {
		if pad_len == 0 {
			return None;
		}
		let n = (1 + r.below(127) as usize).min(pad_len);
		pad_len -= n;
		(0..n).map(|_| *r.pick(b" \t\r\n") as char).collect()
	} else {
		String::new()
	};
	let pad: String = match shape {
		Shape::EchoStr | Shape::LeadWs => (0..pad_len).map(|_| *r.pick(ALNUM) as char).collect(),
		Shape::U64Ws => (0..pad_len).map(|_| ' ').collect(),
	};
	let params = format!("{open}{pad}{close}");
	let m_jsonrpc = "\"jsonrpc\":\"2.0\"".to_string();
	let m_id = format!("\"id\":{id_text}");
	let m_method = format!("\"method\":\"{method}\"");
	let m_params = format!("\"params\":{params}");
	let members = match order {
		0 => [m_jsonrpc, m_id, m_method, m_params],
		1 => [m_method, m_params, m_id, m_jsonrpc],
		_ => [m_id, m_jsonrpc, m_params, m_method],
	};
	let text = format!("{lead}{{{}}}", members.join(","));
	assert_eq!(text.len(), size, "harness: message builder size model");
	let result = match shape {
		Shape::EchoStr | Shape::LeadWs => params.clone(),
		Shape::U64Ws => "7".to_string(),
	};
	Some(Msg { text, id, id_text, method, params, result })
}

impl Msg {
	/// Length of the success reply `{"jsonrpc":"2.0","id":<id>,"result":<result>}` (member order does not matter).
	fn reply_len(&self) -> usize {
		"{\"jsonrpc\":\"2.0\",\"id\":".len() + self.id_text.len() + ",\"result\":".len() + self.result.len() + 1
	}
}

// ---------------------------------------------------------------------------------------------------------------
// Observation and oracle.

#[derive(Debug, Clone, Default)]
struct Obs {
	/// WS: every non-sentinel frame; HTTP: the body of a 200 response (if not empty)
	replies: Vec<Vec<u8>>,
	http_status: Option<u16>,
	http_body: Vec<u8>,
	invocations: Vec<Invocation>,
	sentinel_ok: bool,
	conn_dead: bool,
	/// harness-side transport trouble (connect failed, reset, timeout…)
	note: Option<String>,
}

fn clip(b: &[u8]) -> String {
	let s = String::from_utf8_lossy(b);
	if s.len() <= 300 { s.into_owned() } else { format!("{}…[{} bytes]", s.chars().take(300).collect::<String>(), b.len()) }
}

fn inv_json(i: &[Invocation]) -> Value {
	Value::Array(
		i.iter().map(|x| json!({"method": x.method, "params_len": x.params.as_ref().map(|p| p.len()), "params_head": x.params.as_ref().map(|p| p.chars().take(40).collect::<String>())})).collect(),
	)
}

/// The oracle. `size <= req` ⇒ processed normally; `size > req` ⇒ rejected without parsing/dispatch.
/// "Processed normally" = the handler ran exactly once with exactly the params sent and one reply carries the call's
/// id and either the echo result or — only when that reply would not fit `max_response_body_size` — the -32008
/// "response too big" error (C08's domain).
fn judge(p: &ProbeSpec, m: &Msg, o: &Obs) -> Vec<Violation> {
	let e = p.entry.name();
	let mut out = Vec::new();
	let witness = json!({
		"probe": p,
		"message_len": m.text.len(),
		"message_head": m.text.chars().take(120).collect::<String>(),
		"in_limit": p.size <= p.req as usize,
		"replies": o.replies.iter().map(|r| clip(r)).collect::<Vec<_>>(),
		"http_status": o.http_status,
		"http_body": clip(&o.http_body),
		"invocations": inv_json(&o.invocations),
		"sentinel_answered": o.sentinel_ok,
		"connection_ended": o.conn_dead,
		"note": o.note,
	});
	let mut v = |kind: &str, detail: String| {
		out.push(Violation::new(
			format!("{kind}/{e}"),
			format!("req_limit={} resp_limit={} size={} {}: {detail}", p.req, p.resp, p.size, p.http.as_ref().map(|h| h.cl.name()).unwrap_or("ws")),
			witness.clone(),
		))
	};
	let ws = p.entry.is_ws();
	let parsed: Vec<Result<Reply, String>> = o.replies.iter().map(|r| classify::parse_reply(r)).collect();
	let in_limit = p.size <= p.req as usize;

	if in_limit {
		let want = vec![Invocation { method: m.method, params: Some(m.params.clone()) }];
		let refused = if ws {
			parsed.iter().any(|r| matches!(r, Ok(r) if r.error_code == Some(TOO_BIG)))
		} else {
			o.http_status.map(|s| s >= 400).unwrap_or(false)
		};
		if o.invocations.is_empty() {
			if refused {
				v("in-limit-refused", format!("a message within the request limit was rejected as too big (status {:?}, replies {:?})", o.http_status, o.replies.iter().map(|r| clip(r)).collect::<Vec<_>>()));
			} else {
				v("in-limit-not-dispatched", format!("no handler invocation (status {:?}, {} replies, note {:?})", o.http_status, o.replies.len(), o.note));
			}
		} else if o.invocations != want {
			v("in-limit-wrong-invocations", format!("expected exactly one {} call with the sent params, got {}", m.method, inv_json(&o.invocations)));
		} else {
			if !ws && o.http_status != Some(200) {
				v("in-limit-error-status", format!("handler ran but HTTP status is {:?}", o.http_status));
			}
			match parsed.len() {
				0 => v("in-limit-unanswered", format!("handler ran but no reply (status {:?}, note {:?})", o.http_status, o.note)),
				1 => match &parsed[0] {
					Err(why) => v("in-limit-malformed-reply", why.clone()),
					Ok(r) => {
						if r.id != m.id {
							v("in-limit-wrong-id", format!("expected id {}, got {}", m.id, r.id));
						}
						let fits = m.reply_len() <= p.resp as usize;
						let echo = r.result_raw.as_deref() == Some(m.result.as_str());
						let too_big_resp = r.error_code == Some(RESP_TOO_BIG);
						if !(echo || (!fits && too_big_resp)) {
							v(
								"in-limit-wrong-reply",
								format!("expected the echo result{}, got code {:?} result_len {:?}", if fits { "" } else { " or -32008" }, r.error_code, r.result_raw.as_ref().map(|x| x.len())),
							);
						}
					}
				},
				n => v("in-limit-multiple-replies", format!("{n} replies")),
			}
		}
		if ws && (!o.sentinel_ok || o.conn_dead) {
			v("connection-dead-after-in-limit", format!("sentinel answered={} connection ended={}", o.sentinel_ok, o.conn_dead));
		}
	} else {
		if !o.invocations.is_empty() {
			v("oversized-dispatched", format!("a message above the request limit reached a handler: {}", inv_json(&o.invocations)));
			return out;
		}
		if ws {
			match parsed.len() {
				0 => v("oversized-unanswered", format!("no rejection frame (note {:?})", o.note)),
				1 => match &parsed[0] {
					Err(why) => v("oversized-malformed-reply", why.clone()),
					Ok(r) => {
						if r.error_code != Some(TOO_BIG) {
							v("oversized-parsed", format!("answered with code {:?} / result {:?} instead of -32007: the message was looked at", r.error_code, r.result_raw.as_ref().map(|x| x.len())));
						} else if !r.id.is_null() {
							v("oversized-reply-id-not-null", format!("-32007 carries id {}", r.id));
						}
					}
				},
				n => v("oversized-multiple-replies", format!("{n} frames for one oversized message")),
			}
			if !o.sentinel_ok || o.conn_dead {
				v("connection-dead-after-oversized", format!("sentinel answered={} connection ended={}", o.sentinel_ok, o.conn_dead));
			}
		} else {
			match o.http_status {
				None => v("oversized-unanswered", format!("no HTTP response (note {:?})", o.note)),
				Some(s) if s < 400 => v("oversized-accepted-status", format!("HTTP status {s}, body {}", clip(&o.http_body))),
				Some(s) => {
					if matches!(p.http.as_ref().map(|h| h.cl), Some(Cl::True)) && s != 413 {
						v("oversized-not-413", format!("Content-Length announces the oversize but status is {s}"));
					}
				}
			}
		}
	}
	out
}

/// Violation kinds that only say "something expected did not arrive": in real time they need a retry.
fn only_missing(vs: &[Violation]) -> bool {
	!vs.is_empty()
		&& vs.iter().all(|v| {
			let k = v.signature.split('/').next().unwrap_or("");
			matches!(k, "in-limit-not-dispatched" | "in-limit-unanswered" | "oversized-unanswered" | "connection-dead-after-in-limit" | "connection-dead-after-oversized")
		})
}

// ---------------------------------------------------------------------------------------------------------------
// Low-level assembly (as in examples/jsonrpsee_server_low_level_api.rs).

#[derive(Clone)]
struct LowLevel {
	methods: Methods,
	stop: StopHandle,
	_handle: ServerHandle,
	conn_id: Arc<AtomicU32>,
	guard: ConnectionGuard,
	cfg: ServerConfig,
}

impl LowLevel {
	fn new(cfg: ServerConfig, methods: impl Into<Methods>) -> Self {
		let (stop, handle) = stop_channel();
		LowLevel { methods: methods.into(), stop, _handle: handle, conn_id: Default::default(), guard: ConnectionGuard::new(10_000), cfg }
	}

	fn conn_state(&self) -> Option<ConnectionState> {
		let permit = self.guard.try_acquire()?;
		Some(ConnectionState::new(self.stop.clone(), self.conn_id.fetch_add(1, Ordering::Relaxed), permit))
	}

	/// Serve one connection with a hyper service made of `ws::connect` + `http::call_with_service_builder`.
	fn serve<I>(&self, io: I) -> tokio::task::JoinHandle<()>
	where
		I: AsyncRead + AsyncWrite + Send + Unpin + 'static,
	{
		let this = self.clone();
		let svc = tower::service_fn(move |req: http::Request<hyper::body::Incoming>| {
			let this = this.clone();
			async move {
				let Some(conn) = this.conn_state() else {
					return Ok::<_, Infallible>(jsonrpsee_server::http::response::too_many_requests());
				};
				if jsonrpsee_server::ws::is_upgrade_request(&req) {
					match jsonrpsee_server::ws::connect(req, this.cfg.clone(), this.methods.clone(), conn, RpcServiceBuilder::new()).await {
						Ok((rp, conn_fut)) => {
							tokio::spawn(conn_fut);
							Ok(rp)
						}
						Err(rp) => Ok(rp),
					}
				} else {
					Ok(jsonrpsee_server::http::call_with_service_builder(req, this.cfg.clone(), conn, this.methods.clone(), RpcServiceBuilder::new()).await)
				}
			}
		});
		let stop = self.stop.clone();
		tokio::spawn(async move {
			let _ = jsonrpsee_server::serve_with_graceful_shutdown(io, svc, stop.shutdown()).await;
		})
	}

	async fn ws(&self) -> Result<RawWs, String> {
		self.ws_with_capacity(DUPLEX).await
	}

	async fn ws_with_capacity(&self, capacity: usize) -> Result<RawWs, String> {
		let (client, server) = tokio::io::duplex(capacity);
		self.serve(server);
		RawWs::handshake(client, "localhost", "/").await.map_err(|e| format!("{e:?}"))
	}
}

/// A harness-owned `RpcServiceT` for `http::call_with_service`: logs every call/batch/notification that reaches it
/// (so "dispatched" is observed directly at the service boundary) and answers like the echo handlers.
#[derive(Clone)]
struct LogSvc {
	log: Log,
	max_resp: usize,
}

impl RpcServiceT for LogSvc {
	type MethodResponse = MethodResponse;
	type NotificationResponse = MethodResponse;
	type BatchResponse = MethodResponse;

	fn call<'a>(&self, req: Request<'a>) -> impl Future<Output = Self::MethodResponse> + Send + 'a {
		let log = self.log.clone();
		let max = self.max_resp;
		async move {
			let params = req.params.as_ref().map(|p| p.get().to_string());
			let name: &'static str = match req.method.as_ref() {
				"echo_sync" => "echo_sync",
				"need_u64" => "need_u64",
				_ => "svc_other_method",
			};
			log.push(name, params.as_deref());
			if name == "need_u64" {
				match req.params().one::<u64>() {
					Ok(n) => MethodResponse::response(req.id.clone(), ResponsePayload::success(n), max),
					Err(e) => MethodResponse::error(req.id.clone(), e),
				}
			} else {
				let raw = RawValue::from_string(params.unwrap_or_else(|| "null".into())).unwrap_or_else(|_| RawValue::NULL.to_owned());
				MethodResponse::response(req.id.clone(), ResponsePayload::success(raw), max)
			}
		}
	}

	fn batch<'a>(&self, _b: Batch<'a>) -> impl Future<Output = Self::BatchResponse> + Send + 'a {
		let log = self.log.clone();
		async move {
			log.push("svc_batch", None);
			MethodResponse::error(Id::Null, ErrorCode::InternalError)
		}
	}

	fn notification<'a>(&self, _n: Notification<'a>) -> impl Future<Output = Self::NotificationResponse> + Send + 'a {
		let log = self.log.clone();
		async move {
			log.push("svc_notification", None);
			MethodResponse::notification()
		}
	}
}

// ---------------------------------------------------------------------------------------------------------------
// Transports.

type ReqBody = http_body_util::combinators::UnsyncBoxBody<Bytes, Infallible>;

fn chunks_of<'a>(body: &'a [u8], cuts: &[usize]) -> Vec<&'a [u8]> {
	let mut out = Vec::new();
	let mut start = 0;
	for &c in cuts {
		if c > start && c < body.len() {
			out.push(&body[start..c]);
			start = c;
		}
	}
	out.push(&body[start..]);
	out
}

/// Request for a direct service call: explicit body frames, Content-Length true / absent / understated.
fn direct_request(m: &Msg, var: &HttpVar, use_full: bool) -> http::Request<ReqBody> {
	let mut b = http::Request::builder()
		.method("POST")
		.uri("http://localhost/")
		.header("host", "localhost")
		.header("content-type", "application/json");
	match var.cl {
		Cl::True => b = b.header("content-length", m.text.len()),
		Cl::Absent => {}
		Cl::Understated(n) => b = b.header("content-length", n),
	}
	let body: ReqBody = if var.cuts.is_empty() && use_full {
		http_body_util::Full::new(Bytes::from(m.text.clone().into_bytes())).boxed_unsync()
	} else {
		let frames: Vec<Result<Frame<Bytes>, Infallible>> =
			chunks_of(m.text.as_bytes(), &var.cuts).into_iter().map(|c| Ok(Frame::data(Bytes::copy_from_slice(c)))).collect();
		StreamBody::new(futures_util::stream::iter(frames)).boxed_unsync()
	};
	b.body(body).expect("request")
}

async fn collect_response(resp: jsonrpsee_server::HttpResponse) -> HttpReply {
	let (parts, body) = resp.into_parts();
	match body.collect().await {
		Ok(c) => HttpReply { status: parts.status.as_u16(), headers: vec![], body: c.to_bytes().to_vec(), error: None },
		Err(e) => HttpReply { status: parts.status.as_u16(), headers: vec![], body: vec![], error: Some(format!("{e:?}")) },
	}
}

/// Raw HTTP/1.1 request bytes: Content-Length, or chunked transfer encoding when it is absent.
fn wire_request(m: &Msg, var: &HttpVar, host: &str) -> Vec<u8> {
	let mut out = Vec::with_capacity(m.text.len() + 256);
	out.extend_from_slice(format!("POST / HTTP/1.1\r\nHost: {host}\r\nContent-Type: application/json\r\nConnection: close\r\n").as_bytes());
	match var.cl {
		Cl::True | Cl::Understated(_) => {
			out.extend_from_slice(format!("Content-Length: {}\r\n\r\n", m.text.len()).as_bytes());
			out.extend_from_slice(m.text.as_bytes());
		}
		Cl::Absent => {
			out.extend_from_slice(b"Transfer-Encoding: chunked\r\n\r\n");
			for c in chunks_of(m.text.as_bytes(), &var.cuts) {
				out.extend_from_slice(format!("{:x}\r\n", c.len()).as_bytes());
				out.extend_from_slice(c);
				out.extend_from_slice(b"\r\n");
			}
			out.extend_from_slice(b"0\r\n\r\n");
		}
	}
	out
}

struct WireReply {
	status: Option<u16>,
	body: Vec<u8>,
	note: Option<String>,
}

fn parse_wire_response(buf: &[u8]) -> (Option<u16>, Vec<u8>) {
	let Some(hend) = buf.windows(4).position(|w| w == b"\r\n\r\n") else { return (None, vec![]) };
	let head = String::from_utf8_lossy(&buf[..hend]).into_owned();
	let mut lines = head.split("\r\n");
	let status = lines.next().and_then(|l| l.split(' ').nth(1)).and_then(|s| s.parse::<u16>().ok());
	let mut clen: Option<usize> = None;
	let mut chunked = false;
	for l in lines {
		if let Some((k, val)) = l.split_once(':') {
			let k = k.trim().to_ascii_lowercase();
			let val = val.trim();
			if k == "content-length" {
				clen = val.parse().ok();
			} else if k == "transfer-encoding" && val.to_ascii_lowercase().contains("chunked") {
				chunked = true;
			}
		}
	}
	let rest = &buf[hend + 4..];
	let body = if chunked {
		let mut out = Vec::new();
		let mut i = 0;
		loop {
			let Some(le) = rest[i..].windows(2).position(|w| w == b"\r\n") else { break };
			let n = usize::from_str_radix(String::from_utf8_lossy(&rest[i..i + le]).split(';').next().unwrap_or("").trim(), 16).unwrap_or(0);
			i += le + 2;
			if n == 0 || i + n > rest.len() {
				break;
			}
			out.extend_from_slice(&rest[i..i + n]);
			i += n + 2;
			if i > rest.len() {
				break;
			}
		}
		out
	} else if let Some(n) = clen {
		rest[..n.min(rest.len())].to_vec()
	} else {
		rest.to_vec()
	};
	(status, body)
}

/// Write the request while reading the response to the end of the stream (the request says `Connection: close`).
async fn wire_exchange<S>(io: S, bytes: Vec<u8>, wait: Duration) -> WireReply
where
	S: AsyncRead + AsyncWrite + Unpin,
{
	let (mut rd, mut wr) = tokio::io::split(io);
	let mut buf = Vec::new();
	let mut note = None;
	let both = async {
		let write = async {
			let r = wr.write_all(&bytes).await;
			let _ = wr.flush().await;
			r.err().map(|e| format!("write: {e}"))
		};
		let read = async {
			match tokio::time::timeout(wait, rd.read_to_end(&mut buf)).await {
				Ok(Ok(_)) => None,
				Ok(Err(e)) => Some(format!("read: {e}")),
				Err(_) => Some("read: no end of stream within the wait".to_string()),
			}
		};
		tokio::join!(write, read)
	};
	match tokio::time::timeout(wait + Duration::from_secs(5), both).await {
		Ok((w, r)) => {
			if w.is_some() || r.is_some() {
				note = Some(format!("{} {}", w.unwrap_or_default(), r.unwrap_or_default()));
			}
		}
		Err(_) => note = Some("exchange timed out (writer blocked)".into()),
	}
	let (status, body) = parse_wire_response(&buf);
	WireReply { status, body, note }
}

fn sentinel_text(n: u64) -> (String, String) {
	let id = format!("s{n}");
	(format!("{{\"jsonrpc\":\"2.0\",\"id\":\"{id}\",\"method\":\"sentinel\"}}"), id)
}

fn http_obs(status: Option<u16>, body: Vec<u8>, note: Option<String>, invocations: Vec<Invocation>) -> Obs {
	let replies = if status == Some(200) && body.iter().any(|b| !b.is_ascii_whitespace()) { vec![body.clone()] } else { vec![] };
	Obs { replies, http_status: status, http_body: body, invocations, sentinel_ok: true, conn_dead: false, note }
}

/// Mode D WebSocket probe: message, then a sentinel call, then read until the connection has been idle for 10
/// virtual seconds (on a paused clock that means nothing more can happen).
async fn ws_probe_virtual(ws: &mut RawWs, log: &Log, text: &str, n: u64) -> Obs {
	let _ = log.take();
	let sent = ws.send_text(text).await;
	let (sentinel, sid) = sentinel_text(n);
	let sent2 = ws.send_text(&sentinel).await;
	let frames = ws.drain_until_idle(IDLE).await;
	let mut o = Obs::default();
	for f in frames {
		let is_sentinel = f.json().map(|v| v["id"] == Value::String(sid.clone())).unwrap_or(false);
		if is_sentinel && !o.sentinel_ok {
			o.sentinel_ok = true;
		} else {
			o.replies.push(f.data);
		}
	}
	o.invocations = log.take();
	o.conn_dead = ws.is_ended() || sent.is_err() || sent2.is_err();
	if let Some((_, why)) = &ws.ended {
		o.note = Some(format!("connection ended: {why}"));
	}
	o
}

// ---------------------------------------------------------------------------------------------------------------
// Back-pressure family: the oversized frame arrives while the connection's outgoing buffer is full (tiny message buffer,
// tiny transport buffer, peer not reading). The rejection must still be delivered (exactly one -32007) once the peer
// reads again, nothing of the oversized message reaches a handler, every other call is answered.

struct BpOut {
	calls_answered: usize,
	violations: Vec<Violation>,
	nontrivial: bool,
}

async fn backpressure_case(seed: u64) -> BpOut {
	let mut r = Rng::new(seed);
	let mut out = BpOut { calls_answered: 0, violations: Vec::new(), nontrivial: false };
	let req = *r.pick(&[100u32, 200, 1000]);
	let log = Log::default();
	let low_level = r.chance(1, 4);
	let cfg = ServerConfig::builder().max_request_body_size(req).max_response_body_size(1 << 20).set_message_buffer_capacity(1 + r.below(2) as u32).max_connections(100).build();
	// (the servers must outlive the connection: dropping their handles stops them)
	// the in-memory pipe has one capacity for both directions: large enough for the oversized frame to be written without
	// the server reading it to the end, and filled towards the peer by enough answers
	let capacity = 2 * req as usize + 300 + r.usize(256);
	let low = LowLevel::new(cfg.clone(), handlers::echo_module(log.clone()));
	let mut srv = MemServer::new(cfg, handlers::echo_module(log.clone()));
	srv.duplex_capacity = capacity;
	let conn = if low_level { low.ws_with_capacity(capacity).await.map_err(|e| format!("{e:?}")) } else { srv.ws().await.map_err(|e| format!("{e:?}")) };
	let Ok(mut ws) = conn else { return out };
	let entry = if low_level { "ws-connect" } else { "tower-ws" };
	ws.set_reading(false);
	tokio::time::sleep(Duration::from_millis(2)).await;
	let pad = "p".repeat((req as usize).saturating_sub(70).min(400));
	let n_before = capacity / (pad.len() + 40) + 4 + r.usize(6);
	for i in 0..n_before {
		let _ = ws.send_text(&format!("{{\"jsonrpc\":\"2.0\",\"id\":{i},\"method\":\"echo_sync\",\"params\":[\"{pad}\"]}}")).await;
	}
	tokio::time::sleep(Duration::from_millis(5)).await;
	let marker = format!("OVERSIZED-{seed:x}");
	let over = req as usize + 1 + r.usize(req as usize);
	let body_pad = "o".repeat(over.saturating_sub(70 + marker.len()));
	let big = format!("{{\"jsonrpc\":\"2.0\",\"id\":777,\"method\":\"echo_sync\",\"params\":[\"{marker}{body_pad}\"]}}");
	let big_len = big.len();
	let _ = ws.send_text(&big).await;
	tokio::time::sleep(Duration::from_millis(20)).await;
	ws.set_reading(true);
	// (further calls only once the peer reads again: the server does not take input while it waits to deliver the rejection)
	let n_after = r.usize(3);
	for i in 0..n_after {
		let _ = ws.send_text(&format!("{{\"jsonrpc\":\"2.0\",\"id\":{},\"method\":\"echo_async\",\"params\":[\"after\"]}}", 1000 + i)).await;
	}
	let (sentinel, sid) = sentinel_text(seed & 0xffff);
	let _ = ws.send_text(&sentinel).await;
	let frames = ws.drain_until_idle(IDLE).await;
	let invocations = log.take();
	let mut too_big = 0;
	let mut answered: Vec<u64> = Vec::new();
	let mut sentinel_ok = false;
	for f in &frames {
		let Some(v) = f.json() else { continue };
		if v["id"] == Value::String(sid.clone()) {
			sentinel_ok = true;
		} else if v["error"]["code"] == json!(-32007) {
			too_big += 1;
		} else if let Some(id) = v["id"].as_u64() {
			if v.get("result").is_some() {
				answered.push(id);
			}
		}
	}
	out.calls_answered = answered.len();
	out.nontrivial = big_len > req as usize;
	let w = json!({"family": "backpressure", "seed": seed, "entry": entry, "req_limit": req, "message_len": big_len, "calls_before": n_before, "calls_after": n_after,
		"frames": frames.iter().map(|f| clip(&f.data)).collect::<Vec<_>>()});
	if big_len <= req as usize {
		return out;
	}
	if invocations.iter().any(|i| i.params.as_deref().is_some_and(|p| p.contains(&marker))) {
		out.violations.push(Violation::new(format!("oversized-dispatched/{entry}:backpressure"), format!("req_limit={req} size={big_len}: the oversized message reached a handler"), w.clone()));
	}
	if too_big != 1 {
		out.violations.push(Violation::new(
			format!("{}/{entry}:backpressure", if too_big == 0 { "oversized-not-rejected" } else { "oversized-rejected-twice" }),
			format!("req_limit={req} size={big_len}: {too_big} -32007 frame(s) for one oversized message that arrived while the outgoing buffer was full"),
			w.clone(),
		));
	}
	if !sentinel_ok || ws.is_ended() {
		out.violations.push(Violation::new(format!("connection-stopped-serving/{entry}:backpressure"), "no answer to the call sent after the oversized message".to_string(), w.clone()));
	} else {
		let want: Vec<u64> = (0..n_before as u64).chain((0..n_after as u64).map(|i| 1000 + i)).collect();
		let missing: Vec<&u64> = want.iter().filter(|i| !answered.contains(i)).collect();
		if !missing.is_empty() {
			out.violations.push(Violation::new(format!("in-limit-unanswered/{entry}:backpressure"), format!("calls {missing:?} around the oversized message were not answered"), w.clone()));
		}
	}
	out
}

// ---------------------------------------------------------------------------------------------------------------
// HTTP/2 family: the same size gate when the request arrives as a stream of an HTTP/2 connection (hyper client and the
// server's hyper connection over an in-memory duplex), with and without content-length, body in 1..4 DATA frames.

async fn http2_case(seed: u64) -> BpOut {
	use http_body_util::BodyExt;
	let mut r = Rng::new(seed);
	let mut out = BpOut { calls_answered: 0, violations: Vec::new(), nontrivial: false };
	let req = *r.pick(&[64u32, 100, 1000, 4096]);
	let resp = *r.pick(&[64u32, 100, 1000, 4096, 65536]);
	let log = Log::default();
	let srv = MemServer::new(server_cfg(req, resp), handlers::echo_module(log.clone()));
	let (io, _jh) = srv.raw_conn();
	let Ok((mut send, conn)) = hyper::client::conn::http2::handshake::<_, _, ReqBody>(hyper_util::rt::TokioExecutor::new(), hyper_util::rt::TokioIo::new(io)).await else { return out };
	tokio::spawn(async move {
		let _ = conn.await;
	});
	let l = req as usize;
	for size in [l - 1, l, l + 1, l + 2 + r.usize(l), 2 * l] {
		let shape = *r.pick(&[Shape::EchoStr, Shape::U64Ws, Shape::LeadWs]);
		let Some(m) = build_msg(shape, size, r.next_u64()) else { continue };
		let with_cl = r.bool();
		let k = 1 + r.usize(4);
		let mut cuts: Vec<usize> = (0..k - 1).map(|_| 1 + r.usize(size.max(2) - 1)).collect();
		cuts.sort();
		cuts.dedup();
		let frames: Vec<Result<http_body::Frame<Bytes>, std::convert::Infallible>> =
			chunks_of(m.text.as_bytes(), &cuts).into_iter().map(|c| Ok(http_body::Frame::data(Bytes::copy_from_slice(c)))).collect();
		let n_frames = frames.len();
		let body: ReqBody = http_body_util::StreamBody::new(futures_util::stream::iter(frames)).boxed_unsync();
		let mut b = http::Request::builder().method("POST").uri("http://localhost/").header("content-type", "application/json");
		if with_cl {
			b = b.header("content-length", size);
		}
		let _ = log.take();
		if send.ready().await.is_err() {
			break;
		}
		let rep = match send.send_request(b.body(body).expect("request")).await {
			Ok(rp) => rp,
			Err(_) => continue,
		};
		let status = rep.status().as_u16();
		let bytes = rep.into_body().collect().await.map(|b| b.to_bytes().to_vec()).unwrap_or_default();
		let inv = log.take();
		out.calls_answered += 1;
		out.nontrivial = true;
		let w = json!({"family": "http2", "seed": seed, "req_limit": req, "resp_limit": resp, "message_len": size, "content_length": with_cl, "data_frames": n_frames,
			"status": status, "body": clip(&bytes), "invocations": inv_json(&inv)});
		let ran = inv.iter().any(|i| i.method == m.method && i.params.as_deref() == Some(m.params.as_str()));
		if size > l {
			if ran || !inv.is_empty() {
				out.violations.push(Violation::new("oversized-dispatched/tower-http2".to_string(), format!("req_limit={req} size={size} content-length={with_cl}: a message above the request limit reached a handler"), w.clone()));
			}
			if status == 200 {
				out.violations.push(Violation::new("oversized-answered-200/tower-http2".to_string(), format!("req_limit={req} size={size}: status 200"), w.clone()));
			}
		} else {
			if inv.len() != 1 || !ran {
				out.violations.push(Violation::new("in-limit-refused/tower-http2".to_string(), format!("req_limit={req} size={size} content-length={with_cl} frames={n_frames}: handler invocations {}", inv.len()), w.clone()));
			}
			if status != 200 {
				out.violations.push(Violation::new("in-limit-refused/tower-http2".to_string(), format!("req_limit={req} size={size}: status {status}"), w.clone()));
			}
		}
	}
	out
}

/// Everything one (req, resp) configuration needs in mode D.
struct Env {
	cfg: ServerConfig,
	log: Log,
	srv: MemServer,
	low: LowLevel,
	tower_ws: Option<RawWs>,
	low_ws: Option<RawWs>,
	n: u64,
}

// ---------------------------------------------------------------------------------------------------------------
// Fragment family: a WebSocket peer that writes its own frames (FIN bit, opcode, control frames between fragments).
// The statement quantifies "processed normally" over single-frame messages; what is judged here is its first clause
// only - bytes beyond max_request_body_size are never dispatched to a handler, however they are spread over frames -
// everything else is counted.

#[derive(Default)]
struct FragOut {
	violations: Vec<Violation>,
	frames_sent: usize,
	outcome: &'static str,
	variant: &'static str,
	oversized: bool,
}

async fn fragment_case(seed: u64) -> FragOut {
	let mut r = Rng::new(seed);
	let mut out = FragOut { outcome: "setup-failed", ..Default::default() };
	let req = *r.pick(&[100u32, 200, 1000]);
	let resp = *r.pick(&[64u32, 1000, 65536]);
	let l = req as usize;
	let mid = l + 2 + r.usize(l - 4);
	let size = *r.pick(&[l - 1, l, l + 1, mid, 2 * l - 2]);
	let Some(m) = build_msg(Shape::EchoStr, size, r.next_u64()) else { return out };
	let log = Log::default();
	let cfg = server_cfg(req, resp);
	let low_level = r.chance(1, 3);
	let low = LowLevel::new(cfg.clone(), handlers::echo_module(log.clone()));
	let srv = MemServer::new(cfg, handlers::echo_module(log.clone()));
	let io = if low_level {
		let (c, s) = tokio::io::duplex(DUPLEX);
		low.serve(s);
		c
	} else {
		srv.raw_conn().0
	};
	let Ok(mut ws) = FrameWs::connect(io, IDLE).await else { return out };
	let bytes = m.text.as_bytes();
	// 2..3 pieces, each within the limit
	let k = 2 + r.usize(2);
	let mut cuts: Vec<usize> = (0..k - 1).map(|_| 1 + r.usize(size - 1)).collect();
	cuts.sort();
	cuts.dedup();
	let mut pieces: Vec<&[u8]> = Vec::new();
	let mut at = 0;
	for c in &cuts {
		pieces.push(&bytes[at..*c]);
		at = *c;
	}
	pieces.push(&bytes[at..]);
	if pieces.iter().any(|p| p.len() > l) {
		// a single frame above the limit is the grid's subject
		pieces = vec![&bytes[..size / 2], &bytes[size / 2..]];
	}
	let variant = r.below(5);
	out.variant = ["fragments", "fragments+ping", "fragments+pong", "first-fragment+pong+unfragmented-rest", "first-fragment+ping+unfragmented-rest"][variant as usize];
	out.oversized = size > l;
	const TEXT: u8 = 1;
	const CONT: u8 = 0;
	const PING: u8 = 9;
	const PONG: u8 = 10;
	let _ = log.take();
	let n = pieces.len();
	for (i, p) in pieces.iter().enumerate() {
		let last = i + 1 == n;
		let (fin, opcode) = match variant {
			0..=2 => (last, if i == 0 { TEXT } else { CONT }),
			_ => {
				if i == 0 {
					(false, TEXT)
				} else if i == 1 {
					// the rest of the message as ONE unfragmented text frame (a protocol error after an unfinished fragment)
					let rest: Vec<u8> = pieces[1..].concat();
					if i == 1 {
						let ctl = if variant == 3 { PONG } else { PING };
						ws.send_frame(true, ctl, b"x").await;
						out.frames_sent += 1;
					}
					ws.send_frame(true, TEXT, &rest).await;
					out.frames_sent += 1;
					break;
				} else {
					unreachable!()
				}
			}
		};
		ws.send_frame(fin, opcode, p).await;
		out.frames_sent += 1;
		if !last && i == 0 && (variant == 1 || variant == 2) {
			ws.send_frame(true, if variant == 1 { PING } else { PONG }, b"x").await;
			out.frames_sent += 1;
		}
		if r.chance(1, 3) {
			tokio::time::sleep(Duration::from_millis(1)).await;
		}
	}
	let (sid, sentinel) = sentinel_text(seed);
	ws.send_frame(true, TEXT, sentinel.as_bytes()).await;
	let mut replies: Vec<Vec<u8>> = Vec::new();
	let mut sentinel_ok = false;
	let mut closed = false;
	while let Some((op, payload)) = ws.recv_frame(IDLE).await {
		match op {
			1 | 2 => {
				if serde_json::from_slice::<Value>(&payload).ok().map(|v| v["id"] == json!(sid)).unwrap_or(false) {
					sentinel_ok = true;
				} else {
					replies.push(payload);
				}
			}
			8 => {
				closed = true;
				break;
			}
			_ => {}
		}
	}
	let inv = log.take();
	let dispatched = inv.iter().any(|i| i.method == m.method && i.params.as_deref() == Some(m.params.as_str()));
	let witness = json!({"family": "fragments", "seed": seed, "entry": if low_level { "ws-connect" } else { "tower-ws" }, "req": req, "resp": resp, "size": size, "variant": out.variant,
		"pieces": pieces.iter().map(|p| p.len()).collect::<Vec<_>>(), "replies": replies.iter().map(|r| clip(r)).collect::<Vec<_>>(), "invocations": inv_json(&inv), "sentinel_answered": sentinel_ok});
	if out.oversized && dispatched {
		out.violations.push(Violation::new(
			format!("oversized-dispatched/{}/{}", if low_level { "ws-connect" } else { "tower-ws" }, out.variant),
			format!("a message of {size} bytes (limit {req}) sent as frames of {:?} bytes ({}) reached its handler", pieces.iter().map(|p| p.len()).collect::<Vec<_>>(), out.variant),
			witness.clone(),
		));
	}
	if inv.iter().any(|i| !(i.method == m.method && i.params.as_deref() == Some(m.params.as_str()))) {
		out.violations.push(Violation::new(
			format!("handler-ran-for-other-text/{}", out.variant),
			format!("a handler ran with something that is not the message that was sent: {:?}", inv_json(&inv)),
			witness,
		));
	}
	out.outcome = if dispatched {
		"dispatched"
	} else if replies.iter().any(|r| matches!(classify::parse_reply(r), Ok(r) if r.error_code == Some(TOO_BIG))) {
		"rejected-too-big"
	} else if closed || !sentinel_ok {
		"connection-ended"
	} else if !replies.is_empty() {
		"other-error-reply"
	} else {
		"no-reply"
	};
	out
}

// ---------------------------------------------------------------------------------------------------------------
// Builder-order family: "the outcome depends only on this limit - not on ... any other setting". The configuration is put
// together by calling the builder's setters in a seeded order (the two limits somewhere among the others, http_only() /
// ws_only() before or after them); the gate must sit exactly at the limit that was set.

async fn builder_order_case(seed: u64) -> (Evidence, Vec<Violation>) {
	let mut ev = Evidence::new("");
	let mut violations = Vec::new();
	let mut r = Rng::new(seed);
	let req = *r.pick(&[64u32, 100, 1000, 4096]);
	let resp = *r.pick(&[64u32, 1000, 65536]);
	let mode = r.below(3); // 0 both transports, 1 http_only, 2 ws_only
	let mut steps: Vec<u8> = (0..12).collect();
	if mode == 0 {
		steps.retain(|s| *s != 10 && *s != 11);
	} else if mode == 1 {
		steps.retain(|s| *s != 11);
	} else {
		steps.retain(|s| *s != 10);
	}
	// seeded order
	for i in (1..steps.len()).rev() {
		steps.swap(i, r.usize(i + 1));
	}
	let mut b = ServerConfig::builder();
	let mut names = Vec::new();
	for s in &steps {
		let (nb, name) = match s {
			0 => (b.max_request_body_size(req), "max_request_body_size"),
			1 => (b.max_response_body_size(resp), "max_response_body_size"),
			2 => (b.max_connections(10_000), "max_connections"),
			3 => (b.max_subscriptions_per_connection(7), "max_subscriptions_per_connection"),
			4 => (b.set_batch_request_config(BatchRequestConfig::Unlimited), "set_batch_request_config"),
			5 => (b.set_message_buffer_capacity(64), "set_message_buffer_capacity"),
			6 => (if r.bool() { b.disable_ws_ping() } else { b.enable_ws_ping(jsonrpsee_server::PingConfig::new().ping_interval(Duration::from_secs(3600)).inactive_limit(Duration::from_secs(7200))) }, "ws_ping"),
			7 => (b.set_id_provider(jsonrpsee_server::RandomIntegerIdProvider), "set_id_provider"),
			8 => (b.set_tcp_no_delay(r.bool()), "set_tcp_no_delay"),
			9 => (b.set_keep_alive(None).set_keep_alive_timeout(Duration::from_secs(30)), "set_keep_alive"),
			10 => (b.http_only(), "http_only"),
			_ => (b.ws_only(), "ws_only"),
		};
		b = nb;
		names.push(name);
	}
	let log = Log::default();
	let cfg = b.build();
	let mut env = Env::with_cfg(cfg.clone(), log.clone());
	// half of the time the per-connection service builder is touched after the configuration went in: its own setters
	// (connection limit, connection id, middleware) must leave the limits alone as well
	if r.bool() {
		use jsonrpsee_server::middleware::rpc::RpcServiceBuilder as Rsb;
		let tb = jsonrpsee_server::Server::builder().set_config(cfg.clone()).to_service_builder();
		let tb = match r.below(4) {
			0 => tb.max_connections(10_000),
			1 => tb.connection_id(7).max_connections(5_000),
			2 => tb.max_connections(10_000).set_rpc_middleware(Rsb::new()),
			_ => tb.set_http_middleware(tower::ServiceBuilder::new()).max_connections(10_000),
		};
		env.srv = MemServer::with_builder(tb, handlers::echo_module(log.clone()));
		names.push("tower-service-builder-setters");
	}
	let l = req as usize;
	for size in [l - 1, l, l + 1, 2 * l] {
		for shape in [Shape::EchoStr, Shape::U64Ws] {
			let mut entries = Vec::new();
			if mode != 2 {
				entries.push((Entry::TowerHttp, Some(HttpVar { cl: if r.bool() { Cl::True } else { Cl::Absent }, cuts: { let c = 1 + r.usize(2); cuts_for(&mut r, size, c) } })));
			}
			if mode != 1 {
				entries.push((Entry::TowerWs, None));
			}
			for (entry, http) in entries {
				let p = ProbeSpec { entry, req, resp, size, shape, msg_seed: r.next_u64(), http, origin: "builder-order".into() };
				let Some(m) = build_msg(p.shape, p.size, p.msg_seed) else { continue };
				let o = env.run(&p, &m).await;
				let mut vs = judge(&p, &m, &o);
				for v in vs.iter_mut() {
					v.signature = format!("{}/setters-in-another-order", v.signature);
					v.witness["setter_order"] = json!(names);
					v.witness["family"] = json!("builder-order");
					v.witness["seed"] = json!(seed);
				}
				record(&mut ev, &mut violations, &p, &m, &o, vs);
				ev.count("builder_order_probes", 1);
			}
		}
	}
	ev.class("builder_orders", &names);
	(ev, violations)
}

fn server_cfg(req: u32, resp: u32) -> ServerConfig {
	ServerConfig::builder().max_request_body_size(req).max_response_body_size(resp).max_connections(10_000).build()
}

impl Env {
	fn new(req: u32, resp: u32) -> Env {
		let log = Log::default();
		let cfg = server_cfg(req, resp);
		let srv = MemServer::new(cfg.clone(), handlers::echo_module(log.clone()));
		let low = LowLevel::new(cfg.clone(), handlers::echo_module(log.clone()));
		Env { cfg, log, srv, low, tower_ws: None, low_ws: None, n: 0 }
	}

	fn with_cfg(cfg: ServerConfig, log: Log) -> Env {
		let srv = MemServer::new(cfg.clone(), handlers::echo_module(log.clone()));
		let low = LowLevel::new(cfg.clone(), handlers::echo_module(log.clone()));
		Env { cfg, log, srv, low, tower_ws: None, low_ws: None, n: 0 }
	}

	async fn run(&mut self, p: &ProbeSpec, m: &Msg) -> Obs {
		self.n += 1;
		let n = self.n;
		match p.entry {
			Entry::TowerWs => {
				if self.tower_ws.as_ref().map(|w| w.is_ended()).unwrap_or(true) {
					match self.srv.ws().await {
						Ok(w) => self.tower_ws = Some(w),
						Err(e) => return Obs { note: Some(format!("harness: ws connect failed: {e:?}")), conn_dead: true, ..Default::default() },
					}
				}
				ws_probe_virtual(self.tower_ws.as_mut().unwrap(), &self.log, &m.text, n).await
			}
			Entry::WsConnect => {
				if self.low_ws.as_ref().map(|w| w.is_ended()).unwrap_or(true) {
					match self.low.ws().await {
						Ok(w) => self.low_ws = Some(w),
						Err(e) => return Obs { note: Some(format!("harness: ws connect failed: {e}")), conn_dead: true, ..Default::default() },
					}
				}
				ws_probe_virtual(self.low_ws.as_mut().unwrap(), &self.log, &m.text, n).await
			}
			Entry::TowerHttp | Entry::HttpBuilder | Entry::HttpService => {
				let var = p.http.as_ref().expect("http variant");
				let req = direct_request(m, var, p.msg_seed & 1 == 1);
				let _ = self.log.take();
				let rep = match p.entry {
					Entry::TowerHttp => self.srv.http(req).await,
					Entry::HttpBuilder => match self.low.conn_state() {
						Some(conn) => collect_response(
							jsonrpsee_server::http::call_with_service_builder(req, self.cfg.clone(), conn, self.low.methods.clone(), RpcServiceBuilder::new()).await,
						)
						.await,
						None => HttpReply { status: 0, headers: vec![], body: vec![], error: Some("harness: no connection permit".into()) },
					},
					_ => {
						let svc = LogSvc { log: self.log.clone(), max_resp: p.resp as usize };
						collect_response(jsonrpsee_server::http::call_with_service(req, BatchRequestConfig::Unlimited, p.req, svc).await).await
					}
				};
				let status = if rep.status == 0 { None } else { Some(rep.status) };
				http_obs(status, rep.body, rep.error, self.log.take())
			}
			Entry::TowerHttpConn | Entry::LowHttpConn => {
				let var = p.http.as_ref().expect("http variant");
				let bytes = wire_request(m, var, "localhost");
				let _ = self.log.take();
				let client = if p.entry == Entry::TowerHttpConn {
					self.srv.raw_conn().0
				} else {
					let (c, s) = tokio::io::duplex(DUPLEX);
					self.low.serve(s);
					c
				};
				let rep = wire_exchange(client, bytes, IDLE).await;
				http_obs(rep.status, rep.body, rep.note, self.log.take())
			}
			Entry::TcpWs | Entry::TcpHttp => unreachable!("TCP entries run in the real-time part"),
		}
	}
}

// ---------------------------------------------------------------------------------------------------------------
// Workload.

fn cuts_for(r: &mut Rng, size: usize, chunks: usize) -> Vec<usize> {
	let mut cuts: Vec<usize> = Vec::new();
	if size < 2 {
		return cuts;
	}
	for _ in 0..chunks.saturating_sub(1) {
		// favour cuts close to the start / end / limit-sized prefixes as well as uniform ones
		let c = match r.below(4) {
			0 => 1 + r.usize(8.min(size - 1)),
			1 => size - 1 - r.usize(8.min(size - 1)),
			_ => 1 + r.usize(size - 1),
		};
		if c > 0 && c < size && !cuts.contains(&c) {
			cuts.push(c);
		}
	}
	cuts.sort();
	cuts
}

fn understated(r: &mut Rng, size: usize, req: u32) -> usize {
	let req = req as usize;
	if size > req + 1 && r.chance(1, 4) {
		// understated but still above the limit
		req + 1 + r.usize(size - req - 1)
	} else {
		// below both the body size and (for oversized bodies) the limit: the header pre-check cannot trip
		r.usize(size.min(req + 1).max(1))
	}
}

/// All probes of one (req, resp, size, shape) cell for the in-memory entry points.
fn cell_probes(r: &mut Rng, req: u32, resp: u32, size: usize, shape: Shape, origin: &str) -> Vec<ProbeSpec> {
	let mut out = Vec::new();
	let mk = |r: &mut Rng, entry: Entry, http: Option<HttpVar>| ProbeSpec { entry, req, resp, size, shape, msg_seed: r.next_u64(), http, origin: origin.to_string() };
	out.push(mk(r, Entry::TowerWs, None));
	out.push(mk(r, Entry::WsConnect, None));
	for entry in [Entry::TowerHttp, Entry::HttpBuilder, Entry::HttpService] {
		for clk in 0..3 {
			for chunks in 1..=3usize {
				let cl = match clk {
					0 => Cl::True,
					1 => Cl::Absent,
					_ => Cl::Understated(understated(r, size, req)),
				};
				let cuts = cuts_for(r, size, chunks);
				out.push(mk(r, entry, Some(HttpVar { cl, cuts })));
			}
		}
	}
	for entry in [Entry::TowerHttpConn, Entry::LowHttpConn] {
		out.push(mk(r, entry, Some(HttpVar { cl: Cl::True, cuts: vec![] })));
		for chunks in 1..=3usize {
			let cuts = cuts_for(r, size, chunks);
			out.push(mk(r, entry, Some(HttpVar { cl: Cl::Absent, cuts })));
		}
	}
	out
}

fn grid_sizes(req: u32, resp: u32) -> Vec<(usize, &'static str)> {
	let l = req as usize;
	let mut v: Vec<(usize, &'static str)> = vec![(l - 1, "grid"), (l, "grid"), (l + 1, "grid"), (2 * l, "grid"), (8 * l, "grid")];
	// not part of the designed grid: sizes around the *response* limit, where nothing may change
	let rl = resp as usize;
	for s in [rl - 1, rl, rl + 1] {
		if !v.iter().any(|(x, _)| *x == s) {
			v.push((s, "resp-boundary"));
		}
	}
	v
}

#[derive(Clone, Debug)]
struct Job {
	req: u32,
	resp: u32,
	sizes: Vec<(usize, &'static str)>,
	seed: u64,
}

fn log_uniform(r: &mut Rng, lo: u32, hi: u32) -> u32 {
	let (a, b) = ((lo as f64).ln(), (hi as f64).ln());
	let x = a + (b - a) * (r.below(1_000_000) as f64 / 1_000_000.0);
	(x.exp() as u32).clamp(lo, hi)
}

fn random_job(seed: u64) -> Job {
	let mut r = Rng::new(seed);
	let req = log_uniform(&mut r, 64, 40_000);
	let resp = match r.below(5) {
		0 => req,
		1 => (req as i64 + r.range(1, 3) as i64 * if r.bool() { 1 } else { -1 }).max(64) as u32,
		_ => log_uniform(&mut r, 64, 70_000),
	};
	let l = req as usize;
	let rl = resp as usize;
	let mut sizes: Vec<(usize, &'static str)> = vec![(l - 1, "random"), (l, "random"), (l + 1, "random")];
	sizes.push((l + 2 + r.usize(7 * l), "random"));
	if l > 66 {
		sizes.push((63 + r.usize(l - 64), "random"));
	}
	for s in [rl, rl + 1, (l + rl) / 2] {
		if s >= 63 && !sizes.iter().any(|(x, _)| *x == s) {
			sizes.push((s, "random"));
		}
	}
	Job { req, resp, sizes, seed: r.next_u64() }
}

fn key_of(p: &ProbeSpec) -> (Entry, u32, u32, usize, Shape, Option<(&'static str, usize)>) {
	(p.entry, p.req, p.resp, p.size, p.shape, p.http.as_ref().map(|h| (h.cl.name(), h.cuts.len() + 1)))
}

fn record(ev: &mut Evidence, violations: &mut Vec<Violation>, p: &ProbeSpec, m: &Msg, o: &Obs, vs: Vec<Violation>) {
	ev.eval();
	let e = p.entry.name();
	ev.count(&format!("probes_{e}"), 1);
	ev.count(&format!("origin_{}", p.origin), 1);
	ev.count("handler_invocations", o.invocations.len() as u64);
	if p.entry.is_ws() {
		ev.count("ws_frames_observed", o.replies.len() as u64 + o.sentinel_ok as u64);
		ev.count("ws_sentinels_answered", o.sentinel_ok as u64);
	} else if let Some(s) = o.http_status {
		ev.count(&format!("http_status_{s}"), 1);
	}
	let in_limit = p.size <= p.req as usize;
	let rejected = if p.entry.is_ws() {
		o.replies.iter().any(|r| matches!(classify::parse_reply(r), Ok(r) if r.error_code == Some(TOO_BIG)))
	} else {
		o.http_status.map(|s| s >= 400).unwrap_or(false)
	};
	ev.count(if rejected { "rejections_observed" } else { "non_rejections_observed" }, 1);
	ev.count(if in_limit { "in_limit_probes" } else { "oversized_probes" }, 1);
	if in_limit && o.replies.len() == 1 {
		if let Ok(r) = classify::parse_reply(&o.replies[0]) {
			if r.error_code == Some(RESP_TOO_BIG) {
				ev.count("in_limit_answered_response_too_big", 1);
			} else if r.result_raw.is_some() {
				ev.count("in_limit_answered_with_result", 1);
			}
		}
	}
	// non-trivial: the size gate's decision was observed (handler invocation, or a rejection frame / error status)
	if !o.invocations.is_empty() || rejected {
		ev.nontrivial(&key_of(p));
	}
	ev.class("decision_by_entry_and_side", &(p.entry, in_limit, rejected, !o.invocations.is_empty()));
	ev.class("configs", &(p.req, p.resp));
	ev.sample_class(
		&format!("{e}:{}:{}", if in_limit { "in-limit" } else { "oversized" }, p.http.as_ref().map(|h| h.cl.name()).unwrap_or("ws")),
		json!({"probe": p, "message_head": m.text.chars().take(80).collect::<String>(), "http_status": o.http_status, "replies": o.replies.iter().map(|r| clip(r)).collect::<Vec<_>>(), "invocations": o.invocations.len(), "sentinel_answered": o.sentinel_ok}),
	);
	violations.extend(vs);
}

/// Mode D: one configuration, all its cells, all in-memory entry points.
fn run_job(job: Job) -> (Evidence, Vec<Violation>) {
	let mut ev = Evidence::new("");
	let mut violations = Vec::new();
	block_on_virtual(async {
		let mut env = Env::new(job.req, job.resp);
		let mut r = Rng::new(job.seed);
		for (size, origin) in &job.sizes {
			for shape in [Shape::EchoStr, Shape::U64Ws, Shape::LeadWs] {
				for p in cell_probes(&mut r, job.req, job.resp, *size, shape, origin) {
					let Some(m) = build_msg(p.shape, p.size, p.msg_seed) else {
						ev.count("skipped_size_below_shortest_message", 1);
						continue;
					};
					let o = env.run(&p, &m).await;
					let vs = judge(&p, &m, &o);
					record(&mut ev, &mut violations, &p, &m, &o, vs);
				}
			}
		}
	});
	(ev, violations)
}

// ---------------------------------------------------------------------------------------------------------------
// Real `Server` over TCP (thorough tier): real time, so "missing" observations are retried with longer waits and
// a transport-level loss (reset while the server refuses an unread body) is counted, never judged.

struct TcpEnv {
	addr: std::net::SocketAddr,
	log: Log,
	_handle: ServerHandle,
	ws: Option<RawWs>,
	n: u64,
}

async fn tcp_ws_connect(addr: std::net::SocketAddr) -> Result<RawWs, String> {
	let tcp = tokio::net::TcpStream::connect(addr).await.map_err(|e| e.to_string())?;
	let _ = tcp.set_nodelay(true);
	let (a, b) = tokio::io::duplex(DUPLEX);
	tokio::spawn(async move {
		let mut tcp = tcp;
		let mut b = b;
		let _ = tokio::io::copy_bidirectional(&mut tcp, &mut b).await;
	});
	RawWs::handshake(a, "127.0.0.1", "/").await.map_err(|e| format!("{e:?}"))
}

async fn ws_probe_real(ws: &mut RawWs, log: &Log, text: &str, n: u64, settle: Duration) -> Obs {
	let mut o = Obs::default();
	let sent = ws.send_text(text).await;
	let (sentinel, sid) = sentinel_text(n);
	let sent2 = ws.send_text(&sentinel).await;
	let is_sentinel = |f: &jrv::memsrv::Frame| f.data.len() < 200 && f.json().map(|v| v["id"] == Value::String(sid.clone())).unwrap_or(false);
	// wait (generously) for the sentinel's answer, then a settle period for replies that were overtaken
	loop {
		match ws.recv(Duration::from_secs(20)).await {
			Recv::Frame(f) => {
				if is_sentinel(&f) && !o.sentinel_ok {
					o.sentinel_ok = true;
					break;
				}
				o.replies.push(f.data);
			}
			Recv::Idle | Recv::Closed(_) => break,
		}
	}
	loop {
		match ws.recv(settle).await {
			Recv::Frame(f) => {
				if is_sentinel(&f) && !o.sentinel_ok {
					o.sentinel_ok = true;
				} else {
					o.replies.push(f.data);
				}
			}
			Recv::Idle | Recv::Closed(_) => break,
		}
	}
	o.invocations = log.take();
	o.conn_dead = ws.is_ended() || sent.is_err() || sent2.is_err();
	if let Some((_, why)) = &ws.ended {
		o.note = Some(format!("connection ended: {why}"));
	}
	o
}

impl TcpEnv {
	async fn new(req: u32, resp: u32) -> Result<TcpEnv, String> {
		let log = Log::default();
		let server = jsonrpsee_server::Server::builder().set_config(server_cfg(req, resp)).build("127.0.0.1:0").await.map_err(|e| e.to_string())?;
		let addr = server.local_addr().map_err(|e| e.to_string())?;
		let handle = server.start(handlers::echo_module(log.clone()));
		Ok(TcpEnv { addr, log, _handle: handle, ws: None, n: 0 })
	}

	async fn run(&mut self, p: &ProbeSpec, m: &Msg, patient: bool) -> Obs {
		self.n += 1;
		let stale = self.log.take();
		let mut o = match p.entry {
			Entry::TcpWs => {
				if patient || self.ws.as_ref().map(|w| w.is_ended()).unwrap_or(true) {
					match tcp_ws_connect(self.addr).await {
						Ok(w) => self.ws = Some(w),
						Err(e) => return Obs { note: Some(format!("harness: tcp ws connect failed: {e}")), conn_dead: true, ..Default::default() },
					}
				}
				let settle = if patient { Duration::from_secs(3) } else { Duration::from_millis(150) };
				ws_probe_real(self.ws.as_mut().unwrap(), &self.log, &m.text, self.n, settle).await
			}
			_ => {
				let var = p.http.as_ref().expect("http variant");
				let bytes = wire_request(m, var, "127.0.0.1");
				match tokio::net::TcpStream::connect(self.addr).await {
					Ok(tcp) => {
						let _ = tcp.set_nodelay(true);
						let rep = wire_exchange(tcp, bytes, Duration::from_secs(20)).await;
						if rep.status.is_none() {
							// nothing observed: give a (wrongly) dispatched handler time to show up in the log
							tokio::time::sleep(Duration::from_millis(if patient { 2000 } else { 300 })).await;
						}
						http_obs(rep.status, rep.body, rep.note, self.log.take())
					}
					Err(e) => Obs { note: Some(format!("harness: tcp connect failed: {e}")), ..Default::default() },
				}
			}
		};
		if !stale.is_empty() {
			o.note = Some(format!("{} | {} stale invocation(s) logged before this probe started", o.note.clone().unwrap_or_default(), stale.len()));
		}
		o
	}
}

fn tcp_cell_probes(r: &mut Rng, req: u32, resp: u32, size: usize, shape: Shape) -> Vec<ProbeSpec> {
	let mut out = Vec::new();
	let mk = |r: &mut Rng, entry: Entry, http: Option<HttpVar>| ProbeSpec { entry, req, resp, size, shape, msg_seed: r.next_u64(), http, origin: "tcp".to_string() };
	out.push(mk(r, Entry::TcpWs, None));
	out.push(mk(r, Entry::TcpHttp, Some(HttpVar { cl: Cl::True, cuts: vec![] })));
	for chunks in 1..=3usize {
		let cuts = cuts_for(r, size, chunks);
		out.push(mk(r, Entry::TcpHttp, Some(HttpVar { cl: Cl::Absent, cuts })));
	}
	out
}

#[derive(Default)]
struct TcpOut {
	violations: Vec<Violation>,
	inconclusive: Vec<String>,
}

async fn tcp_probe_with_retry(env: &mut TcpEnv, p: &ProbeSpec, m: &Msg, ev: &mut Evidence, out: &mut TcpOut) {
	let mut o = env.run(p, m, false).await;
	let mut vs = judge(p, m, &o);
	let oversized = p.size > p.req as usize;
	// an oversized HTTP body may be refused while still in flight; the kernel may then reset the connection and
	// discard the response. No status observed = nothing to judge about the status (the log is still judged).
	let lost_status = |o: &Obs| p.entry == Entry::TcpHttp && oversized && o.http_status.is_none() && o.invocations.is_empty();
	if only_missing(&vs) && !lost_status(&o) {
		ev.count("tcp_retries_after_missing_observation", 1);
		// judge the retry (fresh connection, 20 s + 3 s waits): either it observed something definite, or the
		// observation is missing twice and is reported
		o = env.run(p, m, true).await;
		vs = judge(p, m, &o);
		if vs.is_empty() {
			ev.count("tcp_missing_observation_not_reproduced", 1);
		}
	}
	if lost_status(&o) {
		ev.count("tcp_http_status_lost_to_reset", 1);
		vs.clear();
	}
	if o.note.as_deref().map(|n| n.contains("harness:")).unwrap_or(false) {
		out.inconclusive.push(format!("{}: {}", p.entry.name(), o.note.clone().unwrap_or_default()));
		vs.clear();
	}
	record(ev, &mut out.violations, p, m, &o, vs);
}

async fn tcp_config(req: u32, resp: u32, seed: u64, rounds: u64) -> (Evidence, TcpOut) {
	let mut ev = Evidence::new("");
	let mut out = TcpOut::default();
	let mut env = match TcpEnv::new(req, resp).await {
		Ok(e) => e,
		Err(e) => {
			out.inconclusive.push(format!("harness: cannot start Server on 127.0.0.1:0: {e}"));
			return (ev, out);
		}
	};
	let mut r = Rng::new(seed);
	let l = req as usize;
	for _ in 0..rounds {
		for size in [l - 1, l, l + 1, 2 * l, 8 * l] {
			for shape in [Shape::EchoStr, Shape::U64Ws, Shape::LeadWs] {
				for p in tcp_cell_probes(&mut r, req, resp, size, shape) {
					let Some(m) = build_msg(p.shape, p.size, p.msg_seed) else { continue };
					tcp_probe_with_retry(&mut env, &p, &m, &mut ev, &mut out).await;
				}
			}
		}
	}
	(ev, out)
}

fn tcp_part(seed: u64, rounds: u64) -> (Evidence, TcpOut) {
	block_on_stress_io(8, async move {
		let mut handles = Vec::new();
		let mut i = 0u64;
		for req in LIMITS {
			for resp in LIMITS {
				i += 1;
				let s = Rng::fork(seed ^ 0x7c9, i).next_u64();
				handles.push(tokio::spawn(tcp_config(req, resp, s, rounds)));
			}
		}
		let mut ev = Evidence::new("");
		let mut out = TcpOut::default();
		for h in handles {
			match h.await {
				Ok((e, o)) => {
					ev.merge(e);
					out.violations.extend(o.violations);
					out.inconclusive.extend(o.inconclusive);
				}
				Err(e) => out.inconclusive.push(format!("harness: tcp task failed: {e}")),
			}
		}
		(ev, out)
	})
}

// ---------------------------------------------------------------------------------------------------------------

fn replay(ctx: &Ctx, path: &std::path::Path, mut ev: Evidence) -> ! {
	let w: Value = serde_json::from_str(&std::fs::read_to_string(path).expect("replay file")).expect("json");
	if w["witness"]["family"] == json!("fragments") || w["witness"]["family"] == json!("builder-order") {
		let seed = w["witness"]["seed"].as_u64().unwrap_or(0);
		let violations = if w["witness"]["family"] == json!("fragments") { block_on_virtual(fragment_case(seed)).violations } else { block_on_virtual(builder_order_case(seed)).1 };
		ev.eval();
		ev.nontrivial(&("family-replay", seed));
		ev.nontrivial(&("family-replay-2", seed));
		for v in &violations {
			println!("replay violation: {} - {}", v.signature, v.detail);
		}
		finish(ctx, ev, violations, None);
	}
	if w["witness"]["family"] == json!("backpressure") {
		let seed = w["witness"]["seed"].as_u64().unwrap_or(0);
		let mut violations = Vec::new();
		for sd in [seed, seed ^ 1] {
			let o = block_on_virtual(backpressure_case(sd));
			ev.eval();
			ev.nontrivial(&("backpressure-replay", sd));
			if sd == seed {
				for v in &o.violations {
					println!("replay violation: {} - {}", v.signature, v.detail);
				}
				violations.extend(o.violations);
			}
		}
		finish(ctx, ev, violations, None);
	}
	let p: ProbeSpec = serde_json::from_value(w["witness"]["probe"].clone()).expect("witness.probe");
	println!("replaying {}", serde_json::to_string(&p).unwrap_or_default());
	let m = build_msg(p.shape, p.size, p.msg_seed).expect("message");
	let mut violations = Vec::new();
	if p.entry.is_tcp() {
		let (e, out) = block_on_stress_io(4, async {
			let mut ev = Evidence::new("");
			let mut out = TcpOut::default();
			match TcpEnv::new(p.req, p.resp).await {
				Ok(mut env) => {
					tcp_probe_with_retry(&mut env, &p, &m, &mut ev, &mut out).await;
					// a second, different probe (other side of the limit) so that the evidence floor of two
					// distinct cases does not mask a clean replay
					let mut p2 = p.clone();
					p2.size = if p.size > p.req as usize { p.req as usize } else { p.req as usize + 1 };
					if let Some(m2) = build_msg(p2.shape, p2.size, p2.msg_seed) {
						tcp_probe_with_retry(&mut env, &p2, &m2, &mut ev, &mut out).await;
					}
				}
				Err(e) => out.inconclusive.push(e),
			}
			(ev, out)
		});
		ev.merge(e);
		violations.extend(out.violations);
	} else {
		let (o, vs) = block_on_virtual(async {
			let mut env = Env::new(p.req, p.resp);
			let o = env.run(&p, &m).await;
			let vs = judge(&p, &m, &o);
			(o, vs)
		});
		println!(
			"observed: status={:?} replies={:?} invocations={} sentinel_answered={} connection_ended={} note={:?}",
			o.http_status,
			o.replies.iter().map(|r| clip(r)).collect::<Vec<_>>(),
			inv_json(&o.invocations),
			o.sentinel_ok,
			o.conn_dead,
			o.note
		);
		record(&mut ev, &mut violations, &p, &m, &o, vs);
		// a second, different probe so that the evidence floor (2 distinct cases) does not mask a clean replay
		let mut p2 = p.clone();
		p2.size = if p.size > p.req as usize { p.req as usize } else { p.req as usize + 1 };
		if let Some(m2) = build_msg(p2.shape, p2.size, p2.msg_seed) {
			let (o2, vs2) = block_on_virtual(async {
				let mut env = Env::new(p2.req, p2.resp);
				let o = env.run(&p2, &m2).await;
				let vs = judge(&p2, &m2, &o);
				(o, vs)
			});
			record(&mut ev, &mut violations, &p2, &m2, &o2, vs2);
		}
	}
	if violations.is_empty() {
		println!("replay: the oracle accepts what was observed");
	}
	for v in &violations {
		println!("replay violation: {} — {}", v.signature, v.detail);
	}
	finish(ctx, ev, violations, None);
}

fn main() {
	let ctx = Ctx::from_env("C07", "exploration");
	install_panic_capture(true);
	let _wd = watchdog("C07", Duration::from_secs(ctx.tier.pick(600, 3600)));
	let mut ev = Evidence::new(
		"probe = one valid call padded to an exact byte size (echo_sync with a padded string param; need_u64 padded with \
		 spaces inside params) sent through one entry point under one (max_request_body_size, max_response_body_size) \
		 pair. Grid part (enumerated completely; `exhaustive` refers to this grid only, not to 'all sizes'): req x resp in \
		 {64,100,1000,4096,65536}^2 (25 pairs, 20 unequal) x sizes {req-1, req, req+1, 2*req, 8*req} x 3 message shapes x \
		 entry points {TowerService WebSocket; TowerService direct call, http::call_with_service_builder and \
		 http::call_with_service each with Content-Length true/absent/understated x 1..3 body chunks; TowerService and \
		 the low-level hyper service over an in-memory HTTP/1.1 connection with Content-Length and with 1..3 transfer \
		 chunks; low-level ws::connect}. Added outside the grid: sizes resp-1/resp/resp+1, seeded random (req, resp, size) \
		 configurations, seeded chunk boundaries / understated lengths / padding / ids / member order, and in the thorough \
		 tier the default Server over TCP. Non-trivial = the size gate's decision was observed (a handler invocation, or a \
		 -32007 frame / HTTP error status); distinct by (entry, req, resp, size, shape, content-length mode, chunk count).",
	);
	ev.assume("'processed normally' for an in-limit call whose success reply would exceed max_response_body_size = handler invoked once and answered -32008 with the call's id (that replacement is C08's subject); otherwise the echo result is required");
	ev.assume("independence from max_response_body_size is checked through the absolute oracle evaluated under every response limit of the grid, not by a separate differential");
	ev.assume("mode D: 'no further frame / no response' = idle for 10 virtual seconds on a paused clock");
	ev.assume("back-pressure family (300 / 20000 cases): message buffer 1..2, transport buffer 2*limit+300..555 bytes, peer not reading, enough calls in flight to fill both, then one oversized frame, then 0..2 calls; after the peer reads again: exactly one -32007, no handler saw the oversized message, all other calls answered");
	ev.assume("HTTP/2 family (400 / 20000 connections x 5 sizes around the limit): the request is a stream of an h2 connection, with / without content-length, body in 1..4 DATA frames; above the limit: no handler, no 200; within: the handler runs once, 200");
	ev.assume("grid, random and TCP parts: single-frame WebSocket text messages (the statement's quantifier). Fragment family (600 / 30000 cases): a peer that writes its own frames spreads a message of limit-1..2*limit-2 bytes over 2..3 frames of at most `limit` bytes each, with a ping or pong between fragments, or - a protocol error - finishes with an unfragmented frame; judged: a message above the limit never reaches a handler and no handler runs for anything but the message sent; how in-limit fragmented messages fare is counted, not judged (a pong between fragments ends the connection: soketto keeps its fragment state per receive call)");
	ev.assume("builder-order family (150 / 6000 configurations x 4 sizes x 2 shapes): ServerConfigBuilder setters called in a seeded order, http_only() / ws_only() before or after the limits; same oracle as the grid");
	ev.assume("understated Content-Length exists only on direct service calls; through an HTTP/1.1 connection the header is true or absent (chunked)");

	if let Some(path) = ctx.replay.clone() {
		replay(&ctx, &path, ev);
	}

	let mut violations = Vec::new();
	let mut jobs: Vec<Job> = Vec::new();
	let mut idx = 0u64;
	for req in LIMITS.iter().rev() {
		for resp in LIMITS {
			idx += 1;
			jobs.push(Job { req: *req, resp, sizes: grid_sizes(*req, resp), seed: Rng::fork(ctx.seed, idx).next_u64() });
		}
	}
	let grid_cells: usize = jobs.iter().map(|j| j.sizes.iter().filter(|(_, o)| *o == "grid").count()).sum();
	let n_random = ctx.tier.pick(600u64, 12_000u64);
	let mut rj: Vec<Job> = (0..n_random).map(|i| random_job(Rng::fork(ctx.seed ^ 0xC07, 1000 + i).next_u64())).collect();
	rj.sort_by_key(|j| std::cmp::Reverse(j.req));
	// heavy configurations first so the shards finish together
	let split = jobs.iter().position(|j| j.req < 65536).unwrap_or(jobs.len());
	let light = jobs.split_off(split);
	jobs.extend(rj);
	jobs.extend(light);

	let results = run_parallel(jobs, |_, job| run_job(job));
	for (e, v) in results {
		ev.merge(e);
		violations.extend(v);
	}
	ev.set("exhaustive", json!(true));
	ev.set(
		"exhaustive_scope",
		json!(format!(
			"the grid only: 25 (req, resp) pairs x 5 sizes ({grid_cells} cells) x 3 shapes x 37 entry-point/body variants, every cell executed; sizes around resp, random configurations and the TCP part are sampling"
		)),
	);

	{
		let n = ctx.tier.pick(300u64, 20_000);
		let seed = ctx.seed;
		let res = run_parallel((0..n).collect(), |_, i| block_on_virtual(backpressure_case(Rng::fork(seed ^ 0xb9, i).next_u64())));
		for (i, o) in res.into_iter().enumerate() {
			ev.eval();
			ev.count("backpressure_cases", 1);
			ev.count("backpressure_calls_answered", o.calls_answered as u64);
			if o.nontrivial {
				ev.nontrivial(&("backpressure", i));
			}
			violations.extend(o.violations);
		}
	}
	{
		let n = ctx.tier.pick(400u64, 20_000);
		let seed = ctx.seed;
		let res = run_parallel((0..n).collect(), |_, i| block_on_virtual(http2_case(Rng::fork(seed ^ 0x42, i).next_u64())));
		for (i, o) in res.into_iter().enumerate() {
			ev.eval();
			ev.count("http2_cases", 1);
			ev.count("http2_requests", o.calls_answered as u64);
			if o.nontrivial {
				ev.nontrivial(&("http2", i));
			}
			violations.extend(o.violations);
		}
	}
	{
		let n = ctx.tier.pick(600u64, 30_000);
		let seed = ctx.seed;
		let res = run_parallel((0..n).collect(), |_, i| {
			let s = Rng::fork(seed ^ 0xf4a6, i).next_u64();
			(s, block_on_virtual(fragment_case(s)))
		});
		for (s, o) in res {
			ev.eval();
			ev.count("fragment_cases", 1);
			ev.count("fragment_frames_sent", o.frames_sent as u64);
			ev.count(&format!("fragment_{}_{}_{}", if o.oversized { "oversized" } else { "in-limit" }, o.variant, o.outcome), 1);
			if o.oversized && o.outcome != "setup-failed" {
				ev.nontrivial(&("fragments", s));
			}
			violations.extend(o.violations);
		}
	}
	{
		let n = ctx.tier.pick(150u64, 6_000);
		let seed = ctx.seed;
		let res = run_parallel((0..n).collect(), |_, i| block_on_virtual(builder_order_case(Rng::fork(seed ^ 0xb01d, i).next_u64())));
		for (e, v) in res {
			ev.count("builder_order_cases", 1);
			ev.merge(e);
			violations.extend(v);
		}
	}
	{
		// frames far beyond any size the grid reaches (17 MiB and 33 MiB in ONE WebSocket frame): within a limit of 32 MiB the
		// call is processed, above a limit of 1 MiB / 32 MiB it is turned down with -32007 and the connection keeps serving
		let cases: Vec<(u32, usize, Entry)> = vec![
			(32 << 20, 17 << 20, Entry::TowerWs),
			(1 << 20, 17 << 20, Entry::TowerWs),
			(32 << 20, 17 << 20, Entry::WsConnect),
			(1 << 20, (17 << 20) + 1, Entry::WsConnect),
			(32 << 20, (33 << 20) + 5, Entry::TowerWs),
			// the default limit itself (10 MiB): one byte more is turned down, exactly the limit is processed
			(10 << 20, (10 << 20) + 1, Entry::TowerWs),
			(10 << 20, 10 << 20, Entry::TowerWs),
			(10 << 20, (10 << 20) + 1, Entry::WsConnect),
		];
		let seed = ctx.seed;
		let res = run_parallel(cases, |i, (req, size, entry)| {
			block_on_virtual(async move {
				let mut ev = Evidence::new("");
				let mut violations = Vec::new();
				let mut env = Env::with_cfg(server_cfg(req, 1 << 20), Log::default());
				let p = ProbeSpec { entry, req, resp: 1 << 20, size, shape: Shape::U64Ws, msg_seed: Rng::fork(seed ^ 0x16, i as u64).next_u64(), http: None, origin: "huge-frame".into() };
				if let Some(m) = build_msg(p.shape, p.size, p.msg_seed) {
					let o = env.run(&p, &m).await;
					let vs = judge(&p, &m, &o);
					record(&mut ev, &mut violations, &p, &m, &o, vs);
					ev.count("huge_frame_probes", 1);
				}
				(ev, violations)
			})
		});
		for (e, v) in res {
			ev.merge(e);
			violations.extend(v);
		}
	}
	let mut inconclusive = None;
	if ctx.tier == Tier::Thorough {
		let t0 = std::time::Instant::now();
		let (e, out) = tcp_part(ctx.seed, TCP_ROUNDS);
		ev.merge(e);
		violations.extend(out.violations);
		ev.set("tcp_server_part", json!({"rounds": TCP_ROUNDS, "configs": 25, "harness_trouble": out.inconclusive.len(), "wall_s": t0.elapsed().as_secs()}));
		if !out.inconclusive.is_empty() {
			inconclusive = Some(format!("TCP part: {} probe(s) without observation, first: {}", out.inconclusive.len(), out.inconclusive[0]));
		}
	} else {
		ev.set("tcp_server_part", json!("thorough tier only"));
	}

	for p in take_panics() {
		if p.in_library {
			violations.push(Violation::new(
				format!("library-panic/{}", p.location.rsplit('/').next().unwrap_or("").split(':').next().unwrap_or("")),
				p.message.clone(),
				json!({"location": p.location, "backtrace": p.backtrace_head, "thread": p.thread}),
			));
		}
	}
	// keep the smallest witness per signature
	violations.sort_by_key(|v| v.witness["message_len"].as_u64().unwrap_or(u64::MAX));
	// AddressSanitizer: the quick workload of this check once more on an ASan build (real hyper / soketto / tokio IO)
	if ctx.tier == Tier::Thorough && ctx.replay.is_none() {
		if let Some(why) = jrv::sanit::merge_asan(jrv::sanit::run_asan("c07", "C07", ctx.seed, Duration::from_secs(2400)), &mut ev, &mut violations) {
			inconclusive = inconclusive.or(Some(why));
		}
	}
	finish(&ctx, ev, violations, inconclusive);
}
