//! C12 — client batch results are positional: entry i is the outcome of request i (WebSocket and HTTP client).
//!
//! Monitor: for batches of n entries the scripted server replies with every permutation of the complete answers and
//! with every defective variant (proper subsets, duplicated ids, foreign ids below/above the range, ids of the other
//! kind). Each answer names the tag the harness saw under that id on the wire. The real `BatchResponse` is then
//! checked: complete reply ⇒ Ok with n entries, entry i carrying tag i with the outcome sent for its id, counts
//! matching; defective reply ⇒ the call fails, or returns n entries none of which carries a foreign tag and whose
//! unanswered entries are errors.

use jrv::clientsim::*;
use jrv::httpscript::ScriptLayer;
use jrv::report::*;
use jrv::rng::{Rng, permutations};
use jrv::runner::*;
use jrv::sanit::{self, SubOutcome};
use jsonrpsee_core::client::{BatchResponse, ClientT, IdKind};
use jsonrpsee_core::params::BatchRequestBuilder;
use jsonrpsee_core::rpc_params;
use jsonrpsee_http_client::HttpClientBuilder;
use serde_json::{Value, json};
use std::sync::{Arc, Mutex};
use std::time::Duration;

#[derive(Debug, Clone, PartialEq, Eq, Hash)]
enum Defect {
	Complete,
	/// answers only for the positions in the mask (proper, possibly empty subset)
	Subset(Vec<bool>),
	/// position `dup` answered twice, position `missing` not at all
	DupReplacing { dup: usize, missing: usize },
	/// position `dup` answered twice, everything else once
	DupExtra { dup: usize },
	ForeignBelow,
	ForeignAbove,
	/// ids returned in the other id kind (string vs number)
	OtherIdKind,
	/// exactly one id (of this position) returned in the other id kind, all others exact
	OtherIdKindOne(usize),
	/// every entry answered exactly once, but the result of this position is the number 17, which the caller's result
	/// type cannot hold (the call may fail as a whole; if it succeeds it still has n entries in request order)
	Undecodable(usize),
	/// position `dup` answered twice: once with a value, once with an error object (in this order if `value_first`)
	DupExtraMixed { dup: usize, value_first: bool },
	/// every entry answered exactly once under its own id, plus one more element at array position `at`: an
	/// "Invalid request" error whose id cannot be attributed (null, or a string that is no number)
	UnreadableIdExtra { at: usize, text_id: bool },
	/// the answer of `victim` is missing; in its place in the array stands an error with an unattributable id
	UnreadableIdReplacing { victim: usize, text_id: bool },
}

impl Defect {
	fn class(&self) -> &'static str {
		match self {
			Defect::Complete => "complete",
			Defect::Subset(m) if m.iter().all(|b| !*b) => "empty-reply",
			Defect::Subset(_) => "subset",
			Defect::DupReplacing { .. } => "duplicate-replacing",
			Defect::DupExtra { .. } => "duplicate-extra",
			Defect::ForeignBelow => "foreign-id-below",
			Defect::ForeignAbove => "foreign-id-above",
			Defect::OtherIdKind => "other-id-kind",
			Defect::OtherIdKindOne(_) => "one-id-of-other-kind",
			Defect::Undecodable(_) => "undecodable-result",
			Defect::DupExtraMixed { .. } => "duplicate-extra-value-and-error",
			Defect::UnreadableIdExtra { .. } => "unattributable-id-extra",
			Defect::UnreadableIdReplacing { .. } => "unattributable-id-replacing",
		}
	}
}

#[derive(Debug, Clone)]
struct Case {
	n: usize,
	perm: Vec<usize>,
	defect: Defect,
	/// entry i answered with an error object?
	errs: Vec<bool>,
	string_ids: bool,
	/// WS only: other operations in flight (number of batches, number of single calls) before the batch under test
	others: (usize, usize),
	seed: u64,
	/// calls made (and answered) on the client before the batch, so that the batch's ids do not start at 0 and may
	/// straddle a decimal digit boundary ("9" / "10")
	warm: usize,
}

type Entry = Result<Value, (i32, Option<String>)>;

#[derive(Debug)]
struct Outcome {
	result: Result<(Vec<Entry>, usize, usize), ErrKind>,
	/// (position, answered, as_error) for the positions that got at least one answer in the reply
	answered: Vec<bool>,
	sent_err: Vec<bool>,
	tags: Vec<String>,
	reply_text: String,
	wire_ids: Vec<Value>,
}

/// Build the reply text for the batch whose wire entries are `(id, tag)` in request order.
/// `busy`: ids of other operations that are in flight on the same client (an answer under one of those is an answer to that
/// operation, not a foreign one).
fn craft_reply(c: &Case, entries: &[(Value, String)], busy: &[u64], r: &mut Rng) -> (String, Vec<bool>) {
	let n = entries.len();
	let mut nonce = 0u64;
	let mut answer = |pos: usize, id: Value| -> String {
		nonce += 1;
		let p = json!({"tag": entries[pos].1, "n": nonce});
		if c.errs[pos] { err_response(&id, 1000, "scripted", Some(p)) } else { ok_response(&id, p) }
	};
	let mut answered = vec![false; n];
	let mut parts: Vec<String> = Vec::new();
	let num = |v: &Value| -> u64 { v.as_u64().or_else(|| v.as_str().and_then(|s| s.parse().ok())).unwrap_or(0) };
	let mk_id = |x: u64| if c.string_ids { json!(x.to_string()) } else { json!(x) };
	match &c.defect {
		Defect::Complete => {
			for &p in &c.perm {
				parts.push(answer(p, entries[p].0.clone()));
				answered[p] = true;
			}
		}
		Defect::Subset(mask) => {
			for &p in &c.perm {
				if mask[p] {
					parts.push(answer(p, entries[p].0.clone()));
					answered[p] = true;
				}
			}
		}
		Defect::DupReplacing { dup, missing } => {
			for &p in &c.perm {
				let q = if p == *missing { *dup } else { p };
				parts.push(answer(q, entries[q].0.clone()));
				answered[q] = true;
			}
		}
		Defect::DupExtra { dup } => {
			for &p in &c.perm {
				parts.push(answer(p, entries[p].0.clone()));
				answered[p] = true;
			}
			let at = r.usize(parts.len() + 1);
			parts.insert(at, answer(*dup, entries[*dup].0.clone()));
		}
		Defect::ForeignBelow | Defect::ForeignAbove => {
			let start = entries.iter().map(|e| num(&e.0)).min().unwrap_or(0);
			// the id next to the batch's own range - or, when another operation in flight owns that one, the first free id
			// beyond everything in flight
			let foreign = if c.defect == Defect::ForeignBelow {
				let mut f = start.checked_sub(1);
				while f.is_some_and(|x| busy.contains(&x)) {
					f = f.and_then(|x| x.checked_sub(1));
				}
				f
			} else {
				let mut f = start + n as u64;
				while busy.contains(&f) {
					f += 1;
				}
				Some(f)
			};
			let victim = c.perm[0];
			for &p in &c.perm {
				if p == victim {
					if let Some(f) = foreign {
						// the answer produced for `victim` travels under a foreign id
						parts.push(answer(p, mk_id(f)));
						continue;
					}
				}
				parts.push(answer(p, entries[p].0.clone()));
				answered[p] = true;
			}
		}
		Defect::OtherIdKindOne(pos) => {
			for &p in &c.perm {
				if p == *pos {
					let x = num(&entries[p].0);
					let id = if c.string_ids { json!(x) } else { json!(x.to_string()) };
					parts.push(answer(p, id));
				} else {
					parts.push(answer(p, entries[p].0.clone()));
				}
				answered[p] = true;
			}
		}
		Defect::Undecodable(pos) => {
			for &p in &c.perm {
				if p == *pos && !c.errs[p] {
					parts.push(ok_response(&entries[p].0, json!(17)));
				} else {
					parts.push(answer(p, entries[p].0.clone()));
				}
				answered[p] = true;
			}
		}
		Defect::DupExtraMixed { dup, value_first } => {
			for &p in &c.perm {
				if p == *dup {
					let val = ok_response(&entries[p].0, json!({"tag": entries[p].1, "n": 900}));
					let err = err_response(&entries[p].0, 1000, "scripted", Some(json!({"tag": entries[p].1, "n": 901})));
					let (a, b) = if *value_first { (val, err) } else { (err, val) };
					parts.push(a);
					// the second answer somewhere behind the first
					parts.push(b);
				} else {
					parts.push(answer(p, entries[p].0.clone()));
				}
				answered[p] = true;
			}
			if parts.len() > 2 && r.bool() {
				// move the last answer of another entry between the two
				let last = parts.pop().unwrap();
				let at = r.usize(parts.len());
				parts.insert(at, last);
			}
		}
		Defect::UnreadableIdExtra { at, text_id } => {
			for &p in &c.perm {
				parts.push(answer(p, entries[p].0.clone()));
				answered[p] = true;
			}
			let id = if *text_id { json!("not-a-number") } else { Value::Null };
			parts.insert((*at).min(parts.len()), err_response(&id, -32600, "Invalid request", None));
		}
		Defect::UnreadableIdReplacing { victim, text_id } => {
			for &p in &c.perm {
				if p == *victim {
					let id = if *text_id { json!("not-a-number") } else { Value::Null };
					parts.push(err_response(&id, -32600, "Invalid request", None));
				} else {
					parts.push(answer(p, entries[p].0.clone()));
					answered[p] = true;
				}
			}
		}
		Defect::OtherIdKind => {
			for &p in &c.perm {
				let x = num(&entries[p].0);
				let id = if c.string_ids { json!(x) } else { json!(x.to_string()) };
				parts.push(answer(p, id));
				// whether a string "7" answers the numeric id 7 is not defined by the statement: counted as answered
				answered[p] = true;
			}
		}
	}
	(array_of(&parts), answered)
}

fn to_entries<'a>(rp: BatchResponse<'a, Value>) -> (Vec<Entry>, usize, usize) {
	let (ok, failed) = (rp.num_successful_calls(), rp.num_failed_calls());
	(rp.into_iter().map(|e| e.map_err(|o| (o.code(), o.data().map(|d| d.get().to_string())))).collect(), ok, failed)
}

/// The result type of the batch under test: any JSON object (what the scripted server answers with); anything else - the
/// number 17, say - cannot be decoded into it.
#[derive(Debug, Clone)]
struct Strict(Value);
impl<'de> serde::Deserialize<'de> for Strict {
	fn deserialize<D: serde::Deserializer<'de>>(d: D) -> Result<Self, D::Error> {
		let v = Value::deserialize(d)?;
		if v.is_object() { Ok(Strict(v)) } else { Err(serde::de::Error::custom("the result type of this call is an object")) }
	}
}

fn strict_entries<'a>(rp: BatchResponse<'a, Strict>) -> (Vec<Entry>, usize, usize) {
	let (ok, failed) = (rp.num_successful_calls(), rp.num_failed_calls());
	(rp.into_iter().map(|e| e.map(|s| s.0).map_err(|o| (o.code(), o.data().map(|d| d.get().to_string())))).collect(), ok, failed)
}

/// The oracle.
fn judge(c: &Case, o: &Outcome, client: &str) -> Vec<(String, String)> {
	let mut v = Vec::new();
	let class = c.defect.class();
	let mut bad = |kind: &str, detail: String| v.push((format!("{kind}/{class}/{client}"), detail));
	let complete = c.defect == Defect::Complete;
	match &o.result {
		Err(e) => {
			if complete {
				bad("complete-reply-rejected", format!("{e:?}"));
			}
		}
		Ok((entries, ok, failed)) => {
			if entries.len() != c.n {
				bad("wrong-length", format!("{} entries returned for a batch of {}", entries.len(), c.n));
			}
			let (mut n_ok, mut n_err) = (0usize, 0usize);
			for (i, e) in entries.iter().enumerate() {
				let tag = o.tags.get(i).cloned().unwrap_or_default();
				match e {
					Ok(val) => {
						n_ok += 1;
						if val["tag"] != json!(tag) {
							bad("foreign-answer", format!("entry {i} holds {val}, the request there was {tag}"));
						} else if o.sent_err.get(i) == Some(&true) && !matches!(c.defect, Defect::DupExtraMixed { dup, .. } if dup == i) {
							bad("wrong-outcome", format!("entry {i} is Ok but an error object was sent for it"));
						} else if o.answered.get(i) == Some(&false) {
							bad("unanswered-entry-filled", format!("entry {i} got no answer but holds {val}"));
						}
					}
					Err((code, data)) => {
						n_err += 1;
						if *code == 1000 {
							let d: Value = data.as_deref().and_then(|d| serde_json::from_str(d).ok()).unwrap_or(Value::Null);
							if d["tag"] != json!(tag) {
								bad("foreign-answer", format!("entry {i} holds the error for {d}, the request there was {tag}"));
							} else if o.sent_err.get(i) == Some(&false) && !matches!(c.defect, Defect::DupExtraMixed { dup, .. } if dup == i) {
								bad("wrong-outcome", format!("entry {i} is the scripted error but a success was sent for it"));
							}
						} else if complete || (o.answered.get(i) == Some(&true) && !matches!(c.defect, Defect::OtherIdKind | Defect::OtherIdKindOne(_))) {
							// an entry that was answered exactly must not degrade to a placeholder error
							if complete || matches!(c.defect, Defect::UnreadableIdExtra { .. } | Defect::UnreadableIdReplacing { .. }) {
								bad("answer-lost", format!("entry {i} is a library error ({code}) although its answer was in the reply"));
							}
						}
					}
				}
			}
			if (n_ok, n_err) != (*ok, *failed) {
				bad("wrong-counts", format!("counts say ({ok} ok, {failed} failed), entries are ({n_ok} ok, {n_err} failed)"));
			}
		}
	}
	v
}

// ---------------------------------------------------------------------------------------------------------------
// WebSocket (async) client over the scripted transport

async fn run_ws(c: &Case) -> (Outcome, Vec<(String, String)>) {
	let mut r = Rng::new(c.seed);
	let (client, mut srv) = client(ClientCfg { string_ids: c.string_ids, build_path: ((c.seed >> 23) % 4) as u8, ..Default::default() });
	let mut extra_violations = Vec::new();
	// other operations in flight
	let mut others = Vec::new();
	for b in 0..c.others.0 {
		let cl = client.clone();
		let k = 1 + r.usize(3);
		others.push(tokio::spawn(async move {
			let mut bb = BatchRequestBuilder::new();
			for j in 0..k {
				bb.insert("call", rpc_params![format!("o{b}.{j}")]).unwrap();
			}
			let tags: Vec<String> = (0..k).map(|j| format!("o{b}.{j}")).collect();
			let res: Result<BatchResponse<Value>, _> = cl.batch_request(bb).await;
			(tags, res.map(to_entries).map_err(|e| err_kind(&e)))
		}));
	}
	for s in 0..c.others.1 {
		let cl = client.clone();
		others.push(tokio::spawn(async move {
			let tag = format!("s{s}");
			let res = cl.request::<Value, _>("call", rpc_params![tag.clone()]).await;
			(vec![tag], res.map(|v| (vec![Ok(v)], 1, 0)).map_err(|e| err_kind(&e)))
		}));
	}
	for k in 0..c.warm {
		let cl = client.clone();
		let t = tokio::spawn(async move { cl.request::<Value, _>("call", rpc_params![format!("warm{k}")]).await.is_ok() });
		for (_, m) in srv.collect_until_idle(Duration::from_millis(5)).await {
			if let WireMsg::Single(q) = m {
				if let Some(id) = &q.id {
					srv.push_text(ok_response(id, json!({"tag": q.tag, "n": 0})));
				}
			}
		}
		if !matches!(tokio::time::timeout(Duration::from_secs(30), t).await, Ok(Ok(true))) {
			extra_violations.push(("warmup-call-failed/complete/ws".to_string(), format!("call {k} before the batch")));
		}
	}
	tokio::time::sleep(Duration::from_millis(1)).await;
	// in one case out of four an earlier batch was given up by its caller (future dropped) before the server answered it;
	// its answer arrives late - after the batch under test was issued - and concerns nobody any more
	let mut abandoned_reply: Option<String> = None;
	if (c.seed >> 7) % 4 == 0 {
		let cl = client.clone();
		let t = tokio::spawn(async move {
			let mut bb = BatchRequestBuilder::new();
			for j in 0..2 {
				bb.insert("call", rpc_params![format!("A{j}")]).unwrap();
			}
			let _: Result<BatchResponse<Value>, _> = cl.batch_request(bb).await;
		});
		for (_, m) in srv.collect_until_idle(Duration::from_millis(5)).await {
			if let WireMsg::Batch(reqs) = m {
				if reqs.iter().any(|q| q.tag.as_deref().is_some_and(|t| t.starts_with('A'))) {
					let parts: Vec<String> = reqs.iter().map(|q| ok_response(q.id.as_ref().unwrap_or(&Value::Null), json!({"tag": q.tag, "n": 0}))).collect();
					abandoned_reply = Some(array_of(&parts));
				}
			}
		}
		t.abort();
		let _ = t.await;
		tokio::time::sleep(Duration::from_millis(1)).await;
	}
	let cl = client.clone();
	let n = c.n;
	let test = tokio::spawn(async move {
		let mut bb = BatchRequestBuilder::new();
		for j in 0..n {
			bb.insert("call", rpc_params![format!("T{j}")]).unwrap();
		}
		let res: Result<BatchResponse<Strict>, _> = cl.batch_request(bb).await;
		res.map(strict_entries).map_err(|e| err_kind(&e))
	});
	// read everything the client wrote
	let msgs = srv.collect_until_idle(Duration::from_secs(5)).await;
	let mut test_entries: Vec<(Value, String)> = Vec::new();
	let mut other_msgs = Vec::new();
	for (_, m) in msgs {
		match &m {
			WireMsg::Batch(reqs) if reqs.iter().any(|q| q.tag.as_deref().is_some_and(|t| t.starts_with('T'))) => {
				test_entries = reqs.iter().map(|q| (q.id.clone().unwrap_or(Value::Null), q.tag.clone().unwrap_or_default())).collect();
			}
			_ => other_msgs.push(m),
		}
	}
	let busy: Vec<u64> = other_msgs
		.iter()
		.flat_map(|m| match m {
			WireMsg::Single(q) => vec![q.id.clone()],
			WireMsg::Batch(reqs) => reqs.iter().map(|q| q.id.clone()).collect(),
			WireMsg::Unparsable(_) => vec![],
		})
		.flatten()
		.filter_map(|v| v.as_u64().or_else(|| v.as_str().and_then(|s| s.parse().ok())))
		.collect();
	let (reply, answered) = craft_reply(c, &test_entries, &busy, &mut r);
	if let Some(late) = abandoned_reply.take() {
		srv.push_text(late);
		tokio::time::sleep(Duration::from_millis(1)).await;
	}
	// in one case out of three notifications ride in the same array as the answers (a plain one, one for a subscription
	// nobody has): they concern other consumers and change nothing for the batch
	let reply = if (c.seed >> 11) % 3 == 0 {
		match serde_json::from_str::<Vec<Box<serde_json::value::RawValue>>>(&reply) {
			Ok(mut parts) => {
				let noise = [plain_notif("some_method", json!(["in-array"])), sub_notif("m", &json!("nobody-has-this-subscription"), json!(1))];
				for k in 0..1 + r.usize(2) {
					let at = r.usize(parts.len() + 1);
					parts.insert(at, serde_json::value::RawValue::from_string(noise[k % 2].clone()).expect("json"));
				}
				format!("[{}]", parts.iter().map(|p| p.get().to_string()).collect::<Vec<_>>().join(","))
			}
			Err(_) => reply,
		}
	} else {
		reply
	};
	srv.push_text(reply.clone());
	let result = match tokio::time::timeout(Duration::from_secs(90), test).await {
		Ok(Ok(r)) => r,
		Ok(Err(e)) => Err(ErrKind::Other(format!("task: {e}"))),
		// still pending at quiescence: the call neither failed nor returned; admissible only for defective replies
		Err(_) => Err(ErrKind::Other("pending at virtual-time quiescence".into())),
	};
	if c.defect == Defect::Complete {
		if let Err(ErrKind::Other(s)) = &result {
			if s.contains("pending") {
				extra_violations.push(("never-completed/complete/ws".to_string(), "complete reply but the batch future is still pending".to_string()));
			}
		}
	}
	// now answer the others correctly; if the client survived they must complete with their own answers
	if client.is_connected() {
		for m in other_msgs {
			match m {
				WireMsg::Single(q) => {
					if let Some(id) = &q.id {
						srv.push_text(ok_response(id, json!({"tag": q.tag, "n": 1})));
					}
				}
				WireMsg::Batch(reqs) => {
					let parts: Vec<String> = reqs.iter().rev().map(|q| ok_response(q.id.as_ref().unwrap_or(&Value::Null), json!({"tag": q.tag, "n": 1}))).collect();
					srv.push_text(array_of(&parts));
				}
				WireMsg::Unparsable(_) => {}
			}
		}
	}
	for t in others {
		match tokio::time::timeout(Duration::from_secs(90), t).await {
			Ok(Ok((tags, Ok((entries, _, _))))) => {
				for (e, tag) in entries.iter().zip(tags.iter()) {
					let val = match e {
						Ok(v) => v.clone(),
						Err((_, d)) => d.as_deref().and_then(|d| serde_json::from_str(d).ok()).unwrap_or(Value::Null),
					};
					if !val.is_null() && val["tag"] != json!(tag) {
						extra_violations.push((
							format!("foreign-answer-in-neighbour/{}/ws", c.defect.class()),
							format!("another request in flight ({tag}) completed with {val}"),
						));
					}
				}
				if entries.len() != tags.len() {
					extra_violations.push((format!("wrong-length-in-neighbour/{}/ws", c.defect.class()), format!("{} for {}", entries.len(), tags.len())));
				}
			}
			_ => {}
		}
	}
	let tags = (0..c.n).map(|j| format!("T{j}")).collect();
	let out = Outcome { result, answered, sent_err: c.errs.clone(), tags, reply_text: reply, wire_ids: test_entries.iter().map(|e| e.0.clone()).collect() };
	(out, extra_violations)
}

// ---------------------------------------------------------------------------------------------------------------
// HTTP client behind a scripted layer

async fn run_http(c: &Case) -> Outcome {
	let shared: Arc<Mutex<(String, Vec<bool>, Vec<Value>)>> = Arc::new(Mutex::new((String::new(), vec![], vec![])));
	let c2 = c.clone();
	let sh = shared.clone();
	let layer = ScriptLayer(Arc::new(move |body: String| {
		let mut r = Rng::new(c2.seed);
		match parse_wire(&body) {
			WireMsg::Batch(reqs) => {
				let entries: Vec<(Value, String)> = reqs.iter().map(|q| (q.id.clone().unwrap_or(Value::Null), q.tag.clone().unwrap_or_default())).collect();
				let (reply, answered) = craft_reply(&c2, &entries, &[], &mut r);
				*sh.lock().unwrap() = (reply.clone(), answered, entries.iter().map(|e| e.0.clone()).collect());
				(200, reply)
			}
			_ => (200, "{}".to_string()),
		}
	}));
	let http = HttpClientBuilder::default()
		.request_timeout(Duration::from_secs(3600))
		.id_format(if c.string_ids { IdKind::String } else { IdKind::Number })
		.set_http_middleware(tower::ServiceBuilder::new().layer(layer))
		.build("http://localhost:9944")
		.expect("http client");
	// shift the id counter so that ranges do not start at 0
	for _ in 0..(if c.warm > 0 { c.warm as u64 } else { c.seed % 3 }) {
		let _ = http.request::<Value, _>("call", rpc_params!["warmup"]).await;
	}
	let mut bb = BatchRequestBuilder::new();
	for j in 0..c.n {
		bb.insert("call", rpc_params![format!("T{j}")]).unwrap();
	}
	let res: Result<BatchResponse<Strict>, _> = http.batch_request(bb).await;
	let result = res.map(strict_entries).map_err(|e| err_kind(&e));
	let (reply_text, answered, wire_ids) = shared.lock().unwrap().clone();
	Outcome { result, answered, sent_err: c.errs.clone(), tags: (0..c.n).map(|j| format!("T{j}")).collect(), reply_text, wire_ids }
}

// ---------------------------------------------------------------------------------------------------------------

fn all_cases(max_n: usize, seed: u64, sample_above: usize) -> Vec<Case> {
	let mut r = Rng::new(seed);
	let mut out = Vec::new();
	for n in 1..=max_n {
		let mut defects = vec![Defect::Complete, Defect::ForeignBelow, Defect::ForeignAbove, Defect::OtherIdKind];
		for mask in 0..(1u32 << n) - 1 {
			defects.push(Defect::Subset((0..n).map(|i| mask & (1 << i) != 0).collect()));
		}
		for dup in 0..n {
			defects.push(Defect::Undecodable(dup));
			defects.push(Defect::DupExtraMixed { dup, value_first: true });
			defects.push(Defect::DupExtraMixed { dup, value_first: false });
			defects.push(Defect::DupExtra { dup });
			for text_id in [false, true] {
				defects.push(Defect::UnreadableIdExtra { at: dup, text_id });
				defects.push(Defect::UnreadableIdReplacing { victim: dup, text_id });
			}
			for missing in 0..n {
				if missing != dup {
					defects.push(Defect::DupReplacing { dup, missing });
				}
			}
		}
		defects.push(Defect::UnreadableIdExtra { at: n, text_id: false });
		defects.push(Defect::UnreadableIdExtra { at: n, text_id: true });
		let perms = permutations(n);
		for d in &defects {
			for p in &perms {
				// above `sample_above` entries keep a seeded tenth of the (permutation, defect) product
				if n > sample_above && !r.chance(1, 10) && *d != Defect::Complete {
					continue;
				}
				out.push(Case {
					n,
					perm: p.clone(),
					defect: d.clone(),
					errs: (0..n).map(|_| r.chance(1, 4)).collect(),
					string_ids: r.chance(1, 3),
					others: (r.usize(3), r.usize(3)),
					seed: r.next_u64(),
					warm: 0,
				});
			}
		}
	}
	out
}

/// Batches whose ids straddle a decimal digit boundary (first id 6..10 or 95..100 after `warm` earlier calls, or more
/// than ten entries), answered in identity / reverse / lexicographic-by-id-text / seeded order, complete or with one id of
/// the other JSON type. No other requests in flight, so the first id is `warm`.
fn boundary_cases(seed: u64, reps: usize) -> Vec<Case> {
	let mut r = Rng::new(seed ^ 0xb0);
	let mut out = Vec::new();
	for _ in 0..reps {
		for (warm, n) in [(0usize, 11usize), (0, 12), (6, 5), (7, 4), (8, 3), (9, 2), (8, 12), (95, 7), (98, 3), (99, 4)] {
			for order in 0..4 {
				let mut perm: Vec<usize> = (0..n).collect();
				match order {
					0 => {}
					1 => perm.reverse(),
					2 => perm.sort_by_key(|i| (warm + i).to_string()),
					_ => r.shuffle(&mut perm),
				}
				for defect in [Defect::Complete, Defect::OtherIdKindOne(r.usize(n))] {
					out.push(Case {
						n,
						perm: perm.clone(),
						defect,
						errs: (0..n).map(|_| r.chance(1, 5)).collect(),
						string_ids: r.bool(),
						others: (0, 0),
						seed: r.next_u64(),
						warm,
					});
				}
			}
		}
	}
	out
}

// ---------------------------------------------------------------------------------------------------------------
// Stress (real threads): several tasks on a multi-threaded runtime issue batch requests on ONE client at the same
// instant. The ids of batches that are outstanding together must be pairwise distinct (otherwise an answer can be
// positional for the wrong batch); every batch must come back with its own answers.

async fn concurrent_batches(seed: u64, rounds: usize, tasks: usize) -> (usize, Vec<(String, String)>) {
	let mut violations: Vec<(String, String)> = Vec::new();
	let mut r = Rng::new(seed);
	let (client, mut srv) = client(ClientCfg { string_ids: r.bool(), ..Default::default() });
	let mut batches = 0usize;
	for round in 0..rounds {
		let barrier = Arc::new(tokio::sync::Barrier::new(tasks));
		let mut hs = Vec::new();
		for t in 0..tasks {
			let (c, b) = (client.clone(), barrier.clone());
			let n = 1 + (r.below(4) as usize + t) % 4;
			hs.push(tokio::spawn(async move {
				let mut bb = BatchRequestBuilder::new();
				for j in 0..n {
					bb.insert("call", rpc_params![format!("r{round}t{t}e{j}")]).unwrap();
				}
				b.wait().await;
				let res: Result<BatchResponse<Value>, _> = c.batch_request(bb).await;
				(t, n, res.map(to_entries).map_err(|e| err_kind(&e)))
			}));
		}
		// all batches of the round are outstanding before any is answered
		let mut msgs = Vec::new();
		while msgs.len() < tasks {
			match tokio::time::timeout(Duration::from_secs(20), srv.next_msg()).await {
				Ok(Some((_, WireMsg::Batch(reqs)))) => msgs.push(reqs),
				Ok(Some(_)) => {}
				_ => break,
			}
		}
		let mut seen: std::collections::HashMap<String, String> = Default::default();
		for reqs in &msgs {
			for q in reqs {
				let id = q.id.clone().unwrap_or(Value::Null).to_string();
				let tag = q.tag.clone().unwrap_or_default();
				if let Some(other) = seen.insert(id.clone(), tag.clone()) {
					if violations.len() < 10 {
						violations.push(("id-collision/batch-vs-batch/concurrent-batches".into(), format!("round {round}: id {id} is on the wire for {other} and for {tag} at the same time")));
					}
				}
			}
		}
		for reqs in msgs.iter().rev() {
			let parts: Vec<String> = reqs.iter().rev().map(|q| ok_response(q.id.as_ref().unwrap_or(&Value::Null), json!({"tag": q.tag, "n": 1}))).collect();
			srv.push_text(array_of(&parts));
		}
		for h in hs {
			batches += 1;
			match tokio::time::timeout(Duration::from_secs(20), h).await {
				Ok(Ok((t, n, Ok((entries, _, _))))) => {
					for (j, e) in entries.iter().enumerate() {
						let want = format!("r{round}t{t}e{j}");
						if !matches!(e, Ok(v) if v["tag"] == json!(want)) && violations.len() < 10 {
							violations.push(("foreign-answer/complete/concurrent-batches".into(), format!("round {round}: entry {j} of the batch of task {t} holds {e:?}, the request there was {want}")));
						}
					}
					if entries.len() != n && violations.len() < 10 {
						violations.push(("wrong-length/complete/concurrent-batches".into(), format!("{} entries for a batch of {n}", entries.len())));
					}
				}
				Ok(Ok((t, _, Err(e)))) => {
					if violations.len() < 10 {
						violations.push(("complete-reply-rejected/complete/concurrent-batches".into(), format!("round {round}: the batch of task {t} failed although every batch was answered completely: {e:?}")));
					}
				}
				_ => {}
			}
		}
		if !client.is_connected() {
			break;
		}
	}
	(batches, violations)
}

fn witness(c: &Case, o: &Outcome, client: &str) -> Value {
	json!({"client": client, "n": c.n, "permutation": c.perm, "defect": format!("{:?}", c.defect), "errors_at": c.errs, "string_ids": c.string_ids,
		"others_in_flight": [c.others.0, c.others.1], "calls_before_the_batch": c.warm, "wire_ids": o.wire_ids, "reply": o.reply_text, "result": format!("{:?}", o.result), "seed": c.seed})
}

fn run_cases(cases: Vec<Case>, ws: bool, http: bool) -> (Evidence, Vec<Violation>) {
	let mut ev = Evidence::new("");
	let mut violations = Vec::new();
	for c in cases {
		if ws {
			let (o, extra) = block_on_virtual(run_ws(&c));
			let mut vs = judge(&c, &o, "ws");
			vs.extend(extra);
			ev.eval();
			ev.count("ws_batches", 1);
			if (c.seed >> 7) % 4 == 0 {
				ev.count("ws_cases_with_an_abandoned_earlier_batch_answered_late", 1);
			}
			if (c.seed >> 11) % 3 == 0 {
				ev.count("ws_replies_with_notifications_in_the_array", 1);
			}
			ev.count(&format!("defect_{}", c.defect.class()), 1);
			if o.result.is_ok() {
				ev.count("ws_returned_ok", 1);
			} else {
				ev.count("ws_call_failed", 1);
			}
			ev.nontrivial(&("ws", c.n, &c.perm, &c.defect, &c.errs, c.string_ids, c.warm));
			ev.sample_class(&format!("ws/{}", c.defect.class()), witness(&c, &o, "ws"));
			for (sig, d) in vs {
				violations.push(Violation::new(sig, d, witness(&c, &o, "ws")));
			}
		}
		if http {
			let o = block_on_virtual(run_http(&c));
			let vs = judge(&c, &o, "http");
			ev.eval();
			ev.count("http_batches", 1);
			if o.result.is_ok() {
				ev.count("http_returned_ok", 1);
			} else {
				ev.count("http_call_failed", 1);
			}
			ev.nontrivial(&("http", c.n, &c.perm, &c.defect, &c.errs, c.string_ids, c.warm));
			ev.sample_class(&format!("http/{}", c.defect.class()), witness(&c, &o, "http"));
			for (sig, d) in vs {
				violations.push(Violation::new(sig, d, witness(&c, &o, "http")));
			}
		}
	}
	(ev, violations)
}

fn main() {
	let ctx = Ctx::from_env("C12", "exploration");
	if ctx.sub.as_deref() == Some("miri") {
		let cases: Vec<Case> = all_cases(3, ctx.seed, 3).into_iter().step_by(9).take(16).collect();
		let (ev, v) = run_cases(cases, true, false);
		let sigs: Vec<String> = v.iter().map(|x| x.signature.clone()).collect();
		println!("SUBRESULT {}", json!({"cases": ev.evaluations, "violation_signatures": sigs}));
		return;
	}
	if ctx.sub.as_deref() == Some("stress") || ctx.sub.as_deref() == Some("tsan") {
		let rounds: usize = ctx.arg_value("--rounds").and_then(|s| s.parse().ok()).unwrap_or(2000);
		let seed = ctx.seed;
		let (batches, v) = block_on_stress(8, concurrent_batches(seed, rounds, 8));
		let sigs: Vec<String> = v.iter().map(|x| format!("{} ({})", x.0, x.1)).collect();
		println!("SUBRESULT {}", json!({"mode": ctx.sub, "rounds": rounds, "batches": batches, "violation_signatures": sigs}));
		return;
	}
	install_panic_capture(true);
	let _wd = watchdog("C12", Duration::from_secs(ctx.tier.pick(900, 7200)));
	let mut ev = Evidence::new(
		"cases = (n, permutation of the reply, defect, which entries are errors, id kind, other requests in flight): for n up to 5 \
		 (quick) / 7 (thorough) ALL permutations x {complete, every proper subset incl. the empty reply, every duplicate \
		 replacing another entry, every extra duplicate, foreign id below / above the range, ids of the other kind} (a seeded \
		 tenth of the defective product above n = 5); each case on the real async (WebSocket) client over a scripted \
		 transport with 0-2 other batches and 0-2 single calls in flight, and on the real HTTP client behind a scripted layer. \
		 Digit-boundary family: batches whose ids straddle 9/10 or 99/100 (calls made before the batch, or more than ten entries), \
		 answered in identity / reverse / lexicographic-by-id-text / seeded order, complete or with exactly one id of the other JSON type. \
		 Non-trivial = every case (each is one complete batch round trip); distinct by all case parameters.",
	);
	ev.assume("a reply whose ids are of the other kind (\"7\" for 7): the statement does not say whether that answers the entry; only foreign tags, length and counts are judged there");
	ev.assume("mode D (virtual time): a batch future still pending after 90 idle virtual seconds counts as 'the call did not succeed'");
	let mut violations = Vec::new();

	let cases: Vec<Case> = if let Some(path) = &ctx.replay {
		let w: Value = serde_json::from_str(&std::fs::read_to_string(path).expect("replay")).expect("json");
		let w = &w["witness"];
		let n = w["n"].as_u64().unwrap_or(1) as usize;
		let want = (w["defect"].as_str().unwrap_or("").to_string(), w["permutation"].clone());
		let warm = w["calls_before_the_batch"].as_u64().unwrap_or(0) as usize;
		let pool = if warm > 0 || n > 7 { boundary_cases(ctx.seed, 40) } else { all_cases(n, ctx.seed, 99) };
		pool.into_iter()
			.filter(|c| c.n == n && c.warm == warm && format!("{:?}", c.defect) == want.0 && json!(c.perm) == want.1)
			.take(2)
			.map(|mut c| {
				c.errs = w["errors_at"].as_array().map(|a| a.iter().map(|b| b.as_bool().unwrap_or(false)).collect()).unwrap_or(c.errs.clone());
				c.string_ids = w["string_ids"].as_bool().unwrap_or(false);
				c
			})
			.collect()
	} else {
		let mut v = all_cases(ctx.tier.pick(5, 7), ctx.seed, 5);
		v.extend(boundary_cases(ctx.seed, ctx.tier.pick(2, 40)));
		v
	};
	ev.set("exhaustive_part", json!({"all_permutations_x_all_defects_up_to_n": 5}));
	let replay = ctx.replay.is_some();
	let results = run_parallel(cases.chunks(64).map(|c| c.to_vec()).collect(), |_, chunk| run_cases(chunk, true, true));
	for (e, v) in results {
		ev.merge(e);
		violations.extend(v);
	}
	for p in take_panics() {
		if p.in_library {
			violations.push(Violation::new(
				format!("library-panic/{}", p.location.rsplit('/').next().unwrap_or("").split(':').next().unwrap_or("")),
				p.message.clone(),
				json!({"location": p.location, "backtrace": p.backtrace_head}),
			));
		}
	}
	if replay {
		for v in &violations {
			println!("replay violation: {} — {}", v.signature, v.detail);
		}
	}
	let mut inconclusive = None;
	if !replay {
		// real threads: four tasks issue batches on one client at the same instant
		let exe = std::env::current_exe().expect("exe");
		let rounds = ctx.tier.pick("6000", "100000");
		let o = std::process::Command::new(exe).args(["--sub", "stress", "--rounds", rounds]).env("VERIF_SEED", ctx.seed.to_string()).output();
		match o.ok().and_then(|o| String::from_utf8(o.stdout).ok()).and_then(|s| s.lines().find_map(|l| l.strip_prefix("SUBRESULT ").map(|j| j.to_string()))) {
			Some(j) => {
				let v: Value = serde_json::from_str(&j).unwrap_or(Value::Null);
				for s in v["violation_signatures"].as_array().cloned().unwrap_or_default() {
					let s = s.as_str().unwrap_or("?");
					violations.push(Violation::new(s.split(' ').next().unwrap_or(s).to_string(), s.to_string(), json!({"sub": "stress"})));
				}
				ev.evals(v["rounds"].as_u64().unwrap_or(0));
				ev.count("stress_concurrent_batches", v["batches"].as_u64().unwrap_or(0));
				ev.set("stress", v);
			}
			None => inconclusive = Some("native stress sub-run did not report".to_string()),
		}
	}
	if ctx.tier == Tier::Thorough && !replay {
		match sanit::run_miri("c12", &[], Duration::from_secs(1500)) {
			SubOutcome::Clean(v) => {
				for s in v["violation_signatures"].as_array().cloned().unwrap_or_default() {
					violations.push(Violation::new(format!("miri-run:{}", s.as_str().unwrap_or("?")), "oracle violation seen in the Miri sub-run", json!({"sub": "miri"})));
				}
				ev.set("miri", json!({"status": "no report", "workload": v}));
			}
			SubOutcome::Report { excerpt, frame } => violations.push(Violation::new(format!("miri:{frame}"), "Miri reported undefined behaviour", json!({"excerpt": excerpt}))),
			SubOutcome::Failed(why) => {
				ev.set("miri", json!({"status": "inconclusive", "why": why}));
				inconclusive = Some("Miri sub-run did not complete".into());
			}
		}
	}
	finish(&ctx, ev, violations, inconclusive);
}
