//! C09 — client: on connection failure everything pending fails promptly with the cause.
//!
//! Monitor (mode R: real clock, because the client's request timeout is a real-time timer): bounded client histories
//! on the real async client over a scripted transport; a fault of each kind (send error, receive error, peer close,
//! slow close, text that is not JSON, JSON that is no message, response with an unknown id, hostile batch replies,
//! generated garbage) is injected at every position; delays / gates at the cfg-guarded yield points of the client's
//! send, read and shutdown tasks place front-end callers between "front-end channel closed", "transport closed"
//! and "cause recorded". Oracle: every outstanding and every later operation ends with RestartNeeded(cause) where the
//! cause names the injected fault (never the "reason could not be found" placeholder, never a timeout), streams end,
//! is_connected() is false, on_disconnect() gives the same cause, no library task panics, nothing stays pending
//! beyond request_timeout + slack.

use jrv::clientsim::*;
use jrv::report::*;
use jrv::rng::Rng;
use jrv::runner::*;
use jrv::sanit::{self, SubOutcome};
use jrv::script::ServerIn;
use jsonrpsee_core::client::{BatchResponse, ClientT, SubscriptionClientT};
use jsonrpsee_core::params::BatchRequestBuilder;
use jsonrpsee_core::rpc_params;
use serde_json::{Value, json};
use std::sync::Arc;
use std::sync::atomic::{AtomicBool, Ordering};
use std::time::Duration;
use tokio::sync::Notify;

const REQUEST_TIMEOUT: Duration = Duration::from_millis(1500);
/// generous wall-clock bound (30x anything observed); exceeding it is reported as a stall
const SLACK: Duration = Duration::from_secs(10);

#[derive(Debug, Clone, PartialEq, Eq, Hash)]
enum OpKind {
	Call,
	Batch(usize),
	Subscribe,
	Notification,
	/// `subscribe_to_method`: registers a handler for plain notifications; nothing goes on the wire
	SubscribeToMethod,
}

#[derive(Debug, Clone, PartialEq, Eq, Hash)]
enum Fault {
	SendError,
	/// a write fails and the close() attempted right afterwards fails too (a broken pipe); the receive half stays silent
	SendErrorThenCloseError,
	/// pings are enabled (every 20 ms, one tolerated inactive period of 40 ms) and the peer falls silent: writes succeed,
	/// nothing ever arrives - the client gives the connection up and names inactivity as the cause
	Inactivity,
	/// the receive half fails while the client's request queue (one slot) is full behind a write that does not return and
	/// the read task holds an unsubscribe call for a lagging subscription that it cannot hand over
	RecvErrorWithFullQueue,
	/// the transport fails exactly when the unsubscribe request of a dropped stream is written
	SendErrorOnUnsubscribe,
	RecvError,
	/// double fault: the send half fails (cause A); while the transport is still being closed the receive half fails
	/// with another error (cause B); observers before and after B must all report one cause
	SendThenRecvError,
	/// pings are enabled and the write of a ping frame fails (the transport close is slow, observers arrive meanwhile)
	PingSendError,
	/// a subscribe call is answered with the id of a subscription that is open on this connection: the call must be
	/// refused promptly (or the connection given up), it must not hang
	DuplicateSubIdAnswer,
	PeerClose,
	NotJson,
	JsonNoMessage,
	UnknownIdResponse,
	/// a response that bears the id the client reserved for the unsubscribe call of its open stream (nobody asked), and
	/// later the server's own close notification for that stream: neither is a reason to give up the connection; if the
	/// client survives, everything outstanding completes
	ReservedIdResponseThenServerClose,
	/// a batch reply whose ids are hostile: the value is the id text
	BatchReplyIds(&'static str),
	EmptyArray,
	/// generated server bytes (may or may not end the connection)
	Generated(String),
}

impl Fault {
	fn class(&self) -> String {
		match self {
			Fault::BatchReplyIds(ids) => format!("batch-reply-ids:{}", ids.chars().take(24).collect::<String>()),
			Fault::Generated(_) => "generated-bytes".into(),
			other => format!("{other:?}"),
		}
	}
}

#[derive(Debug, Clone)]
struct Spec {
	seed: u64,
	pre_ops: Vec<(OpKind, bool)>, // (kind, answered before the fault)
	open_stream: bool,
	fault: Fault,
	late_ops: Vec<(u64, OpKind)>, // (start delay in ms after the fault, kind)
	hook_delays: bool,
	/// close() of the transport blocks until the harness releases it (while late callers arrive)
	slow_close: bool,
	/// gate at "front-end channel closed": the send task is held there until a late caller has started
	gate_frontend_closed: bool,
	/// (send errors only) the failing write first stalls inside the transport's `send` while the later operations are
	/// queued behind it, and fails afterwards
	stall_send: bool,
}

#[derive(Debug, Clone, PartialEq)]
enum OpOut {
	Ok,
	Err(ErrKind),
	Stalled,
	Panicked(String),
}

#[derive(Default, Debug)]
struct Out {
	violations: Vec<(String, String)>,
	history: Vec<String>,
	outcomes: usize,
	causes_seen: Vec<String>,
	conn_ended: bool,
	points: Vec<String>,
}

async fn run_op(c: Arc<SimClient>, kind: OpKind, tag: String) -> OpOut {
	let fut = async {
		match kind {
			OpKind::Call => c.request::<Value, _>("call", rpc_params![tag]).await.map(|_| ()),
			OpKind::Notification => c.notification("note", rpc_params![tag]).await,
			OpKind::Subscribe => c.subscribe::<Value, _>("sub", rpc_params![tag], "unsub").await.map(|_| ()),
			OpKind::SubscribeToMethod => c.subscribe_to_method::<Value>(&format!("plain-{tag}")).await.map(|_| ()),
			OpKind::Batch(n) => {
				let mut b = BatchRequestBuilder::new();
				for j in 0..n {
					b.insert("call", rpc_params![format!("{tag}.{j}")]).unwrap();
				}
				let r: Result<BatchResponse<Value>, _> = c.batch_request(b).await;
				r.map(|_| ())
			}
		}
	};
	match tokio::time::timeout(REQUEST_TIMEOUT + SLACK, fut).await {
		Ok(Ok(())) => OpOut::Ok,
		Ok(Err(e)) => OpOut::Err(err_kind(&e)),
		Err(_) => OpOut::Stalled,
	}
}

const PLACEHOLDER: &str = "Error reason could not be found";

async fn run_spec(spec: &Spec) -> Out {
	let mut out = Out::default();
	// hooks: seeded real delays and an optional gate
	let gate = Arc::new(Notify::new());
	let gate_armed = Arc::new(AtomicBool::new(spec.gate_frontend_closed));
	let points: Arc<std::sync::Mutex<Vec<&'static str>>> = Default::default();
	{
		let gate = gate.clone();
		let armed = gate_armed.clone();
		let pts = points.clone();
		let delays = spec.hook_delays;
		let seed = spec.seed;
		let ctr = Arc::new(std::sync::atomic::AtomicU64::new(0));
		let hook: jsonrpsee_core::verif::Hook = Arc::new(move |name: &'static str| {
			pts.lock().unwrap().push(name);
			if name == "client.send_task.frontend_closed" && armed.swap(false, Ordering::SeqCst) {
				let g = gate.clone();
				return Some(Box::pin(async move {
					// held until a late caller is on its way (bounded, so the gate itself can never hang the run)
					let _ = tokio::time::timeout(Duration::from_millis(200), g.notified()).await;
				}) as jsonrpsee_core::verif::HookFuture);
			}
			if !delays {
				return None;
			}
			let n = ctr.fetch_add(1, Ordering::Relaxed);
			let mut rr = Rng::fork(seed, 4242 + n);
			if rr.chance(1, 2) { Some(Box::pin(tokio::time::sleep(Duration::from_micros(rr.range(50, 3000)))) as jsonrpsee_core::verif::HookFuture) } else { None }
		});
		jsonrpsee_core::verif::set_thread_hook(Some(hook));
	}

	let ping_interval = match spec.fault {
		Fault::PingSendError => Some(Duration::from_millis(4)),
		Fault::Inactivity => Some(Duration::from_millis(40)),
		_ => None,
	};
	let ping_max_failures = if spec.fault == Fault::Inactivity { Some(1) } else { None };
	let full_queue = spec.fault == Fault::RecvErrorWithFullQueue;
	let (client, mut srv) = client(ClientCfg {
		request_timeout: REQUEST_TIMEOUT,
		ping_interval,
		ping_max_failures,
		max_concurrent_requests: if full_queue { 1 } else { 256 },
		sub_buffer: if full_queue { 2 } else { 1024 },
		..Default::default()
	});
	let close_gate = Arc::new(Notify::new());
	let slow_close = spec.slow_close || matches!(spec.fault, Fault::SendThenRecvError | Fault::PingSendError);
	if slow_close {
		*srv.ctl.close_gate.lock().unwrap() = Some(close_gate.clone());
	}
	let send_gate = Arc::new(Notify::new());

	// an open stream
	let mut stream_task = None;
	let mut stream_call_id: Option<Value> = None;
	let mut _unread_stream = None;
	if spec.open_stream || matches!(spec.fault, Fault::SendErrorOnUnsubscribe | Fault::DuplicateSubIdAnswer | Fault::ReservedIdResponseThenServerClose | Fault::RecvErrorWithFullQueue) {
		let c = client.clone();
		let t = tokio::spawn(async move { c.subscribe::<Value, _>("sub", rpc_params!["stream"], "unsub").await });
		if let Ok(Some((_, WireMsg::Single(q)))) = tokio::time::timeout(Duration::from_secs(5), srv.next_msg()).await {
			srv.push_text(ok_response(q.id.as_ref().unwrap_or(&Value::Null), json!("stream-1")));
			stream_call_id = q.id.clone();
		}
		let opened = tokio::time::timeout(Duration::from_secs(5), t).await;
		if full_queue {
			// (this stream is never read: it is there to fall behind)
			match opened {
				Ok(Ok(Ok(s))) => _unread_stream = Some(s),
				_ => out.violations.push(("setup-subscribe-failed/any".into(), "could not open the stream".into())),
			}
		} else if let Ok(Ok(Ok(mut s))) = opened {
			srv.push_text(sub_notif("m", &json!("stream-1"), json!(1)));
			stream_task = Some(tokio::spawn(async move {
				let mut n = 0;
				loop {
					match tokio::time::timeout(REQUEST_TIMEOUT + SLACK, s.next()).await {
						Ok(Some(_)) => n += 1,
						Ok(None) => return (n, true),
						Err(_) => return (n, false),
					}
				}
			}));
		} else {
			out.violations.push(("setup-subscribe-failed/any".into(), "could not open the stream".into()));
		}
	}

	// operations before the fault
	let mut tasks: Vec<(String, OpKind, bool, tokio::task::JoinHandle<OpOut>)> = Vec::new();
	for (i, (kind, answered)) in spec.pre_ops.iter().enumerate() {
		let tag = format!("pre{i}");
		tasks.push((tag.clone(), kind.clone(), *answered, tokio::spawn(run_op(client.clone(), kind.clone(), tag))));
	}
	// read what they wrote and answer the chosen ones
	let mut seen = 0;
	let mut unanswered: Vec<WireMsg> = Vec::new();
	while seen < spec.pre_ops.len() {
		match tokio::time::timeout(Duration::from_secs(5), srv.next_msg()).await {
			Ok(Some((_, msg))) => {
				seen += 1;
				out.history.push(format!("client -> {msg:?}"));
				let answer_it = |tag: &Option<String>| -> bool {
					let t = tag.clone().unwrap_or_default();
					let base = t.split('.').next().unwrap_or("").to_string();
					spec.pre_ops.iter().enumerate().any(|(i, (_, a))| *a && format!("pre{i}") == base)
				};
				match msg {
					WireMsg::Single(q) => {
						if let (Some(id), true) = (&q.id, answer_it(&q.tag)) {
							let t = if q.method == "sub" { ok_response(id, json!(format!("s-{}", seen))) } else { ok_response(id, json!("fine")) };
							srv.push_text(t);
						} else {
							unanswered.push(WireMsg::Single(q));
						}
					}
					WireMsg::Batch(reqs) => {
						if answer_it(&reqs[0].tag) {
							let parts: Vec<String> = reqs.iter().map(|q| ok_response(q.id.as_ref().unwrap_or(&Value::Null), json!("fine"))).collect();
							srv.push_text(array_of(&parts));
						} else {
							unanswered.push(WireMsg::Batch(reqs));
						}
					}
					WireMsg::Unparsable(_) => {}
				}
			}
			_ => break,
		}
	}
	tokio::time::sleep(Duration::from_millis(2)).await;

	// the fault
	let nonce = format!("nonce-{:x}", spec.seed & 0xffff_ffff);
	let mut expect_dead = true;
	let expected_cause: Option<String> = match &spec.fault {
		Fault::Inactivity => {
			// nothing is injected: the peer simply never says anything again (the script answers no ping); the inactivity
			// check fires after 40..80 ms of real time
			tokio::time::sleep(Duration::from_millis(130)).await;
			Some("inactive".into())
		}
		Fault::SendError | Fault::SendThenRecvError | Fault::SendErrorThenCloseError => {
			let n = srv.ctl.sends.load(Ordering::SeqCst);
			*srv.ctl.fail_from.lock().unwrap() = Some((n, format!("send failed {nonce}")));
			if spec.fault == Fault::SendErrorThenCloseError {
				*srv.ctl.fail_close.lock().unwrap() = Some(format!("close failed {nonce}"));
			}
			if spec.stall_send {
				*srv.ctl.send_gate.lock().unwrap() = Some(send_gate.clone());
			}
			if spec.fault == Fault::SendThenRecvError {
				// cause B arrives a few milliseconds later, while close() of the transport is still pending
				if let Some(tx) = srv.to_client.clone() {
					let text = format!("receive failed second-{nonce}");
					let after = 3 + (spec.seed % 5);
					tokio::spawn(async move {
						tokio::time::sleep(Duration::from_millis(after)).await;
						let _ = tx.send(ServerIn::Err(text));
					});
				}
			}
			// something must be sent for the fault to strike: one more call (it is outstanding when the fault hits)
			tasks.push(("trigger".into(), OpKind::Call, false, tokio::spawn(run_op(client.clone(), OpKind::Call, "trigger".into()))));
			Some(nonce.clone())
		}
		Fault::SendErrorOnUnsubscribe => {
			let n = srv.ctl.sends.load(Ordering::SeqCst);
			// only this one write fails; the receive side stays healthy
			*srv.ctl.fail_once_at.lock().unwrap() = Some((n, format!("send failed {nonce}")));
			// the consumer drops its stream: the client writes an unsubscribe request, and that write fails
			if let Some(t) = stream_task.take() {
				t.abort();
				let _ = t.await;
			}
			Some(nonce.clone())
		}
		Fault::RecvErrorWithFullQueue => {
			*srv.ctl.send_gate.lock().unwrap() = Some(send_gate.clone());
			// one call occupies the send task inside a write, the next one fills the queue of one
			tasks.push(("trigger".into(), OpKind::Call, false, tokio::spawn(run_op(client.clone(), OpKind::Call, "trigger".into()))));
			tokio::time::sleep(Duration::from_millis(2)).await;
			tasks.push(("trigger2".into(), OpKind::Call, false, tokio::spawn(run_op(client.clone(), OpKind::Call, "trigger2".into()))));
			tokio::time::sleep(Duration::from_millis(2)).await;
			// the unread stream falls behind: the read task now holds an unsubscribe call it cannot hand over
			for k in 0..4 {
				srv.push_text(sub_notif("m", &json!("stream-1"), json!(k)));
			}
			tokio::time::sleep(Duration::from_millis(2)).await;
			srv.push(ServerIn::Err(format!("receive failed {nonce}")));
			Some(nonce.clone())
		}
		Fault::RecvError => {
			if spec.stall_send {
				// the send task is inside a write that does not return while the receive half fails: one more call whose write
				// stalls at the gate (it is outstanding when the fault hits)
				*srv.ctl.send_gate.lock().unwrap() = Some(send_gate.clone());
				tasks.push(("trigger".into(), OpKind::Call, false, tokio::spawn(run_op(client.clone(), OpKind::Call, "trigger".into()))));
				tokio::time::sleep(Duration::from_millis(2)).await;
			}
			srv.push(ServerIn::Err(format!("receive failed {nonce}")));
			Some(nonce.clone())
		}
		Fault::PingSendError => {
			*srv.ctl.fail_ping.lock().unwrap() = Some(format!("ping failed {nonce}"));
			// the next ping (every 4 ms) strikes
			tokio::time::sleep(Duration::from_millis(6)).await;
			Some(nonce.clone())
		}
		Fault::DuplicateSubIdAnswer => {
			tasks.push(("dup-sub".into(), OpKind::Subscribe, false, tokio::spawn(run_op(client.clone(), OpKind::Subscribe, "dup-sub".into()))));
			let mut answered = false;
			for _ in 0..200 {
				match tokio::time::timeout(Duration::from_millis(50), srv.next_msg()).await {
					Ok(Some((_, WireMsg::Single(q)))) if q.tag.as_deref() == Some("dup-sub") => {
						// the id of the stream that is open on this connection
						srv.push_text(ok_response(q.id.as_ref().unwrap_or(&Value::Null), json!("stream-1")));
						answered = true;
						break;
					}
					Ok(Some((_, other))) => unanswered.push(other),
					_ => break,
				}
			}
			if !answered {
				out.history.push("harness: the subscribe call of the duplicate-id scenario was not seen on the wire".into());
			}
			expect_dead = false;
			None
		}
		Fault::PeerClose => {
			srv.close_peer();
			Some("peer closed".into())
		}
		Fault::NotJson => {
			srv.push_text(format!("this is not json {nonce}"));
			Some("Unparseable message".into())
		}
		Fault::JsonNoMessage => {
			// short, or long with multi-byte characters at every alignment around the 1 KiB mark (an error text that is cut to
			// size has to be cut at a character boundary)
			let text = match spec.seed % 3 {
				0 => json!({"hello": nonce}).to_string(),
				k => {
					let unit = if k == 1 { "é" } else { "😀" };
					let base = json!({"hello": nonce, "pad": ""}).to_string().len();
					let shift = (spec.seed / 3 % 8) as usize;
					let pad = format!("{}{}", "a".repeat(shift), unit.repeat((1100 - base) / unit.len()));
					json!({"hello": nonce, "pad": pad}).to_string()
				}
			};
			srv.push_text(text);
			Some(nonce.clone())
		}
		Fault::ReservedIdResponseThenServerClose => {
			// the id after the subscribe call's id is the one set aside for the unsubscribe call
			let reserved = match &stream_call_id {
				Some(Value::Number(n)) => json!(n.as_u64().unwrap_or(0) + 1),
				Some(Value::String(t)) => json!((t.parse::<u64>().unwrap_or(0) + 1).to_string()),
				_ => json!(1),
			};
			srv.push_text(ok_response(&reserved, json!("nobody asked")));
			tokio::time::sleep(Duration::from_millis(1 + spec.seed % 3)).await;
			srv.push_text(sub_close("m", &json!("stream-1"), json!(format!("closed by the server {nonce}"))));
			expect_dead = false;
			None
		}
		Fault::UnknownIdResponse => {
			srv.push_text(ok_response(&json!(770_000_000u64 + (spec.seed & 0xffff)), json!("nobody asked")));
			Some(format!("{}", 770_000_000u64 + (spec.seed & 0xffff)))
		}
		Fault::BatchReplyIds(ids) => {
			let parts: Vec<String> = ids.split('|').map(|i| format!("{{\"jsonrpc\":\"2.0\",\"id\":{i},\"result\":1}}")).collect();
			srv.push_text(array_of(&parts));
			// such a reply may happen to answer a batch that is pending (ids 0.., "0"): decided by observation
			expect_dead = false;
			None
		}
		Fault::EmptyArray => {
			srv.push_text("[]".to_string());
			None
		}
		Fault::Generated(text) => {
			srv.push_text(text.clone());
			expect_dead = false; // decided by observation
			None
		}
	};
	// double fault: either cause is a true one, but every observer must report the same
	let expected_cause = if spec.fault == Fault::SendThenRecvError { None } else { expected_cause };
	out.history.push(format!("fault: {:?}", spec.fault));
	// an observer of on_disconnect() that is already waiting when the cause is first stored
	let early_disc = {
		let c = client.clone();
		// (what is_connected() says at the moment on_disconnect() resolves is recorded with it: the two must agree)
		tokio::spawn(async move { tokio::time::timeout(REQUEST_TIMEOUT + SLACK, c.on_disconnect()).await.ok().map(|e| (err_kind(&e), c.is_connected())) })
	};

	// late operations
	let mut late_sorted = spec.late_ops.clone();
	late_sorted.sort_by_key(|(at, _)| *at);
	let mut elapsed = 0u64;
	for (i, (at, kind)) in late_sorted.iter().enumerate() {
		if *at > elapsed {
			tokio::time::sleep(Duration::from_millis(at - elapsed)).await;
			elapsed = *at;
		}
		tasks.push((format!("late{i}"), kind.clone(), false, tokio::spawn(run_op(client.clone(), kind.clone(), format!("late{i}")))));
		tokio::task::yield_now().await;
		gate.notify_waiters();
		gate.notify_one();
	}
	// let callers run into the window, then release the slow close
	let mut window_disc = None;
	if spec.stall_send {
		// the later operations are queued behind the stalled write by now; it fails
		tokio::time::sleep(Duration::from_millis(2)).await;
		// an observer that asks only now - the cause may be known already while the send task is still inside its write:
		// whenever on_disconnect() resolves, is_connected() has to say the same
		let c = client.clone();
		window_disc = Some(tokio::spawn(async move { tokio::time::timeout(REQUEST_TIMEOUT + SLACK, c.on_disconnect()).await.ok().map(|e| (err_kind(&e), c.is_connected())) }));
		tokio::time::sleep(Duration::from_millis(2)).await;
		// the transport moves again (for this and every later write)
		*srv.ctl.send_gate.lock().unwrap() = None;
		send_gate.notify_waiters();
		send_gate.notify_one();
	}
	tokio::time::sleep(Duration::from_millis(if slow_close { 15 } else { 3 })).await;
	close_gate.notify_waiters();
	close_gate.notify_one();
	gate.notify_one();

	// faults that need not end the connection: if the client survived, the server answers what is outstanding - and keeps
	// answering what the client writes later (a request that a delayed or gated send task puts on the wire after the first
	// pass is a request like any other), until every operation has finished or a second has passed
	if !expect_dead {
		tokio::time::sleep(Duration::from_millis(5)).await;
		let mut todo: Vec<WireMsg> = std::mem::take(&mut unanswered);
		for _round in 0..200 {
			if !client.is_connected() {
				break;
			}
			for m in srv.drain_out() {
				if let jrv::script::ClientOut::Msg { text, .. } = m {
					todo.push(parse_wire(&text));
				}
			}
			for m in todo.drain(..) {
				match m {
					WireMsg::Single(q) => {
						if let Some(id) = &q.id {
							srv.push_text(if q.method == "sub" { ok_response(id, json!(format!("late-sub-{id}"))) } else { ok_response(id, json!("fine")) });
						}
					}
					WireMsg::Batch(reqs) => {
						let parts: Vec<String> = reqs.iter().map(|q| ok_response(q.id.as_ref().unwrap_or(&Value::Null), json!("fine"))).collect();
						srv.push_text(array_of(&parts));
					}
					_ => {}
				}
			}
			if tasks.iter().all(|(_, _, _, t)| t.is_finished()) {
				break;
			}
			tokio::time::sleep(Duration::from_millis(5)).await;
			// (gated schedules: whatever still waits at a gate may go on)
			gate.notify_waiters();
			gate.notify_one();
		}
	}

	// collect
	let mut results: Vec<(String, OpKind, bool, OpOut)> = Vec::new();
	for (tag, kind, answered, t) in tasks {
		let o = match t.await {
			Ok(o) => o,
			Err(e) => OpOut::Panicked(e.to_string()),
		};
		results.push((tag, kind, answered, o));
	}
	// on_disconnect() only resolves for a connection that ended; on a live one it is (correctly) pending
	let disc = if expect_dead || !client.is_connected() {
		tokio::time::timeout(REQUEST_TIMEOUT + SLACK, client.on_disconnect()).await
	} else {
		tokio::time::timeout(Duration::from_millis(20), client.on_disconnect()).await
	};
	let dead = !client.is_connected();
	out.conn_ended = dead;
	let fclass = spec.fault.class();
	let sched = if spec.stall_send { "stalled-send" } else if spec.gate_frontend_closed { "gated" } else if spec.slow_close { "slow-close" } else if spec.hook_delays { "delays" } else { "plain" };
	macro_rules! bad {
		($kind:expr, $($arg:tt)*) => { out.violations.push((format!("{}/{}", $kind, fclass), format!("[schedule: {sched}] {}", format!($($arg)*)))) };
	}

	if expect_dead || dead {
		if !dead {
			bad!("still-connected", "is_connected() is true after the fault and quiescence");
		}
		let disc_cause = match &disc {
			Ok(e) => Some(err_kind(e)),
			Err(_) => {
				if dead {
					bad!("on-disconnect-pending", "on_disconnect() did not resolve");
				}
				None
			}
		};
		let mut causes: Vec<String> = Vec::new();
		let mut check_cause = |who: &str, k: &ErrKind, out: &mut Out| match k {
			ErrKind::RestartNeeded(c) => {
				causes.push(c.clone());
				if let Some(want) = &expected_cause {
					if !c.contains(want.as_str()) {
						out.violations.push((format!("wrong-cause/{fclass}"), format!("[schedule: {sched}] {who}: cause {c:?} does not name the injected fault ({want})")));
					}
				}
			}
			ErrKind::Custom(s) if s.contains(PLACEHOLDER) => {
				out.violations.push((format!("placeholder-cause/{fclass}"), format!("[schedule: {sched}] {who}: {s}")));
			}
			ErrKind::Timeout => {
				out.violations.push((format!("timeout-instead-of-cause/{fclass}"), format!("[schedule: {sched}] {who}: request timed out although the connection had failed")));
			}
			other => {
				out.violations.push((format!("error-without-cause/{fclass}"), format!("[schedule: {sched}] {who}: {other:?}")));
			}
		};
		if let Some(k) = &disc_cause {
			check_cause("on_disconnect()", k, &mut out);
		}
		if let Some(t) = window_disc.take() {
			if let Ok(Some((k, still_connected))) = t.await {
				check_cause("on_disconnect() awaited during the stalled write", &k, &mut out);
				if still_connected {
					out.violations.push((format!("observers-disagree/{fclass}"), format!("[schedule: {sched}] on_disconnect() (asked while the send task was still inside its write) resolved with {k:?} while is_connected() still said true")));
				}
			}
		}
		match early_disc.await {
			Ok(Some((k, still_connected))) => {
				check_cause("on_disconnect() awaited since the fault", &k, &mut out);
				if still_connected {
					out.violations.push((format!("observers-disagree/{fclass}"), format!("[schedule: {sched}] on_disconnect() resolved with {k:?} while is_connected() still said true")));
				}
			}
			Ok(None) => out.violations.push((format!("on-disconnect-pending/{fclass}"), format!("[schedule: {sched}] an on_disconnect() awaited since the fault did not resolve"))),
			Err(e) => out.violations.push((format!("operation-panicked/{fclass}"), format!("on_disconnect observer: {e}"))),
		}
		for (tag, kind, answered, o) in &results {
			out.outcomes += 1;
			match o {
				OpOut::Ok => {
					// only operations answered before the fault may succeed; a notification that was sent before the fault too
					// a notification is fire-and-forget: Ok means "handed to the background task", also right around the failure
					let pre = tag.starts_with("pre");
					if !(pre && *answered) && *kind != OpKind::Notification && *kind != OpKind::SubscribeToMethod && !(matches!(spec.fault, Fault::Generated(_) | Fault::BatchReplyIds(_))) {
						bad!("succeeded-after-failure", "{tag} ({kind:?}) returned Ok although it was not answered before the fault");
					}
				}
				// generated / hostile replies may be well-formed answers (incl. error objects) to something pending
				OpOut::Err(ErrKind::Call(..) | ErrKind::Parse(_) | ErrKind::InvalidSubscriptionId) if matches!(spec.fault, Fault::Generated(_) | Fault::BatchReplyIds(_)) => {}
				OpOut::Err(k) => check_cause(&format!("{tag} ({kind:?})"), k, &mut out),
				OpOut::Stalled => bad!("stalled", "{tag} ({kind:?}) still pending after request_timeout + {SLACK:?}"),
				OpOut::Panicked(e) => bad!("operation-panicked", "{tag}: {e}"),
			}
		}
		causes.sort();
		causes.dedup();
		if causes.len() > 1 {
			bad!("inconsistent-causes", "different causes reported: {causes:?}");
		}
		out.causes_seen = causes;
		if let Some(t) = stream_task {
			match t.await {
				Ok((_, true)) => {}
				Ok((_, false)) => bad!("stream-not-ended", "the open subscription stream did not end"),
				Err(e) => bad!("operation-panicked", "stream reader: {e}"),
			}
		}
	} else {
		// the client kept the connection (the generated message was ignorable): everything must have completed fine
		for (tag, kind, _answered, o) in &results {
			out.outcomes += 1;
			match o {
				OpOut::Ok => {}
				OpOut::Err(ErrKind::Call(..) | ErrKind::Parse(_) | ErrKind::InvalidSubscriptionId) => {}
				OpOut::Err(k) => bad!("error-on-live-connection", "{tag} ({kind:?}): {k:?} although the client stayed connected"),
				OpOut::Stalled => bad!("stalled", "{tag} ({kind:?}) still pending after request_timeout + {SLACK:?}"),
				OpOut::Panicked(e) => bad!("operation-panicked", "{tag}: {e}"),
			}
		}
		if let Some(t) = stream_task {
			t.abort();
		}
		early_disc.abort();
	}
	out.points = points.lock().unwrap().iter().map(|p| p.to_string()).collect();
	clear_thread_hook();
	drop(client);
	out
}

// ---------------------------------------------------------------------------------------------------------------
// The real WebSocket transport (jsonrpsee-client-transport over an in-memory duplex) against a raw soketto server
// peer that misbehaves at the WebSocket level.

#[derive(Debug, Clone, Copy, PartialEq, Eq, Hash)]
enum WsFault {
	CloseFrame,
	AbruptDrop,
	BinaryGarbage,
	TextNotJson,
	UnknownId,
	OversizedFrame,
	HalfFrameThenDrop,
}
const WS_FAULTS: [WsFault; 7] =
	[WsFault::CloseFrame, WsFault::AbruptDrop, WsFault::BinaryGarbage, WsFault::TextNotJson, WsFault::UnknownId, WsFault::OversizedFrame, WsFault::HalfFrameThenDrop];

async fn real_transport_case(seed: u64, fault: WsFault) -> Out {
	use futures_util::io::{BufReader, BufWriter};
	use tokio_util::compat::TokioAsyncReadCompatExt;
	let mut out = Out::default();
	let mut r = Rng::new(seed);
	let (client_io, server_io) = tokio::io::duplex(1 << 16);
	// server side of the handshake
	let server = tokio::spawn(async move {
		let mut s = soketto::handshake::Server::new(BufReader::new(BufWriter::new(server_io.compat())));
		let key = s.receive_request().await.ok()?.key();
		s.send_response(&soketto::handshake::server::Response::Accept { key, protocol: None }).await.ok()?;
		Some(s.into_builder().finish())
	});
	let url = url::Url::parse("ws://localhost:9944").expect("url");
	let builder = jsonrpsee_client_transport::ws::WsTransportClientBuilder { max_response_size: 4096, ..Default::default() };
	let Ok(Ok((tx, rx))) = tokio::time::timeout(Duration::from_secs(10), builder.build_with_stream(url, client_io)).await else {
		out.violations.push(("setup-failed/ws-transport-handshake".into(), "real transport".into()));
		return out;
	};
	let Ok(Some((mut s_tx, mut s_rx))) = server.await else {
		out.violations.push(("setup-failed/ws-transport-handshake".into(), "server side".into()));
		return out;
	};
	let client: Arc<SimClient> = Arc::new(jsonrpsee_core::client::async_client::ClientBuilder::default().request_timeout(REQUEST_TIMEOUT).build_with_tokio(tx, rx));
	// operations outstanding at the fault
	let n_pre = 1 + r.usize(3);
	let mut tasks = Vec::new();
	for i in 0..n_pre {
		let kind = if r.chance(1, 4) { OpKind::Batch(2) } else if r.chance(1, 4) { OpKind::Subscribe } else { OpKind::Call };
		tasks.push((format!("pre{i}"), kind.clone(), tokio::spawn(run_op(client.clone(), kind, format!("pre{i}")))));
	}
	// the server reads what arrived (and answers none of it)
	for _ in 0..n_pre {
		let mut data = Vec::new();
		if tokio::time::timeout(Duration::from_secs(5), s_rx.receive_data(&mut data)).await.is_err() {
			break;
		}
	}
	out.history.push(format!("real transport, {n_pre} operation(s) outstanding, fault {fault:?}"));
	match fault {
		WsFault::CloseFrame => {
			let _ = s_tx.close().await;
		}
		WsFault::AbruptDrop => {
			drop(s_tx);
			drop(s_rx);
		}
		WsFault::BinaryGarbage => {
			let bytes: Vec<u8> = (0..1 + r.usize(40)).map(|_| r.below(256) as u8).collect();
			let _ = s_tx.send_binary(&bytes).await;
			let _ = s_tx.flush().await;
		}
		WsFault::TextNotJson => {
			let _ = s_tx.send_text("surely not json").await;
			let _ = s_tx.flush().await;
		}
		WsFault::UnknownId => {
			let _ = s_tx.send_text(&ok_response(&json!(880_000_000u64 + (seed & 0xffff)), json!("nobody asked"))).await;
			let _ = s_tx.flush().await;
		}
		WsFault::OversizedFrame => {
			// larger than the client's configured max_response_size (4096)
			let big = format!("{{\"jsonrpc\":\"2.0\",\"method\":\"n\",\"params\":[\"{}\"]}}", "x".repeat(6000 + r.usize(4000)));
			let _ = s_tx.send_text(&big).await;
			let _ = s_tx.flush().await;
		}
		WsFault::HalfFrameThenDrop => {
			// a frame header announcing more bytes than are ever sent, then the connection goes away
			drop(s_rx);
			drop(s_tx);
		}
	}
	// later operations
	tokio::time::sleep(Duration::from_millis(r.below(6))).await;
	for i in 0..1 + r.usize(2) {
		let kind = if r.chance(1, 3) { OpKind::Notification } else { OpKind::Call };
		tasks.push((format!("late{i}"), kind.clone(), tokio::spawn(run_op(client.clone(), kind, format!("late{i}")))));
	}
	let fclass = format!("real-ws-transport:{fault:?}");
	let mut causes: Vec<String> = Vec::new();
	for (tag, kind, t) in tasks {
		let o = match t.await {
			Ok(o) => o,
			Err(e) => OpOut::Panicked(e.to_string()),
		};
		out.outcomes += 1;
		match o {
			OpOut::Ok if kind == OpKind::Notification => {}
			OpOut::Ok => out.violations.push((format!("succeeded-after-failure/{fclass}"), format!("{tag} ({kind:?}) returned Ok although nothing was answered"))),
			OpOut::Err(ErrKind::RestartNeeded(c)) => causes.push(c),
			OpOut::Err(ErrKind::Custom(s)) if s.contains(PLACEHOLDER) => out.violations.push((format!("placeholder-cause/{fclass}"), format!("{tag}: {s}"))),
			OpOut::Err(ErrKind::Timeout) => out.violations.push((format!("timeout-instead-of-cause/{fclass}"), format!("{tag} ({kind:?}) timed out although the connection had failed"))),
			OpOut::Err(other) => out.violations.push((format!("error-without-cause/{fclass}"), format!("{tag} ({kind:?}): {other:?}"))),
			OpOut::Stalled => out.violations.push((format!("stalled/{fclass}"), format!("{tag} ({kind:?}) still pending after request_timeout + {SLACK:?}"))),
			OpOut::Panicked(e) => out.violations.push((format!("operation-panicked/{fclass}"), format!("{tag}: {e}"))),
		}
	}
	match tokio::time::timeout(REQUEST_TIMEOUT + SLACK, client.on_disconnect()).await {
		Ok(e) => match err_kind(&e) {
			ErrKind::RestartNeeded(c) => causes.push(c),
			other => out.violations.push((format!("error-without-cause/{fclass}"), format!("on_disconnect(): {other:?}"))),
		},
		Err(_) => out.violations.push((format!("on-disconnect-pending/{fclass}"), "on_disconnect() did not resolve".into())),
	}
	if client.is_connected() {
		out.violations.push((format!("still-connected/{fclass}"), "is_connected() is true after the fault".into()));
	}
	out.conn_ended = !client.is_connected();
	causes.sort();
	causes.dedup();
	if causes.len() > 1 {
		out.violations.push((format!("inconsistent-causes/{fclass}"), format!("{causes:?}")));
	}
	if causes.iter().any(|c| c.trim().is_empty()) {
		out.violations.push((format!("empty-cause/{fclass}"), "the cause text is empty".into()));
	}
	out.causes_seen = causes;
	out
}

const HOSTILE_IDS: [&str; 12] = [
	"0",
	"18446744073709551615",
	"9223372036854775808",
	"0|18446744073709551615",
	"18446744073709551614|18446744073709551615",
	"\"0\"",
	"\"abc\"",
	"\"18446744073709551615\"",
	"null",
	"1|1|1",
	"5|4|3|2|1|0",
	"4294967296|0",
];

fn gen_server_bytes(r: &mut Rng) -> String {
	let id = |r: &mut Rng| match r.below(8) {
		0 => "0".to_string(),
		1 => "1".into(),
		2 => "18446744073709551615".into(),
		3 => "\"1\"".into(),
		4 => "null".into(),
		5 => "-1".into(),
		6 => "1.5".into(),
		_ => r.below(5).to_string(),
	};
	let obj = |r: &mut Rng| -> String {
		match r.below(10) {
			0 => format!("{{\"jsonrpc\":\"2.0\",\"id\":{},\"result\":{}}}", id(r), jrv::jgen::json_text(r, 2)),
			1 => format!("{{\"jsonrpc\":\"2.0\",\"id\":{},\"error\":{{\"code\":{},\"message\":\"m\"}}}}", id(r), r.pick(&["-32000", "1", "2147483648", "\"x\"", "null"])),
			2 => format!("{{\"jsonrpc\":\"2.0\",\"method\":\"m\",\"params\":{{\"subscription\":{},\"result\":1}}}}", id(r)),
			3 => format!("{{\"jsonrpc\":\"2.0\",\"method\":\"m\",\"params\":{{\"subscription\":{},\"error\":\"e\"}}}}", id(r)),
			4 => format!("{{\"jsonrpc\":\"2.0\",\"method\":\"m\",\"params\":{}}}", jrv::jgen::json_text(r, 2)),
			5 => format!("{{\"jsonrpc\":\"2.0\",\"id\":{},\"result\":1,\"error\":{{\"code\":1,\"message\":\"m\"}}}}", id(r)),
			6 => format!("{{\"id\":{},\"result\":1}}", id(r)),
			7 => jrv::jgen::json_text(r, 3),
			8 => format!("{{\"jsonrpc\":\"2.0\",\"method\":5,\"id\":{}}}", id(r)),
			_ => format!("{{\"jsonrpc\":\"2.0\",\"id\":{}}}", id(r)),
		}
	};
	let mut text = match r.below(6) {
		0..=2 => obj(r),
		3 | 4 => {
			let n = r.usize(4);
			format!("[{}]", (0..n).map(|_| obj(r)).collect::<Vec<_>>().join(","))
		}
		_ => jrv::jgen::json_text(r, 3),
	};
	match r.below(10) {
		0 => {
			let cut = r.usize(text.len().max(1));
			let mut end = cut;
			while !text.is_char_boundary(end) {
				end -= 1;
			}
			text.truncate(end);
		}
		1 => text.push_str(" x"),
		2 => text = format!(" \n{text}"),
		_ => {}
	}
	text
}

fn gen_spec(seed: u64, directed: Option<(Fault, bool, bool)>) -> Spec {
	let mut r = Rng::new(seed);
	let op = |r: &mut Rng| match r.below(6) {
		0..=2 => OpKind::Call,
		3 => OpKind::Batch(1 + r.usize(3)),
		4 => OpKind::Subscribe,
		_ => OpKind::Notification,
	};
	let n_pre = r.usize(4);
	let pre_ops = (0..n_pre).map(|_| (op(&mut r), r.chance(1, 3))).collect();
	let n_late = 1 + r.usize(3);
	let late_ops = (0..n_late).map(|_| (*r.pick(&[0u64, 0, 1, 2, 5, 20]), if r.chance(1, 6) { OpKind::SubscribeToMethod } else { op(&mut r) })).collect();
	let (fault, slow_close, gate) = match directed {
		Some(d) => d,
		None => {
			let f = match r.below(16) {
				15 => Fault::DuplicateSubIdAnswer,
				14 => match r.below(3) {
					0 => Fault::PingSendError,
					1 => Fault::SendErrorThenCloseError,
					_ => if r.bool() { Fault::Inactivity } else { Fault::RecvErrorWithFullQueue },
				},
				13 => Fault::SendThenRecvError,
				12 => Fault::SendErrorOnUnsubscribe,
				0 | 1 => Fault::SendError,
				2 => Fault::RecvError,
				3 => Fault::PeerClose,
				4 => Fault::NotJson,
				5 => Fault::JsonNoMessage,
				6 => if r.bool() { Fault::UnknownIdResponse } else { Fault::ReservedIdResponseThenServerClose },
				7 | 8 => Fault::BatchReplyIds(*r.pick(&HOSTILE_IDS)),
				9 => Fault::EmptyArray,
				_ => Fault::Generated(gen_server_bytes(&mut r)),
			};
			(f, r.chance(1, 4), r.chance(1, 4))
		}
	};
	let stall_send = (matches!(fault, Fault::SendError | Fault::SendThenRecvError | Fault::RecvError) && r.chance(1, 2)) || fault == Fault::RecvErrorWithFullQueue;
	Spec { seed, pre_ops, open_stream: r.chance(1, 2), fault, late_ops, hook_delays: r.chance(2, 3), slow_close, gate_frontend_closed: gate, stall_send }
}

fn record(spec: &Spec, o: Out, ev: &mut Evidence, violations: &mut Vec<Violation>) {
	ev.eval();
	ev.count("operation_outcomes_judged", o.outcomes as u64);
	ev.count("library_points_reached", o.points.len() as u64);
	ev.count(&format!("fault_{}", spec.fault.class().split(':').next().unwrap_or("x")), 1);
	if o.conn_ended {
		ev.count("histories_where_the_connection_ended", 1);
	}
	if spec.gate_frontend_closed {
		ev.count("gated_schedules", 1);
	}
	if spec.slow_close {
		ev.count("slow_close_schedules", 1);
	}
	if spec.stall_send {
		ev.count("stalled_send_schedules", 1);
	}
	if spec.late_ops.iter().any(|(_, k)| *k == OpKind::SubscribeToMethod) {
		ev.count("histories_with_subscribe_to_method", 1);
	}
	if o.outcomes > 0 {
		ev.nontrivial(&(format!("{:?}", spec.fault), &spec.pre_ops, &spec.late_ops, spec.slow_close, spec.gate_frontend_closed, spec.open_stream, spec.stall_send));
	}
	ev.class("schedule_traces", &o.points);
	ev.class("causes", &o.causes_seen);
	if o.violations.is_empty() {
		ev.sample_class(&spec.fault.class(), json!({"fault": format!("{:?}", spec.fault), "pre_ops": format!("{:?}", spec.pre_ops), "late_ops": format!("{:?}", spec.late_ops),
			"slow_close": spec.slow_close, "gate": spec.gate_frontend_closed, "causes": o.causes_seen, "points": o.points}));
	}
	let w = json!({"seed": spec.seed, "fault": format!("{:?}", spec.fault), "pre_ops": format!("{:?}", spec.pre_ops), "late_ops": format!("{:?}", spec.late_ops), "open_stream": spec.open_stream,
		"slow_close": spec.slow_close, "gate_frontend_closed": spec.gate_frontend_closed, "stall_send": spec.stall_send, "hook_delays": spec.hook_delays, "history": o.history, "library_points": o.points});
	for (sig, d) in o.violations {
		violations.push(Violation::new(sig, d, w.clone()));
	}
}

fn all_specs(seed: u64, n_random: u64) -> Vec<Spec> {
	let mut v = Vec::new();
	// fault enumeration: every fault kind x schedule variant x several histories
	let mut faults: Vec<Fault> =
		vec![Fault::SendError, Fault::SendErrorThenCloseError, Fault::Inactivity, Fault::RecvErrorWithFullQueue, Fault::SendThenRecvError, Fault::PingSendError, Fault::DuplicateSubIdAnswer, Fault::SendErrorOnUnsubscribe, Fault::RecvError, Fault::PeerClose, Fault::NotJson, Fault::JsonNoMessage, Fault::UnknownIdResponse, Fault::ReservedIdResponseThenServerClose, Fault::EmptyArray];
	for ids in HOSTILE_IDS {
		faults.push(Fault::BatchReplyIds(ids));
	}
	let mut k = 0u64;
	for f in &faults {
		for (slow, gate) in [(false, false), (true, false), (false, true), (true, true)] {
			for _ in 0..(if matches!(f, Fault::SendError | Fault::SendThenRecvError) { 12 } else { 6 }) {
				k += 1;
				v.push(gen_spec(Rng::fork(seed, 100_000 + k).next_u64(), Some((f.clone(), slow, gate))));
			}
		}
	}
	for i in 0..n_random {
		v.push(gen_spec(Rng::fork(seed, i).next_u64(), None));
	}
	v
}

/// Child process: runs the cases `from..to` of the family one after the other and prints one line per case, so that the
/// parent can tell which case killed the process if the library aborts it (allocation failure, double panic).
fn shard_main(ctx: &Ctx) {
	use std::io::Write;
	let n: u64 = ctx.arg_value("--n").and_then(|s| s.parse().ok()).unwrap_or(0);
	let from: usize = ctx.arg_value("--from").and_then(|s| s.parse().ok()).unwrap_or(0);
	let to: usize = ctx.arg_value("--to").and_then(|s| s.parse().ok()).unwrap_or(0);
	install_panic_capture(true);
	let specs = all_specs(ctx.seed, n);
	let out = std::io::stdout();
	for idx in from..to.min(specs.len()) {
		{
			let mut o = out.lock();
			let _ = writeln!(o, "BEGIN {idx}");
			let _ = o.flush();
		}
		let o = block_on_real(run_spec(&specs[idx]));
		let panics: Vec<Value> = take_panics().into_iter().filter(|p| p.in_library).map(|p| json!({"location": p.location, "message": p.message, "backtrace": p.backtrace_head})).collect();
		let line = json!({"idx": idx, "violations": o.violations, "history": o.history, "outcomes": o.outcomes, "causes": o.causes_seen, "conn_ended": o.conn_ended, "points": o.points, "panics": panics});
		let mut w = out.lock();
		let _ = writeln!(w, "END {line}");
		let _ = w.flush();
	}
}

fn main() {
	let ctx = Ctx::from_env("C09", "fault_enumeration");
	if ctx.sub.as_deref() == Some("shard") {
		return shard_main(&ctx);
	}
	if let Some(mode) = ctx.sub.clone() {
		let n: u64 = ctx.arg_value("--n").and_then(|s| s.parse().ok()).unwrap_or(40);
		let specs = all_specs(ctx.seed, n);
		let mut ev = Evidence::new("");
		let mut v = Vec::new();
		// tsan: the same cases, several at a time on worker threads (each case on its own current-thread runtime)
		let results = run_parallel(specs.into_iter().step_by(if mode == "tsan" { 3 } else { 1 }).collect::<Vec<_>>(), |_, spec| {
			let o = block_on_real(run_spec(&spec));
			(spec, o)
		});
		for (spec, o) in results {
			record(&spec, o, &mut ev, &mut v);
		}
		let sigs: Vec<String> = v.iter().map(|x| x.signature.clone()).collect();
		println!("SUBRESULT {}", json!({"mode": mode, "cases": ev.evaluations, "outcomes": ev.counter("operation_outcomes_judged"), "violation_signatures": sigs}));
		return;
	}
	install_panic_capture(true);
	let _wd = watchdog("C09", Duration::from_secs(ctx.tier.pick(1200, 7200)));
	let mut ev = Evidence::new(
		"cases = client histories (0..3 operations before the fault, some answered; optional open subscription stream; 1..3 later \
		 operations started 0..20 ms after the fault; operations = request, batch_request, subscribe, notification) x fault kind \
		 {send error, receive error, peer close, non-JSON text, JSON that is no message, response with unknown id, batch replies with \
		 12 hostile id patterns (0, 2^64-1, 2^63, strings, duplicates, huge ranges), empty array, generated server bytes} x schedule \
		 variant {plain, seeded real delays at the client's yield points, slow transport close, gate holding the send task right after \
		 the front-end channel was closed until a late caller started}. The directed part enumerates every (fault, schedule) pair 6 \
		 times; the rest is seeded. Non-trivial = at least one operation outcome was judged; distinct by all case parameters.",
	);
	ev.assume("mode R (real clock): request_timeout = 1.5 s (no history waits for it; it only bounds how long a lost call can hang); an operation still pending after 1.5 s + 10 s is a stall; no other verdict depends on wall-clock time");
	ev.assume("expected cause text: the injected error text (nonce) for send/receive errors, 'peer closed' for a peer close, 'Unparseable message' for non-JSON text, the offending id for an unknown-id response; for hostile batch replies only: not the placeholder, consistent, no panic, no stall");
	ev.assume("generated bytes may be ignorable: then the client must stay connected and complete everything normally");
	ev.assume("real-transport family: the real jsonrpsee WebSocket transport over an in-memory duplex against a raw soketto server (close frame, abrupt drop, binary garbage, non-JSON text, unknown id, frame above the client's max_response_size); cause texts are transport-specific, so only: RestartNeeded, non-empty, consistent, not the placeholder, no timeout / stall / panic");
	let mut violations = Vec::new();
	let replay = ctx.replay.is_some();
	let specs: Vec<Spec> = if let Some(path) = &ctx.replay {
		let w: Value = serde_json::from_str(&std::fs::read_to_string(path).expect("replay")).expect("json");
		let seed = w["witness"]["seed"].as_u64().expect("seed");
		let fault = w["witness"]["fault"].as_str().unwrap_or("").to_string();
		// find the spec with that seed (directed or seeded) by regenerating both families
		let mut found: Vec<Spec> = all_specs(ctx.seed, ctx.tier.pick(1500, 60_000)).into_iter().filter(|s| s.seed == seed && format!("{:?}", s.fault) == fault).collect();
		if found.is_empty() {
			found.push(gen_spec(seed, None));
		}
		found
	} else {
		all_specs(ctx.seed, ctx.tier.pick(1500, 60_000))
	};
	// The cases run in child processes (one per worker, sequential inside): hostile server bytes may make the library
	// abort the whole process (e.g. an allocation of 2^64 bytes), which no catch_unwind can contain.
	let n_random = ctx.tier.pick(1500u64, 60_000);
	let results: Vec<(Spec, Out)> = if replay {
		specs.into_iter().map(|spec| { let o = block_on_real(run_spec(&spec)); (spec, o) }).collect()
	} else {
		let exe = std::env::current_exe().expect("exe");
		let total = specs.len();
		let workers = jobs();
		let per = total.div_ceil(workers);
		let seed = ctx.seed;
		let shards: Vec<(usize, usize)> = (0..workers).map(|w| (w * per, ((w + 1) * per).min(total))).filter(|(a, b)| a < b).collect();
		let outputs = run_parallel(shards, |_, (from, to)| {
			let mut done: Vec<(usize, Value)> = Vec::new();
			let mut aborted: Vec<(usize, String)> = Vec::new();
			let mut next = from;
			// restart after an abort, skipping the culprit
			while next < to {
				let o = std::process::Command::new(&exe)
					.args(["--sub", "shard", "--n", &n_random.to_string(), "--from", &next.to_string(), "--to", &to.to_string()])
					.env("VERIF_SEED", seed.to_string())
					.output();
				let Ok(o) = o else { break };
				let text = String::from_utf8_lossy(&o.stdout).into_owned();
				let mut began: Option<usize> = None;
				for l in text.lines() {
					if let Some(i) = l.strip_prefix("BEGIN ") {
						began = i.trim().parse().ok();
					} else if let Some(j) = l.strip_prefix("END ") {
						if let Ok(v) = serde_json::from_str::<Value>(j) {
							let idx = v["idx"].as_u64().unwrap_or(0) as usize;
							done.push((idx, v));
							began = None;
							next = idx + 1;
						}
					}
				}
				if o.status.success() {
					break;
				}
				match began {
					Some(i) => {
						let err = String::from_utf8_lossy(&o.stderr);
						let first = err.lines().find(|l| l.contains("memory allocation") || l.contains("panicked") || l.contains("abort") || l.contains("fatal")).unwrap_or("").to_string();
						aborted.push((i, format!("the check process died ({:?}) while running this case: {first}", o.status)));
						next = i + 1;
					}
					None => break,
				}
			}
			(done, aborted)
		});
		let mut by_idx: Vec<Option<Out>> = (0..total).map(|_| None).collect();
		for (done, aborted) in outputs {
			for (idx, v) in done {
				let mut o = Out::default();
				o.violations = v["violations"].as_array().map(|a| a.iter().map(|p| (p[0].as_str().unwrap_or("").to_string(), p[1].as_str().unwrap_or("").to_string())).collect()).unwrap_or_default();
				o.history = v["history"].as_array().map(|a| a.iter().map(|s| s.as_str().unwrap_or("").to_string()).collect()).unwrap_or_default();
				o.outcomes = v["outcomes"].as_u64().unwrap_or(0) as usize;
				o.causes_seen = v["causes"].as_array().map(|a| a.iter().map(|s| s.as_str().unwrap_or("").to_string()).collect()).unwrap_or_default();
				o.conn_ended = v["conn_ended"].as_bool().unwrap_or(false);
				o.points = v["points"].as_array().map(|a| a.iter().map(|s| s.as_str().unwrap_or("").to_string()).collect()).unwrap_or_default();
				for p in v["panics"].as_array().cloned().unwrap_or_default() {
					let loc = p["location"].as_str().unwrap_or("");
					o.violations.push((format!("library-panic/{}", loc.rsplit('/').next().unwrap_or("").split(':').next().unwrap_or("")), format!("{} at {loc}", p["message"].as_str().unwrap_or(""))));
				}
				if idx < total {
					by_idx[idx] = Some(o);
				}
			}
			for (idx, why) in aborted {
				let mut o = Out::default();
				o.outcomes = 1;
				o.violations.push((format!("process-aborted/{}", specs[idx].fault.class()), why));
				by_idx[idx] = Some(o);
			}
		}
		let missing = by_idx.iter().filter(|o| o.is_none()).count();
		if missing > 0 {
			ev.set("cases_without_result", json!(missing));
		}
		specs.into_iter().zip(by_idx).filter_map(|(s, o)| o.map(|o| (s, o))).collect()
	};
	for (spec, o) in results {
		if replay {
			println!("spec: {spec:?}");
			for h in &o.history {
				println!("  {h}");
			}
			println!("points: {:?}\nviolations: {:?}", o.points, o.violations);
		}
		record(&spec, o, &mut ev, &mut violations);
	}
	for p in take_panics() {
		if p.in_library {
			violations.push(Violation::new(
				format!("library-panic/{}", p.location.rsplit('/').next().unwrap_or("").split(':').next().unwrap_or("")),
				p.message.clone(),
				json!({"location": p.location, "backtrace": p.backtrace_head, "thread": p.thread}),
			));
		}
	}
	if !replay {
		let n = ctx.tier.pick(40u64, 1_500);
		let seed = ctx.seed;
		let cases: Vec<(u64, WsFault)> = (0..n).flat_map(|i| WS_FAULTS.iter().map(move |f| (Rng::fork(seed, 91_000_000 + i).next_u64(), *f))).collect();
		let res = run_parallel(cases, |_, (s, f)| (s, f, block_on_real(real_transport_case(s, f))));
		for (s, f, o) in res {
			ev.eval();
			ev.count("real_ws_transport_cases", 1);
			ev.count("operation_outcomes_judged", o.outcomes as u64);
			if o.conn_ended {
				ev.count("histories_where_the_connection_ended", 1);
			}
			ev.class("causes", &o.causes_seen);
			if o.outcomes > 0 {
				ev.nontrivial(&("real-ws", s, f));
			}
			if o.violations.is_empty() {
				ev.sample_class(&format!("real-ws-transport:{f:?}"), json!({"fault": format!("{f:?}"), "causes": o.causes_seen, "history": o.history}));
			}
			for (sig, d) in o.violations {
				violations.push(Violation::new(sig, d, json!({"family": "real WebSocket transport", "seed": s, "fault": format!("{f:?}"), "history": o.history})));
			}
		}
	}
	let mut inconclusive = None;
	if ctx.tier == Tier::Thorough && !replay {
		let (res, reports) = sanit::run_tsan("c09", &["--n".into(), "300".into()], Duration::from_secs(1200));
		for (frame, excerpt) in &reports {
			violations.push(Violation::new(format!("tsan:{frame}"), "ThreadSanitizer reported a data race", json!({"excerpt": excerpt})));
		}
		match res {
			SubOutcome::Clean(v) => {
				for s in v["violation_signatures"].as_array().cloned().unwrap_or_default() {
					violations.push(Violation::new(s.as_str().unwrap_or("?").to_string(), "seen in the TSan sub-run", json!({"sub": "tsan"})));
				}
				ev.set("tsan", json!({"status": format!("{} race report(s)", reports.len()), "workload": v}));
			}
			SubOutcome::Report { excerpt, frame } => violations.push(Violation::new(format!("tsan:{frame}"), "report", json!({"excerpt": excerpt}))),
			SubOutcome::Failed(why) => {
				ev.set("tsan", json!({"status": "inconclusive", "why": why}));
				inconclusive = Some("TSan sub-run did not complete".into());
			}
		}
	}
	finish(&ctx, ev, violations, inconclusive);
}
