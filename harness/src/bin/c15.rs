//! C15 — Wire types: serialise/parse round-trips; only valid JSON-RPC 2.0 is emitted; response parser acceptance
//! predicate; error code <-> kind maps.
//!
//! Three monitors over `serde_json::to_string` / `from_str` on the public `jsonrpsee_types` types:
//!
//! (i)   round trip: for generated `Request`, `Notification`, `Response<Value>` / `Response<Box<RawValue>>` (success and
//!       error), `ErrorObject` (with/without data), `Id`, `SubscriptionId`, `SubscriptionResponse` / `SubscriptionError`:
//!       `parse(serialize(x)) == x` and `serialize(parse(serialize(x)))` byte-equal; every emitted text is additionally
//!       checked by a strict, duplicate-aware validator written from the JSON-RPC 2.0 message grammar (jsonrpc "2.0",
//!       response has its id and exactly one of result/error, no unexpected member) and against the values the
//!       message was built from.
//! (ii)  acceptance predicate of the response parser, computed on the *member list* the text was built from:
//!       accept <=> id present once and in {null, u64, string} /\ exactly one of result/error (error well-formed)
//!       /\ jsonrpc in {absent, null, "2.0"} /\ no duplicate known member. Duplicated *unknown* members: either verdict.
//!       All sequences up to length 4 (quick) / 5 (thorough) over a 26-member alphabet, plus seeded random sequences
//!       with generated ids/payloads/escape spellings/whitespace.
//! (iii) `ErrorCode::from(c).code() == c` for codes (thorough: all 2^32) and `ErrorCode::from(k.code()) == k` for every
//!       defined kind, plus the code each kind must have on the wire.
//!
//! No f64 is compared after a re-parse: typed (`Value`) payloads are float-free; arbitrary number tokens only travel
//! as `RawValue` and are compared as text.

use jrv::jgen;
use jrv::report::*;
use jrv::rng::Rng;
use jrv::runner::*;
use jrv::sanit::{self, SubOutcome};
use jsonrpsee_types::response::{SubscriptionError, SubscriptionPayloadError};
use jsonrpsee_types::{
	ErrorCode, ErrorObject, Id, Notification, Request, Response, ResponsePayload, SubscriptionId, SubscriptionPayload,
	SubscriptionResponse, TwoPointZero,
};
use serde::de::{Deserializer, MapAccess, Visitor};
use serde::{Deserialize, Serialize};
use serde_json::value::RawValue;
use serde_json::{Value, json};
use std::borrow::Cow;
use std::collections::HashMap;
use std::fmt;
use std::panic::{AssertUnwindSafe, catch_unwind};
use std::time::Duration;

// ---------------------------------------------------------------------------------------------------------------
// Violation sink with a per-signature cap (a broad break would otherwise allocate millions of witnesses).

const PER_SIG_CAP: u32 = 40;

#[derive(Default)]
struct Sink {
	v: Vec<Violation>,
	per: HashMap<String, u32>,
}

impl Sink {
	fn push(&mut self, sig: String, detail: String, witness: impl FnOnce() -> Value) {
		let n = self.per.entry(sig.clone()).or_insert(0);
		*n += 1;
		if *n <= PER_SIG_CAP {
			self.v.push(Violation::new(sig, detail, witness()));
		}
	}
}

// ---------------------------------------------------------------------------------------------------------------
// Duplicate-aware view of a JSON object: the ordered member list with raw value texts.

struct Members(Vec<(String, Box<RawValue>)>);

impl<'de> Deserialize<'de> for Members {
	fn deserialize<D: Deserializer<'de>>(d: D) -> Result<Self, D::Error> {
		struct V;
		impl<'de> Visitor<'de> for V {
			type Value = Members;
			fn expecting(&self, f: &mut fmt::Formatter) -> fmt::Result {
				f.write_str("a JSON object")
			}
			fn visit_map<A: MapAccess<'de>>(self, mut m: A) -> Result<Members, A::Error> {
				let mut out = Vec::new();
				while let Some(k) = m.next_key::<String>()? {
					let v: Box<RawValue> = m.next_value()?;
					out.push((k, v));
				}
				Ok(Members(out))
			}
		}
		d.deserialize_map(V)
	}
}

impl Members {
	fn get(&self, k: &str) -> Option<&str> {
		self.0.iter().find(|(n, _)| n == k).map(|(_, v)| v.get())
	}
}

fn json_kind(raw: &str) -> &'static str {
	match raw.trim_start().as_bytes().first() {
		Some(b'{') => "object",
		Some(b'[') => "array",
		Some(b'"') => "string",
		Some(b't') | Some(b'f') => "bool",
		Some(b'n') => "null",
		Some(_) => "number",
		None => "empty",
	}
}

type Faults = Vec<(String, String)>;

/// Parse `text` as an object; check: no duplicate member, only `allowed` members, all `required` present and, when
/// `v2` is set, member jsonrpc is exactly the string "2.0".
fn envelope(text: &str, allowed: &[&str], required: &[&str], v2: bool, out: &mut Faults) -> Option<Members> {
	let m: Members = match serde_json::from_str(text) {
		Ok(m) => m,
		Err(e) => {
			out.push(("not-a-json-object".into(), format!("{e}")));
			return None;
		}
	};
	for (i, (k, _)) in m.0.iter().enumerate() {
		if m.0[..i].iter().any(|(k2, _)| k2 == k) {
			out.push((format!("duplicate-member:{}", if allowed.contains(&k.as_str()) { k.as_str() } else { "other" }), format!("member {k:?} twice")));
		}
		if !allowed.contains(&k.as_str()) {
			out.push(("unexpected-member".into(), format!("member {k:?} is not part of this message kind")));
		}
	}
	for k in required {
		if m.get(k).is_none() {
			out.push((format!("missing-member:{k}"), format!("member {k:?} missing")));
		}
	}
	if v2 {
		if let Some(j) = m.get("jsonrpc") {
			if j != "\"2.0\"" {
				out.push(("jsonrpc-not-2.0".into(), format!("jsonrpc member is {j}")));
			}
		}
	}
	Some(m)
}

fn expect_string(raw: Option<&str>, want: &str, what: &str, out: &mut Faults) {
	let Some(raw) = raw else { return };
	match serde_json::from_str::<String>(raw) {
		Ok(s) if s == want => {}
		Ok(s) => out.push((format!("{what}-mismatch"), format!("{what} emitted as {s:?}, built from {want:?}"))),
		Err(_) => out.push((format!("{what}-not-a-string"), format!("{what} emitted as {raw}"))),
	}
}

// ---------------------------------------------------------------------------------------------------------------
// Case specifications (plain data; the witness of a round-trip violation is the spec, `--replay` rebuilds from it).

#[derive(Clone, Debug, Serialize, Deserialize, Hash, PartialEq)]
enum IdSpec {
	Null,
	Num(u64),
	Str(String),
}

impl IdSpec {
	fn build(&self) -> Id<'_> {
		match self {
			IdSpec::Null => Id::Null,
			IdSpec::Num(n) => Id::Number(*n),
			IdSpec::Str(s) => Id::Str(Cow::Borrowed(s.as_str())),
		}
	}
	fn value(&self) -> Value {
		match self {
			IdSpec::Null => Value::Null,
			IdSpec::Num(n) => json!(n),
			IdSpec::Str(s) => json!(s),
		}
	}
	fn class(&self) -> &'static str {
		match self {
			IdSpec::Null => "null",
			IdSpec::Num(_) => "num",
			IdSpec::Str(_) => "str",
		}
	}
}

#[derive(Clone, Debug, Serialize, Deserialize, Hash, PartialEq)]
enum SubIdSpec {
	Num(u64),
	Str(String),
}

impl SubIdSpec {
	fn build(&self) -> SubscriptionId<'_> {
		match self {
			SubIdSpec::Num(n) => SubscriptionId::Num(*n),
			SubIdSpec::Str(s) => SubscriptionId::Str(Cow::Borrowed(s.as_str())),
		}
	}
	fn value(&self) -> Value {
		match self {
			SubIdSpec::Num(n) => json!(n),
			SubIdSpec::Str(s) => json!(s),
		}
	}
	fn class(&self) -> &'static str {
		match self {
			SubIdSpec::Num(_) => "num",
			SubIdSpec::Str(_) => "str",
		}
	}
}

/// The emitted form of an id must be null / a digits-only number / a string, and denote the value it was built from.
fn expect_id(raw: Option<&str>, want: &Value, what: &str, out: &mut Faults) {
	let Some(raw) = raw else { return };
	let ok_form = match json_kind(raw) {
		"null" | "string" => true,
		"number" => raw.bytes().all(|b| b.is_ascii_digit()),
		_ => false,
	};
	if !ok_form {
		out.push((format!("{what}-not-in-id-domain"), format!("{what} emitted as {raw}")));
		return;
	}
	match serde_json::from_str::<Value>(raw) {
		Ok(v) if v == *want => {}
		_ => out.push((format!("{what}-mismatch"), format!("{what} emitted as {raw}, built from {want}"))),
	}
}

#[derive(Clone, Debug, Serialize, Deserialize, Hash, PartialEq)]
enum ErrSpec {
	/// `ErrorObject::owned(code, message, data as Value)`; data text is float-free compact JSON
	Owned { code: i32, message: String, data: Option<String> },
	/// `ErrorObject::borrowed(code, &message, data as &RawValue)`; data text is arbitrary JSON text
	Borrowed { code: i32, message: String, data: Option<String> },
	/// `ErrorObject::from(kind)`
	Kind(String),
}

struct ErrExpect {
	code: i32,
	message: String,
	data: Option<String>,
}

impl ErrSpec {
	fn raw(&self) -> Option<Box<RawValue>> {
		match self {
			ErrSpec::Borrowed { data: Some(d), .. } => Some(RawValue::from_string(d.clone()).expect("generated data is JSON")),
			_ => None,
		}
	}
	fn build<'a>(&'a self, raw: &'a Option<Box<RawValue>>) -> ErrorObject<'a> {
		match self {
			ErrSpec::Owned { code, message, data } => {
				let v: Option<Value> = data.as_ref().map(|d| serde_json::from_str(d).expect("generated data is JSON"));
				ErrorObject::owned(*code, message.clone(), v)
			}
			ErrSpec::Borrowed { code, message, .. } => ErrorObject::borrowed(*code, message.as_str(), raw.as_deref()),
			ErrSpec::Kind(name) => ErrorObject::from(kind_by_name(name)),
		}
	}
	fn expect(&self) -> ErrExpect {
		match self {
			ErrSpec::Owned { code, message, data } | ErrSpec::Borrowed { code, message, data } => {
				ErrExpect { code: *code, message: message.clone(), data: data.clone() }
			}
			ErrSpec::Kind(name) => {
				let k = kind_by_name(name);
				ErrExpect { code: k.code(), message: k.message().to_string(), data: None }
			}
		}
	}
	fn data_class(&self) -> String {
		match self.expect().data {
			None => "absent".into(),
			Some(d) => json_kind(&d).into(),
		}
	}
}

fn validate_error_text(text: &str, exp: &ErrExpect, out: &mut Faults) {
	let Some(m) = envelope(text, &["code", "message", "data"], &["code", "message"], false, out) else { return };
	if let Some(c) = m.get("code") {
		if c != exp.code.to_string() {
			out.push(("error-code-mismatch".into(), format!("code emitted as {c}, built from {}", exp.code)));
		}
	}
	expect_string(m.get("message"), &exp.message, "error-message", out);
	match (m.get("data"), &exp.data) {
		(None, None) => {}
		(Some(a), Some(b)) if a == b => {}
		(a, b) => out.push(("error-data-mismatch".into(), format!("data emitted as {a:?}, built from {b:?}"))),
	}
}

#[derive(Clone, Debug, Serialize, Deserialize, Hash, PartialEq)]
enum Spec {
	Id(IdSpec),
	SubId(SubIdSpec),
	/// params: absent or a structured (array/object) JSON text, kept as RawValue
	Request { id: IdSpec, method: String, params: Option<String>, owned: bool },
	/// params: structured JSON text; typed = Notification<Value> (float-free text), else Notification<Box<RawValue>>
	Notification { method: String, params: String, typed: bool },
	/// result: JSON text; typed = Response<Value> (float-free text), else Response<Box<RawValue>>;
	/// v2 = built by `Response::new` (jsonrpc "2.0"), else the field is None (as parsed from a peer that omits it)
	ResponseOk { id: IdSpec, result: String, typed: bool, v2: bool },
	ResponseErr { id: IdSpec, err: ErrSpec, typed: bool, v2: bool },
	Error(ErrSpec),
	SubResponse { method: String, sub: SubIdSpec, result: String, typed: bool },
	SubError { method: String, sub: SubIdSpec, error: String, typed: bool },
}

impl Spec {
	fn type_name(&self) -> &'static str {
		match self {
			Spec::Id(_) => "id",
			Spec::SubId(_) => "subscription-id",
			Spec::Request { .. } => "request",
			Spec::Notification { .. } => "notification",
			Spec::ResponseOk { .. } => "response-success",
			Spec::ResponseErr { .. } => "response-error",
			Spec::Error(_) => "error-object",
			Spec::SubResponse { .. } => "subscription-response",
			Spec::SubError { .. } => "subscription-error",
		}
	}
}

/// Payload types the generic wrappers are instantiated with.
trait Payload: Clone + Serialize + for<'de> Deserialize<'de> {
	fn from_text(t: &str) -> Self;
	fn same(&self, o: &Self) -> bool;
	fn show(&self) -> String;
}
impl Payload for Value {
	fn from_text(t: &str) -> Self {
		serde_json::from_str(t).expect("generated payload is JSON")
	}
	fn same(&self, o: &Self) -> bool {
		self == o
	}
	fn show(&self) -> String {
		self.to_string()
	}
}
impl Payload for Box<RawValue> {
	fn from_text(t: &str) -> Self {
		RawValue::from_string(t.to_string()).expect("generated payload is JSON")
	}
	fn same(&self, o: &Self) -> bool {
		self.get() == o.get()
	}
	fn show(&self) -> String {
		self.get().to_string()
	}
}

// ---------------------------------------------------------------------------------------------------------------
// Error kinds: every variant of `ErrorCode`, and the code each must carry on the wire.
// The five standard kinds come from the JSON-RPC 2.0 specification (section 5.1); the two implementation-defined
// ones are jsonrpsee's published protocol constants (documented in types/src/error.rs) and must lie in the
// specification's server-error band -32000..=-32099.

const NAMED_KINDS: [(ErrorCode, i32); 7] = [
	(ErrorCode::ParseError, -32700),
	(ErrorCode::OversizedRequest, -32007),
	(ErrorCode::InvalidRequest, -32600),
	(ErrorCode::MethodNotFound, -32601),
	(ErrorCode::ServerIsBusy, -32009),
	(ErrorCode::InvalidParams, -32602),
	(ErrorCode::InternalError, -32603),
];

/// Exhaustive match without wildcard: a variant added to `ErrorCode` stops the build (harness error) until
/// `NAMED_KINDS` is extended, so "every defined kind" stays true.
fn variant_name(k: &ErrorCode) -> &'static str {
	match k {
		ErrorCode::ParseError => "ParseError",
		ErrorCode::OversizedRequest => "OversizedRequest",
		ErrorCode::InvalidRequest => "InvalidRequest",
		ErrorCode::MethodNotFound => "MethodNotFound",
		ErrorCode::ServerIsBusy => "ServerIsBusy",
		ErrorCode::InvalidParams => "InvalidParams",
		ErrorCode::InternalError => "InternalError",
		ErrorCode::ServerError(_) => "ServerError",
	}
}

fn kind_by_name(name: &str) -> ErrorCode {
	NAMED_KINDS.iter().map(|(k, _)| *k).find(|k| variant_name(k) == name).unwrap_or(ErrorCode::ServerError(-32050))
}

fn code_bucket(c: i32) -> String {
	if let Some((k, _)) = NAMED_KINDS.iter().find(|(_, pinned)| *pinned == c) {
		return format!("code-of-{}", variant_name(k));
	}
	if (-32099..=-32000).contains(&c) {
		"server-error-band".into()
	} else if (-32768..=-32000).contains(&c) {
		"reserved-band".into()
	} else {
		"application-code".into()
	}
}

/// code -> kind -> code for one integer.
fn check_code(c: i32, sink: &mut Sink) {
	let r = catch_unwind(|| {
		let k = ErrorCode::from(c);
		(k, k.code())
	});
	match r {
		Ok((_, back)) if back == c => {}
		Ok((k, back)) => sink.push(
			format!("code-roundtrip/{}", code_bucket(c)),
			format!("ErrorCode::from({c}) = {k:?}, whose code() is {back}"),
			|| json!({"part": "code", "code": c, "kind": format!("{k:?}"), "back": back}),
		),
		Err(_) => sink.push(format!("panic/code-map/{}", code_bucket(c)), format!("ErrorCode::from({c}).code() panicked"), || {
			json!({"part": "code", "code": c})
		}),
	}
}

/// kind -> code -> kind for every defined kind; returns the number of kinds examined.
fn check_kinds(sink: &mut Sink, ev: &mut Evidence, server_error_samples: &[i32]) -> u64 {
	let mut n = 0;
	for (k, pinned) in NAMED_KINDS {
		let name = variant_name(&k);
		n += 1;
		ev.eval();
		ev.nontrivial(&("kind", name));
		let r = catch_unwind(|| (k.code(), ErrorCode::from(k.code())));
		match r {
			Err(_) => sink.push(format!("panic/kind-map/{name}"), "code()/from() panicked".into(), || json!({"part": "kind", "kind": name})),
			Ok((code, back)) => {
				if code != pinned {
					sink.push(
						format!("kind-code/{name}"),
						format!("ErrorCode::{name}.code() = {code}, the wire code of this kind is {pinned}"),
						|| json!({"part": "kind", "kind": name, "code": code, "expected_code": pinned}),
					);
				}
				if back != k {
					sink.push(
						format!("kind-roundtrip/{name}"),
						format!("ErrorCode::{name}.code() = {code}, ErrorCode::from({code}) = {back:?} (not {name})"),
						|| json!({"part": "kind", "kind": name, "code": code, "back": format!("{back:?}")}),
					);
				}
			}
		}
	}
	// the open-ended kind: ServerError(c) for codes that are not the code of a named kind
	for &c in server_error_samples {
		if NAMED_KINDS.iter().any(|(k, p)| *p == c || k.code() == c) {
			continue;
		}
		n += 1;
		ev.eval();
		let k = ErrorCode::ServerError(c);
		let back = ErrorCode::from(k.code());
		if back != k {
			sink.push(
				format!("kind-roundtrip/ServerError/{}", code_bucket(c)),
				format!("ServerError({c}).code() = {}, mapped back to {back:?}", k.code()),
				|| json!({"part": "kind", "kind": "ServerError", "code": c, "back": format!("{back:?}")}),
			);
		}
	}
	n
}

// ---------------------------------------------------------------------------------------------------------------
// (i) round trips

struct CaseOut {
	/// emitted text (None if serialisation failed or panicked)
	text: Option<String>,
	/// the text was parsed back and compared
	compared: bool,
}

fn ser<T: Serialize>(x: &T) -> Result<String, String> {
	serde_json::to_string(x).map_err(|e| e.to_string())
}

struct Rt<'s> {
	spec: &'s Spec,
	sink: &'s mut Sink,
	/// the validator already refused the emitted text: what follows (own output does not parse back, differs, ...)
	/// restates the same defect and is not reported again
	emitted_invalid: bool,
}

impl Rt<'_> {
	fn ty(&self) -> &'static str {
		self.spec.type_name()
	}
	fn bad(&mut self, sig: String, detail: String, text: Option<&str>) {
		if self.emitted_invalid && !sig.starts_with("invalid-emitted/") {
			return;
		}
		let spec = self.spec;
		self.sink.push(sig, detail, || json!({"part": "roundtrip", "spec": spec, "emitted": text}));
	}
	fn faults(&mut self, faults: Faults, text: &str) {
		let ty = self.ty();
		self.emitted_invalid |= !faults.is_empty();
		for (rule, detail) in faults {
			self.bad(format!("invalid-emitted/{ty}/{rule}"), detail, Some(text));
		}
	}
	fn ser_failed(&mut self, e: String) -> CaseOut {
		let ty = self.ty();
		self.bad(format!("serialize-failed/{ty}"), e, None);
		CaseOut { text: None, compared: false }
	}
	fn reparse_failed(&mut self, feature: &str, e: String, text: &str) -> CaseOut {
		let ty = self.ty();
		self.bad(format!("reparse-failed/{ty}/{feature}"), format!("own output does not parse: {e}"), Some(text));
		CaseOut { text: Some(text.to_string()), compared: false }
	}
	fn differs(&mut self, field: &str, detail: String, text: &str) {
		let ty = self.ty();
		self.bad(format!("roundtrip-value/{ty}/{field}"), detail, Some(text));
	}
	fn bytes(&mut self, again: Result<String, String>, text: &str, feature: &str) {
		let ty = self.ty();
		match again {
			Ok(t2) if t2 == text => {}
			Ok(t2) => self.bad(format!("roundtrip-bytes/{ty}/{feature}"), format!("re-serialised as {t2}"), Some(text)),
			Err(e) => self.bad(format!("reserialize-failed/{ty}"), e, Some(text)),
		}
	}

	/// Compare a re-parsed error object `y` with the original `x`; `kind` names the variant when x was built from a kind.
	///
	/// Returns true when the one difference "data: null became absent" was reported; that defect has one signature
	/// whatever the enclosing type, and the caller then skips the byte comparison (it would restate the same loss).
	fn cmp_error(&mut self, x: &ErrorObject<'_>, y: &ErrorObject<'_>, spec: &ErrSpec, text: &str) -> bool {
		let dc = spec.data_class();
		let mut null_lost = false;
		if y.code() != x.code() {
			self.differs("error-code", format!("code {} became {}", x.code(), y.code()), text);
		}
		if y.message() != x.message() {
			self.differs("error-message", format!("message {:?} became {:?}", x.message(), y.message()), text);
		}
		let (dx, dy) = (x.data().map(|d| d.get()), y.data().map(|d| d.get()));
		if self.emitted_invalid {
			return false;
		}
		if dx == Some("null") && dy.is_none() {
			null_lost = true;
			let spec_all = self.spec;
			self.sink.push(
				"roundtrip-value/error-object/data=null-becomes-absent".into(),
				"an error object whose data member is the JSON value null re-parses with no data (unequal; re-serialises without the member)".into(),
				|| json!({"part": "roundtrip", "spec": spec_all, "emitted": text}),
			);
		} else if dx != dy {
			self.differs(&format!("error-data={dc}"), format!("data {dx:?} became {dy:?}"), text);
		}
		if y.code() == x.code() && y.message() == x.message() && dx == dy && y != x {
			// all observable members agree, yet `==` says different: the error *kind* did not survive
			let name = match spec {
				ErrSpec::Kind(n) => n.clone(),
				_ => code_bucket(x.code()),
			};
			let spec_all = self.spec;
			self.sink.push(
				format!("kind-roundtrip/{name}"),
				format!("error object with code {} re-parses to an unequal object although code/message/data agree (kind changed)", x.code()),
				|| json!({"part": "roundtrip", "spec": spec_all, "emitted": text}),
			);
		}
		null_lost
	}

	fn run(&mut self) -> CaseOut {
		match self.spec {
			Spec::Id(s) => {
				let x = s.build();
				let text = match ser(&x) {
					Ok(t) => t,
					Err(e) => return self.ser_failed(e),
				};
				let mut f = Faults::new();
				expect_id(Some(&text), &s.value(), "id", &mut f);
				self.faults(f, &text);
				let y: Id = match serde_json::from_str(&text) {
					Ok(y) => y,
					Err(e) => return self.reparse_failed(s.class(), e.to_string(), &text),
				};
				if y != x {
					self.differs(s.class(), format!("{x:?} became {y:?}"), &text);
				}
				self.bytes(ser(&y), &text, s.class());
				CaseOut { text: Some(text), compared: true }
			}
			Spec::SubId(s) => {
				let x = s.build();
				let text = match ser(&x) {
					Ok(t) => t,
					Err(e) => return self.ser_failed(e),
				};
				let mut f = Faults::new();
				expect_id(Some(&text), &s.value(), "subscription-id", &mut f);
				self.faults(f, &text);
				let y: SubscriptionId = match serde_json::from_str(&text) {
					Ok(y) => y,
					Err(e) => return self.reparse_failed(s.class(), e.to_string(), &text),
				};
				if y != x {
					self.differs(s.class(), format!("{x:?} became {y:?}"), &text);
				}
				self.bytes(ser(&y), &text, s.class());
				// the same id as a `serde_json::Value` (what handlers and id providers pass around): the value that the
				// conversion yields is the one on the wire, and the wire value converts back to the id
				let as_value = serde_json::Value::from(x.clone());
				let value_text = serde_json::to_string(&as_value).unwrap_or_default();
				if value_text != text {
					self.differs(&format!("{}:into-json-value", s.class()), format!("{x:?} converts to the JSON value {value_text}, its wire form is {text}"), &text);
				}
				match serde_json::from_str::<Value>(&text).map(SubscriptionId::try_from) {
					Ok(Ok(z)) if z == x => {}
					other => self.differs(&format!("{}:from-json-value", s.class()), format!("the wire form {text} of {x:?} converts from a JSON value to {other:?}"), &text),
				}
				CaseOut { text: Some(text), compared: true }
			}
			Spec::Request { id, method, params, owned } => {
				let raw: Option<Box<RawValue>> = params.as_ref().map(|p| RawValue::from_string(p.clone()).expect("generated params are JSON"));
				let x = if *owned {
					Request::owned(method.clone(), raw.clone(), id.build())
				} else {
					Request::borrowed(method.as_str(), raw.as_deref(), id.build())
				};
				let text = match ser(&x) {
					Ok(t) => t,
					Err(e) => return self.ser_failed(e),
				};
				let mut f = Faults::new();
				if let Some(m) = envelope(&text, &["jsonrpc", "id", "method", "params"], &["jsonrpc", "id", "method"], true, &mut f) {
					expect_id(m.get("id"), &id.value(), "id", &mut f);
					expect_string(m.get("method"), method, "method", &mut f);
					match (m.get("params"), params.as_deref()) {
						(None, None) => {}
						(Some(a), Some(b)) if a == b => {}
						(a, b) => f.push(("params-mismatch".into(), format!("params emitted as {a:?}, built from {b:?}"))),
					}
				}
				self.faults(f, &text);
				let feature = format!("id={};params={}", id.class(), params.as_deref().map(json_kind).unwrap_or("absent"));
				let y: Request = match serde_json::from_str(&text) {
					Ok(y) => y,
					Err(e) => return self.reparse_failed(&feature, e.to_string(), &text),
				};
				if y.jsonrpc != TwoPointZero {
					self.differs("jsonrpc", "version marker changed".into(), &text);
				}
				if y.id != x.id {
					self.differs(&format!("id={}", id.class()), format!("id {:?} became {:?}", x.id, y.id), &text);
				}
				if y.method != x.method {
					self.differs("method", format!("method {:?} became {:?}", x.method, y.method), &text);
				}
				let (px, py) = (x.params.as_ref().map(|p| p.get()), y.params.as_ref().map(|p| p.get()));
				if px != py {
					self.differs(&format!("params={}", px.map(json_kind).unwrap_or("absent")), format!("params {px:?} became {py:?}"), &text);
				}
				self.bytes(ser(&y), &text, &feature);
				CaseOut { text: Some(text), compared: true }
			}
			Spec::Notification { method, params, typed } => {
				if *typed {
					self.notification::<Value>(method, params)
				} else {
					self.notification::<Box<RawValue>>(method, params)
				}
			}
			Spec::ResponseOk { id, result, typed, v2 } => {
				if *typed {
					self.response::<Value>(id, Ok(result), *v2)
				} else {
					self.response::<Box<RawValue>>(id, Ok(result), *v2)
				}
			}
			Spec::ResponseErr { id, err, typed, v2 } => {
				if *typed {
					self.response::<Value>(id, Err(err), *v2)
				} else {
					self.response::<Box<RawValue>>(id, Err(err), *v2)
				}
			}
			Spec::Error(es) => {
				let raw = es.raw();
				let x = es.build(&raw);
				let text = match ser(&x) {
					Ok(t) => t,
					Err(e) => return self.ser_failed(e),
				};
				let mut f = Faults::new();
				validate_error_text(&text, &es.expect(), &mut f);
				self.faults(f, &text);
				let y: ErrorObject = match serde_json::from_str(&text) {
					Ok(y) => y,
					Err(e) => return self.reparse_failed(&format!("data={}", es.data_class()), e.to_string(), &text),
				};
				if !self.cmp_error(&x, &y, es, &text) {
					self.bytes(ser(&y), &text, &format!("data={}", es.data_class()));
				}
				CaseOut { text: Some(text), compared: true }
			}
			Spec::SubResponse { method, sub, result, typed } => {
				if *typed {
					self.sub_response::<Value>(method, sub, result, false)
				} else {
					self.sub_response::<Box<RawValue>>(method, sub, result, false)
				}
			}
			Spec::SubError { method, sub, error, typed } => {
				if *typed {
					self.sub_response::<Value>(method, sub, error, true)
				} else {
					self.sub_response::<Box<RawValue>>(method, sub, error, true)
				}
			}
		}
	}

	fn notification<T: Payload>(&mut self, method: &str, params: &str) -> CaseOut {
		let x: Notification<T> = Notification::new(Cow::Borrowed(method), T::from_text(params));
		let text = match ser(&x) {
			Ok(t) => t,
			Err(e) => return self.ser_failed(e),
		};
		let mut f = Faults::new();
		if let Some(m) = envelope(&text, &["jsonrpc", "method", "params"], &["jsonrpc", "method"], true, &mut f) {
			expect_string(m.get("method"), method, "method", &mut f);
			match m.get("params") {
				Some(p) if p == params => {}
				p => f.push(("params-mismatch".into(), format!("params emitted as {p:?}, built from {params:?}"))),
			}
		}
		self.faults(f, &text);
		let feature = format!("params={}", json_kind(params));
		let y: Notification<T> = match serde_json::from_str(&text) {
			Ok(y) => y,
			Err(e) => return self.reparse_failed(&feature, e.to_string(), &text),
		};
		if y.method != x.method {
			self.differs("method", format!("method {:?} became {:?}", x.method, y.method), &text);
		}
		if !y.params.same(&x.params) {
			self.differs(&feature, format!("params {} became {}", x.params.show(), y.params.show()), &text);
		}
		self.bytes(ser(&y), &text, &feature);
		CaseOut { text: Some(text), compared: true }
	}

	fn response<T: Payload>(&mut self, id: &IdSpec, body: Result<&String, &ErrSpec>, v2: bool) -> CaseOut {
		let raw = body.err().and_then(|e| e.raw());
		let payload: ResponsePayload<T> = match body {
			Ok(t) => ResponsePayload::success(T::from_text(t)),
			Err(es) => ResponsePayload::error_borrowed(es.build(&raw)),
		};
		// (the constructor middleware uses to answer a call itself is the same message)
		let mut x: Response<T> = if raw.is_some() || matches!(body, Ok(t) if t.len() % 2 == 1) {
			Response::new_with_extensions(payload, id.build(), Default::default())
		} else {
			Response::new(payload, id.build())
		};
		if !v2 {
			x.jsonrpc = None;
		}
		let text = match ser(&x) {
			Ok(t) => t,
			Err(e) => return self.ser_failed(e),
		};
		let mut f = Faults::new();
		// "a response with its id and exactly one of result/error": both members allowed, the exclusivity is checked below
		let required: &[&str] = if v2 { &["jsonrpc", "id"] } else { &["id"] };
		let allowed: &[&str] = if v2 { &["jsonrpc", "id", "result", "error"] } else { &["id", "result", "error"] };
		if let Some(m) = envelope(&text, allowed, required, true, &mut f) {
			expect_id(m.get("id"), &id.value(), "id", &mut f);
			match (m.get("result"), m.get("error"), body) {
				(Some(r), None, Ok(want)) => {
					if r != want.as_str() {
						f.push(("result-mismatch".into(), format!("result emitted as {r}, built from {want}")));
					}
				}
				(None, Some(e), Err(es)) => validate_error_text(e, &es.expect(), &mut f),
				(Some(_), Some(_), _) => f.push(("both-result-and-error".into(), "result and error members together".into())),
				(None, None, _) => f.push(("neither-result-nor-error".into(), "no result and no error member".into())),
				(Some(_), None, Err(_)) => f.push(("error-emitted-as-result".into(), "error payload emitted as result".into())),
				(None, Some(_), Ok(_)) => f.push(("result-emitted-as-error".into(), "success payload emitted as error".into())),
			}
		}
		self.faults(f, &text);
		let feature = match body {
			Ok(t) => format!("id={};result={}", id.class(), json_kind(t)),
			Err(es) => format!("id={};error-data={}", id.class(), es.data_class()),
		};
		let y: Response<T> = match serde_json::from_str(&text) {
			Ok(y) => y,
			Err(e) => return self.reparse_failed(&feature, e.to_string(), &text),
		};
		if y.jsonrpc != x.jsonrpc {
			self.differs("jsonrpc", format!("jsonrpc {:?} became {:?}", x.jsonrpc, y.jsonrpc), &text);
		}
		if y.id != x.id {
			self.differs(&format!("id={}", id.class()), format!("id {:?} became {:?}", x.id, y.id), &text);
		}
		let mut null_lost = false;
		match (&x.payload, &y.payload) {
			(ResponsePayload::Success(a), ResponsePayload::Success(b)) => {
				if !a.same(b) {
					self.differs(&format!("result={}", json_kind(&a.show())), format!("result {} became {}", a.show(), b.show()), &text);
				}
			}
			(ResponsePayload::Error(a), ResponsePayload::Error(b)) => {
				if let Err(es) = body {
					null_lost = self.cmp_error(a, b, es, &text);
				}
			}
			(ResponsePayload::Success(_), ResponsePayload::Error(_)) => self.differs("payload-kind", "success became error".into(), &text),
			(ResponsePayload::Error(_), ResponsePayload::Success(_)) => self.differs("payload-kind", "error became success".into(), &text),
		}
		if !null_lost {
			self.bytes(ser(&y), &text, &feature);
		}
		CaseOut { text: Some(text), compared: true }
	}

	fn sub_response<T: Payload>(&mut self, method: &str, sub: &SubIdSpec, body: &str, is_error: bool) -> CaseOut {
		let member = if is_error { "error" } else { "result" };
		let feature = format!("sub={};{member}={}", sub.class(), json_kind(body));
		// the two payload types differ only in the member name; handle them through one closure pair
		let (text, reparsed): (Result<String, String>, Option<Result<(String, SubscriptionId<'static>, T, Result<String, String>), String>>);
		if is_error {
			let x: SubscriptionError<T> =
				Notification::new(Cow::Borrowed(method), SubscriptionPayloadError { subscription: sub.build(), error: T::from_text(body) });
			text = ser(&x);
			reparsed = text.as_ref().ok().map(|t| {
				serde_json::from_str::<SubscriptionError<T>>(t).map_err(|e| e.to_string()).map(|y| {
					let again = ser(&y);
					(y.method.to_string(), y.params.subscription.into_owned(), y.params.error, again)
				})
			});
		} else {
			let x: SubscriptionResponse<T> =
				Notification::new(Cow::Borrowed(method), SubscriptionPayload { subscription: sub.build(), result: T::from_text(body) });
			text = ser(&x);
			reparsed = text.as_ref().ok().map(|t| {
				serde_json::from_str::<SubscriptionResponse<T>>(t).map_err(|e| e.to_string()).map(|y| {
					let again = ser(&y);
					(y.method.to_string(), y.params.subscription.into_owned(), y.params.result, again)
				})
			});
		}
		let text = match text {
			Ok(t) => t,
			Err(e) => return self.ser_failed(e),
		};
		let mut f = Faults::new();
		if let Some(m) = envelope(&text, &["jsonrpc", "method", "params"], &["jsonrpc", "method", "params"], true, &mut f) {
			expect_string(m.get("method"), method, "method", &mut f);
			if let Some(p) = m.get("params") {
				if let Some(pm) = envelope(p, &["subscription", member], &["subscription", member], false, &mut f) {
					expect_id(pm.get("subscription"), &sub.value(), "subscription-id", &mut f);
					match pm.get(member) {
						Some(r) if r == body => {}
						r => f.push((format!("{member}-mismatch"), format!("{member} emitted as {r:?}, built from {body:?}"))),
					}
				}
			}
		}
		self.faults(f, &text);
		match reparsed.expect("present when text is") {
			Err(e) => self.reparse_failed(&feature, e, &text),
			Ok((m, s, b, again)) => {
				if m != method {
					self.differs("method", format!("method {method:?} became {m:?}"), &text);
				}
				if s != sub.build() {
					self.differs(&format!("sub={}", sub.class()), format!("subscription {:?} became {s:?}", sub.build()), &text);
				}
				if !b.same(&T::from_text(body)) {
					self.differs(&format!("{member}={}", json_kind(body)), format!("{member} {body} became {}", b.show()), &text);
				}
				self.bytes(again, &text, &feature);
				CaseOut { text: Some(text), compared: true }
			}
		}
	}
}

fn run_spec(spec: &Spec, sink: &mut Sink) -> CaseOut {
	let r = catch_unwind(AssertUnwindSafe(|| Rt { spec, sink: &mut *sink, emitted_invalid: false }.run()));
	match r {
		Ok(o) => o,
		Err(_) => {
			sink.push(format!("panic/roundtrip/{}", spec.type_name()), "serialise/parse panicked".into(), || {
				json!({"part": "roundtrip", "spec": spec})
			});
			CaseOut { text: None, compared: false }
		}
	}
}

// --- generators ---

const U64_EDGES: [u64; 14] = [
	0,
	1,
	255,
	u32::MAX as u64,
	u32::MAX as u64 + 1,
	(1 << 53) - 1,
	1 << 53,
	(1 << 53) + 1,
	i64::MAX as u64,
	i64::MAX as u64 + 1,
	u64::MAX - 1,
	u64::MAX,
	1_000_000_007,
	10_000_000_000_000_000_000,
];

fn gen_u64(r: &mut Rng) -> u64 {
	match r.below(3) {
		0 => *r.pick(&U64_EDGES),
		1 => r.next_u64() >> r.below(64),
		_ => r.below(1000),
	}
}

const STR_SPECIALS: [&str; 14] =
	["", "0", "1", "null", "2.0", "18446744073709551616", "-1", "true", "{\"id\":1}", "\"", "\\", "\\u0000", "\u{0}", " 1 "];

fn gen_string(r: &mut Rng) -> String {
	match r.below(8) {
		0..=3 => jgen::string(r),
		4 => r.pick(&STR_SPECIALS).to_string(),
		5 => {
			// arbitrary scalar values over all planes
			let n = r.usize(8) + 1;
			(0..n)
				.map(|_| loop {
					let cp = match r.below(4) {
						0 => r.below(0x80) as u32,
						1 => r.below(0x800) as u32,
						2 => r.below(0x10000) as u32,
						_ => r.below(0x110000) as u32,
					};
					if let Some(c) = char::from_u32(cp) {
						break c;
					}
				})
				.collect()
		}
		6 => format!("{}{}", jgen::string(r), r.pick(&STR_SPECIALS)),
		_ => {
			let n = r.usize(300) + 50;
			(0..n).map(|_| *r.pick(&["a", "\"", "\\", "\n", "é", "😀", "\u{1}"])).collect()
		}
	}
}

fn gen_id(r: &mut Rng) -> IdSpec {
	match r.below(7) {
		0 => IdSpec::Null,
		1..=3 => IdSpec::Num(gen_u64(r)),
		_ => IdSpec::Str(gen_string(r)),
	}
}

fn gen_sub_id(r: &mut Rng) -> SubIdSpec {
	if r.bool() { SubIdSpec::Num(gen_u64(r)) } else { SubIdSpec::Str(gen_string(r)) }
}

/// Float-free compact JSON text (what `Value` serialises to); occasionally nested to depth 64.
fn gen_value_text(r: &mut Rng) -> String {
	if r.chance(1, 60) {
		return jgen::nested(64, &jgen::json_value(r, 1).to_string());
	}
	let d = 1 + r.usize(4);
	jgen::json_value(r, d).to_string()
}

/// Arbitrary JSON text (whitespace, escape spellings, number tokens at the precision limits) for RawValue positions.
fn gen_raw_text(r: &mut Rng) -> String {
	if r.chance(1, 60) {
		return jgen::nested(64, &jgen::json_text(r, 1));
	}
	jgen::json_text(r, 3)
}

fn structured(r: &mut Rng, typed: bool) -> String {
	for _ in 0..40 {
		let t = if typed { gen_value_text(r) } else { gen_raw_text(r) };
		if matches!(json_kind(&t), "array" | "object") {
			return t;
		}
	}
	"[]".into()
}

fn gen_code(r: &mut Rng) -> i32 {
	match r.below(6) {
		0 => NAMED_KINDS[r.usize(NAMED_KINDS.len())].1,
		1 => *r.pick(&[i32::MIN, i32::MAX, 0, 1, -1, -32768, -32000, -32099, -32100, -31999, -32001, -32005, -32006, -32008, -32010, -32011]),
		2 => -32768 + r.below(769) as i32,
		_ => r.next_u64() as u32 as i32,
	}
}

fn gen_err(r: &mut Rng) -> ErrSpec {
	match r.below(9) {
		0 => ErrSpec::Kind(variant_name(&NAMED_KINDS[r.usize(NAMED_KINDS.len())].0).to_string()),
		1..=4 => {
			let data = if r.chance(2, 5) { None } else { Some(gen_value_text(r)) };
			ErrSpec::Owned { code: gen_code(r), message: gen_string(r), data }
		}
		_ => {
			let data = if r.chance(2, 5) { None } else { Some(gen_raw_text(r)) };
			ErrSpec::Borrowed { code: gen_code(r), message: gen_string(r), data }
		}
	}
}

fn gen_payload_text(r: &mut Rng, typed: bool) -> String {
	if typed { gen_value_text(r) } else { gen_raw_text(r) }
}

fn gen_spec(r: &mut Rng) -> Spec {
	match r.below(20) {
		0 => Spec::Id(gen_id(r)),
		1 => Spec::SubId(gen_sub_id(r)),
		2..=4 => {
			let params = if r.chance(1, 4) { None } else { Some(structured(r, false)) };
			Spec::Request { id: gen_id(r), method: gen_string(r), params, owned: r.bool() }
		}
		5 | 6 => {
			let typed = r.bool();
			Spec::Notification { method: gen_string(r), params: structured(r, typed), typed }
		}
		7..=10 => {
			let typed = r.chance(2, 3);
			Spec::ResponseOk { id: gen_id(r), result: gen_payload_text(r, typed), typed, v2: !r.chance(1, 8) }
		}
		11..=13 => Spec::ResponseErr { id: gen_id(r), err: gen_err(r), typed: r.chance(2, 3), v2: !r.chance(1, 8) },
		14..=16 => Spec::Error(gen_err(r)),
		17 | 18 => {
			let typed = r.bool();
			Spec::SubResponse { method: gen_string(r), sub: gen_sub_id(r), result: gen_payload_text(r, typed), typed }
		}
		_ => {
			let typed = r.bool();
			Spec::SubError { method: gen_string(r), sub: gen_sub_id(r), error: gen_payload_text(r, typed), typed }
		}
	}
}

/// Fixed corner cases, run in every shard 0.
fn corner_specs() -> Vec<Spec> {
	let mut v = Vec::new();
	for id in [IdSpec::Null, IdSpec::Num(0), IdSpec::Num(u64::MAX), IdSpec::Num((1 << 53) + 1), IdSpec::Str(String::new()), IdSpec::Str("\u{0}\"\\\u{2028}😀".into())] {
		v.push(Spec::Id(id.clone()));
		v.push(Spec::Request { id: id.clone(), method: "m".into(), params: None, owned: true });
		v.push(Spec::Request { id: id.clone(), method: "".into(), params: Some("[ 1e2 , 123456789012345678901234567890 ]".into()), owned: false });
		v.push(Spec::ResponseOk { id: id.clone(), result: "null".into(), typed: true, v2: true });
		v.push(Spec::ResponseOk { id: id.clone(), result: "null".into(), typed: false, v2: true });
		v.push(Spec::ResponseOk { id: id.clone(), result: jgen::nested(64, "18446744073709551615"), typed: true, v2: true });
		v.push(Spec::ResponseOk { id: id.clone(), result: "{\"error\":1,\"id\":2}".into(), typed: true, v2: false });
		v.push(Spec::ResponseErr {
			id: id.clone(),
			err: ErrSpec::Owned { code: -32000, message: "x".into(), data: Some("[1]".into()) },
			typed: true,
			v2: true,
		});
	}
	for (k, _) in NAMED_KINDS {
		let name = variant_name(&k).to_string();
		v.push(Spec::Error(ErrSpec::Kind(name.clone())));
		v.push(Spec::ResponseErr { id: IdSpec::Num(1), err: ErrSpec::Kind(name), typed: true, v2: true });
	}
	for (_, c) in NAMED_KINDS {
		v.push(Spec::Error(ErrSpec::Owned { code: c, message: "m".into(), data: None }));
	}
	for data in ["null", "0", "\"s\"", "[]", "{}", "true", "1.5", "[ 1 , 2 ]"] {
		v.push(Spec::Error(ErrSpec::Borrowed { code: 7, message: "m".into(), data: Some(data.into()) }));
	}
	for data in ["null", "0", "\"s\"", "[]", "{}", "false"] {
		v.push(Spec::Error(ErrSpec::Owned { code: i32::MIN, message: "".into(), data: Some(data.into()) }));
	}
	for sub in [SubIdSpec::Num(0), SubIdSpec::Num(u64::MAX), SubIdSpec::Str("".into()), SubIdSpec::Str("0".into())] {
		v.push(Spec::SubId(sub.clone()));
		v.push(Spec::SubResponse { method: "s".into(), sub: sub.clone(), result: "null".into(), typed: true });
		v.push(Spec::SubResponse { method: "s".into(), sub: sub.clone(), result: "{\"subscription\":1}".into(), typed: false });
		v.push(Spec::SubError { method: "s".into(), sub, error: "\"gone\"".into(), typed: true });
	}
	v.push(Spec::Notification { method: "n".into(), params: "[]".into(), typed: true });
	v.push(Spec::Notification { method: "n".into(), params: "{ \"a\" : [ ] }".into(), typed: false });
	v
}

fn record_spec(spec: &Spec, sample: bool, ev: &mut Evidence, sink: &mut Sink) {
	let out = run_spec(spec, sink);
	ev.eval();
	let ty = spec.type_name();
	ev.count(&format!("roundtrip_{ty}"), 1);
	if let Some(t) = &out.text {
		ev.count("bytes_emitted", t.len() as u64);
		if out.compared {
			ev.nontrivial(&(ty, t.as_str()));
			ev.count("roundtrips_compared", 1);
		}
		if sample {
			ev.sample_class(&format!("roundtrip-{ty}"), json!({"spec": spec, "emitted": t}));
		}
	}
}

fn roundtrip_workload(seed: u64, n: u64, with_corners: bool, ev: &mut Evidence, sink: &mut Sink) {
	if with_corners {
		for s in corner_specs() {
			record_spec(&s, false, ev, sink);
		}
	}
	let mut r = Rng::new(seed);
	for _ in 0..n {
		let s = gen_spec(&mut r);
		// samples (one per type) come from the generated cases of the shard that also ran the corners
		record_spec(&s, with_corners, ev, sink);
	}
}

// ---------------------------------------------------------------------------------------------------------------
// (ii) response parser acceptance predicate

#[derive(Clone, Copy, PartialEq, Eq, Debug)]
enum Role {
	/// jsonrpc member whose value is "2.0" or null
	JGood,
	/// jsonrpc member with any other value
	JBad,
	IdGood,
	IdBad,
	Result,
	ErrGood,
	ErrBad,
	Unknown,
}

#[derive(Clone, Copy)]
struct M<'a> {
	key: &'a str,
	val: &'a str,
	role: Role,
	tag: &'a str,
}

const fn m(key: &'static str, val: &'static str, role: Role, tag: &'static str) -> M<'static> {
	M { key, val, role, tag }
}

static ALPHA: [M<'static>; 28] = [
	m("jsonrpc", "\"2.0\"", Role::JGood, "jsonrpc=2.0"),
	m("jsonrpc", "null", Role::JGood, "jsonrpc=null"),
	m("jsonrpc", "\"1.0\"", Role::JBad, "jsonrpc=1.0"),
	m("jsonrpc", "2.0", Role::JBad, "jsonrpc=number"),
	m("id", "1", Role::IdGood, "id=num"),
	m("id", "null", Role::IdGood, "id=null"),
	m("id", "\"s\"", Role::IdGood, "id=str"),
	m("id", "18446744073709551615", Role::IdGood, "id=u64max"),
	m("id", "-1", Role::IdBad, "id=negative"),
	m("id", "1.5", Role::IdBad, "id=fraction"),
	m("id", "true", Role::IdBad, "id=bool"),
	m("id", "{\"a\":1}", Role::IdBad, "id=object"),
	m("id", "18446744073709551616", Role::IdBad, "id=2^64"),
	m("result", "7", Role::Result, "result=num"),
	m("result", "null", Role::Result, "result=null"),
	m("result", "{\"error\":{\"code\":1,\"message\":\"m\"},\"id\":2}", Role::Result, "result=object"),
	m("error", "{\"code\":-32000,\"message\":\"m\"}", Role::ErrGood, "error"),
	m("error", "{\"message\":\"\",\"data\":[1,{\"code\":2}],\"code\":-32700}", Role::ErrGood, "error+data"),
	m("error", "null", Role::ErrBad, "error=null"),
	m("error", "{\"code\":\"-1\",\"message\":\"m\"}", Role::ErrBad, "error-code-is-string"),
	m("error", "{\"code\":1}", Role::ErrBad, "error-without-message"),
	m("error", "\"e\"", Role::ErrBad, "error=string"),
	m("x", "1", Role::Unknown, "unknown"),
	m("method", "\"m\"", Role::Unknown, "unknown"),
	m("params", "{\"id\":9,\"result\":8,\"error\":null,\"jsonrpc\":\"1.0\"}", Role::Unknown, "unknown"),
	m("ID", "3", Role::Unknown, "unknown"),
	// the same version string spelled with JSON escapes (not borrowable from the input text)
	m("jsonrpc", "\"2\\u002e0\"", Role::JGood, "jsonrpc=2.0-escaped"),
	m("jsonrpc", "\"\\u0032.\\u0030\"", Role::JGood, "jsonrpc=2.0-escaped"),
];

/// Unknown members whose values are extreme for a JSON reader that builds them instead of skipping them: nesting around
/// and beyond the usual recursion limit of 128, numbers outside the range of f64 / u64 / i64.
static EXTREME_UNKNOWN: std::sync::LazyLock<Vec<(&'static str, String)>> = std::sync::LazyLock::new(|| {
	let nest = |open: &str, close: &str, depth: usize, core: &str| format!("{}{core}{}", open.repeat(depth), close.repeat(depth));
	vec![
		("x_deep126", nest("[", "]", 126, "1")),
		("x_deep127", nest("[", "]", 127, "1")),
		("x_deep128", nest("[", "]", 128, "")),
		("x_deep129", nest("[", "]", 129, "null")),
		("x_deep500", nest("[", "]", 500, "")),
		("x_obj130", nest("{\"a\":", "}", 130, "0")),
		("x_mixed140", nest("[{\"k\":", "}]", 70, "[]")),
		("x_1e999", "1e999".to_string()),
		("x_neg_huge", "-1E+4000".to_string()),
		("x_tiny", "1e-999".to_string()),
		("x_long_int", "9".repeat(400)),
		("x_long_frac", format!("0.{}1", "0".repeat(400))),
		("x_neg_long_int", format!("-{}", "8".repeat(60))),
	]
});

enum Want {
	Accept,
	/// the statement is silent (duplicated unknown member in an otherwise acceptable object)
	Either,
	/// all reasons for which the object must be refused
	Reject(String),
}

/// The acceptance predicate, from the property statement, over the member list.
fn oracle(seq: &[M<'_>]) -> Want {
	let count = |f: &dyn Fn(Role) -> bool| seq.iter().filter(|x| f(x.role)).count();
	let n_j = count(&|r| matches!(r, Role::JGood | Role::JBad));
	let n_id = count(&|r| matches!(r, Role::IdGood | Role::IdBad));
	let n_res = count(&|r| r == Role::Result);
	let n_err = count(&|r| matches!(r, Role::ErrGood | Role::ErrBad));
	let mut why: Vec<String> = Vec::new();
	if n_j > 1 {
		why.push("duplicate-jsonrpc".into());
	}
	if n_id > 1 {
		why.push("duplicate-id".into());
	}
	if n_res > 1 {
		why.push("duplicate-result".into());
	}
	if n_err > 1 {
		why.push("duplicate-error".into());
	}
	if n_id == 0 {
		why.push("missing-id".into());
	}
	for x in seq.iter().filter(|x| x.role == Role::IdBad) {
		why.push(format!("id-out-of-domain:{}", x.tag));
	}
	if n_res == 0 && n_err == 0 {
		why.push("neither-result-nor-error".into());
	}
	if n_res > 0 && n_err > 0 {
		why.push("both-result-and-error".into());
	}
	for x in seq.iter().filter(|x| x.role == Role::ErrBad) {
		why.push(format!("malformed-error:{}", x.tag));
	}
	for x in seq.iter().filter(|x| x.role == Role::JBad) {
		why.push(x.tag.to_string());
	}
	if !why.is_empty() {
		why.sort();
		why.dedup();
		return Want::Reject(why.join("+"));
	}
	let unknown: Vec<&str> = seq.iter().filter(|x| x.role == Role::Unknown).map(|x| x.key).collect();
	for (i, k) in unknown.iter().enumerate() {
		if unknown[..i].contains(k) {
			return Want::Either;
		}
	}
	Want::Accept
}

fn shape(seq: &[M<'_>]) -> String {
	let tag = |f: &dyn Fn(Role) -> bool| seq.iter().find(|x| f(x.role)).map(|x| x.tag).unwrap_or("absent");
	let j = tag(&|r| matches!(r, Role::JGood | Role::JBad));
	let id = tag(&|r| matches!(r, Role::IdGood | Role::IdBad));
	let p = tag(&|r| matches!(r, Role::Result | Role::ErrGood | Role::ErrBad));
	let u = seq.iter().any(|x| x.role == Role::Unknown);
	format!("{};{id};{p};unknown-members={}", if j == "absent" { "jsonrpc=absent" } else { j }, if u { "yes" } else { "no" })
}

fn build_text(seq: &[M<'_>], r: Option<&mut Rng>) -> String {
	let mut out = String::with_capacity(64);
	match r {
		None => {
			out.push('{');
			for (i, x) in seq.iter().enumerate() {
				if i > 0 {
					out.push(',');
				}
				out.push('"');
				out.push_str(x.key);
				out.push_str("\":");
				out.push_str(x.val);
			}
			out.push('}');
		}
		Some(r) => {
			out.push_str(&jgen::ws(r, 2));
			out.push('{');
			out.push_str(&jgen::ws(r, 3));
			for (i, x) in seq.iter().enumerate() {
				if i > 0 {
					out.push(',');
					out.push_str(&jgen::ws(r, 3));
				}
				// keys get random escape spellings too ("id" is the member id)
				out.push_str(&jgen::string_literal(r, x.key));
				out.push_str(&jgen::ws(r, 2));
				out.push(':');
				out.push_str(&jgen::ws(r, 2));
				out.push_str(x.val);
				out.push_str(&jgen::ws(r, 3));
			}
			out.push('}');
			out.push_str(&jgen::ws(r, 2));
		}
	}
	out
}

fn id_as_value(id: &Id<'_>) -> Value {
	match id {
		Id::Null => Value::Null,
		Id::Number(n) => json!(n),
		Id::Str(s) => json!(s.as_ref()),
	}
}

/// Parse `text` as `Response<T>` and judge the verdict (and, when accepted, the content) against the oracle.
/// Returns whether the parser accepted.
fn judge<T: Payload + 'static>(text: &str, seq: &[M<'_>], tname: &str, sink: &mut Sink) -> Option<bool> {
	let witness = || {
		json!({"part": "predicate", "text": text, "payload_type": tname,
			"members": seq.iter().map(|x| json!({"key": x.key, "value": x.val, "role": format!("{:?}", x.role)})).collect::<Vec<_>>()})
	};
	let parsed = match catch_unwind(|| serde_json::from_str::<Response<T>>(text)) {
		Ok(p) => p,
		Err(_) => {
			sink.push(format!("panic/response-parser/{}", shape(seq)), "Response parser panicked".into(), witness);
			return None;
		}
	};
	match (oracle(seq), parsed) {
		(Want::Reject(why), Ok(_)) => {
			sink.push(format!("parser-accepts/{why}"), format!("accepted as Response<{tname}> although: {why}"), witness);
			Some(true)
		}
		(Want::Accept, Err(e)) => {
			sink.push(
				format!("parser-rejects-valid/{}", shape(seq)),
				format!("a response with id, one of result/error and an allowed jsonrpc member was refused as Response<{tname}>: {e}"),
				witness,
			);
			Some(false)
		}
		(Want::Reject(_), Err(_)) => Some(false),
		(Want::Either, r) => Some(r.is_ok()),
		(Want::Accept, Ok(resp)) => {
			// the accepted object has exactly one id and one payload member: the parsed content must be theirs
			let idm = seq.iter().find(|x| x.role == Role::IdGood).expect("accept implies an id");
			let want_id: Value = serde_json::from_str(idm.val).expect("id member is JSON");
			if id_as_value(&resp.id) != want_id {
				sink.push(format!("parser-wrong-value/id/{}", idm.tag), format!("id parsed as {:?}, text has {}", resp.id, idm.val), witness);
			}
			let pm = seq.iter().find(|x| matches!(x.role, Role::Result | Role::ErrGood)).expect("accept implies a payload");
			match (&resp.payload, pm.role) {
				(ResponsePayload::Success(v), Role::Result) => {
					if !v.as_ref().same(&T::from_text(pm.val)) {
						sink.push(format!("parser-wrong-value/result/{}", pm.tag), format!("result parsed as {}, text has {}", v.show(), pm.val), witness);
					}
				}
				(ResponsePayload::Error(e), Role::ErrGood) => {
					let w: Value = serde_json::from_str(pm.val).expect("error member is JSON");
					let data_ok = match (e.data(), w.get("data")) {
						(None, None) => true,
						// `"data":null` read as "no data": the statement fixes only the verdict here; the loss is
						// reported once, by the round-trip monitor
						(None, Some(Value::Null)) => true,
						(Some(d), Some(wd)) => serde_json::from_str::<Value>(d.get()).ok().as_ref() == Some(wd),
						_ => false,
					};
					if Some(e.code() as i64) != w["code"].as_i64() || Some(e.message()) != w["message"].as_str() || !data_ok {
						sink.push(format!("parser-wrong-value/error/{}", pm.tag), format!("error parsed as {e:?}, text has {}", pm.val), witness);
					}
				}
				_ => sink.push(format!("parser-wrong-value/payload-kind/{}", pm.tag), "result/error confused".into(), witness),
			}
			// conversion to an owned value must not change the value: same serialisation before and after
			let before = serde_json::to_string(&resp).unwrap_or_default();
			let after = serde_json::to_string(&resp.into_owned()).unwrap_or_default();
			if before != after {
				sink.push(format!("into-owned-changes-value/{}", shape(seq)), format!("parsed: {before}; after into_owned(): {after}"), witness);
			}
			// the same document as a serde_json::Value tree (a deserializer that cannot lend strings) gets the same verdict
			let keys: Vec<&str> = seq.iter().map(|x| x.key).collect();
			let no_dup_keys = keys.iter().enumerate().all(|(i, k)| !keys[..i].contains(k));
			if no_dup_keys {
				if let Ok(tree) = serde_json::from_str::<Value>(text) {
					if let Err(e) = <Response<T> as Deserialize>::deserialize(tree) {
						sink.push(format!("parser-rejects-valid/from-value/{}", shape(seq)), format!("accepted from text but refused from the equivalent Value tree: {e}"), witness);
					}
				}
			}
			Some(true)
		}
	}
}

fn record_seq(seq: &[M<'_>], text: &str, key: u64, ev: &mut Evidence, sink: &mut Sink) {
	let a = judge::<Value>(text, seq, "Value", sink);
	let b = judge::<Box<RawValue>>(text, seq, "Box<RawValue>", sink);
	ev.evals(2);
	ev.count("predicate_texts", 1);
	match oracle(seq) {
		Want::Accept => ev.count("predicate_oracle_accept", 1),
		Want::Either => ev.count("predicate_oracle_either", 1),
		Want::Reject(_) => ev.count("predicate_oracle_reject", 1),
	}
	if a == Some(true) {
		ev.count("predicate_parser_accepted", 1);
	}
	if a.is_some() && a != b {
		ev.count("predicate_verdict_differs_between_payload_types", 1);
	}
	// non-trivial: an id member and a result/error member are present, so the verdict hinges on the predicate proper
	let has_id = seq.iter().any(|x| matches!(x.role, Role::IdGood | Role::IdBad));
	let has_p = seq.iter().any(|x| matches!(x.role, Role::Result | Role::ErrGood | Role::ErrBad));
	if has_id && has_p {
		ev.nontrivial_hash(key);
	}
}

/// Enumerate all sequences over ALPHA that start with `prefix` and have total length <= max_len.
fn enumerate(prefix: &[usize], max_len: usize, ev: &mut Evidence, sink: &mut Sink) {
	fn rec(cur: &mut Vec<usize>, max_len: usize, ev: &mut Evidence, sink: &mut Sink) {
		let seq: Vec<M<'static>> = cur.iter().map(|&i| ALPHA[i]).collect();
		let text = build_text(&seq, None);
		record_seq(&seq, &text, hash_of(&("enum", &cur[..])), ev, sink);
		if cur.len() < max_len {
			for i in 0..ALPHA.len() {
				cur.push(i);
				rec(cur, max_len, ev, sink);
				cur.pop();
			}
		}
	}
	let mut cur = prefix.to_vec();
	rec(&mut cur, max_len, ev, sink);
}

/// Seeded random member sequences: a valid skeleton with generated id/payload texts, then 0..3 damaging edits, random
/// order, whitespace and escape spellings of keys.
fn random_sequences(seed: u64, n: u64, sample: bool, ev: &mut Evidence, sink: &mut Sink) {
	let mut r = Rng::new(seed);
	for case in 0..n {
		// dynamic members own their texts
		let id_text = match gen_id(&mut r) {
			IdSpec::Null => "null".to_string(),
			IdSpec::Num(n) => n.to_string(),
			IdSpec::Str(s) => jgen::string_literal(&mut r, &s),
		};
		let id_tag = match json_kind(&id_text) {
			"null" => "id=null",
			"number" => "id=num",
			_ => "id=str",
		};
		let result_text = gen_value_text(&mut r);
		let result_tag = format!("result={}", json_kind(&result_text));
		let code = gen_code(&mut r);
		let msg = gen_string(&mut r);
		let data = if r.bool() { Some(gen_value_text(&mut r)) } else { None };
		let mut parts = vec![format!("\"code\":{code}"), format!("\"message\":{}", jgen::string_literal(&mut r, &msg))];
		if let Some(d) = &data {
			parts.push(format!("\"data\":{d}"));
		}
		r.shuffle(&mut parts);
		let error_text = format!("{{{}}}", parts.join(","));
		let error_tag = if data.is_some() { "error+data" } else { "error" };

		let mut seq: Vec<M<'_>> = Vec::new();
		seq.push(M { key: "id", val: &id_text, role: Role::IdGood, tag: id_tag });
		if r.bool() {
			seq.push(M { key: "result", val: &result_text, role: Role::Result, tag: &result_tag });
		} else {
			seq.push(M { key: "error", val: &error_text, role: Role::ErrGood, tag: error_tag });
		}
		match r.below(4) {
			0 => {}
			1 => seq.push(ALPHA[1]),
			_ => seq.push(ALPHA[0]),
		}
		for _ in 0..r.below(3) {
			seq.push(ALPHA[22 + r.usize(4)]);
		}
		if r.chance(1, 6) {
			let (k, v) = &EXTREME_UNKNOWN[r.usize(EXTREME_UNKNOWN.len())];
			seq.push(M { key: k, val: v.as_str(), role: Role::Unknown, tag: "unknown-extreme-value" });
		}
		for _ in 0..r.below(4).saturating_sub(1) {
			match r.below(5) {
				0 if !seq.is_empty() => {
					let i = r.usize(seq.len());
					seq.remove(i);
				}
				1 if !seq.is_empty() => {
					let x = seq[r.usize(seq.len())];
					seq.push(x);
				}
				2 => seq.push(M { key: "result", val: &result_text, role: Role::Result, tag: &result_tag }),
				3 => seq.push(M { key: "error", val: &error_text, role: Role::ErrGood, tag: error_tag }),
				_ => seq.push(ALPHA[r.usize(ALPHA.len())]),
			}
		}
		r.shuffle(&mut seq);
		let text = build_text(&seq, Some(&mut r));
		record_seq(&seq, &text, hash_of(&("rand", text.as_str())), ev, sink);
		ev.count("predicate_random_sequences", 1);
		if sample && case % 1000 == 0 && case < 6000 {
			let verdict = match oracle(&seq) {
				Want::Accept => "accept".to_string(),
				Want::Either => "either".to_string(),
				Want::Reject(w) => format!("reject: {w}"),
			};
			ev.sample_class(&format!("predicate-random-{}", case / 1000), json!({"text": text, "oracle": verdict}));
		}
	}
}

// ---------------------------------------------------------------------------------------------------------------

/// (iv) The constant messages the HTTP transport emits on its own (internal error, request too large, malformed request):
/// whenever the library labels a body application/json it is one valid JSON-RPC 2.0 error response with id null - no
/// duplicate members, nothing but jsonrpc / id / error, an integer code and a string message.
fn http_constant_messages(ev: &mut Evidence, sink: &mut Sink) {
	use http_body_util::BodyExt;
	use jsonrpsee_server::http::response;
	let mut made: Vec<(String, jsonrpsee_server::HttpResponse)> = vec![("internal_error()".into(), response::internal_error()), ("malformed()".into(), response::malformed())];
	for l in [0u32, 1, 100, 10 * 1024 * 1024, u32::MAX] {
		made.push((format!("too_large({l})"), response::too_large(l)));
	}
	made.push(("host_not_allowed()".into(), response::host_not_allowed()));
	made.push(("method_not_allowed()".into(), response::method_not_allowed()));
	made.push(("unsupported_content_type()".into(), response::unsupported_content_type()));
	made.push(("too_many_requests()".into(), response::too_many_requests()));
	for (name, rp) in made {
		let status = rp.status().as_u16();
		let ct = rp.headers().get("content-type").and_then(|v| v.to_str().ok()).unwrap_or("").to_string();
		let body = block_on_virtual(async move { rp.into_body().collect().await.map(|b| b.to_bytes().to_vec()).unwrap_or_default() });
		ev.eval();
		ev.count("http_constant_messages_checked", 1);
		if !ct.starts_with("application/json") {
			ev.count("http_constant_messages_text_plain", 1);
			continue;
		}
		let text = String::from_utf8_lossy(&body).to_string();
		let mut faults: Vec<String> = Vec::new();
		match serde_json::from_str::<Members>(&text) {
			Err(e) => faults.push(format!("not a JSON object: {e}")),
			Ok(m) => {
				let names: Vec<&str> = m.0.iter().map(|(k, _)| k.as_str()).collect();
				for k in &names {
					if !["jsonrpc", "id", "error"].contains(k) {
						faults.push(format!("member `{k}` has no place in an error response"));
					}
					if names.iter().filter(|x| *x == k).count() > 1 {
						faults.push(format!("member `{k}` appears more than once"));
					}
				}
				let get = |k: &str| m.0.iter().find(|(n, _)| n == k).map(|(_, v)| v.get().to_string());
				if get("jsonrpc").as_deref() != Some("\"2.0\"") {
					faults.push(format!("jsonrpc member is {:?}", get("jsonrpc")));
				}
				if get("id").as_deref() != Some("null") {
					faults.push(format!("id member is {:?} (nothing of the request is known: null)", get("id")));
				}
				match get("error").and_then(|e| serde_json::from_str::<Value>(&e).ok()) {
					Some(e) if e["code"].is_i64() && e["message"].is_string() => {}
					other => faults.push(format!("error member is {other:?}")),
				}
			}
		}
		if faults.is_empty() {
			ev.nontrivial(&("http-constant", name.clone()));
		}
		for f in faults {
			sink.push(format!("emitted-message-invalid/http-constant/{}", name.split('(').next().unwrap_or("")), format!("{name} (status {status}, {ct}) emits {text}: {f}"), || json!({"constructor": name, "body": text}));
		}
	}
}

/// (v) What the response type accepts, the client that parses incoming messages with it accepts: a call on the real async
/// client (scripted transport) is answered with a valid response that carries members the client has no use for - among them
/// names that mean something in OTHER messages (`method`, `params` with `subscription` / `result` inside) - at seeded
/// positions; the call completes with the result / error object that was sent.
async fn client_ignores_unknown_members(seed: u64, n: usize, sink: &mut Sink, ev: &mut Evidence) {
	use jrv::clientsim::{ClientCfg, WireMsg, client, err_kind, ErrKind};
	use jsonrpsee_core::client::ClientT;
	let mut r = Rng::new(seed);
	let (c, mut srv) = client(ClientCfg { string_ids: r.bool(), build_path: r.below(4) as u8, ..Default::default() });
	const POOL: [(&str, &str); 9] = [
		("method", "\"say_hello\""),
		("params", "{\"subscription\":1,\"result\":null}"),
		("params", "[1,2]"),
		("subscription", "7"),
		("code", "-32000"),
		("message", "\"not mine\""),
		("data", "{\"a\":[]}"),
		("extra", "null"),
		("Result", "1"),
	];
	for i in 0..n {
		let cl = c.clone();
		let t = tokio::spawn(async move { cl.request::<Value, _>("call", jsonrpsee_core::rpc_params![i]).await });
		let Ok(Some((_, WireMsg::Single(q)))) = tokio::time::timeout(Duration::from_secs(5), srv.next_msg()).await else { break };
		let id = q.id.clone().unwrap_or(Value::Null);
		let is_err = r.chance(1, 3);
		let mut members: Vec<String> = vec!["\"jsonrpc\":\"2.0\"".into(), format!("\"id\":{id}")];
		members.push(if is_err { format!("\"error\":{{\"code\":-32050,\"message\":\"scripted {i}\"}}") } else { format!("\"result\":{{\"n\":{i}}}") });
		r.shuffle(&mut members);
		let mut names = Vec::new();
		// `method` together with an object-shaped `params` (what a subscription notification looks like), or any other pick
		let picks: Vec<usize> = if r.chance(1, 3) { vec![0, 1] } else { (0..1 + r.usize(3)).map(|_| r.usize(POOL.len())).collect() };
		for k in picks {
			if names.contains(&POOL[k].0) {
				continue;
			}
			names.push(POOL[k].0);
			let at = r.usize(members.len() + 1);
			members.insert(at, format!("\"{}\":{}", POOL[k].0, POOL[k].1));
		}
		let text = format!("{{{}}}", members.join(","));
		srv.push_text(text.clone());
		ev.eval();
		ev.count("client_calls_answered_with_unknown_members", 1);
		let got = tokio::time::timeout(Duration::from_secs(30), t).await;
		let ok = match &got {
			Ok(Ok(Ok(v))) => !is_err && v["n"] == json!(i),
			Ok(Ok(Err(e))) => is_err && matches!(err_kind(e), ErrKind::Call(-32050, _, _)),
			_ => false,
		};
		if ok {
			ev.nontrivial(&("client-unknown-members", seed, i));
		} else {
			let mut ns = names.clone();
			ns.sort();
			sink.push(
				format!("client-drops-valid-response/unknown-members={}", ns.join("+")),
				format!("the call was answered {text}; it ended with {:?}", got.map(|r| r.map(|r| r.map_err(|e| format!("{e:?}"))))),
				|| json!({"family": "client-unknown-members", "seed": seed, "index": i, "response": text}),
			);
			if !c.is_connected() {
				break;
			}
		}
	}
}

fn boundary_codes() -> Vec<i32> {
	let mut v = vec![i32::MIN, i32::MIN + 1, i32::MAX, i32::MAX - 1, 0, 1, -1, 65535, -65536, 32767, -32768, -32769, 1 << 24, -(1 << 24)];
	for (_, c) in NAMED_KINDS {
		v.extend([c - 1, c, c + 1]);
	}
	for k in 0..32u32 {
		let p = 1i64 << k;
		for d in [-1i64, 0, 1] {
			for s in [1i64, -1] {
				let x = s * (p + d);
				if x >= i32::MIN as i64 && x <= i32::MAX as i64 {
					v.push(x as i32);
				}
			}
		}
	}
	v
}

fn replay(ctx: &Ctx, mut ev: Evidence) -> ! {
	let path = ctx.replay.as_ref().expect("replay path");
	let w: Value = serde_json::from_str(&std::fs::read_to_string(path).expect("replay file")).expect("json");
	let wit = &w["witness"];
	let mut sink = Sink::default();
	match wit["part"].as_str().unwrap_or("") {
		"roundtrip" => {
			let spec: Spec = serde_json::from_value(wit["spec"].clone()).expect("witness.spec");
			println!("replaying round trip of {spec:?}");
			record_spec(&spec, true, &mut ev, &mut sink);
			// a second, distinct case so that the evidence floor is about the replayed case only
			ev.nontrivial(&"replay");
		}
		"predicate" => {
			let text = wit["text"].as_str().expect("witness.text").to_string();
			let owned: Vec<(String, String, String)> = wit["members"]
				.as_array()
				.expect("witness.members")
				.iter()
				.map(|x| (x["key"].as_str().unwrap_or("").to_string(), x["value"].as_str().unwrap_or("").to_string(), x["role"].as_str().unwrap_or("").to_string()))
				.collect();
			let seq: Vec<M<'_>> = owned
				.iter()
				.map(|(k, v, role)| {
					let role = match role.as_str() {
						"JGood" => Role::JGood,
						"JBad" => Role::JBad,
						"IdGood" => Role::IdGood,
						"IdBad" => Role::IdBad,
						"Result" => Role::Result,
						"ErrGood" => Role::ErrGood,
						"ErrBad" => Role::ErrBad,
						_ => Role::Unknown,
					};
					let tag = ALPHA.iter().find(|a| a.key == k && a.val == v).map(|a| a.tag).unwrap_or("replayed");
					M { key: k, val: v, role, tag }
				})
				.collect();
			println!("replaying response text {text}");
			println!(
				"oracle: {}",
				match oracle(&seq) {
					Want::Accept => "must be accepted".to_string(),
					Want::Either => "either verdict".to_string(),
					Want::Reject(w) => format!("must be refused ({w})"),
				}
			);
			println!("parser (Response<Value>): {:?}", serde_json::from_str::<Response<Value>>(&text).map(|r| r.to_string()).map_err(|e| e.to_string()));
			record_seq(&seq, &text, 1, &mut ev, &mut sink);
			ev.nontrivial(&"replay");
		}
		"code" => {
			let c = wit["code"].as_i64().expect("witness.code") as i32;
			println!("replaying ErrorCode::from({c}) = {:?} -> code() = {}", ErrorCode::from(c), ErrorCode::from(c).code());
			check_code(c, &mut sink);
			ev.eval();
			ev.nontrivial(&c);
			ev.nontrivial(&"replay");
		}
		"kind" => {
			check_kinds(&mut sink, &mut ev, &[]);
		}
		other => {
			eprintln!("harness error: replay file has unknown part {other:?}");
			std::process::exit(2);
		}
	}
	for v in &sink.v {
		println!("replay violation: {} — {}", v.signature, v.detail);
	}
	if sink.v.is_empty() {
		println!("replay: the oracle is satisfied on this case");
	}
	finish(ctx, ev, sink.v, None);
}

fn main() {
	let ctx = Ctx::from_env("C15", "exploration");
	if ctx.sub.as_deref() == Some("miri") {
		let n: u64 = ctx.arg_value("--n").and_then(|s| s.parse().ok()).unwrap_or(100);
		let mut ev = Evidence::new("");
		let mut sink = Sink::default();
		let mut r = Rng::new(ctx.seed);
		// ~n round trips (a third of them fixed corners), a slice of the predicate enumeration, a few codes
		let corners = corner_specs();
		for (i, s) in corners.iter().enumerate() {
			if (i as u64) < n / 3 {
				record_spec(s, false, &mut ev, &mut sink);
			}
		}
		let done = ev.evaluations;
		for _ in done..n {
			let s = gen_spec(&mut r);
			record_spec(&s, false, &mut ev, &mut sink);
		}
		enumerate(&[], 1, &mut ev, &mut sink);
		random_sequences(r.next_u64(), 25, false, &mut ev, &mut sink);
		for c in boundary_codes().into_iter().take(60) {
			check_code(c, &mut sink);
		}
		check_kinds(&mut sink, &mut ev, &[-32050, 5]);
		let mut sigs: Vec<String> = sink.v.iter().map(|x| x.signature.clone()).collect();
		sigs.sort();
		sigs.dedup();
		println!(
			"SUBRESULT {}",
			json!({"round_trips": ev.counter("roundtrips_compared"), "predicate_texts": ev.counter("predicate_texts"), "violation_signatures": sigs})
		);
		return;
	}
	install_panic_capture(true);
	let _wd = watchdog("C15", Duration::from_secs(ctx.tier.pick(600, 3600)));
	let mut ev = Evidence::new(
		"cases = (i) one generated wire value (request, notification, response success/error as Response<Value> and \
		 Response<Box<RawValue>>, error object, id, subscription id, subscription response/error) serialised, validated, \
		 re-parsed and re-serialised; non-trivial = the emitted text parsed back and was compared field by field, distinct \
		 by (type, emitted text). (ii) one member sequence parsed as Response<Value> and Response<Box<RawValue>> (2 \
		 evaluations); non-trivial = the sequence holds an id member and a result/error member, distinct by member sequence \
		 (enumeration) or text (random). (iii) error kinds: one evaluation per kind; integer codes are counted under \
		 observed.error_codes_checked, not as evaluations.",
	);
	ev.assume("typed payloads (Value) are float-free; arbitrary number tokens travel only as RawValue and are compared as text");
	ev.assume("request/notification params are generated as array/object or absent (JSON-RPC 2.0 allows nothing else); a Request whose params is the RawValue `null` is outside the generated domain");
	ev.assume("the strict validator's jsonrpc requirement applies to messages built by the library's constructors; Response values with jsonrpc: None (as parsed from a peer omitting the member) are round-tripped and must then omit the member");
	ev.assume("ServerError(c) is examined only for c that is not the code of a named kind");
	ev.assume("wire codes: five standard kinds from the JSON-RPC 2.0 specification, OversizedRequest=-32007 and ServerIsBusy=-32009 from jsonrpsee's published constants");
	ev.assume("duplicated unknown members in an otherwise acceptable response: either verdict accepted (DESIGN.md relaxation)");

	if ctx.replay.is_some() {
		replay(&ctx, ev);
	}

	let mut sink = Sink::default();
	// stored witnesses are capped per signature (per shard and globally); `sink.per` keeps the true occurrence counts
	let merge = |ev: &mut Evidence, sink: &mut Sink, parts: Vec<(Evidence, Sink)>| {
		for (e, s) in parts {
			ev.merge(e);
			for (sig, n) in s.per {
				*sink.per.entry(sig).or_insert(0) += n;
			}
			for v in s.v {
				if sink.v.iter().filter(|x| x.signature == v.signature).count() < PER_SIG_CAP as usize {
					sink.v.push(v);
				}
			}
		}
	};

	let mut phases = serde_json::Map::new();
	let mut mark = |name: &str, t0: &mut std::time::Instant| {
		phases.insert(name.to_string(), json!((t0.elapsed().as_secs_f64() * 10.0).round() / 10.0));
		*t0 = std::time::Instant::now();
	};
	let mut t0 = std::time::Instant::now();
	// (iii, kinds) first, so that the direct kind check supplies the first witness of a kind defect
	let mut server_error_samples: Vec<i32> = boundary_codes();
	{
		let mut r = Rng::fork(ctx.seed, 77);
		for _ in 0..2000 {
			server_error_samples.push(gen_code(&mut r));
		}
	}
	let kinds = check_kinds(&mut sink, &mut ev, &server_error_samples);
	ev.count("error_kinds_checked", kinds);
	http_constant_messages(&mut ev, &mut sink);
	{
		let n = ctx.tier.pick(60usize, 3_000);
		let seed = ctx.seed;
		let parts = run_parallel((0..16u64).collect(), |_, s| {
			let mut ev = Evidence::new("");
			let mut sink = Sink::default();
			block_on_virtual(client_ignores_unknown_members(Rng::fork(seed, 3000 + s).next_u64(), n, &mut sink, &mut ev));
			(ev, sink)
		});
		merge(&mut ev, &mut sink, parts);
	}

	// (i) round trips
	let shards = 16u64;
	let total_rt: u64 = ctx.tier.pick(800_000, 12_000_000);
	let parts = run_parallel((0..shards).collect(), |_, s| {
		let mut ev = Evidence::new("");
		let mut sink = Sink::default();
		roundtrip_workload(Rng::fork(ctx.seed, s).next_u64(), total_rt / shards, s == 0, &mut ev, &mut sink);
		(ev, sink)
	});
	merge(&mut ev, &mut sink, parts);

	mark("roundtrips_s", &mut t0);
	// (ii) acceptance predicate: exhaustive enumeration (sharded by the first two members) + seeded random sequences
	let max_len = ctx.tier.pick(4usize, 5usize);
	let mut items: Vec<Vec<usize>> = Vec::new();
	for a in 0..ALPHA.len() {
		for b in 0..ALPHA.len() {
			items.push(vec![a, b]);
		}
	}
	let parts = run_parallel(items, |_, p| {
		let mut ev = Evidence::new("");
		let mut sink = Sink::default();
		enumerate(&p, max_len, &mut ev, &mut sink);
		(ev, sink)
	});
	merge(&mut ev, &mut sink, parts);
	{
		let mut e = Evidence::new("");
		let mut s = Sink::default();
		enumerate(&[], 1, &mut e, &mut s);
		merge(&mut ev, &mut sink, vec![(e, s)]);
	}
	for idx in [vec![0usize, 4, 13], vec![16, 5, 1], vec![2, 4, 13], vec![4, 4, 13], vec![13, 16, 4], vec![22, 22, 6, 17]] {
		let seq: Vec<M<'static>> = idx.iter().map(|&i| ALPHA[i]).collect();
		let verdict = match oracle(&seq) {
			Want::Accept => "accept".to_string(),
			Want::Either => "either".to_string(),
			Want::Reject(w) => format!("reject: {w}"),
		};
		ev.sample(json!({"class": "predicate-enumerated", "case": {"text": build_text(&seq, None), "oracle": verdict}}));
	}
	ev.set("predicate_enumeration", json!({"alphabet": ALPHA.len(), "max_length": max_len, "exhaustive_to_max_length": true}));
	mark("predicate_enumeration_s", &mut t0);
	let total_rand: u64 = ctx.tier.pick(800_000, 8_000_000);
	let parts = run_parallel((0..shards).collect(), |_, s| {
		let mut ev = Evidence::new("");
		let mut sink = Sink::default();
		random_sequences(Rng::fork(ctx.seed, 1000 + s).next_u64(), total_rand / shards, s == 0, &mut ev, &mut sink);
		(ev, sink)
	});
	merge(&mut ev, &mut sink, parts);

	mark("predicate_random_s", &mut t0);
	// (iii) error codes
	if ctx.tier == Tier::Thorough {
		// all 2^32 integers, 256 blocks of 2^24
		let parts = run_parallel((0u32..256).collect(), |_, hi| {
			let mut sink = Sink::default();
			let mut n = 0u64;
			for lo in 0u32..(1 << 24) {
				let c = ((hi << 24) | lo) as i32;
				// cheap inline test first; the reporting path re-evaluates
				let k = ErrorCode::from(c);
				if k.code() != c {
					check_code(c, &mut sink);
				}
				n += 1;
			}
			let mut ev = Evidence::new("");
			ev.count("error_codes_checked", n);
			(ev, sink)
		});
		merge(&mut ev, &mut sink, parts);
		ev.set("exhaustive_error_codes", json!(true));
	} else {
		let mut n = 0u64;
		for c in -33100..=-31900 {
			check_code(c, &mut sink);
			n += 1;
		}
		for c in boundary_codes() {
			check_code(c, &mut sink);
			n += 1;
		}
		let mut r = Rng::fork(ctx.seed, 78);
		for _ in 0..1_000_000 {
			check_code(r.next_u64() as u32 as i32, &mut sink);
			n += 1;
		}
		ev.count("error_codes_checked", n);
		ev.set("exhaustive_error_codes", json!(false));
	}

	mark("error_codes_s", &mut t0);
	if !sink.per.is_empty() {
		let m: serde_json::Map<String, Value> = sink.per.iter().map(|(k, v)| (k.clone(), json!(v))).collect();
		ev.set("violation_occurrences_before_witness_cap", Value::Object(m));
	}
	let mut violations = sink.v;
	if !violations.iter().any(|v| v.signature.starts_with("panic/")) {
		for p in take_panics() {
			if p.in_library {
				violations.push(Violation::new(
					format!("panic/{}", p.location.rsplit('/').next().unwrap_or("").split(':').next().unwrap_or("")),
					p.message.clone(),
					json!({"location": p.location, "backtrace": p.backtrace_head}),
				));
			}
		}
	}

	let mut inconclusive = None;
	if ctx.tier == Tier::Thorough {
		match sanit::run_miri("c15", &["--n".into(), "100".into()], Duration::from_secs(1500)) {
			SubOutcome::Clean(v) => {
				ev.set("miri", json!({"status": "no report", "workload": v}));
				for s in v["violation_signatures"].as_array().cloned().unwrap_or_default() {
					violations.push(Violation::new(s.as_str().unwrap_or("?").to_string(), "seen in the Miri sub-run", json!({"sub": "miri"})));
				}
			}
			SubOutcome::Report { excerpt, frame } => {
				violations.push(Violation::new(format!("miri:{frame}"), "Miri reported undefined behaviour", json!({"excerpt": excerpt})))
			}
			SubOutcome::Failed(why) => {
				ev.set("miri", json!({"status": "inconclusive", "why": why}));
				inconclusive = Some(format!("Miri sub-run did not complete: {}", why.chars().take(300).collect::<String>()));
			}
		}
	}
	mark("miri_s", &mut t0);
	ev.set("phase_wall_s", Value::Object(phases));
	finish(&ctx, ev, violations, inconclusive);
}
