//! C06 — server subscription bookkeeping is exact and respects the per-connection cap.
//!
//! Monitor: the real server stack in memory (TowerService over duplex, raw WebSocket peers) with remote-controlled
//! subscription handlers (jrv::subctl): every handler step (accept / reject / drop pending / clone sink / drop sink /
//! return) happens when the script says so, so an executable model of the subscriber table and of the per-connection
//! permits is exact. After every operation the observed result (unsubscribe boolean, -32006 refusal or admission,
//! `is_closed()` seen by the handler, accept/reject responses) is compared with the model. A connection drop is
//! injected after every step of every sequence (fault enumeration).

use jrv::memsrv::{MemServer, RawWs};
use jrv::report::*;
use jrv::rng::Rng;
use jrv::runner::*;
use jrv::subctl::{self, Cmd, Registry, Reply, Ret};
use jrv::lowlevel::LowLevel;
use jsonrpsee_server::{IdProvider, ServerConfig};
use jsonrpsee_types::SubscriptionId;
use serde_json::{Value, json};
use std::sync::Arc;
use std::sync::atomic::{AtomicU64, Ordering};
use std::time::Duration;

const TOO_MANY_SUBSCRIPTIONS: i64 = -32006;

/// Predictable subscription ids: 1, 2, 3, ... in the order in which subscribe calls are admitted.
#[derive(Debug, Clone, Default)]
struct CounterIds(Arc<AtomicU64>);
impl IdProvider for CounterIds {
	fn next_id(&self) -> SubscriptionId<'static> {
		SubscriptionId::Num(self.0.fetch_add(1, Ordering::SeqCst) + 1)
	}
}

/// The server under test: the tower service, or the low-level assembly around `ws::connect`.
enum Srv {
	Tower(MemServer),
	Low(LowLevel),
}
impl Srv {
	async fn ws(&self) -> Result<RawWs, String> {
		match self {
			Srv::Tower(s) => s.ws().await.map_err(|e| format!("{e:?}")),
			Srv::Low(l) => l.ws().await,
		}
	}
}

#[derive(Debug, Clone, PartialEq, Eq, Hash)]
enum Target {
	Own(usize),
	/// the id of subscription `s`, sent on the OTHER connection
	Foreign(usize),
	Unknown,
	Malformed(usize),
	/// the (predictable) id of subscription `s` while it is still pending, i.e. not yet accepted
	Pending(usize),
}

#[derive(Debug, Clone, PartialEq, Eq, Hash)]
enum Op {
	Subscribe { conn: usize, raw: bool },
	Accept(usize),
	Reject(usize),
	DropPending(usize),
	CloneSink(usize),
	DropSink(usize, usize),
	IsClosed(usize, usize),
	Return(usize, u8),
	Unsubscribe { conn: usize, target: Target },
	ConnDrop(usize),
	Ping(usize),
}

impl Op {
	fn kind(&self) -> &'static str {
		match self {
			Op::Subscribe { .. } => "subscribe",
			Op::Accept(_) => "accept",
			Op::Reject(_) => "reject",
			Op::DropPending(_) => "drop-pending",
			Op::CloneSink(_) => "clone-sink",
			Op::DropSink(..) => "drop-sink",
			Op::IsClosed(..) => "is-closed",
			Op::Return(..) => "handler-return",
			Op::Unsubscribe { .. } => "unsubscribe",
			Op::ConnDrop(_) => "connection-drop",
			Op::Ping(_) => "ping",
		}
	}
}

#[derive(Debug, Clone, PartialEq)]
enum SubState {
	Pending,
	Active,
	Gone,
}

#[derive(Debug, Clone)]
struct SubModel {
	conn: usize,
	tag: String,
	raw: bool,
	state: SubState,
	sub_id: Option<Value>,
	call_id: u64,
	/// the id the counter provider hands to this subscription (known as soon as the subscribe is admitted)
	predicted_id: u64,
	sinks: Vec<bool>,
	unsubscribed: bool,
	/// the handler (or its pending sink) still holds the permit
	fn_alive: bool,
}

impl SubModel {
	fn holds_permit(&self) -> bool {
		match self.state {
			SubState::Pending => true,
			SubState::Active => self.sinks.iter().any(|s| *s),
			SubState::Gone => false,
		}
	}
	fn is_active(&self) -> bool {
		self.state == SubState::Active && !self.unsubscribed && self.sinks.iter().any(|s| *s)
	}
}

#[derive(Debug, Clone)]
struct Spec {
	seed: u64,
	cap: u32,
	conns: usize,
	ops: Vec<Op>,
	/// assemble the server with the low-level `ws::connect` API instead of the tower service
	low_level: bool,
	/// message_buffer_capacity (deliberately different from the cap)
	buffer: u32,
}

#[derive(Default)]
struct Out {
	violations: Vec<(String, String)>,
	history: Vec<String>,
	ops_checked: usize,
	refusals: usize,
	admissions: usize,
	unsub_true: usize,
	unsub_false: usize,
	max_occupancy: usize,
	states: Vec<String>,
}

async fn settle() {
	tokio::time::sleep(Duration::from_millis(1)).await;
}

struct Conn {
	ws: Option<RawWs>,
	alive: bool,
	pending_frames: Vec<Value>,
}

impl Conn {
	fn pump(&mut self) {
		if let Some(ws) = self.ws.as_mut() {
			for f in ws.try_drain() {
				if let Some(v) = f.json() {
					self.pending_frames.push(v);
				}
			}
		}
	}
	/// Take the response with this request id, if it has arrived.
	fn take_response(&mut self, id: u64) -> Option<Value> {
		self.pump();
		let pos = self.pending_frames.iter().position(|v| v.get("id") == Some(&json!(id)))?;
		Some(self.pending_frames.remove(pos))
	}
}

async fn run_spec(spec: &Spec) -> Out {
	let mut out = Out::default();
	let reg = Registry::default();
	let ids = CounterIds::default();
	let cfg = ServerConfig::builder()
		.max_subscriptions_per_connection(spec.cap)
		.set_message_buffer_capacity(spec.buffer)
		.max_connections(100)
		.set_id_provider(ids.clone())
		.build();
	let srv = if spec.low_level { Srv::Low(LowLevel::new(cfg, subctl::module(reg.clone()))) } else { Srv::Tower(MemServer::new(cfg, subctl::module(reg.clone()))) };
	let mut admitted = 0u64;
	let mut conns: Vec<Conn> = Vec::new();
	for _ in 0..spec.conns {
		match srv.ws().await {
			Ok(ws) => conns.push(Conn { ws: Some(ws), alive: true, pending_frames: vec![] }),
			Err(e) => {
				out.violations.push(("setup-failed/ws-connect".into(), format!("{e:?}")));
				return out;
			}
		}
	}
	let mut subs: Vec<SubModel> = Vec::new();
	let mut next_id = 1u64;
	macro_rules! bad {
		($sig:expr, $($arg:tt)*) => { out.violations.push(($sig.to_string(), format!($($arg)*))) };
	}

	for (oi, op) in spec.ops.iter().enumerate() {
		let before_viol = out.violations.len();
		match op {
			Op::Subscribe { conn, raw } => {
				if !conns[*conn].alive {
					continue;
				}
				let held = subs.iter().filter(|s| s.conn == *conn && s.holds_permit()).count();
				// an unsubscribed subscription whose handler still holds a sink: the slot is "not yet returned"; both
				// outcomes are within the statement
				let ambiguous = subs.iter().any(|s| s.conn == *conn && s.state == SubState::Active && s.unsubscribed && s.holds_permit());
				let tag = format!("s{}", subs.len());
				let id = next_id;
				next_id += 1;
				let method = if *raw { "sub_raw" } else { "sub" };
				let msg = json!({"jsonrpc": "2.0", "id": id, "method": method, "params": [tag]}).to_string();
				if conns[*conn].ws.as_mut().unwrap().send_text(&msg).await.is_err() {
					bad!("send-failed/subscribe", "connection {conn} refused a frame");
					continue;
				}
				settle().await;
				let resp = conns[*conn].take_response(id);
				let started = reg.get(&tag).is_some();
				let must_refuse = held >= spec.cap as usize;
				out.history.push(format!("{oi}: conn{conn} subscribe {tag} ({method}) with {held}/{} slots held -> response {:?}, handler started {started}", spec.cap, resp));
				match (&resp, started) {
					(Some(r), false) if r["error"]["code"] == json!(TOO_MANY_SUBSCRIPTIONS) => {
						out.refusals += 1;
						if !must_refuse {
							bad!("refused-with-free-slot/subscribe", "{held} of {} slots held on connection {conn} but the subscribe was refused -32006", spec.cap);
						}
					}
					(None, true) => {
						out.admissions += 1;
						if must_refuse && !ambiguous {
							bad!("cap-exceeded/subscribe", "{held} of {} slots held on connection {conn} but another subscription was admitted", spec.cap);
						}
						admitted += 1;
						subs.push(SubModel { conn: *conn, tag, raw: *raw, state: SubState::Pending, sub_id: None, call_id: id, predicted_id: admitted, sinks: vec![], unsubscribed: false, fn_alive: true });
					}
					other => bad!("unexpected-subscribe-outcome/subscribe", "response {:?}, handler started {}", other.0, other.1),
				}
			}
			Op::Accept(s) | Op::Reject(s) | Op::DropPending(s) => {
				let Some(m) = subs.get(*s).cloned() else { continue };
				if m.state != SubState::Pending || !m.fn_alive {
					continue;
				}
				let Some(h) = reg.get(&m.tag) else { continue };
				let cmd = match op {
					Op::Accept(_) => Cmd::Accept,
					Op::Reject(_) => Cmd::Reject,
					_ => Cmd::DropPending,
				};
				let rep = h.cmd(cmd).await;
				settle().await;
				let resp = if conns[m.conn].alive { conns[m.conn].take_response(m.call_id) } else { None };
				out.history.push(format!("{oi}: {} {} -> handler saw {:?}, peer got {:?}", op.kind(), m.tag, rep.as_ref().map(|t| &t.reply), resp));
				let conn_alive = conns[m.conn].alive;
				match (op, rep.map(|t| t.reply)) {
					(Op::Accept(_), Some(Reply::Accepted { sub_id })) => {
						if !conn_alive {
							bad!("accept-succeeded/connection-closed", "{}: accept() returned Ok on a closed connection", m.tag);
						}
						match &resp {
							Some(r) if r["result"] == sub_id => {}
							other => {
								if conn_alive {
									bad!("accept-response-wrong/accept", "{}: handler got id {sub_id}, peer got {other:?}", m.tag);
								}
							}
						}
						if sub_id != json!(m.predicted_id) {
							bad!("harness-id-prediction-off/accept", "{}: predicted id {}, the library handed out {sub_id}", m.tag, m.predicted_id);
						}
						let sm = &mut subs[*s];
						sm.state = SubState::Active;
						sm.sub_id = Some(sub_id);
						sm.sinks = vec![true];
					}
					(Op::Accept(_), Some(Reply::AcceptFailed)) => {
						if conn_alive {
							bad!("accept-failed/connection-open", "{}: accept() failed although the connection is open", m.tag);
						}
						subs[*s].state = SubState::Gone;
					}
					(Op::Reject(_), Some(Reply::Rejected)) => {
						if conn_alive && resp.as_ref().map(|r| r["error"]["code"].clone()) != Some(json!(-32099)) {
							bad!("reject-response-wrong/reject", "{}: peer got {resp:?}", m.tag);
						}
						subs[*s].state = SubState::Gone;
					}
					(Op::DropPending(_), Some(Reply::PendingDropped)) => {
						if conn_alive && !resp.as_ref().is_some_and(|r| r.get("error").is_some()) {
							bad!("drop-pending-response-wrong/drop-pending", "{}: peer got {resp:?}", m.tag);
						}
						subs[*s].state = SubState::Gone;
					}
					(_, None) => {
						bad!("handler-unreachable/pending", "{}: the handler of a pending subscription did not answer", m.tag);
						subs[*s].state = SubState::Gone;
					}
					(_, Some(other)) => bad!("unexpected-handler-reply/pending", "{}: {other:?}", m.tag),
				}
				// after reject / drop of the pending sink the library cancels the handler future of `sub`
				if subs[*s].state == SubState::Gone && !m.raw {
					subs[*s].fn_alive = false;
				}
			}
			Op::CloneSink(s) => {
				let Some(m) = subs.get(*s).cloned() else { continue };
				let Some(i) = m.sinks.iter().position(|x| *x) else { continue };
				if m.state != SubState::Active {
					continue;
				}
				let Some(h) = reg.get(&m.tag) else { continue };
				match h.cmd(Cmd::CloneSink(i)).await.map(|t| t.reply) {
					Some(Reply::Cloned(k)) => {
						let sm = &mut subs[*s];
						while sm.sinks.len() <= k {
							sm.sinks.push(false);
						}
						sm.sinks[k] = true;
						out.history.push(format!("{oi}: {} clones sink {i} -> sink {k}", m.tag));
					}
					other => bad!("unexpected-handler-reply/clone", "{}: {other:?}", m.tag),
				}
			}
			Op::DropSink(s, pick) => {
				let Some(m) = subs.get(*s).cloned() else { continue };
				if m.state != SubState::Active {
					continue;
				}
				let held: Vec<usize> = m.sinks.iter().enumerate().filter(|(_, x)| **x).map(|(i, _)| i).collect();
				if held.is_empty() {
					continue;
				}
				let i = held[pick % held.len()];
				let Some(h) = reg.get(&m.tag) else { continue };
				match h.cmd(Cmd::DropSink(i)).await.map(|t| t.reply) {
					Some(Reply::SinkDropped) => {
						subs[*s].sinks[i] = false;
						out.history.push(format!("{oi}: {} drops sink {i} ({} of its sinks remain)", m.tag, subs[*s].sinks.iter().filter(|x| **x).count()));
					}
					other => bad!("unexpected-handler-reply/drop-sink", "{}: {other:?}", m.tag),
				}
			}
			Op::IsClosed(s, pick) => {
				let Some(m) = subs.get(*s).cloned() else { continue };
				if m.state != SubState::Active {
					continue;
				}
				let held: Vec<usize> = m.sinks.iter().enumerate().filter(|(_, x)| **x).map(|(i, _)| i).collect();
				if held.is_empty() {
					continue;
				}
				let i = held[pick % held.len()];
				let Some(h) = reg.get(&m.tag) else { continue };
				let want = m.unsubscribed || !conns[m.conn].alive;
				match h.cmd(Cmd::IsClosed(i)).await.map(|t| t.reply) {
					Some(Reply::Closed(c)) => {
						out.history.push(format!("{oi}: {} sink {i} is_closed() = {c} (model {want})", m.tag));
						if c != want {
							let why = if c { "reported-closed-while-active" } else { "reported-open-after-close" };
							let dropped_clone = m.sinks.iter().filter(|x| !**x).count() > 0;
							bad!(format!("is-closed-wrong/{why}{}", if dropped_clone { "/after-a-clone-was-dropped" } else { "" }), "{}: sink {i} is_closed() = {c}, model says {want}", m.tag);
						}
					}
					other => bad!("unexpected-handler-reply/is-closed", "{}: {other:?}", m.tag),
				}
			}
			Op::Return(s, how) => {
				let Some(m) = subs.get(*s).cloned() else { continue };
				if !m.fn_alive || m.state == SubState::Gone && !m.raw {
					continue;
				}
				let Some(h) = reg.get(&m.tag) else { continue };
				// how = 3: the handler does not return, it panics while it holds whatever it holds
				let cmd = match how % 4 {
					0 => Cmd::Return(Ret::None),
					1 => Cmd::Return(Ret::NotifErr("closing".into())),
					2 => Cmd::Return(Ret::Notif(json!("bye"))),
					_ => Cmd::Panic,
				};
				let rep = h.cmd(cmd).await.map(|t| t.reply);
				settle().await;
				out.history.push(format!("{oi}: {} handler returns ({how}) -> {rep:?}", m.tag));
				if rep != Some(Reply::Returning) {
					bad!("unexpected-handler-reply/return", "{}: {rep:?}", m.tag);
				}
				// a handler that returns while its subscribe call is still pending: the library answers the call with an error
				if m.state == SubState::Pending && conns[m.conn].alive {
					let resp = conns[m.conn].take_response(m.call_id);
					if !resp.as_ref().is_some_and(|r| r.get("error").is_some()) {
						bad!("drop-pending-response-wrong/handler-return", "{}: peer got {resp:?}", m.tag);
					}
				}
				let sm = &mut subs[*s];
				sm.state = SubState::Gone;
				sm.fn_alive = false;
				for x in sm.sinks.iter_mut() {
					*x = false;
				}
			}
			Op::Unsubscribe { conn, target } => {
				if !conns[*conn].alive {
					continue;
				}
				let (params, want, feature): (Value, Option<bool>, String) = match target {
					Target::Own(s) => match subs.get(*s) {
						Some(m) if m.sub_id.is_some() && m.conn == *conn => {
							let f = if m.is_active() { "active" } else if m.unsubscribed { "already-unsubscribed" } else { "handler-gone" };
							(json!([m.sub_id.clone().unwrap()]), Some(m.is_active()), f.to_string())
						}
						_ => continue,
					},
					Target::Foreign(s) => match subs.get(*s) {
						Some(m) if m.sub_id.is_some() && m.conn != *conn => (json!([m.sub_id.clone().unwrap()]), Some(false), "foreign-connection".to_string()),
						_ => continue,
					},
					Target::Pending(s) => match subs.get(*s) {
						Some(m) if m.state == SubState::Pending && m.conn == *conn => (json!([m.predicted_id]), Some(false), "pending-not-yet-accepted".to_string()),
						_ => continue,
					},
					Target::Unknown => (json!([987_654_321u64]), Some(false), "unknown-id".to_string()),
					Target::Malformed(k) => {
						let p = [json!([{"a": 1}]), json!([-1]), json!([[1]]), json!([1, 2]), json!({"id": 1}), json!([true]), json!([1.5])];
						(p[k % p.len()].clone(), None, "malformed-id".to_string())
					}
				};
				let raw = match target {
					Target::Own(s) | Target::Foreign(s) | Target::Pending(s) => subs[*s].raw,
					_ => false,
				};
				let id = next_id;
				next_id += 1;
				let msg = json!({"jsonrpc": "2.0", "id": id, "method": if raw { "unsub_raw" } else { "unsub" }, "params": params}).to_string();
				let _ = conns[*conn].ws.as_mut().unwrap().send_text(&msg).await;
				settle().await;
				let resp = conns[*conn].take_response(id);
				out.history.push(format!("{oi}: conn{conn} unsubscribe {params} ({feature}) -> {resp:?} (model {want:?})"));
				match (&resp, want) {
					(Some(r), Some(w)) => {
						if r["result"] != json!(w) {
							bad!(format!("unsubscribe-result-wrong/{feature}"), "unsubscribe({params}) answered {r}, model says {w}");
						}
						if r["result"] == json!(true) {
							out.unsub_true += 1;
						} else {
							out.unsub_false += 1;
						}
					}
					(Some(r), None) => {
						if r["result"] != json!(false) && r["error"]["code"] != json!(-32602) {
							bad!("unsubscribe-result-wrong/malformed-id", "unsubscribe({params}) answered {r}");
						}
					}
					(None, _) => bad!("unsubscribe-unanswered/any", "unsubscribe({params}) got no reply"),
				}
				if let (Target::Own(s), Some(true)) = (target, want) {
					subs[*s].unsubscribed = true;
				}
			}
			Op::ConnDrop(c) => {
				if !conns[*c].alive {
					continue;
				}
				if let Some(ws) = conns[*c].ws.take() {
					ws.abort();
				}
				conns[*c].alive = false;
				// let the server notice
				tokio::time::sleep(Duration::from_millis(5)).await;
				out.history.push(format!("{oi}: connection {c} dropped by the peer"));
			}
			Op::Ping(c) => {
				if !conns[*c].alive {
					continue;
				}
				let id = next_id;
				next_id += 1;
				let _ = conns[*c].ws.as_mut().unwrap().send_text(&json!({"jsonrpc": "2.0", "id": id, "method": "ping", "params": [id]}).to_string()).await;
				settle().await;
				if conns[*c].take_response(id).is_none() {
					bad!("connection-dead/ping", "connection {c} no longer answers");
				}
			}
		}
		out.ops_checked += 1;
		for c in 0..spec.conns {
			let occ = subs.iter().filter(|s| s.conn == c && s.holds_permit()).count();
			out.max_occupancy = out.max_occupancy.max(occ);
		}
		out.states.push(format!("{:?}", subs.iter().map(|s| (s.conn, &s.state, s.sinks.iter().filter(|x| **x).count(), s.unsubscribed)).collect::<Vec<_>>()));
		if out.violations.len() > before_viol {
			break;
		}
	}
	// wind down: let every handler return
	for m in &subs {
		if let Some(h) = reg.get(&m.tag) {
			let _ = h.cmd_nowait(Cmd::Return(Ret::None));
		}
	}
	settle().await;
	out
}

/// Directed family: `accept()` is blocked by back-pressure (tiny transport buffer, message buffer 1, peer not reading)
/// while the peer unsubscribes the id the pending subscription is going to get. The subscription is not active yet, so
/// the answer must be false, and after the accept completed the sink must not be closed.
async fn blocked_accept_case(seed: u64) -> Out {
	let mut out = Out::default();
	let mut r = Rng::new(seed);
	let reg = Registry::default();
	let ids = CounterIds::default();
	let cfg = ServerConfig::builder().max_subscriptions_per_connection(4).set_message_buffer_capacity(1).max_connections(10).set_id_provider(ids.clone()).build();
	let mut srv = MemServer::new(cfg, subctl::module(reg.clone()));
	srv.duplex_capacity = 256 + r.usize(256);
	let Ok(mut ws) = srv.ws().await else {
		out.violations.push(("setup-failed/ws-connect".into(), "blocked-accept scenario".into()));
		return out;
	};
	macro_rules! bad {
		($sig:expr, $($arg:tt)*) => { out.violations.push(($sig.to_string(), format!($($arg)*))) };
	}
	let raw = r.chance(1, 4);
	ws.set_reading(false);
	settle().await;
	// responses that nobody reads fill the transport and the connection's message buffer
	let filler = "x".repeat(150 + r.usize(100));
	for i in 0..5 + r.usize(3) {
		let _ = ws.send_text(&json!({"jsonrpc": "2.0", "id": 100 + i, "method": "ping", "params": [filler]}).to_string()).await;
	}
	settle().await;
	let _ = ws.send_text(&json!({"jsonrpc": "2.0", "id": 1, "method": if raw { "sub_raw" } else { "sub" }, "params": ["b0"]}).to_string()).await;
	settle().await;
	let Some(h) = reg.get("b0") else {
		bad!("refused-with-free-slot/subscribe", "blocked-accept scenario: the subscribe call did not reach its handler");
		return out;
	};
	let accept_rx = h.cmd_nowait(Cmd::Accept);
	tokio::time::sleep(Duration::from_millis(5)).await;
	out.history.push("transport full, accept() in flight".into());
	// unsubscribe the id the pending subscription will get (ids are 1, 2, ...)
	let _ = ws.send_text(&json!({"jsonrpc": "2.0", "id": 2, "method": if raw { "unsub_raw" } else { "unsub" }, "params": [1]}).to_string()).await;
	tokio::time::sleep(Duration::from_millis(5)).await;
	ws.set_reading(true);
	let frames = ws.drain_until_idle(Duration::from_secs(2)).await;
	let resp = frames.iter().filter_map(|f| f.json()).find(|v| v["id"] == json!(2));
	out.ops_checked += 1;
	match &resp {
		Some(v) if v["result"] == json!(false) => out.unsub_false += 1,
		Some(v) => bad!("unsubscribe-result-wrong/pending-accept-in-flight", "unsubscribe of the id of a subscription whose accept() had not completed answered {v}"),
		None => bad!("unsubscribe-unanswered/any", "blocked-accept scenario"),
	}
	let accepted = match accept_rx {
		Some(rx) => tokio::time::timeout(Duration::from_secs(30), rx).await.ok().and_then(|r| r.ok()).map(|t| t.reply),
		None => None,
	};
	match accepted {
		Some(Reply::Accepted { sub_id }) => {
			out.admissions += 1;
			if sub_id != json!(1) {
				bad!("harness-id-prediction-off/accept", "expected id 1, got {sub_id}");
			}
			match h.cmd(Cmd::IsClosed(0)).await.map(|t| t.reply) {
				Some(Reply::Closed(false)) => {}
				other => bad!("is-closed-wrong/reported-closed-while-active/after-early-unsubscribe", "sink.is_closed() right after accept(): {other:?}"),
			}
			// now it is active: unsubscribe must answer true exactly once
			for (k, want) in [(3u64, true), (4u64, false)] {
				let _ = ws.send_text(&json!({"jsonrpc": "2.0", "id": k, "method": if raw { "unsub_raw" } else { "unsub" }, "params": [1]}).to_string()).await;
				let fr = ws.drain_until_idle(Duration::from_secs(1)).await;
				let rp = fr.iter().filter_map(|f| f.json()).find(|v| v["id"] == json!(k));
				if rp.as_ref().map(|v| v["result"].clone()) != Some(json!(want)) {
					bad!(format!("unsubscribe-result-wrong/{}", if want { "active" } else { "already-unsubscribed" }), "after the blocked accept completed: {rp:?}, model {want}");
				}
			}
		}
		other => bad!("accept-failed/connection-open", "blocked-accept scenario: {other:?}"),
	}
	let _ = h.cmd_nowait(Cmd::Return(Ret::None));
	settle().await;
	out
}

/// Directed family: the subscribe response does not fit into `max_response_body_size` (long ids from the id provider and a
/// small limit), so the call is refused and no subscription comes into being: an unsubscribe naming that id answers false,
/// and the connection's slots are all free afterwards.
async fn oversized_accept_case(seed: u64) -> Out {
	let mut out = Out::default();
	let mut r = Rng::new(seed);
	let reg = Registry::default();
	let ids = QueuedIds::default();
	let cap = 1 + r.below(2) as u32;
	let limit = 100 + r.below(60) as u32;
	let cfg = ServerConfig::builder().max_subscriptions_per_connection(cap).max_connections(10).max_response_body_size(limit).set_id_provider(ids.clone()).build();
	let srv = MemServer::new(cfg, subctl::module(reg.clone()));
	let Ok(mut ws) = srv.ws().await else {
		out.violations.push(("setup-failed/ws-connect".into(), "oversized-accept scenario".into()));
		return out;
	};
	macro_rules! bad {
		($sig:expr, $($arg:tt)*) => { out.violations.push(($sig.to_string(), format!($($arg)*))) };
	}
	let raw = r.chance(1, 4);
	let (sub, unsub) = if raw { ("sub_raw", "unsub_raw") } else { ("sub", "unsub") };
	let mut next_call = 0u64;
	macro_rules! call {
		($method:expr, $params:expr) => {{
			next_call += 1;
			let _ = ws.send_text(&json!({"jsonrpc": "2.0", "id": next_call, "method": $method, "params": $params}).to_string()).await;
			settle().await;
			next_call
		}};
	}
	macro_rules! response {
		($id:expr) => {{ ws.drain_until_idle(Duration::from_millis(50)).await.iter().filter_map(|f| f.json()).find(|v| v["id"] == json!($id)) }};
	}
	let rounds = 1 + r.usize(3);
	for round in 0..rounds {
		let long = format!("L{round}-{}", "x".repeat(limit as usize + r.usize(40)));
		ids.0.lock().unwrap().push_back(SubscriptionId::Str(long.clone().into()));
		let tag = format!("big{round}");
		let c = call!(sub, json!([tag]));
		let Some(h) = reg.get(&tag) else {
			bad!("refused-with-free-slot/subscribe", "oversized-accept scenario: subscribe {round} did not reach its handler");
			return out;
		};
		// accept() gives up (by design it panics in the handler when the response cannot fit): the call is answered with an error
		let rep = h.cmd(Cmd::Accept).await.map(|t| t.reply);
		settle().await;
		let rp = response!(c);
		out.ops_checked += 1;
		match &rp {
			Some(v) if v.get("error").is_some() => {}
			other => {
				bad!("accept-response-wrong/response-above-the-limit", "the subscription id has {} bytes, max_response_body_size is {limit}: the subscribe call was answered {other:?} (handler saw {rep:?})", long.len());
				return out;
			}
		}
		// no subscription exists under that id
		let u = call!(unsub, json!([long]));
		out.ops_checked += 1;
		match response!(u) {
			Some(v) if v["result"] == json!(true) => bad!("unsubscribe-result-wrong/never-subscribed/response-above-the-limit", "the subscribe call was refused (response too big), yet unsubscribe of its id answered true"),
			_ => out.unsub_false += 1,
		}
	}
	// every slot is free
	ids.0.lock().unwrap().clear();
	for k in 0..cap {
		let tag = format!("fill{k}");
		let c = call!(sub, json!([tag]));
		match reg.get(&tag) {
			Some(h) => {
				let _ = h.cmd(Cmd::Accept).await;
				out.admissions += 1;
			}
			None => {
				let rp = response!(c);
				bad!("refused-with-free-slot/subscribe", "oversized-accept scenario: after {rounds} refused subscribe call(s), subscribe {k} of {cap} was not admitted: {rp:?}");
				break;
			}
		}
	}
	out
}

/// Directed family: other ways of putting the per-connection service together than the accept loop's
/// `builder.clone().build(..)` - middleware set again on the clone made for each connection (as in
/// examples/jsonrpsee_as_service.rs), or one service built once and cloned for every connection (as in
/// examples/ws_dual_stack.rs). The statement's "per connection" clauses hold however the service was assembled: an
/// unsubscribe naming another connection's subscription answers false and leaves it alone; the cap counts each
/// connection's own subscriptions only.
async fn assembly_case(seed: u64) -> Out {
	let mut out = Out::default();
	let mut r = Rng::new(seed);
	let reg = Registry::default();
	let cap = 1 + r.below(2) as u32;
	let cfg = ServerConfig::builder().max_subscriptions_per_connection(cap).max_connections(10).build();
	let mut srv = MemServer::new(cfg, subctl::module(reg.clone()));
	let assembly = r.below(3);
	let how = ["rpc-middleware-set-per-connection", "http-middleware-set-per-connection", "one-service-cloned-per-connection"][assembly as usize];
	match assembly {
		0 => srv.per_conn_rpc_middleware = true,
		1 => srv.per_conn_http_middleware = true,
		_ => srv.one_service_for_all = true,
	}
	let (Ok(mut a), Ok(mut b)) = (srv.ws().await, srv.ws().await) else {
		out.violations.push(("setup-failed/ws-connect".into(), "assembly scenario".into()));
		return out;
	};
	macro_rules! bad {
		($sig:expr, $($arg:tt)*) => { out.violations.push(($sig.to_string(), format!($($arg)*))) };
	}
	let raw = r.chance(1, 4);
	let (sub, unsub) = if raw { ("sub_raw", "unsub_raw") } else { ("sub", "unsub") };
	let mut next_call = 0u64;
	macro_rules! call {
		($ws:expr, $method:expr, $params:expr) => {{
			next_call += 1;
			let _ = $ws.send_text(&json!({"jsonrpc": "2.0", "id": next_call, "method": $method, "params": $params}).to_string()).await;
			settle().await;
			next_call
		}};
	}
	macro_rules! response {
		($ws:expr, $id:expr) => {{ $ws.drain_until_idle(Duration::from_millis(50)).await.iter().filter_map(|f| f.json()).find(|v| v["id"] == json!($id)) }};
	}
	// connection A fills its cap
	let mut a_ids: Vec<Value> = Vec::new();
	for k in 0..cap {
		let tag = format!("a{k}");
		let c = call!(a, sub, json!([tag]));
		let Some(h) = reg.get(&tag) else {
			let rp = response!(a, c);
			bad!(format!("refused-with-free-slot/subscribe/{how}"), "connection A holds {k} of {cap}: {rp:?}");
			return out;
		};
		match h.cmd(Cmd::Accept).await.map(|t| t.reply) {
			Some(Reply::Accepted { sub_id }) => a_ids.push(sub_id),
			other => {
				bad!("accept-failed/connection-open", "assembly scenario: {other:?}");
				return out;
			}
		}
		out.admissions += 1;
	}
	// the cap is A's alone: B, holding nothing, is admitted up to its own cap, then refused
	for k in 0..=cap {
		let tag = format!("b{k}");
		let c = call!(b, sub, json!([tag]));
		out.ops_checked += 1;
		match (reg.get(&tag), k < cap) {
			(Some(h), true) => {
				let _ = h.cmd(Cmd::Accept).await;
				out.admissions += 1;
			}
			(None, true) => {
				let rp = response!(b, c);
				bad!(format!("refused-with-free-slot/subscribe/{how}"), "connection B holds {k} of {cap} subscriptions (connection A holds {cap}) but its subscribe was refused: {rp:?}");
				return out;
			}
			(Some(_), false) => bad!(format!("cap-exceeded/subscribe/{how}"), "connection B was admitted a subscription beyond its cap of {cap}"),
			(None, false) => out.refusals += 1,
		}
	}
	// B names A's subscription ids: false, and A's subscriptions stay
	for id in &a_ids {
		let u = call!(b, unsub, json!([id]));
		out.ops_checked += 1;
		match response!(b, u) {
			Some(v) if v["result"] == json!(true) => {
				bad!(format!("unsubscribe-result-wrong/foreign-id/{how}"), "connection B unsubscribed {id}, a subscription of connection A: answered true");
				// (what follows from it - A's sink closed, A's own unsubscribe answered false - is the same fault)
				out.history.push(format!("{how}, cap {cap}"));
				return out;
			}
			_ => out.unsub_false += 1,
		}
	}
	for (k, id) in a_ids.iter().enumerate() {
		if let Some(h) = reg.get(&format!("a{k}")) {
			match h.cmd(Cmd::IsClosed(0)).await.map(|t| t.reply) {
				Some(Reply::Closed(false)) => {}
				other => bad!(format!("is-closed-wrong/reported-closed-while-active/{how}"), "after connection B named it in an unsubscribe call, A's subscription {id} reports {other:?}"),
			}
		}
		let u = call!(a, unsub, json!([id]));
		out.ops_checked += 1;
		match response!(a, u) {
			Some(v) if v["result"] == json!(true) => out.unsub_true += 1,
			other => bad!(format!("unsubscribe-result-wrong/active/{how}"), "connection A unsubscribes its own {id}: {other:?}"),
		}
	}
	out.history.push(format!("{how}, cap {cap}"));
	out
}

// A subscription declared with the rpc macro, with aliases for its subscribe and its unsubscribe method.
mod macro_api {
	use jsonrpsee::core::SubscriptionResult;
	use jsonrpsee::proc_macros::rpc;
	#[rpc(server, namespace = "feed")]
	pub trait Feed {
		#[subscription(name = "subscribe" => "item", unsubscribe = "unsubscribe", item = u64, aliases = ["feed_sub_alias"], unsubscribe_aliases = ["feed_unsub_alias", "feed.unsub2"])]
		async fn feed(&self) -> SubscriptionResult;
	}
}
struct FeedImpl;
#[async_trait::async_trait]
impl macro_api::FeedServer for FeedImpl {
	async fn feed(&self, pending: jsonrpsee::PendingSubscriptionSink) -> jsonrpsee::core::SubscriptionResult {
		let sink = pending.accept().await?;
		sink.closed().await;
		Ok(())
	}
}

/// Directed family: a macro-declared subscription is subscribed and unsubscribed through every name the declaration gives
/// the two methods; whichever unsubscribe name is used, it answers true once for an active subscription, false afterwards,
/// and the slot is free again (cap 1: the next subscribe is admitted).
async fn macro_alias_case(seed: u64) -> Out {
	use macro_api::FeedServer;
	let mut out = Out::default();
	let mut r = Rng::new(seed);
	let cfg = ServerConfig::builder().max_subscriptions_per_connection(1).max_connections(10).build();
	let srv = MemServer::new(cfg, FeedImpl.into_rpc());
	let Ok(mut ws) = srv.ws().await else { return out };
	macro_rules! bad {
		($sig:expr, $($arg:tt)*) => { out.violations.push(($sig.to_string(), format!($($arg)*))) };
	}
	let mut next_call = 0u64;
	for round in 0..2 + r.usize(3) {
		let sub = *r.pick(&["feed_subscribe", "feed_sub_alias"]);
		let unsub = *r.pick(&["feed_unsubscribe", "feed_unsub_alias", "feed.unsub2"]);
		next_call += 1;
		let _ = ws.send_text(&json!({"jsonrpc": "2.0", "id": next_call, "method": sub}).to_string()).await;
		settle().await;
		let rp = ws.drain_until_idle(Duration::from_millis(50)).await.iter().filter_map(|f| f.json()).find(|v| v["id"] == json!(next_call));
		let Some(id) = rp.as_ref().and_then(|v| v.get("result")).cloned() else {
			bad!(format!("refused-with-free-slot/subscribe/macro-declared:{sub}"), "round {round}: every earlier subscription was unsubscribed (cap 1), yet {sub} answered {rp:?}");
			return out;
		};
		out.admissions += 1;
		for want in [true, false] {
			next_call += 1;
			let _ = ws.send_text(&json!({"jsonrpc": "2.0", "id": next_call, "method": unsub, "params": [id]}).to_string()).await;
			settle().await;
			let rp = ws.drain_until_idle(Duration::from_millis(50)).await.iter().filter_map(|f| f.json()).find(|v| v["id"] == json!(next_call));
			out.ops_checked += 1;
			if rp.as_ref().map(|v| v["result"].clone()) != Some(json!(want)) {
				bad!(format!("unsubscribe-result-wrong/{}/macro-declared:{unsub}", if want { "active" } else { "already-unsubscribed" }), "round {round}: {unsub} [{id}] answered {rp:?}, model {want}");
				return out;
			}
			if want { out.unsub_true += 1 } else { out.unsub_false += 1 }
		}
	}
	out
}

/// Directed family (default `Server` on loopback): a TCP connection is accepted while every slot is taken, a slot frees,
/// and only then does that connection do its WebSocket handshake; another connection follows. Every connection is a
/// connection of its own: an unsubscribe naming the other one's subscription answers false.
async fn tcp_late_handshake_case(seed: u64) -> Out {
	let mut out = Out::default();
	let mut r = Rng::new(seed);
	let reg = Registry::default();
	macro_rules! bad {
		($sig:expr, $($arg:tt)*) => { out.violations.push(($sig.to_string(), format!($($arg)*))) };
	}
	let max = 2 + r.below(2) as u32;
	let cfg = ServerConfig::builder().max_connections(max).build();
	let Ok(server) = jsonrpsee_server::Server::builder().set_config(cfg).build("127.0.0.1:0").await else { return out };
	let Ok(addr) = server.local_addr() else { return out };
	let handle = server.start(subctl::module(reg.clone()));
	let pause = |ms: u64| tokio::time::sleep(Duration::from_millis(ms));
	// fill every slot
	let mut filler = Vec::new();
	for _ in 0..max {
		match jrv::tcp::ws_connect(addr).await {
			Ok(x) => filler.push(x),
			Err(_) => return out,
		}
	}
	// a connection that is accepted now and shakes hands later
	let Ok(late_tcp) = jrv::tcp::connect(addr).await else { return out };
	pause(60).await;
	// one slot frees
	if let Some((mut ws, _k)) = filler.pop() {
		ws.close().await;
	}
	pause(60).await;
	let Ok((mut late, _lk)) = jrv::tcp::ws_over(late_tcp).await else {
		out.history.push("the late connection was refused: scenario not reached".into());
		let _ = handle.stop();
		return out;
	};
	// another slot frees for the next connection
	if let Some((mut ws, _k)) = filler.pop() {
		ws.close().await;
	}
	pause(60).await;
	let Ok((mut next, _nk)) = jrv::tcp::ws_connect(addr).await else {
		out.history.push("the next connection was refused: scenario not reached".into());
		let _ = handle.stop();
		return out;
	};
	// the late connection subscribes; the next one names that subscription
	let _ = late.send_text(&json!({"jsonrpc": "2.0", "id": 1, "method": "sub", "params": ["late"]}).to_string()).await;
	pause(40).await;
	let Some(h) = reg.get("late") else {
		bad!("refused-with-free-slot/subscribe", "late-handshake scenario: the subscribe call did not reach its handler");
		let _ = handle.stop();
		return out;
	};
	let id = match h.cmd(Cmd::Accept).await.map(|t| t.reply) {
		Some(Reply::Accepted { sub_id }) => sub_id,
		other => {
			bad!("accept-failed/connection-open", "late-handshake scenario: {other:?}");
			let _ = handle.stop();
			return out;
		}
	};
	out.admissions += 1;
	let _ = next.send_text(&json!({"jsonrpc": "2.0", "id": 2, "method": "unsub", "params": [id]}).to_string()).await;
	let rp = next.drain_until_idle(Duration::from_millis(300)).await.iter().filter_map(|f| f.json()).find(|v| v["id"] == json!(2));
	out.ops_checked += 1;
	match rp {
		Some(v) if v["result"] == json!(true) => bad!("unsubscribe-result-wrong/foreign-id/tcp-late-handshake", "a connection accepted while the server was full shook hands after a slot had freed; the connection accepted after it unsubscribed its subscription {id}: answered true"),
		Some(_) => out.unsub_false += 1,
		None => out.history.push("no answer to the foreign unsubscribe within 300 ms (not judged)".into()),
	}
	match h.cmd(Cmd::IsClosed(0)).await.map(|t| t.reply) {
		Some(Reply::Closed(false)) => {}
		other => {
			if out.violations.is_empty() {
				bad!("is-closed-wrong/reported-closed-while-active/tcp-late-handshake", "after another connection named it in an unsubscribe call the subscription reports {other:?}");
			}
		}
	}
	let _ = h.cmd_nowait(Cmd::Return(Ret::None));
	let _ = handle.stop();
	out
}

/// Id provider driven by the harness: hands out the queued ids first (so that an id can be issued again on the same
/// connection, as the library's own `NoopIdProvider` or a short `RandomStringIdProvider` do), then fresh numbers.
#[derive(Debug, Clone, Default)]
struct QueuedIds(Arc<std::sync::Mutex<std::collections::VecDeque<SubscriptionId<'static>>>>, Arc<AtomicU64>);
impl IdProvider for QueuedIds {
	fn next_id(&self) -> SubscriptionId<'static> {
		match self.0.lock().unwrap().pop_front() {
			Some(x) => x,
			None => SubscriptionId::Num(1_000_000 + self.1.fetch_add(1, Ordering::SeqCst)),
		}
	}
}

/// Directed family: a subscription id is issued again while an earlier subscription that carried it (unsubscribed, or
/// living on another connection) still has sinks in a handler's hands. Whatever happens to those old sinks afterwards,
/// the new subscription stays active until it is ended itself: its sink does not report closed, unsubscribe answers
/// true exactly once, the slot accounting is unchanged.
async fn id_reuse_case(seed: u64) -> Out {
	let mut out = Out::default();
	let mut r = Rng::new(seed);
	let reg = Registry::default();
	let ids = QueuedIds::default();
	let cfg = ServerConfig::builder().max_subscriptions_per_connection(3).max_connections(10).set_id_provider(ids.clone()).build();
	let srv = MemServer::new(cfg, subctl::module(reg.clone()));
	let (Ok(mut ws1), Ok(mut ws2)) = (srv.ws().await, srv.ws().await) else {
		out.violations.push(("setup-failed/ws-connect".into(), "id-reuse scenario".into()));
		return out;
	};
	macro_rules! bad {
		($sig:expr, $($arg:tt)*) => { out.violations.push(($sig.to_string(), format!($($arg)*))) };
	}
	let raw = r.chance(1, 4);
	let (sub, unsub) = if raw { ("sub_raw", "unsub_raw") } else { ("sub", "unsub") };
	// the id: a number, the same digits as a string (a counter rendered with to_string()), or some other string
	let xn = 7 + r.below(1000);
	let (xid, x, other_spelling): (SubscriptionId<'static>, Value, Option<Value>) = match r.below(3) {
		0 => (SubscriptionId::Num(xn), json!(xn), Some(json!(xn.to_string()))),
		1 => (SubscriptionId::Str(xn.to_string().into()), json!(xn.to_string()), Some(json!(xn))),
		_ => (SubscriptionId::Str(format!("0x{xn:x}").into()), json!(format!("0x{xn:x}")), None),
	};
	let other_conn = r.chance(1, 3);
	let mut next_call = 0u64;
	macro_rules! call {
		($ws:expr, $method:expr, $params:expr) => {{
			next_call += 1;
			let _ = $ws.send_text(&json!({"jsonrpc": "2.0", "id": next_call, "method": $method, "params": $params}).to_string()).await;
			settle().await;
			next_call
		}};
	}
	macro_rules! response {
		($ws:expr, $id:expr) => {{ $ws.drain_until_idle(Duration::from_millis(50)).await.iter().filter_map(|f| f.json()).find(|v| v["id"] == json!($id)) }};
	}
	// A
	ids.0.lock().unwrap().push_back(xid.clone());
	let _a_call = call!(ws1, sub, json!(["a"]));
	let Some(ha) = reg.get("a") else {
		bad!("refused-with-free-slot/subscribe", "id-reuse scenario: subscribe A did not reach its handler");
		return out;
	};
	match ha.cmd(Cmd::Accept).await.map(|t| t.reply) {
		Some(Reply::Accepted { sub_id }) if sub_id == x => {}
		other => {
			bad!("accept-failed/connection-open", "id-reuse scenario, A: {other:?}");
			return out;
		}
	}
	let a_clones = r.usize(3);
	for _ in 0..a_clones {
		let _ = ha.cmd(Cmd::CloneSink(0)).await;
	}
	out.admissions += 1;
	// A is unsubscribed (unless the second subscription lives on another connection: then both are active at once)
	if !other_conn {
		let u = call!(ws1, unsub, json!([x]));
		out.ops_checked += 1;
		match response!(ws1, u) {
			Some(v) if v["result"] == json!(true) => out.unsub_true += 1,
			other => bad!("unsubscribe-result-wrong/active", "id-reuse scenario: unsubscribe of A answered {other:?}"),
		}
	}
	// B gets the same id
	ids.0.lock().unwrap().push_back(xid.clone());
	let wsb = if other_conn { &mut ws2 } else { &mut ws1 };
	let _b_call = call!(wsb, sub, json!(["b"]));
	let Some(hb) = reg.get("b") else {
		bad!("refused-with-free-slot/subscribe", "id-reuse scenario: subscribe B did not reach its handler (1 of 3 slots held)");
		return out;
	};
	match hb.cmd(Cmd::Accept).await.map(|t| t.reply) {
		Some(Reply::Accepted { sub_id }) if sub_id == x => {}
		other => {
			bad!("accept-failed/connection-open", "id-reuse scenario, B: {other:?}");
			return out;
		}
	}
	out.admissions += 1;
	out.history.push(format!("A and B both carry id {x} (B on {} connection); A has {} sink(s)", if other_conn { "another" } else { "the same" }, 1 + a_clones));
	// the old sinks go away, one by one or by the handler returning
	let how = r.below(3);
	match how {
		0 => {
			for k in 0..=a_clones {
				let _ = ha.cmd(Cmd::DropSink(k)).await;
				settle().await;
			}
		}
		1 => {
			let _ = ha.cmd_nowait(Cmd::Return(Ret::None));
		}
		_ => {
			let _ = ha.cmd_nowait(Cmd::Return(Ret::Notif(json!("closing A"))));
		}
	}
	settle().await;
	settle().await;
	// B must be untouched
	out.ops_checked += 1;
	let where_ = if other_conn { "same-id-on-another-connection" } else { "id-issued-again" };
	match hb.cmd(Cmd::IsClosed(0)).await.map(|t| t.reply) {
		Some(Reply::Closed(false)) => {}
		other => bad!(format!("is-closed-wrong/reported-closed-while-active/{where_}"), "after the sinks of the earlier subscription with id {x} were dropped, the sink of the live one reports {other:?}"),
	}
	match hb.cmd(Cmd::Send(0, json!("still here"))).await.map(|t| t.reply) {
		Some(Reply::Sent(Ok(()))) => {}
		other => bad!(format!("send-failed-while-active/{where_}"), "{other:?}"),
	}
	// the same digits in the other JSON type name another id: nothing may be unsubscribed by them
	if let Some(o) = &other_spelling {
		let wsb = if other_conn { &mut ws2 } else { &mut ws1 };
		let u = call!(wsb, unsub, json!([o]));
		out.ops_checked += 1;
		let rp = response!(wsb, u);
		if rp.as_ref().map(|v| v["result"] == json!(true)).unwrap_or(false) {
			bad!(format!("unsubscribe-result-wrong/other-json-type-of-the-id/{where_}"), "the live subscription has id {x}; unsubscribe [{o}] answered {rp:?}");
		} else {
			out.unsub_false += 1;
		}
	}
	for (want, class) in [(true, "active"), (false, "already-unsubscribed")] {
		let wsb = if other_conn { &mut ws2 } else { &mut ws1 };
		let u = call!(wsb, unsub, json!([x]));
		out.ops_checked += 1;
		let rp = response!(wsb, u);
		if rp.as_ref().map(|v| v["result"].clone()) != Some(json!(want)) {
			bad!(format!("unsubscribe-result-wrong/{class}/{where_}"), "unsubscribe of the live subscription with the re-issued id {x} answered {rp:?}, model {want}");
		} else if want {
			out.unsub_true += 1;
		} else {
			out.unsub_false += 1;
		}
	}
	let _ = hb.cmd_nowait(Cmd::Return(Ret::None));
	let _ = ha.cmd_nowait(Cmd::Return(Ret::None));
	settle().await;
	// slot accounting: the connection can take its full cap again
	let wsb = if other_conn { &mut ws2 } else { &mut ws1 };
	for k in 0..3 {
		let tag = format!("fill{k}");
		let c = call!(wsb, sub, json!([tag]));
		match reg.get(&tag) {
			Some(h) => {
				let _ = h.cmd(Cmd::Accept).await;
			}
			None => {
				let rp = response!(wsb, c);
				bad!("refused-with-free-slot/subscribe", "id-reuse scenario: after both subscriptions ended, subscribe {k} of 3 was not admitted: {rp:?}");
				break;
			}
		}
	}
	out
}

/// RPC middleware that gives up the inner call of a subscribe method when the harness says so (as a timeout layer would)
/// and answers the call itself.
#[derive(Clone)]
struct DropSubscribe<S> {
	inner: S,
	gate: Arc<tokio::sync::Notify>,
}

impl<S> jsonrpsee_core::middleware::RpcServiceT for DropSubscribe<S>
where
	S: jsonrpsee_core::middleware::RpcServiceT<MethodResponse = jsonrpsee_server::MethodResponse> + Send + Sync + Clone + 'static,
{
	type MethodResponse = jsonrpsee_server::MethodResponse;
	type NotificationResponse = S::NotificationResponse;
	type BatchResponse = S::BatchResponse;

	fn call<'a>(&self, req: jsonrpsee_types::Request<'a>) -> impl std::future::Future<Output = Self::MethodResponse> + Send + 'a {
		let inner = self.inner.clone();
		let gate = self.gate.clone();
		async move {
			if req.method == "sub" || req.method == "sub_raw" {
				let id = req.id.clone().into_owned();
				tokio::select! {
					rp = inner.call(req) => rp,
					_ = gate.notified() => jsonrpsee_server::MethodResponse::error(id, jsonrpsee_types::ErrorObject::owned(-32050, "given up by the middleware", None::<()>)),
				}
			} else {
				inner.call(req).await
			}
		}
	}

	fn batch<'a>(&self, b: jsonrpsee_core::middleware::Batch<'a>) -> impl std::future::Future<Output = Self::BatchResponse> + Send + 'a {
		self.inner.batch(b)
	}

	fn notification<'a>(&self, n: jsonrpsee_core::middleware::Notification<'a>) -> impl std::future::Future<Output = Self::NotificationResponse> + Send + 'a {
		self.inner.notification(n)
	}
}

/// Directed family: the subscribe call is given up by a middleware while its handler has not decided yet; the handler
/// then accepts. accept() cannot hand its response to the call any more and fails: nothing of the subscription may be
/// left - unsubscribe of its id answers false, its slot is free.
async fn dropped_call_case(seed: u64) -> Out {
	use jsonrpsee_core::middleware::RpcServiceBuilder;
	let mut out = Out::default();
	let mut r = Rng::new(seed);
	let reg = Registry::default();
	let ids = CounterIds::default();
	let gate = Arc::new(tokio::sync::Notify::new());
	let cap = 1 + r.below(2) as u32;
	let cfg = ServerConfig::builder().max_subscriptions_per_connection(cap).max_connections(10).set_id_provider(ids.clone()).build();
	let g2 = gate.clone();
	let builder = jsonrpsee_server::Server::builder()
		.set_config(cfg)
		.set_rpc_middleware(RpcServiceBuilder::new().layer_fn(move |service| DropSubscribe { inner: service, gate: g2.clone() }))
		.to_service_builder();
	let (stop_handle, _server_handle) = jsonrpsee_server::stop_channel();
	let (client, server) = tokio::io::duplex(1 << 20);
	let svc = builder.build(subctl::module(reg.clone()), stop_handle.clone());
	tokio::spawn(async move {
		let _ = jsonrpsee_server::serve_with_graceful_shutdown(server, svc, stop_handle.shutdown()).await;
	});
	let Ok(mut ws) = RawWs::handshake(client, "localhost", "/").await else {
		out.violations.push(("setup-failed/ws-connect".into(), "dropped-call scenario".into()));
		return out;
	};
	macro_rules! bad {
		($sig:expr, $($arg:tt)*) => { out.violations.push(($sig.to_string(), format!($($arg)*))) };
	}
	let raw = r.chance(1, 3);
	let (sub, unsub) = if raw { ("sub_raw", "unsub_raw") } else { ("sub", "unsub") };
	let _ = ws.send_text(&json!({"jsonrpc": "2.0", "id": 1, "method": sub, "params": ["d0"]}).to_string()).await;
	settle().await;
	let Some(h) = reg.get("d0") else {
		bad!("refused-with-free-slot/subscribe", "dropped-call scenario: the subscribe call did not reach its handler");
		return out;
	};
	// the middleware gives the call up and answers it itself
	gate.notify_one();
	settle().await;
	settle().await;
	let how = r.below(3);
	let rep = match how {
		0 => h.cmd(Cmd::Accept).await.map(|t| t.reply),
		1 => h.cmd(Cmd::Reject).await.map(|t| t.reply),
		_ => h.cmd(Cmd::DropPending).await.map(|t| t.reply),
	};
	out.history.push(format!("the subscribe call was given up by the middleware; then the handler decided ({how}): {rep:?}"));
	if matches!(rep, Some(Reply::Accepted { .. })) {
		// an accept that succeeds here would be a subscription nobody asked for any more: not judged as such, but then it is active
		out.history.push("accept() succeeded although the call was gone".into());
	}
	settle().await;
	let _ = h.cmd_nowait(Cmd::Return(Ret::None));
	settle().await;
	settle().await;
	out.admissions += 1;
	// the id the subscription got (counter provider: 1)
	let _ = ws.send_text(&json!({"jsonrpc": "2.0", "id": 2, "method": unsub, "params": [1]}).to_string()).await;
	let frames = ws.drain_until_idle(Duration::from_millis(50)).await;
	let ans = frames.iter().filter_map(|f| f.json()).find(|v| v["id"] == json!(2));
	out.ops_checked += 1;
	match ans.as_ref().map(|v| v["result"].clone()) {
		Some(Value::Bool(false)) => out.unsub_false += 1,
		other => bad!("unsubscribe-result-wrong/handler-gone/call-given-up-by-middleware", "after the handler of a given-up subscribe call has finished, unsubscribe of its id answered {other:?}, model false"),
	}
	// every slot is free again
	for k in 0..cap {
		let tag = format!("fill{k}");
		let cid = 10 + k;
		let _ = ws.send_text(&json!({"jsonrpc": "2.0", "id": cid, "method": "sub", "params": [tag]}).to_string()).await;
		settle().await;
		match reg.get(&tag) {
			Some(hh) => {
				let _ = hh.cmd(Cmd::Accept).await;
			}
			None => {
				bad!("refused-with-free-slot/subscribe", "dropped-call scenario: after the given-up subscription ended, subscribe {k} of {cap} was not admitted");
				break;
			}
		}
	}
	out
}

/// Stress (real threads), a linearizability check on one key: `threads` OS threads call the unsubscribe method for the
/// same active subscription at the same instant (through `Methods::raw_json_request`, i.e. the very callback the server
/// runs in one task per message). Against the sequential specification - the first unsubscribe of an active subscription
/// answers true, every later one false - a history of concurrent calls is linearizable iff exactly one of them got true.
fn concurrent_unsubscribe_rounds(rounds: usize, threads: usize) -> (usize, usize, Vec<(String, String)>) {
	use futures_util::FutureExt;
	use jsonrpsee_server::RpcModule;
	use std::sync::{Arc, Barrier, Mutex};
	let mut violations = Vec::new();
	let mut m = RpcModule::new(());
	m.register_subscription("sub", "notif", "unsub", |_, pending, _, _| async move {
		let sink = pending.accept().await?;
		sink.closed().await;
		Ok(())
	})
	.unwrap();
	let m = Arc::new(m);
	let rt = tokio::runtime::Builder::new_multi_thread().worker_threads(2).enable_all().build().expect("rt");
	let start = Arc::new(Barrier::new(threads + 1));
	let done = Arc::new(Barrier::new(threads + 1));
	let current: Arc<Mutex<Option<String>>> = Default::default();
	let answers: Arc<Mutex<Vec<Option<bool>>>> = Default::default();
	let stop = Arc::new(std::sync::atomic::AtomicBool::new(false));
	let mut workers = Vec::new();
	for _ in 0..threads {
		let (m, start, done, current, answers, stop) = (m.clone(), start.clone(), done.clone(), current.clone(), answers.clone(), stop.clone());
		workers.push(std::thread::spawn(move || {
			loop {
				start.wait();
				if stop.load(Ordering::SeqCst) {
					return;
				}
				let req = current.lock().unwrap().clone().unwrap_or_default();
				// the unsubscribe callback is synchronous: the future is ready at its first poll
				let ans = m.raw_json_request(&req, 1).now_or_never().and_then(|r| r.ok()).and_then(|(rp, _)| serde_json::from_str::<Value>(rp.get()).ok()).and_then(|v| v["result"].as_bool());
				answers.lock().unwrap().push(ans);
				done.wait();
			}
		}));
	}
	let mut checked = 0usize;
	let mut histories_with_overlap = 0usize;
	for round in 0..rounds {
		let sub = rt.block_on(async { m.subscribe_unbounded("sub", jsonrpsee_core::EmptyServerParams::new()).await });
		let Ok(sub) = sub else {
			violations.push(("setup-failed/concurrent-unsubscribe".to_string(), format!("round {round}: subscribe failed")));
			break;
		};
		let id = serde_json::to_string(sub.subscription_id()).unwrap_or_default();
		*current.lock().unwrap() = Some(format!("{{\"jsonrpc\":\"2.0\",\"id\":1,\"method\":\"unsub\",\"params\":[{id}]}}"));
		answers.lock().unwrap().clear();
		start.wait();
		done.wait();
		let a = answers.lock().unwrap().clone();
		checked += a.len();
		let trues = a.iter().filter(|x| **x == Some(true)).count();
		let falses = a.iter().filter(|x| **x == Some(false)).count();
		if falses > 0 {
			histories_with_overlap += 1;
		}
		if trues != 1 || trues + falses != threads {
			violations.push((
				"unsubscribe-result-wrong/concurrent-unsubscribes-not-linearizable".to_string(),
				format!("round {round}: {threads} concurrent unsubscribe calls for one active subscription answered {a:?}; exactly one may answer true"),
			));
			if violations.len() > 20 {
				break;
			}
		}
		drop(sub);
	}
	stop.store(true, Ordering::SeqCst);
	start.wait();
	for w in workers {
		let _ = w.join();
	}
	(checked, histories_with_overlap, violations)
}

/// Stress (real threads): many subscriptions on several connections end at the same instant (their handlers return
/// concurrently on 8 workers); afterwards every id must be inactive (unsubscribe false) and every slot must be free.
async fn mass_ending_case(seed: u64, per_conn: usize) -> (usize, Vec<(String, String)>) {
	use jsonrpsee_server::RpcModule;
	let mut violations = Vec::new();
	let mut r = Rng::new(seed);
	let n_conns = 2 + r.usize(3);
	let (go_tx, go_rx) = tokio::sync::watch::channel(false);
	let mut m = RpcModule::new(go_rx);
	m.register_subscription("sub", "notif", "unsub", |_, pending, go, _| async move {
		let sink = pending.accept().await?;
		let mut go = (*go).clone();
		let clone = sink.clone();
		let _ = go.wait_for(|g| *g).await;
		drop(clone);
		drop(sink);
		Ok(())
	})
	.unwrap();
	let ids = CounterIds::default();
	let cfg = ServerConfig::builder().max_subscriptions_per_connection(per_conn as u32).max_connections(100).set_id_provider(ids).build();
	let srv = MemServer::new(cfg, m);
	let mut conns = Vec::new();
	for _ in 0..n_conns {
		match srv.ws().await {
			Ok(ws) => conns.push(ws),
			Err(e) => return (0, vec![("setup-failed/ws-connect".into(), format!("{e:?}"))]),
		}
	}
	let mut sub_ids: Vec<Vec<Value>> = vec![Vec::new(); n_conns];
	for (c, ws) in conns.iter_mut().enumerate() {
		for k in 0..per_conn {
			let _ = ws.send_text(&json!({"jsonrpc": "2.0", "id": k, "method": "sub", "params": []}).to_string()).await;
		}
		let mut got = 0;
		while got < per_conn {
			match ws.recv(Duration::from_secs(20)).await {
				jrv::memsrv::Recv::Frame(f) => {
					if let Some(v) = f.json() {
						if v.get("result").is_some() {
							sub_ids[c].push(v["result"].clone());
							got += 1;
						} else if v.get("error").is_some() {
							violations.push(("refused-with-free-slot/subscribe".into(), format!("stress: {v}")));
							got += 1;
						}
					}
				}
				_ => break,
			}
		}
	}
	// everything ends at once
	let _ = go_tx.send(true);
	tokio::time::sleep(Duration::from_millis(300)).await;
	let mut checked = 0;
	for (c, ws) in conns.iter_mut().enumerate() {
		let ids = sub_ids[c].clone();
		for (k, id) in ids.iter().enumerate() {
			let _ = ws.send_text(&json!({"jsonrpc": "2.0", "id": 100_000 + k, "method": "unsub", "params": [id]}).to_string()).await;
		}
		let mut got = 0;
		let mut wrong = 0;
		while got < ids.len() {
			match ws.recv(Duration::from_secs(20)).await {
				jrv::memsrv::Recv::Frame(f) => {
					if let Some(v) = f.json() {
						if v["id"].as_u64().is_some_and(|i| i >= 100_000) {
							got += 1;
							checked += 1;
							if v["result"] != json!(false) {
								wrong += 1;
							}
						}
					}
				}
				_ => break,
			}
		}
		if wrong > 0 {
			violations.push(("unsubscribe-result-wrong/handler-gone/concurrent-endings".into(), format!("connection {c}: {wrong} of {} subscriptions whose handlers had returned were still unsubscribable (true)", ids.len())));
		}
		// all slots are free again
		for k in 0..per_conn {
			let _ = ws.send_text(&json!({"jsonrpc": "2.0", "id": 200_000 + k, "method": "sub", "params": []}).to_string()).await;
		}
		let mut got = 0;
		let mut refused = 0;
		while got < per_conn {
			match ws.recv(Duration::from_secs(20)).await {
				jrv::memsrv::Recv::Frame(f) => {
					if let Some(v) = f.json() {
						if v["id"].as_u64().is_some_and(|i| i >= 200_000) {
							got += 1;
							if v.get("error").is_some() {
								refused += 1;
							}
						}
					}
				}
				_ => break,
			}
		}
		if refused > 0 {
			violations.push(("refused-with-free-slot/subscribe/after-concurrent-endings".into(), format!("connection {c}: {refused} of {per_conn} new subscriptions refused after all previous ones had ended")));
		}
	}
	(checked, violations)
}

fn gen_ops(r: &mut Rng, len: usize, conns: usize) -> Vec<Op> {
	let mut ops = Vec::new();
	let mut n_subs = 0usize;
	for _ in 0..len {
		let pick_sub = |r: &mut Rng, n: usize| if n == 0 { 0 } else { r.usize(n) };
		let op = match r.below(24) {
			0..=5 => {
				n_subs += 1;
				Op::Subscribe { conn: r.usize(conns), raw: r.chance(1, 4) }
			}
			6..=9 => Op::Accept(pick_sub(r, n_subs)),
			10 => Op::Reject(pick_sub(r, n_subs)),
			11 => Op::DropPending(pick_sub(r, n_subs)),
			12 | 13 => Op::CloneSink(pick_sub(r, n_subs)),
			14 | 15 => Op::DropSink(pick_sub(r, n_subs), r.usize(3)),
			16 | 17 => Op::IsClosed(pick_sub(r, n_subs), r.usize(3)),
			18 => Op::Return(pick_sub(r, n_subs), r.below(4) as u8),
			19..=21 => {
				let target = match r.below(8) {
					0..=3 => Target::Own(pick_sub(r, n_subs)),
					4 => Target::Pending(pick_sub(r, n_subs)),
					5 => Target::Foreign(pick_sub(r, n_subs)),
					6 => Target::Unknown,
					_ => Target::Malformed(r.usize(7)),
				};
				Op::Unsubscribe { conn: r.usize(conns), target }
			}
			22 => Op::Ping(r.usize(conns)),
			_ => {
				if r.chance(1, 3) {
					Op::ConnDrop(r.usize(conns))
				} else {
					Op::IsClosed(pick_sub(r, n_subs), 0)
				}
			}
		};
		ops.push(op);
	}
	ops
}

fn gen_spec(seed: u64) -> Spec {
	let mut r = Rng::new(seed);
	let conns = 1 + r.usize(2);
	let len = 3 + r.usize(if cfg!(miri) { 4 } else { 12 });
	let cap = r.below(4) as u32;
	// the buffer capacity is never equal to the cap, so a mixed-up configuration field shows
	let buffer = *r.pick(&[8u32, 64, 1024]);
	Spec { seed, cap, conns, ops: gen_ops(&mut r, len, conns), low_level: r.chance(1, 3), buffer }
}

/// Exhaustive part: all sequences of length <= n over a reduced alphabet on one connection.
fn exhaustive_specs(max_len: usize) -> Vec<Spec> {
	let alphabet = vec![
		Op::Subscribe { conn: 0, raw: false },
		Op::Accept(0),
		Op::Accept(1),
		Op::Reject(0),
		Op::DropPending(1),
		Op::CloneSink(0),
		Op::DropSink(0, 0),
		Op::DropSink(0, 1),
		Op::IsClosed(0, 0),
		Op::Return(0, 1),
		Op::Return(0, 3),
		Op::Unsubscribe { conn: 0, target: Target::Own(0) },
		Op::Unsubscribe { conn: 0, target: Target::Own(1) },
		Op::Unsubscribe { conn: 0, target: Target::Pending(0) },
	];
	let mut specs = Vec::new();
	let mut cur: Vec<Vec<Op>> = vec![vec![]];
	for _ in 0..max_len {
		let mut next = Vec::new();
		for c in &cur {
			for a in &alphabet {
				let mut n = c.clone();
				n.push(a.clone());
				next.push(n);
			}
		}
		for ops in &next {
			// only sequences that start with a subscribe do anything
			if matches!(ops.first(), Some(Op::Subscribe { .. })) {
				for cap in [1u32, 2] {
					specs.push(Spec { seed: 0, cap, conns: 1, ops: ops.clone(), low_level: false, buffer: 1024 });
					if ops.len() <= 3 {
						specs.push(Spec { seed: 0, cap, conns: 1, ops: ops.clone(), low_level: true, buffer: 7 });
					}
				}
			}
		}
		cur = next;
	}
	specs
}

fn record(spec: &Spec, o: Out, class: &str, ev: &mut Evidence, violations: &mut Vec<Violation>) {
	ev.eval();
	ev.count("operations_checked", o.ops_checked as u64);
	ev.count("subscribes_refused_32006", o.refusals as u64);
	ev.count("subscribes_admitted", o.admissions as u64);
	ev.count("unsubscribe_true", o.unsub_true as u64);
	ev.count("unsubscribe_false", o.unsub_false as u64);
	ev.count(&format!("cases_{class}"), 1);
	if spec.low_level {
		ev.count("cases_on_low_level_ws_connect", 1);
	}
	if o.admissions > 0 {
		ev.nontrivial(&(spec.cap, spec.conns, &spec.ops, spec.low_level));
	}
	for s in &o.states {
		ev.class("model_states", s);
	}
	ev.class("max_occupancy_vs_cap", &(o.max_occupancy, spec.cap));
	if o.violations.is_empty() {
		ev.sample_class(class, json!({"cap": spec.cap, "connections": spec.conns, "ops": spec.ops.iter().map(|o| format!("{o:?}")).collect::<Vec<_>>(), "history": o.history.iter().take(16).collect::<Vec<_>>() }));
	}
	let w = json!({"seed": spec.seed, "class": class, "cap": spec.cap, "low_level_ws_connect": spec.low_level, "buffer": spec.buffer, "connections": spec.conns, "ops": spec.ops.iter().map(|o| format!("{o:?}")).collect::<Vec<_>>(), "history": o.history});
	for (sig, d) in o.violations {
		violations.push(Violation::new(sig, d, w.clone()));
	}
}

/// Fault enumeration: the same sequence with a connection drop inserted after step k, for every k.
fn with_drops(spec: &Spec) -> Vec<Spec> {
	let mut v = Vec::new();
	for k in 1..=spec.ops.len() {
		for c in 0..spec.conns {
			let mut ops = spec.ops.clone();
			ops.insert(k, Op::ConnDrop(c));
			// after the drop, probe every subscription's sinks and try to subscribe on the other connection
			ops.push(Op::IsClosed(0, 0));
			ops.push(Op::IsClosed(1, 0));
			v.push(Spec { seed: spec.seed, cap: spec.cap, conns: spec.conns, ops, low_level: spec.low_level, buffer: spec.buffer });
		}
	}
	v
}

fn main() {
	let ctx = Ctx::from_env("C06", "fault_enumeration");
	if ctx.sub.as_deref() == Some("miri") {
		// RpcModule-level workload (no hyper / soketto): subscribe, clone, drop, unsubscribe through `Methods::subscribe`
		let mut n = 0;
		let mut problems: Vec<String> = Vec::new();
		block_on_virtual(async {
			for i in 0..12u64 {
				let reg = Registry::default();
				let m = subctl::module(reg.clone());
				let tag = format!("m{i}");
				let m2 = m.clone();
				let t2 = tag.clone();
				let sub_task = tokio::spawn(async move { m2.subscribe_unbounded("sub", [t2]).await });
				settle().await;
				let Some(h) = reg.get(&tag) else {
					problems.push("handler not started".into());
					continue;
				};
				let _ = h.cmd(Cmd::Accept).await;
				let sub = sub_task.await;
				let _ = h.cmd(Cmd::CloneSink(0)).await;
				let _ = h.cmd(Cmd::Send(0, json!(i))).await;
				if i % 2 == 0 {
					let _ = h.cmd(Cmd::DropSink(1)).await;
				}
				let c = h.cmd(Cmd::IsClosed(0)).await.map(|t| t.reply);
				if c != Some(Reply::Closed(false)) {
					problems.push(format!("is_closed after clone drop: {c:?}"));
				}
				drop(sub);
				let _ = h.cmd(Cmd::Return(Ret::None)).await;
				n += 1;
			}
		});
		println!("SUBRESULT {}", json!({"cases": n, "violation_signatures": problems}));
		return;
	}
	if ctx.sub.as_deref() == Some("stress") || ctx.sub.as_deref() == Some("tsan") {
		let n: u64 = ctx.arg_value("--n").and_then(|s| s.parse().ok()).unwrap_or(4);
		let per: usize = ctx.arg_value("--per").and_then(|s| s.parse().ok()).unwrap_or(400);
		let seed = ctx.seed;
		let res = block_on_stress(8, async move {
			let mut all = Vec::new();
			for i in 0..n {
				all.push(mass_ending_case(Rng::fork(seed, 777_000 + i).next_u64(), per).await);
			}
			all
		});
		let checked: usize = res.iter().map(|r| r.0).sum();
		let mut sigs: Vec<String> = res.iter().flat_map(|r| r.1.iter().map(|v| format!("{} ({})", v.0, v.1))).collect();
		let conc_rounds: usize = ctx.arg_value("--conc").and_then(|s| s.parse().ok()).unwrap_or(2000);
		let (c_checked, c_overlap, c_v) = concurrent_unsubscribe_rounds(conc_rounds, 4);
		sigs.extend(c_v.iter().map(|v| format!("{} ({})", v.0, v.1)));
		println!(
			"SUBRESULT {}",
			json!({"mode": ctx.sub, "rounds": n, "unsubscribes_checked": checked, "concurrent_unsubscribe_rounds": conc_rounds, "concurrent_unsubscribe_calls": c_checked,
				"concurrent_unsubscribe_rounds_with_a_false_answer": c_overlap, "violation_signatures": sigs})
		);
		return;
	}
	install_panic_capture(true);
	let _wd = watchdog("C06", Duration::from_secs(ctx.tier.pick(900, 7200)));
	let mut ev = Evidence::new(
		"cases = operation sequences against the real server stack in memory with remote-controlled subscription handlers: \
		 {subscribe (register_subscription or register_subscription_raw) on connection 0/1, accept, reject, drop the pending sink, \
		 clone a sink, drop one of the held sinks, is_closed(), handler return (None / error notification / notification), \
		 unsubscribe with own / foreign-connection / unknown / malformed id, connection drop, ping}; caps 0..3, 1..2 connections; \
		 seeded sequences of 3..14 operations, each additionally with a connection drop inserted after EVERY step (fault \
		 enumeration), plus all sequences up to length 4 (quick) / 5 (thorough) over a 13-operation alphabet for caps 1 and 2. \
		 Every result is compared with an exact model of the subscriber table and the permits. Non-trivial = at least one \
		 subscription was admitted; distinct by (cap, connections, operations).",
	);
	ev.assume("mode D: handlers act only on command, the harness waits for quiescence (1 virtual ms) after every operation, so the model is exact");
	ev.assume("a subscription that was unsubscribed while its handler still holds a sink: whether its slot counts is not fixed by the statement ('as soon as the handler has let go of its sinks'); a subscribe in that state may be refused or admitted");
	ev.assume("unsubscribe with a malformed id: false or invalid-params are both accepted");
	let mut violations = Vec::new();
	let replay = ctx.replay.is_some();

	let mut specs: Vec<(Spec, &'static str)> = Vec::new();
	if let Some(path) = &ctx.replay {
		let w: Value = serde_json::from_str(&std::fs::read_to_string(path).expect("replay")).expect("json");
		let want_ops = w["witness"]["ops"].clone();
		let seed = w["witness"]["seed"].as_u64().unwrap_or(0);
		// the directed families are replayed from their seed
		if let Some(sc) = w["witness"]["scenario"].as_str() {
			let o = if sc.starts_with("a subscription id is issued again") {
				block_on_virtual(id_reuse_case(seed))
			} else if sc.starts_with("a macro-declared subscription") {
				block_on_virtual(macro_alias_case(seed))
			} else if sc.starts_with("the per-connection service is assembled") {
				block_on_virtual(assembly_case(seed))
			} else if sc.starts_with("the subscribe response does not fit") {
				block_on_virtual(oversized_accept_case(seed))
			} else if sc.starts_with("the subscribe call is given up") {
				block_on_virtual(dropped_call_case(seed))
			} else {
				block_on_virtual(blocked_accept_case(seed))
			};
			for h in &o.history {
				println!("  {h}");
			}
			println!("violations: {:?}", o.violations);
			ev.eval();
			ev.nontrivial(&("replay", seed));
			ev.nontrivial(&("replay-2", seed));
			for (sig, d) in o.violations {
				violations.push(Violation::new(sig, d, json!({"scenario": sc, "seed": seed, "history": o.history})));
			}
		}
		let base = gen_spec(seed);
		let mut cands = vec![base.clone()];
		cands.extend(with_drops(&base));
		cands.extend(exhaustive_specs(5));
		for s in cands {
			if json!(s.ops.iter().map(|o| format!("{o:?}")).collect::<Vec<_>>()) == want_ops && json!(s.cap) == w["witness"]["cap"] && json!(s.low_level) == w["witness"]["low_level_ws_connect"] {
				specs.push((s, "replay"));
				break;
			}
		}
		println!("replaying {} case(s)", specs.len());
	} else {
		for i in 0..ctx.tier.pick(1_500u64, 60_000) {
			let s = gen_spec(Rng::fork(ctx.seed, i).next_u64());
			for d in with_drops(&s) {
				specs.push((d, "with-connection-drop"));
			}
			specs.push((s, "seeded"));
		}
		for s in exhaustive_specs(ctx.tier.pick(4, 5)) {
			specs.push((s, "exhaustive"));
		}
	}
	if !replay {
		let n = ctx.tier.pick(400u64, 20_000);
		let seed = ctx.seed;
		let res = run_parallel((0..n).collect(), |_, i| {
			let s = Rng::fork(seed, 61_000_000 + i).next_u64();
			(s, block_on_virtual(blocked_accept_case(s)))
		});
		for (s, o) in res {
			ev.eval();
			ev.count("cases_blocked_accept", 1);
			ev.count("operations_checked", o.ops_checked as u64);
			if o.admissions > 0 {
				ev.nontrivial(&("blocked-accept", s));
			}
			for (sig, d) in o.violations {
				violations.push(Violation::new(sig, d, json!({"scenario": "accept() blocked by back-pressure while the peer unsubscribes the pending id", "seed": s, "history": o.history})));
			}
		}
	}
	if !replay {
		let n = ctx.tier.pick(200u64, 10_000);
		let seed = ctx.seed;
		let res = run_parallel((0..n).collect(), |_, i| {
			let s = Rng::fork(seed, 63_000_000 + i).next_u64();
			(s, block_on_virtual(dropped_call_case(s)))
		});
		for (s, o) in res {
			ev.eval();
			ev.count("cases_subscribe_call_given_up_by_a_middleware", 1);
			ev.count("operations_checked", o.ops_checked as u64);
			if o.admissions > 0 {
				ev.nontrivial(&("dropped-call", s));
			}
			for (sig, d) in o.violations {
				violations.push(Violation::new(sig, d, json!({"scenario": "the subscribe call is given up by an rpc middleware before the handler decides", "seed": s, "history": o.history})));
			}
		}
	}
	if !replay {
		let n = ctx.tier.pick(300u64, 20_000);
		let seed = ctx.seed;
		let res = run_parallel((0..n).collect(), |_, i| {
			let s = Rng::fork(seed, 62_000_000 + i).next_u64();
			(s, block_on_virtual(id_reuse_case(s)))
		});
		for (s, o) in res {
			ev.eval();
			ev.count("cases_id_issued_again", 1);
			ev.count("operations_checked", o.ops_checked as u64);
			if o.admissions > 1 {
				ev.nontrivial(&("id-reuse", s));
			}
			for (sig, d) in o.violations {
				violations.push(Violation::new(sig, d, json!({"scenario": "a subscription id is issued again while sinks of an earlier subscription with that id are still held", "seed": s, "history": o.history})));
			}
		}
	}
	if !replay {
		let n = ctx.tier.pick(200u64, 10_000);
		let seed = ctx.seed;
		let res = run_parallel((0..n).collect(), |_, i| {
			let s = Rng::fork(seed, 63_000_000 + i).next_u64();
			(s, block_on_virtual(oversized_accept_case(s)))
		});
		for (s, o) in res {
			ev.eval();
			ev.count("cases_subscribe_response_above_the_limit", 1);
			ev.count("operations_checked", o.ops_checked as u64);
			if o.admissions > 0 {
				ev.nontrivial(&("oversized-accept", s));
			}
			for (sig, d) in o.violations {
				violations.push(Violation::new(sig, d, json!({"scenario": "the subscribe response does not fit into max_response_body_size", "seed": s, "history": o.history})));
			}
		}
	}
	if !replay {
		let n = ctx.tier.pick(300u64, 15_000);
		let seed = ctx.seed;
		let res = run_parallel((0..n).collect(), |_, i| {
			let s = Rng::fork(seed, 64_000_000 + i).next_u64();
			(s, block_on_virtual(assembly_case(s)))
		});
		for (s, o) in res {
			ev.eval();
			ev.count("cases_other_service_assemblies", 1);
			ev.count("operations_checked", o.ops_checked as u64);
			for h in &o.history {
				ev.count(&format!("assembly_{}", h.split(',').next().unwrap_or("")), 1);
			}
			if o.admissions > 1 {
				ev.nontrivial(&("assembly", s));
			}
			for (sig, d) in o.violations {
				violations.push(Violation::new(sig, d, json!({"scenario": "the per-connection service is assembled in another way than the accept loop does", "seed": s, "history": o.history})));
			}
		}
	}
	if !replay {
		let n = ctx.tier.pick(100u64, 5_000);
		let seed = ctx.seed;
		let res = run_parallel((0..n).collect(), |_, i| {
			let s = Rng::fork(seed, 65_000_000 + i).next_u64();
			(s, block_on_virtual(macro_alias_case(s)))
		});
		for (s, o) in res {
			ev.eval();
			ev.count("cases_macro_declared_aliases", 1);
			ev.count("operations_checked", o.ops_checked as u64);
			if o.admissions > 1 {
				ev.nontrivial(&("macro-alias", s));
			}
			for (sig, d) in o.violations {
				violations.push(Violation::new(sig, d, json!({"scenario": "a macro-declared subscription used through its aliases", "seed": s, "history": o.history})));
			}
		}
	}
	if !replay {
		let n = ctx.tier.pick(16u64, 400);
		let seed = ctx.seed;
		let res: Vec<(u64, Out)> = block_on_stress_io(8, async move {
			let mut all = Vec::new();
			for chunk in (0..n).collect::<Vec<_>>().chunks(8) {
				let hs: Vec<_> = chunk.iter().map(|i| { let s = Rng::fork(seed, 66_000_000 + i).next_u64(); tokio::spawn(async move { (s, tcp_late_handshake_case(s).await) }) }).collect();
				for h in hs {
					if let Ok(x) = h.await {
						all.push(x);
					}
				}
			}
			all
		});
		for (s, o) in res {
			ev.eval();
			ev.count("cases_tcp_late_handshake", 1);
			ev.count("operations_checked", o.ops_checked as u64);
			if o.ops_checked > 0 {
				ev.nontrivial(&("tcp-late-handshake", s));
			} else {
				ev.count("cases_tcp_late_handshake_scenario_not_reached", 1);
			}
			for (sig, d) in o.violations {
				violations.push(Violation::new(sig, d, json!({"scenario": "tcp: handshake long after the accept", "seed": s, "history": o.history})));
			}
		}
	}
	let results = run_parallel(specs.chunks(64).map(|c| c.to_vec()).collect(), |_, chunk| {
		let mut ev = Evidence::new("");
		let mut v = Vec::new();
		for (spec, class) in chunk {
			let o = block_on_virtual(run_spec(&spec));
			if replay {
				for h in &o.history {
					println!("  {h}");
				}
				println!("violations: {:?}", o.violations);
			}
			record(&spec, o, class, &mut ev, &mut v);
		}
		(ev, v)
	});
	for (e, v) in results {
		ev.merge(e);
		violations.extend(v);
	}
	for p in take_panics() {
		// accept() panics by design when the response carrying the subscription id exceeds max_response_body_size
		if p.in_library && !p.message.contains("The subscription response was too big") {
			violations.push(Violation::new(
				format!("library-panic/{}", p.location.rsplit('/').next().unwrap_or("").split(':').next().unwrap_or("")),
				p.message.clone(),
				json!({"location": p.location, "backtrace": p.backtrace_head}),
			));
		}
	}
	let mut inconclusive = None;
	if !replay {
		// real threads: concurrent endings (the gated mode D runs everything on one thread)
		let exe = std::env::current_exe().expect("exe");
		let (n, per) = ctx.tier.pick(("3", "300"), ("40", "500"));
		let conc = ctx.tier.pick("12000", "300000");
		let o = std::process::Command::new(exe).args(["--sub", "stress", "--n", n, "--per", per, "--conc", conc]).env("VERIF_SEED", ctx.seed.to_string()).output();
		match o.ok().and_then(|o| String::from_utf8(o.stdout).ok()).and_then(|s| s.lines().find_map(|l| l.strip_prefix("SUBRESULT ").map(|j| j.to_string()))) {
			Some(j) => {
				let v: Value = serde_json::from_str(&j).unwrap_or(Value::Null);
				for s in v["violation_signatures"].as_array().cloned().unwrap_or_default() {
					let s = s.as_str().unwrap_or("?");
					violations.push(Violation::new(s.split(' ').next().unwrap_or(s).to_string(), s.to_string(), json!({"sub": "stress"})));
				}
				ev.evals(v["rounds"].as_u64().unwrap_or(0));
				ev.count("stress_unsubscribes_checked", v["unsubscribes_checked"].as_u64().unwrap_or(0));
				ev.count("stress_concurrent_unsubscribe_calls", v["concurrent_unsubscribe_calls"].as_u64().unwrap_or(0));
				ev.count("stress_concurrent_unsubscribe_histories", v["concurrent_unsubscribe_rounds"].as_u64().unwrap_or(0));
				ev.set("stress", v);
			}
			None => inconclusive = Some("native stress sub-run did not report".to_string()),
		}
	}
	if ctx.tier == Tier::Thorough && !replay {
		let (res, reports) = jrv::sanit::run_tsan("c06", &["--n".into(), "6".into(), "--per".into(), "300".into(), "--conc".into(), "3000".into()], Duration::from_secs(1200));
		for (frame, excerpt) in &reports {
			violations.push(Violation::new(format!("tsan:{frame}"), "ThreadSanitizer reported a data race", json!({"excerpt": excerpt})));
		}
		match res {
			jrv::sanit::SubOutcome::Clean(v) => {
				for s in v["violation_signatures"].as_array().cloned().unwrap_or_default() {
					let s = s.as_str().unwrap_or("?");
					violations.push(Violation::new(s.split(' ').next().unwrap_or(s).to_string(), s.to_string(), json!({"sub": "tsan"})));
				}
				ev.set("tsan", json!({"status": format!("{} race report(s)", reports.len()), "workload": v}));
			}
			jrv::sanit::SubOutcome::Report { excerpt, frame } => violations.push(Violation::new(format!("tsan:{frame}"), "report", json!({"excerpt": excerpt}))),
			jrv::sanit::SubOutcome::Failed(why) => {
				ev.set("tsan", json!({"status": "inconclusive", "why": why}));
				inconclusive = Some("TSan sub-run did not complete".into());
			}
		}
		match jrv::sanit::run_miri("c06", &[], Duration::from_secs(1500)) {
			jrv::sanit::SubOutcome::Clean(v) => {
				for s in v["violation_signatures"].as_array().cloned().unwrap_or_default() {
					violations.push(Violation::new(format!("miri-run/{}", s.as_str().unwrap_or("?")), "seen in the Miri sub-run", json!({"sub": "miri"})));
				}
				ev.set("miri", json!({"status": "no report", "workload": v}));
			}
			jrv::sanit::SubOutcome::Report { excerpt, frame } => violations.push(Violation::new(format!("miri:{frame}"), "Miri reported undefined behaviour", json!({"excerpt": excerpt}))),
			jrv::sanit::SubOutcome::Failed(why) => {
				ev.set("miri", json!({"status": "inconclusive", "why": why}));
				inconclusive = Some("Miri sub-run did not complete".into());
			}
		}
	}
	finish(&ctx, ev, violations, inconclusive);
}
