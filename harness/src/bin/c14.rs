//! C14 — host filter: only allow-listed authorities ever reach the RPC service.
//!
//! Monitor: the real `HostFilterLayer` is layered over a tiny inner tower service that counts its invocations and
//! answers with a marker. Generated (allow-list, Host header(s), URI) triples are sent through `tower::Service::call`
//! (no sockets). An independent authority parser + matcher written from the property text judges every outcome in
//! two strengths (DESIGN.md §5 C14):
//!
//! * MUST — request authority strictly well-formed (RFC 7230 `uri-host [":" port]`, canonical port), host labels
//!   equal to the entry's labels (`*` = exactly one non-empty label), ports equal / both absent / entry `*`;
//! * MAY  — lenient parse (scheme / path / userinfo stripped, case-insensitive, trailing dot ignored, `*` = any
//!   characters, scheme default ports folded, numerically equal ports).
//!
//! Verdict rules: admitted ⇒ some source (Host or URI authority) MAY-matches some entry and the two sources do not
//! (strictly) disagree; single-entry list ∧ MUST ⇒ admitted; refusal ⇒ status 403 or 400 and the inner service was
//! not called. Everything between MUST and MAY is accepted either way and only counted.

use bytes::Bytes;
use http_body_util::Empty;
use jrv::report::*;
use jrv::rng::Rng;
use jrv::runner::*;
use jsonrpsee_server::middleware::http::{Authority, HostFilterLayer};
use jsonrpsee_server::{HttpBody, HttpRequest, HttpResponse};
use serde_json::{Value, json};
use std::collections::BTreeMap;
use std::convert::Infallible;
use std::net::Ipv6Addr;
use std::sync::Arc;
use std::sync::atomic::{AtomicUsize, Ordering};
use std::task::{Context, Poll};
use std::time::Duration;
use tower::{Layer, Service, ServiceExt};

type ReqBody = Empty<Bytes>;

// ---------------------------------------------------------------------------------------------------------------
// Inner service: records that it was called.

const MARKER: &str = "x-verif-inner";

#[derive(Clone)]
struct Inner(Arc<AtomicUsize>);

impl Service<HttpRequest<ReqBody>> for Inner {
	type Response = HttpResponse<HttpBody>;
	type Error = Infallible;
	type Future = std::future::Ready<Result<Self::Response, Self::Error>>;

	fn poll_ready(&mut self, _: &mut Context<'_>) -> Poll<Result<(), Self::Error>> {
		Poll::Ready(Ok(()))
	}

	fn call(&mut self, _req: HttpRequest<ReqBody>) -> Self::Future {
		self.0.fetch_add(1, Ordering::SeqCst);
		let mut rp = HttpResponse::new(HttpBody::empty());
		rp.headers_mut().insert(MARKER, http::HeaderValue::from_static("1"));
		std::future::ready(Ok(rp))
	}
}

// ---------------------------------------------------------------------------------------------------------------
// Model of the configuration (built by the generator, never by parsing with the code under test).

#[derive(Clone, Debug, PartialEq, Eq, Hash)]
enum EPort {
	/// no port written in the entry
	Unspecified,
	/// explicit numeric port that is not the default of the entry's scheme
	Fixed(u32),
	/// `*`
	Any,
	/// explicit numeric port equal to the default port of the entry's scheme (`https://h:443`)
	SchemeDefault(u32),
}

impl EPort {
	fn kind(&self) -> &'static str {
		match self {
			EPort::Unspecified => "none",
			EPort::Fixed(_) => "fixed",
			EPort::Any => "any",
			EPort::SchemeDefault(_) => "scheme-default",
		}
	}
	fn to_json(&self) -> Value {
		match self {
			EPort::Unspecified => json!("none"),
			EPort::Any => json!("*"),
			EPort::Fixed(p) => json!(format!("fixed:{p}")),
			EPort::SchemeDefault(p) => json!(format!("scheme-default:{p}")),
		}
	}
	fn from_json(v: &Value) -> EPort {
		let s = v.as_str().unwrap_or("none");
		if s == "*" {
			EPort::Any
		} else if let Some(p) = s.strip_prefix("fixed:") {
			EPort::Fixed(p.parse().unwrap_or(0))
		} else if let Some(p) = s.strip_prefix("scheme-default:") {
			EPort::SchemeDefault(p.parse().unwrap_or(0))
		} else {
			EPort::Unspecified
		}
	}
}

#[derive(Clone, Debug, Hash)]
struct Entry {
	/// the string handed to `HostFilterLayer::new`
	text: String,
	/// host pattern (labels; `*` labels are wildcards)
	host: String,
	hkind: String,
	port: EPort,
	/// the entry is handed to the layer as a `std::net::SocketAddr` (parsed from `text`) instead of as a string
	via_sockaddr: bool,
}

/// What the layer is built from: strings and socket addresses mixed.
enum AnyEntry {
	Text(String),
	Sock(std::net::SocketAddr),
}

impl TryFrom<AnyEntry> for Authority {
	type Error = jsonrpsee_server::middleware::http::AuthorityError;
	fn try_from(e: AnyEntry) -> Result<Self, Self::Error> {
		match e {
			AnyEntry::Text(s) => Authority::try_from(s),
			AnyEntry::Sock(a) => Authority::try_from(a),
		}
	}
}

impl Entry {
	fn to_json(&self) -> Value {
		json!({"text": self.text, "host": self.host, "hkind": self.hkind, "port": self.port.to_json(), "via_sockaddr": self.via_sockaddr})
	}
	fn from_json(v: &Value) -> Entry {
		Entry {
			text: v["text"].as_str().unwrap_or("").to_string(),
			host: v["host"].as_str().unwrap_or("").to_string(),
			hkind: v["hkind"].as_str().unwrap_or("?").to_string(),
			port: EPort::from_json(&v["port"]),
			via_sockaddr: v["via_sockaddr"].as_bool().unwrap_or(false),
		}
	}
}

#[derive(Clone, Debug, Hash)]
struct ReqSpec {
	/// values of the Host header, in order (0, 1 or 2)
	hosts: Vec<Vec<u8>>,
	/// request target
	uri: String,
	/// protocol version the request claims: 0 = HTTP/1.1 (default), 1 = HTTP/1.0, 2 = HTTP/0.9, 3 = HTTP/2, 4 = HTTP/3
	version: u8,
}

impl ReqSpec {
	fn to_json(&self) -> Value {
		let hs: Vec<Value> =
			self.hosts.iter().map(|h| json!({"lossy": String::from_utf8_lossy(h), "bytes": h})).collect();
		json!({"host_headers": hs, "uri": self.uri, "version": self.version})
	}
	fn from_json(v: &Value) -> ReqSpec {
		let hosts = v["host_headers"]
			.as_array()
			.map(|a| {
				a.iter()
					.map(|h| h["bytes"].as_array().map(|b| b.iter().map(|x| x.as_u64().unwrap_or(0) as u8).collect()).unwrap_or_default())
					.collect()
			})
			.unwrap_or_default();
		ReqSpec { hosts, uri: v["uri"].as_str().unwrap_or("/").to_string(), version: v["version"].as_u64().unwrap_or(0) as u8 }
	}
}

// ---------------------------------------------------------------------------------------------------------------
// Independent authority parser.

const DEFAULT_PORTS: [&str; 3] = ["80", "443", "21"];

fn scheme_default(scheme: &str) -> Option<&'static str> {
	match scheme {
		"http" | "ws" => Some("80"),
		"https" | "wss" => Some("443"),
		"ftp" => Some("21"),
		_ => None,
	}
}

#[derive(Clone, Debug, PartialEq, Eq)]
enum RPort {
	None,
	/// `h:` — RFC 3986 allows an empty port
	Empty,
	Star,
	/// decimal digits (optional `+`, leading zeros removed in `val`); canonical = no `+`, no leading zeros, ≤ 65535
	Num { val: String, canonical: bool },
	Other,
}

impl RPort {
	fn kind(&self) -> &'static str {
		match self {
			RPort::None => "none",
			RPort::Empty => "empty",
			RPort::Star => "star",
			RPort::Num { canonical: true, .. } => "num",
			RPort::Num { canonical: false, .. } => "num-noncanonical",
			RPort::Other => "other",
		}
	}
}

#[derive(Clone, Debug)]
struct Auth {
	host: String,
	port: RPort,
	scheme: Option<String>,
	/// strictly well-formed `uri-host [":" port]` with nothing else around it
	strict: bool,
	/// first reason why it is not strict
	lenient_why: &'static str,
}

#[derive(Clone, Debug)]
enum Src {
	Absent,
	Multiple,
	/// bytes outside visible ASCII
	NonText,
	Invalid,
	Parsed(Auth),
}

impl Src {
	fn class(&self) -> String {
		match self {
			Src::Absent => "absent".into(),
			Src::Multiple => "multiple".into(),
			Src::NonText => "non-text".into(),
			Src::Invalid => "invalid".into(),
			Src::Parsed(a) if a.strict => "strict".into(),
			Src::Parsed(a) => format!("lenient-{}", a.lenient_why),
		}
	}
	fn parsed(&self) -> Option<&Auth> {
		match self {
			Src::Parsed(a) => Some(a),
			_ => None,
		}
	}
	fn strict(&self) -> Option<&Auth> {
		self.parsed().filter(|a| a.strict)
	}
}

fn classify_port(p: &str) -> RPort {
	if p.is_empty() {
		return RPort::Empty;
	}
	if p == "*" {
		return RPort::Star;
	}
	let digits = p.strip_prefix('+').unwrap_or(p);
	if digits.is_empty() || !digits.bytes().all(|b| b.is_ascii_digit()) {
		return RPort::Other;
	}
	let trimmed = digits.trim_start_matches('0');
	let val = if trimmed.is_empty() { "0".to_string() } else { trimmed.to_string() };
	let in_range = val.len() <= 5 && val.parse::<u32>().map(|v| v <= 65535).unwrap_or(false);
	let canonical = p == val && in_range;
	RPort::Num { val, canonical }
}

fn strict_host(h: &str) -> bool {
	if h.starts_with('[') {
		h.len() > 2 && h.ends_with(']') && h[1..h.len() - 1].parse::<Ipv6Addr>().is_ok()
	} else {
		!h.is_empty()
			&& h.split('.').all(|l| !l.is_empty() && l.bytes().all(|b| b.is_ascii_alphanumeric() || b == b'-' || b == b'_'))
	}
}

/// Lenient parse of an authority-carrying text. `scheme_hint` is the scheme of the URI the authority came from.
fn lenient_parse(text: &str, scheme_hint: Option<&str>) -> Option<Auth> {
	let mut strict = true;
	let mut why: &'static str = "";
	let mut note = |strict: &mut bool, w: &'static str| {
		if *strict {
			*strict = false;
			why = w;
		}
	};
	let trimmed = text.trim_matches(|c| c == ' ' || c == '\t');
	if trimmed.len() != text.len() {
		note(&mut strict, "whitespace");
	}
	let mut rest = trimmed;
	let mut scheme = scheme_hint.map(|s| s.to_ascii_lowercase());
	if let Some(i) = rest.find("://") {
		let s = &rest[..i];
		if s.is_empty() || !s.bytes().all(|b| b.is_ascii_alphanumeric() || b == b'+' || b == b'-' || b == b'.') {
			return None;
		}
		scheme = Some(s.to_ascii_lowercase());
		rest = &rest[i + 3..];
		note(&mut strict, "scheme");
	}
	if let Some(i) = rest.find(['/', '?', '#']) {
		rest = &rest[..i];
		note(&mut strict, "path");
	}
	if let Some(i) = rest.rfind('@') {
		rest = &rest[i + 1..];
		note(&mut strict, "userinfo");
	}
	if rest.is_empty() || rest.bytes().any(|b| b <= b' ' || b >= 0x7f) {
		return None;
	}
	let (host, port) = if rest.starts_with('[') {
		let j = rest.find(']')?;
		let host = &rest[..=j];
		let after = &rest[j + 1..];
		if after.is_empty() {
			(host, RPort::None)
		} else if let Some(p) = after.strip_prefix(':') {
			(host, classify_port(p))
		} else {
			// text between `]` and the port is not a well-formed authority under any reading; keep it as part of the
			// host so that it takes part in matching (it only matches where a wildcard covers it)
			match rest.rfind(':').filter(|&i| i > j) {
				Some(i) => (&rest[..i], classify_port(&rest[i + 1..])),
				None => (rest, RPort::None),
			}
		}
	} else {
		match rest.find(':') {
			None => (rest, RPort::None),
			Some(i) => (&rest[..i], classify_port(&rest[i + 1..])),
		}
	};
	if host.is_empty() {
		return None;
	}
	if !strict_host(host) {
		note(&mut strict, "host-chars");
	}
	if !matches!(port, RPort::None | RPort::Num { canonical: true, .. }) {
		note(&mut strict, "port-form");
	}
	Some(Auth { host: host.to_string(), port, scheme, strict, lenient_why: why })
}

fn parse_host_source(hosts: &[Vec<u8>]) -> Src {
	match hosts {
		[] => Src::Absent,
		[one] => {
			if one.iter().any(|&b| !(b == b'\t' || (32..127).contains(&b))) {
				return Src::NonText;
			}
			let s = std::str::from_utf8(one).expect("ascii");
			lenient_parse(s, None).map(Src::Parsed).unwrap_or(Src::Invalid)
		}
		_ => Src::Multiple,
	}
}

/// Independent split of a request target into (scheme, authority text).
fn uri_authority_text(uri: &str) -> Option<(Option<&str>, &str)> {
	if uri.starts_with('/') || uri == "*" || uri.is_empty() {
		return None;
	}
	let (scheme, rest) = match uri.find("://") {
		Some(i) => (Some(&uri[..i]), &uri[i + 3..]),
		None => (None, uri),
	};
	let end = rest.find(['/', '?', '#']).unwrap_or(rest.len());
	Some((scheme, &rest[..end]))
}

fn parse_uri_source(uri: &str) -> Src {
	match uri_authority_text(uri) {
		None => Src::Absent,
		Some((scheme, auth)) => {
			if !auth.is_ascii() {
				return Src::NonText;
			}
			lenient_parse(auth, scheme).map(Src::Parsed).unwrap_or(Src::Invalid)
		}
	}
}

// ---------------------------------------------------------------------------------------------------------------
// Independent matcher, two strengths.

fn norm_host(h: &str) -> String {
	let l = h.to_ascii_lowercase();
	if l.len() > 1 && l.ends_with('.') { l[..l.len() - 1].to_string() } else { l }
}

fn glob(p: &[u8], s: &[u8]) -> bool {
	match p.split_first() {
		None => s.is_empty(),
		Some((b'*', rest)) => (0..=s.len()).any(|i| glob(rest, &s[i..])),
		Some((c, rest)) => s.split_first().is_some_and(|(d, srest)| c == d && glob(rest, srest)),
	}
}

fn ipv6_of(h: &str) -> Option<Ipv6Addr> {
	h.strip_prefix('[')?.strip_suffix(']')?.parse().ok()
}

fn same_host(a: &str, b: &str) -> bool {
	let (na, nb) = (norm_host(a), norm_host(b));
	na == nb || matches!((ipv6_of(&na), ipv6_of(&nb)), (Some(x), Some(y)) if x == y)
}

fn may_host(e: &Entry, a: &Auth) -> bool {
	let (p, s) = (norm_host(&e.host), norm_host(&a.host));
	glob(p.as_bytes(), s.as_bytes()) || matches!((ipv6_of(&p), ipv6_of(&s)), (Some(x), Some(y)) if x == y)
}

fn may_port(e: &Entry, a: &Auth) -> bool {
	if a.port == RPort::Other {
		return false;
	}
	if e.port == EPort::Any {
		return true;
	}
	if a.port == RPort::Star {
		return false;
	}
	let req_default_like = match &a.port {
		RPort::None | RPort::Empty => true,
		RPort::Num { val, .. } => {
			DEFAULT_PORTS.contains(&val.as_str()) || a.scheme.as_deref().and_then(scheme_default) == Some(val.as_str())
		}
		_ => false,
	};
	let entry_default_like = match &e.port {
		EPort::Unspecified | EPort::SchemeDefault(_) => true,
		EPort::Fixed(p) => DEFAULT_PORTS.contains(&p.to_string().as_str()),
		EPort::Any => true,
	};
	if req_default_like && entry_default_like {
		return true;
	}
	match (&e.port, &a.port) {
		(EPort::Fixed(p) | EPort::SchemeDefault(p), RPort::Num { val, .. }) => *val == p.to_string(),
		_ => false,
	}
}

/// MUST strength; `a` has to be strict.
fn must_match(e: &Entry, a: &Auth) -> bool {
	if !a.strict {
		return false;
	}
	let pl: Vec<&str> = e.host.split('.').collect();
	let sl: Vec<&str> = a.host.split('.').collect();
	let host_ok = pl.len() == sl.len() && pl.iter().zip(sl.iter()).all(|(p, s)| p == s || (*p == "*" && !s.is_empty()));
	let port_ok = match (&e.port, &a.port) {
		(EPort::Any, RPort::None | RPort::Num { canonical: true, .. }) => true,
		(EPort::Unspecified | EPort::SchemeDefault(_), RPort::None) => true,
		(EPort::Fixed(p), RPort::Num { val, canonical: true }) => *val == p.to_string(),
		_ => false,
	};
	host_ok && port_ok
}

/// Both strictly well-formed and certainly naming different authorities.
fn strict_disagreement(h: &Src, u: &Src) -> Option<&'static str> {
	let (a, b) = (h.strict()?, u.strict()?);
	if !same_host(&a.host, &b.host) {
		return Some("host-differs");
	}
	match (&a.port, &b.port) {
		(RPort::Num { val: x, .. }, RPort::Num { val: y, .. }) if x != y => Some("port-differs"),
		(RPort::None, RPort::Num { val, .. }) | (RPort::Num { val, .. }, RPort::None) if !DEFAULT_PORTS.contains(&val.as_str()) => {
			Some("port-differs")
		}
		_ => None,
	}
}

// ---------------------------------------------------------------------------------------------------------------
// Observation and judgement.

#[derive(Clone, Debug)]
struct Observed {
	status: u16,
	marker: bool,
	inner_calls: usize,
	err: Option<String>,
	panic: Option<String>,
}

#[derive(Debug, PartialEq, Clone, Copy)]
enum Obligation {
	MustAdmit,
	MustRefuse,
	Band,
}

struct Judgement {
	violations: Vec<(String, String)>,
	obligation: Obligation,
	hclass: String,
	uclass: String,
	/// some source lenient-parsed and the list is non-empty: the matcher's decision is what is judged
	exercised_matcher: bool,
	/// Host and URI authority are both strictly well-formed and differ
	strict_disagreement_present: bool,
	band_note: Option<&'static str>,
}

/// Classifying feature of an over-admitted request: how the authority the oracle refuses relates to the allow-list.
fn relation(entries: &[Entry], req: &ReqSpec, h: &Src, u: &Src) -> String {
	if entries.is_empty() {
		return "empty-allow-list".into();
	}
	let host_glob = |e: &Entry, host: &str| glob(norm_host(&e.host).as_bytes(), norm_host(host).as_bytes());
	let parsed: Vec<&Auth> = [h.parsed(), u.parsed()].into_iter().flatten().collect();
	if parsed.is_empty() {
		return format!("no-authority/host={},uri={}", h.class(), u.class());
	}
	// `[v6]junk`: the bracketed prefix alone matches an entry
	for a in &parsed {
		if a.host.starts_with('[') {
			if let Some(j) = a.host.find(']').filter(|&j| j + 1 < a.host.len()) {
				if entries.iter().any(|e| host_glob(e, &a.host[..=j])) {
					return "text-after-bracketed-literal-ignored".into();
				}
			}
		}
	}
	// host matches some entry, port does not
	for a in &parsed {
		if let Some(e) = entries.iter().find(|e| may_host(e, a)) {
			return format!("port-mismatch/entry-port={},req-port={}", e.port.kind(), a.port.kind());
		}
	}
	let mut raws: Vec<String> = req.hosts.iter().map(|b| String::from_utf8_lossy(b).into_owned()).collect();
	if let Some((_, a)) = uri_authority_text(&req.uri) {
		raws.push(a.to_string());
	}
	for raw in &raws {
		if let Some(i) = raw.find('@') {
			let before = raw[..i].rsplit("://").next().unwrap_or("");
			let before_host = before.split(':').next().unwrap_or("");
			if entries.iter().any(|e| host_glob(e, before_host)) {
				return "userinfo-part-matches".into();
			}
		}
	}
	for a in &parsed {
		let rh = norm_host(&a.host);
		for e in entries {
			let lit = norm_host(e.host.trim_start_matches('*').trim_start_matches('.'));
			if !lit.is_empty() && rh.ends_with(&lit) {
				return "host-ends-with-entry".into();
			}
			let pre = norm_host(e.host.trim_end_matches('*'));
			if !pre.is_empty() && rh.starts_with(&pre) {
				return "host-starts-with-entry".into();
			}
		}
	}
	for a in &parsed {
		let rh = norm_host(&a.host);
		let rl: Vec<&str> = rh.split('.').collect();
		for e in entries {
			let eh = norm_host(&e.host);
			let el: Vec<&str> = eh.split('.').collect();
			if rl.last() == el.last() {
				return "host-shares-last-label-with-entry".into();
			}
			if rl.iter().any(|l| !l.is_empty() && *l != "*" && el.contains(l)) {
				return "host-shares-a-label-with-entry".into();
			}
		}
	}
	"host-unrelated-to-entries".into()
}

fn judge(entries: &[Entry], req: &ReqSpec, obs: &Observed) -> Judgement {
	let h = parse_host_source(&req.hosts);
	let u = parse_uri_source(&req.uri);
	let (hclass, uclass) = (h.class(), u.class());
	let disagree = strict_disagreement(&h, &u);
	let sources = [h.parsed(), u.parsed()];
	let may_ok = disagree.is_none()
		&& sources.iter().flatten().any(|a| entries.iter().any(|e| may_host(e, a) && may_port(e, a)));
	let host_text_equals_uri = match (req.hosts.as_slice(), uri_authority_text(&req.uri)) {
		([one], Some((_, a))) => one.as_slice() == a.as_bytes(),
		_ => false,
	};
	let must = entries.len() == 1 && {
		let e = &entries[0];
		match (&h, &u) {
			(Src::Parsed(a), Src::Absent) => must_match(e, a),
			(Src::Parsed(a), Src::Parsed(_)) => must_match(e, a) && host_text_equals_uri,
			(Src::Absent, Src::Parsed(b)) => must_match(e, b),
			_ => false,
		}
	};
	assert!(!must || may_ok, "oracle inconsistent: MUST without MAY for {entries:?} {req:?}");
	let obligation = if must {
		Obligation::MustAdmit
	} else if !may_ok {
		Obligation::MustRefuse
	} else {
		Obligation::Band
	};
	let exercised_matcher = !entries.is_empty() && sources.iter().any(|s| s.is_some());
	let strict_disagreement_present = disagree.is_some();
	let mut violations = Vec::new();
	let mut band_note = None;

	if let Some(p) = &obs.panic {
		violations.push((format!("panic/host={hclass},uri={uclass}"), format!("the layered service panicked: {p}")));
		return Judgement { violations, obligation, hclass, uclass, exercised_matcher, strict_disagreement_present, band_note };
	}
	if let Some(e) = &obs.err {
		violations.push((
			format!("service-error/host={hclass},uri={uclass}"),
			format!("the layered service returned Err({e}) instead of a response"),
		));
		return Judgement { violations, obligation, hclass, uclass, exercised_matcher, strict_disagreement_present, band_note };
	}
	let admitted = obs.inner_calls > 0;
	if obs.inner_calls > 1 {
		violations.push(("inner-called-more-than-once".into(), format!("inner service called {} times", obs.inner_calls)));
	}
	if admitted {
		if !obs.marker {
			// the inner service ran although the answer is the filter's own refusal (or something else)
			violations.push((
				format!("inner-called-on-refusal/status={}", obs.status),
				format!("inner service was called but the response (status {}) is not the inner service's", obs.status),
			));
		}
		if let Some(kind) = disagree {
			violations.push((
				format!("admitted-on-disagreement/{kind}"),
				format!("Host header and URI authority are both well-formed and differ ({kind}), yet the request reached the inner service"),
			));
		} else if !may_ok {
			let sig = format!("admitted-without-match/{}", relation(entries, req, &h, &u));
			violations.push((
				sig,
				format!(
					"the request reached the inner service although no Host/URI authority matches any allow-list entry even under the lenient (MAY) reading: Host={:?} target={:?} allow-list={:?}",
					req.hosts.iter().map(|b| String::from_utf8_lossy(b).into_owned()).collect::<Vec<_>>(),
					req.uri,
					entries.iter().map(|e| e.text.as_str()).collect::<Vec<_>>()
				),
			));
		} else if obligation == Obligation::Band {
			let lenient_disagree = match (h.parsed(), u.parsed()) {
				(Some(a), Some(b)) => !same_host(&a.host, &b.host),
				_ => false,
			};
			if lenient_disagree {
				band_note = Some("band-admitted-lenient-host-disagreement");
			} else if sources.iter().flatten().any(|a| matches!(a.port, RPort::Num { canonical: false, .. })) {
				band_note = Some("band-admitted-noncanonical-port");
			}
		}
	} else {
		if obs.marker {
			violations.push(("marker-without-inner-call".into(), "response carries the inner marker but the inner service was not called".into()));
		}
		if obs.status != 403 && obs.status != 400 {
			violations.push((
				format!("refusal-status/{}", obs.status),
				format!("request was refused with status {} (must be 403 or 400)", obs.status),
			));
		}
		if must {
			let e = &entries[0];
			let a = h.parsed().or(u.parsed()).expect("must implies parsed");
			// the signature is completed by `run_one`, which attributes the refusal to host or port by a differential probe
			violations.push((
				format!("refused-must-match/entry-port={},req-port={}", e.port.kind(), a.port.kind()),
				format!(
					"authority {:?} strictly matches the only allow-list entry {:?} but was refused with {}",
					a.host, e.text, obs.status
				),
			));
		} else if obligation == Obligation::Band
			&& entries.len() == 1
			&& matches!(entries[0].port, EPort::SchemeDefault(_))
			&& h.strict().is_some_and(|a| {
				let mut b = a.clone();
				b.port = RPort::None;
				must_match(&entries[0], &b) && matches!((&a.port, &entries[0].port), (RPort::Num { val, .. }, EPort::SchemeDefault(p)) if *val == p.to_string())
			}) {
			band_note = Some("band-refused-explicit-port-equal-to-entry-scheme-default-port");
		}
	}
	Judgement { violations, obligation, hclass, uclass, exercised_matcher, strict_disagreement_present, band_note }
}

// ---------------------------------------------------------------------------------------------------------------
// Driving the real layer.

enum Built {
	Ok(HttpRequest<ReqBody>),
	HostUnconstructible,
	UriUnconstructible,
	/// the `http` crate extracted another authority than the independent split: the harness would misrepresent the case
	UriAuthorityMismatch,
}

fn build_request(req: &ReqSpec) -> Built {
	let Ok(uri) = req.uri.parse::<http::Uri>() else { return Built::UriUnconstructible };
	let want = uri_authority_text(&req.uri).map(|(_, a)| a);
	if uri.authority().map(|a| a.as_str()) != want {
		return Built::UriAuthorityMismatch;
	}
	let version = match req.version {
		1 => http::Version::HTTP_10,
		2 => http::Version::HTTP_09,
		3 => http::Version::HTTP_2,
		4 => http::Version::HTTP_3,
		_ => http::Version::HTTP_11,
	};
	let mut b = http::Request::builder().method("POST").uri(uri).version(version);
	for h in &req.hosts {
		let Ok(v) = http::HeaderValue::from_bytes(h) else { return Built::HostUnconstructible };
		b = b.header(http::header::HOST, v);
	}
	match b.body(ReqBody::new()) {
		Ok(r) => Built::Ok(r),
		Err(_) => Built::HostUnconstructible,
	}
}

fn call_layer(rt: &tokio::runtime::Runtime, layer: &HostFilterLayer, request: HttpRequest<ReqBody>) -> Observed {
	let calls = Arc::new(AtomicUsize::new(0));
	let mut svc = layer.layer(Inner(calls.clone()));
	let res = std::panic::catch_unwind(std::panic::AssertUnwindSafe(|| {
		rt.block_on(async {
			let ready = ServiceExt::<HttpRequest<ReqBody>>::ready(&mut svc).await?;
			ready.call(request).await
		})
	}));
	let inner_calls = calls.load(Ordering::SeqCst);
	match res {
		Ok(Ok(rp)) => Observed {
			status: rp.status().as_u16(),
			marker: rp.headers().contains_key(MARKER),
			inner_calls,
			err: None,
			panic: None,
		},
		Ok(Err(e)) => Observed { status: 0, marker: false, inner_calls, err: Some(e.to_string()), panic: None },
		Err(p) => {
			let msg = p.downcast_ref::<&str>().map(|s| s.to_string()).or_else(|| p.downcast_ref::<String>().cloned()).unwrap_or_default();
			Observed { status: 0, marker: false, inner_calls, err: None, panic: Some(msg) }
		}
	}
}

fn build_layer(entries: &[Entry]) -> Result<HostFilterLayer, String> {
	HostFilterLayer::new(entries.iter().map(|e| match (e.via_sockaddr, e.text.parse::<std::net::SocketAddr>()) {
		(true, Ok(a)) => AnyEntry::Sock(a),
		_ => AnyEntry::Text(e.text.clone()),
	}))
	.map_err(|e| e.to_string())
}

// ---------------------------------------------------------------------------------------------------------------
// Generators.

const LABELS: [&str; 10] = ["a", "b", "d", "example", "com", "parity", "io", "web3", "site", "localhost"];
const EVIL: [&str; 4] = ["evil", "attacker", "x", "zz"];
const V4: [&str; 3] = ["127.0.0.1", "10.0.0.7", "192.168.1.1"];
const V6: [&str; 4] = ["[::1]", "[2001:db8::1]", "[2001:db8:85a3:8d3:1319:8a2e:370:7348]", "[::ffff:1.2.3.4]"];
const PORTS: [u32; 9] = [80, 443, 21, 8080, 9944, 1, 65535, 8443, 0];
const SCHEMES: [(&str, u32); 5] = [("http", 80), ("https", 443), ("ws", 80), ("wss", 443), ("ftp", 21)];

fn labels(r: &mut Rng, n: usize) -> String {
	(0..n).map(|_| *r.pick(&LABELS)).collect::<Vec<_>>().join(".")
}

fn mix_case(r: &mut Rng, s: &str) -> String {
	s.chars().map(|c| if r.bool() { c.to_ascii_uppercase() } else { c.to_ascii_lowercase() }).collect()
}

fn gen_entry(r: &mut Rng) -> Entry {
	let (host, hkind): (String, &str) = match r.below(12) {
		0..=3 => {
			let n = r.usize(3) + 1;
			(labels(r, n), "literal")
		}
		4 | 5 => {
			let n = r.usize(2) + 1;
			(format!("*.{}", labels(r, n)), "leading-wildcard")
		}
		6 | 7 => {
			let n = r.usize(2) + 1;
			(format!("{}.*.{}", r.pick(&LABELS), labels(r, n)), "inner-wildcard")
		}
		8 => ("*".to_string(), "bare-wildcard"),
		9 => (r.pick(&V4).to_string(), "ipv4"),
		10 => (r.pick(&V6).to_string(), "ipv6"),
		_ => {
			let n = r.usize(2) + 1;
			let l = labels(r, n);
			(mix_case(r, &l), "literal-mixed-case")
		}
	};
	let (prefix, port, suffix): (String, EPort, &str) = match r.below(9) {
		0 | 1 => (String::new(), EPort::Unspecified, ""),
		2 | 3 => (String::new(), EPort::Fixed(*r.pick(&PORTS)), ""),
		4 => {
			if r.bool() {
				(String::new(), EPort::Any, "")
			} else {
				(format!("{}://", r.pick(&SCHEMES).0), EPort::Any, *r.pick(&["", "/", "/somepath"]))
			}
		}
		5 | 6 => {
			let (s, p) = *r.pick(&SCHEMES);
			(format!("{s}://"), EPort::SchemeDefault(p), *r.pick(&["", "/", "/somepath"]))
		}
		7 => (format!("{}://", r.pick(&SCHEMES).0), EPort::Unspecified, *r.pick(&["", "/", "/somepath"])),
		_ => {
			let (s, d) = *r.pick(&SCHEMES);
			let mut p = *r.pick(&PORTS);
			while p == d {
				p = *r.pick(&PORTS);
			}
			(format!("{s}://"), EPort::Fixed(p), *r.pick(&["", "/"]))
		}
	};
	let port_text = match &port {
		EPort::Unspecified => String::new(),
		EPort::Any => ":*".to_string(),
		EPort::Fixed(p) | EPort::SchemeDefault(p) => format!(":{p}"),
	};
	// an IP literal with a fixed port and no scheme can equally be given as a socket address
	let via_sockaddr = prefix.is_empty() && suffix.is_empty() && matches!(port, EPort::Fixed(_)) && matches!(hkind, "ipv4" | "ipv6") && r.chance(2, 3);
	Entry { text: format!("{prefix}{host}{port_text}{suffix}"), host, hkind: hkind.to_string(), port, via_sockaddr }
}

#[derive(Clone, Copy, PartialEq)]
enum Fill {
	One,
	Multi,
	Empty,
	Weird,
	Star,
}

fn instantiate(r: &mut Rng, e: &Entry, fill: Fill) -> String {
	e.host
		.split('.')
		.map(|l| {
			if l != "*" {
				return l.to_string();
			}
			match fill {
				Fill::One => {
					if r.bool() {
						r.pick(&LABELS).to_string()
					} else {
						r.pick(&EVIL).to_string()
					}
				}
				Fill::Multi => format!("{}.{}", r.pick(&EVIL), r.pick(&LABELS)),
				Fill::Empty => String::new(),
				Fill::Weird => r.pick(&["a_b", "A1-", "-", "x~y", "a%2eb", "a+b", "a,b", "a;b", "(a)", "a!"]).to_string(),
				Fill::Star => "*".to_string(),
			}
		})
		.collect::<Vec<_>>()
		.join(".")
}

fn matching_port(r: &mut Rng, e: &Entry) -> String {
	match &e.port {
		EPort::Unspecified | EPort::SchemeDefault(_) => String::new(),
		EPort::Fixed(p) => format!(":{p}"),
		EPort::Any => {
			if r.bool() {
				String::new()
			} else {
				format!(":{}", r.pick(&PORTS))
			}
		}
	}
}

const ODD_PORTS: [&str; 22] = [
	":", ":65536", ":99999999999999999999", ":abc", ":80:90", ":+80", ":0080", ":-1", ":*", ":8o", ": 80", ":80 ", ":0",
	":00000000000000000080", ":%38%30", ":80a", ":0x50", ":+443", ":443.", "::80", ":80:", ":٨٠",
];

fn port_variant(r: &mut Rng, e: &Entry) -> String {
	match r.below(6) {
		0 => String::new(),
		1 => format!(":{}", r.pick(&PORTS)),
		2 => match &e.port {
			EPort::Fixed(p) | EPort::SchemeDefault(p) => format!(":{p}"),
			_ => format!(":{}", r.pick(&[80u32, 443, 21])),
		},
		3 => format!(":{}", r.pick(&[80u32, 443, 21])),
		4 => format!(":{}", r.range(0, 65535)),
		_ => matching_port(r, e),
	}
}

fn near_miss(r: &mut Rng, host: &str) -> String {
	match r.below(12) {
		0 => format!("{}.{host}", r.pick(&EVIL)),
		1 => format!("{host}.{}.com", r.pick(&EVIL)),
		2 => format!("{host}{}", r.pick(&EVIL)),
		3 => format!("{}{host}", r.pick(&EVIL)),
		4 => host.split_once('.').map(|(_, t)| t.to_string()).unwrap_or_else(|| format!("{host}{host}")),
		5 => host.rsplit_once('.').map(|(h, _)| h.to_string()).unwrap_or_else(|| "evil".to_string()),
		6 => {
			let mut b = host.as_bytes().to_vec();
			let i = r.usize(b.len());
			b[i] = if b[i] == b'z' { b'y' } else { b'z' };
			String::from_utf8_lossy(&b).into_owned()
		}
		7 => format!("{host}."),
		8 => format!("{host}.."),
		9 => format!(".{host}"),
		10 => host.replacen('.', "..", 1),
		_ => format!("{host}.{}", r.pick(&LABELS)),
	}
}

fn userinfo_form(r: &mut Rng, good_host: &str, good_port: &str) -> String {
	let evil = format!("{}.com", r.pick(&EVIL));
	match r.below(11) {
		0 => format!("u:p@{good_host}{good_port}"),
		1 => format!("u@{good_host}{good_port}"),
		2 => format!("{good_host}@{evil}"),
		3 => format!("{good_host}{good_port}@{evil}"),
		4 => format!("{good_host}:80@{evil}"),
		5 => format!("{evil}@{good_host}{good_port}"),
		6 => format!("{evil}:80@{good_host}{good_port}"),
		7 => format!("@{good_host}{good_port}"),
		8 => format!("{good_host}{good_port}@"),
		9 => format!("u:p@x@{good_host}{good_port}"),
		_ => format!("{good_host}{good_port}@{evil}{good_port}"),
	}
}

const INTERESTING: &[u8] = b"@:/?#%[]*.\\ \t-_~!$&'()+,;=\"<>^`{|}0aZ";

fn mutate_bytes(r: &mut Rng, src: &[u8]) -> Vec<u8> {
	let mut b = src.to_vec();
	let n = r.usize(2) + 1;
	for _ in 0..n {
		let byte = match r.below(10) {
			0..=5 => *r.pick(INTERESTING),
			6..=8 => r.range(0x80, 0xff) as u8,
			_ => *r.pick(&[0u8, b'\n', b'\r', 0x7f, 0x1f]),
		};
		if b.is_empty() {
			b.push(byte);
			continue;
		}
		let i = r.usize(b.len());
		match r.below(7) {
			0 | 1 => b[i] = byte,
			2 | 3 => b.insert(i, byte),
			4 => {
				b.remove(i);
			}
			5 => {
				let c = b[i];
				b.insert(i, c);
			}
			_ => b[i] ^= 1 << r.below(8),
		}
	}
	b
}

fn random_authority(r: &mut Rng) -> String {
	let host = match r.below(8) {
		0 => r.pick(&V4).to_string(),
		1 => r.pick(&V6).to_string(),
		2 => format!("{}.{}", r.pick(&EVIL), r.pick(&LABELS)),
		_ => {
			let n = r.usize(3) + 1;
			labels(r, n)
		}
	};
	let port = match r.below(4) {
		0 | 1 => String::new(),
		2 => format!(":{}", r.pick(&PORTS)),
		_ => format!(":{}", r.range(0, 65535)),
	};
	format!("{host}{port}")
}

/// One authority-carrying text (Host header value or URI authority) and the name of the generator rule.
fn gen_auth_text(r: &mut Rng, entries: &[Entry]) -> (Vec<u8>, &'static str) {
	if entries.is_empty() || r.chance(1, 7) {
		return (random_authority(r).into_bytes(), "random-authority");
	}
	let e = &entries[r.usize(entries.len())];
	let good_host = instantiate(r, e, Fill::One);
	let good_port = matching_port(r, e);
	match r.below(24) {
		0..=6 => (format!("{good_host}{good_port}").into_bytes(), "derived-exact"),
		7 => {
			let fill = *r.pick(&[Fill::Multi, Fill::Empty, Fill::Weird, Fill::Star]);
			(format!("{}{good_port}", instantiate(r, e, fill)).into_bytes(), "derived-wildcard-variant")
		}
		8..=10 => (format!("{good_host}{}", port_variant(r, e)).into_bytes(), "derived-port-variant"),
		11 => (format!("{}{good_port}", mix_case(r, &good_host)).into_bytes(), "case-variant"),
		12 | 13 => (format!("{}{good_port}", near_miss(r, &good_host)).into_bytes(), "near-miss"),
		14 | 15 => (userinfo_form(r, &good_host, &good_port).into_bytes(), "userinfo"),
		16 | 17 => (format!("{good_host}{}", r.pick(&ODD_PORTS)).into_bytes(), "port-oddity"),
		18 | 19 => (mutate_bytes(r, format!("{good_host}{good_port}").as_bytes()), "byte-mutation"),
		20 => {
			let (s, _) = *r.pick(&SCHEMES);
			let s = if r.chance(1, 4) { mix_case(r, s) } else { s.to_string() };
			let t = match r.below(4) {
				0 => format!("{s}://{good_host}{good_port}"),
				1 => format!("{s}://{good_host}{}", port_variant(r, e)),
				2 => format!("{s}://{good_host}{good_port}/path"),
				_ => format!("chrome-extension://{good_host}{good_port}"),
			};
			(t.into_bytes(), "scheme-prefixed")
		}
		21 => {
			let t = match r.below(6) {
				0 => "[0:0:0:0:0:0:0:1]".to_string(),
				1 => "::1".to_string(),
				2 => "[::1%25eth0]".to_string(),
				3 => "[2001:DB8::1]".to_string(),
				4 => "[::1".to_string(),
				_ => "[::1]x".to_string(),
			};
			(format!("{t}{good_port}").into_bytes(), "ipv6-variant")
		}
		22 => {
			let t = match r.below(5) {
				0 => String::new(),
				1 => " ".to_string(),
				2 => format!(" {good_host}{good_port}"),
				3 => format!("{good_host}{good_port}\t"),
				_ => format!("{good_host}{good_port}/"),
			};
			(t.into_bytes(), "empty-or-whitespace")
		}
		_ => {
			// a very long but otherwise well-formed label in front of an allowed name / a long digit string as port
			if r.bool() {
				(format!("{}.{good_host}{good_port}", "a".repeat(r.usize(300) + 64)).into_bytes(), "huge-label")
			} else {
				(format!("{good_host}:{}", "9".repeat(r.usize(60) + 6)).into_bytes(), "huge-port")
			}
		}
	}
}

fn gen_request(r: &mut Rng, entries: &[Entry]) -> (ReqSpec, String) {
	let (first, tag) = gen_auth_text(r, entries);
	let (hosts, hshape): (Vec<Vec<u8>>, &str) = match r.below(20) {
		0 | 1 => (vec![], "host-absent"),
		2 => (vec![first.clone(), first.clone()], "host-duplicated-same"),
		3 => {
			let (second, _) = gen_auth_text(r, entries);
			if r.bool() { (vec![first.clone(), second], "host-duplicated-different") } else { (vec![second, first.clone()], "host-duplicated-different") }
		}
		_ => (vec![first.clone()], "host-single"),
	};
	let first_text = std::str::from_utf8(&first).ok().filter(|s| s.is_ascii() && !s.contains(['/', '?', '#', ' ', '\t'])).map(|s| s.to_string());
	let (uri, ushape): (String, &str) = match r.below(20) {
		0..=9 => (r.pick(&["/", "/rpc", "/?x=1", "*"]).to_string(), "uri-origin-form"),
		10..=12 => match &first_text {
			Some(t) if !t.is_empty() => (format!("{}://{t}/", r.pick(&["http", "https", "ws"])), "uri-absolute-equal"),
			_ => ("/".to_string(), "uri-origin-form"),
		},
		13 | 14 => match &first_text {
			Some(t) if !t.is_empty() => (t.clone(), "uri-authority-form-equal"),
			_ => ("/".to_string(), "uri-origin-form"),
		},
		15..=17 => {
			let (other, _) = gen_auth_text(r, entries);
			(format!("{}://{}/p", r.pick(&["http", "https"]), String::from_utf8_lossy(&other)), "uri-absolute-independent")
		}
		_ => {
			let (other, _) = gen_auth_text(r, entries);
			(String::from_utf8_lossy(&other).into_owned(), "uri-authority-form-independent")
		}
	};
	// the claimed protocol version says nothing about who is addressed: the obligations are the same for each
	let (version, vshape) = match r.below(12) {
		0 | 1 => (1, "|http/1.0"),
		2 => (2, "|http/0.9"),
		3 => (3, "|h2"),
		4 => (4, "|h3"),
		_ => (0, ""),
	};
	(ReqSpec { hosts, uri, version }, format!("{tag}|{hshape}|{ushape}{vshape}"))
}

// ---------------------------------------------------------------------------------------------------------------
// Workload.

struct Shard {
	ev: Evidence,
	violations: Vec<Violation>,
	per_sig: BTreeMap<String, usize>,
}

impl Shard {
	fn new() -> Self {
		Shard { ev: Evidence::new(""), violations: Vec::new(), per_sig: BTreeMap::new() }
	}
	fn violation(&mut self, sig: String, detail: String, witness: Value) {
		let n = self.per_sig.entry(sig.clone()).or_insert(0);
		*n += 1;
		if *n <= 20 {
			self.violations.push(Violation::new(sig, detail, witness));
		} else {
			self.ev.count("violations_not_stored_over_cap", 1);
		}
	}
}

fn witness(entries: &[Entry], req: &ReqSpec, obs: Option<&Observed>) -> Value {
	json!({
		"allow_list": entries.iter().map(|e| e.to_json()).collect::<Vec<_>>(),
		"request": req.to_json(),
		"observed": obs.map(|o| json!({"status": o.status, "inner_calls": o.inner_calls, "inner_marker": o.marker, "err": o.err, "panic": o.panic})),
	})
}

/// Execute one request against a built layer and judge it. Returns false if the request could not be constructed.
fn run_one(rt: &tokio::runtime::Runtime, layer: &HostFilterLayer, entries: &[Entry], req: &ReqSpec, tag: &str, sh: &mut Shard, verbose: bool) -> bool {
	let request = match build_request(req) {
		Built::Ok(r) => r,
		Built::HostUnconstructible => {
			sh.ev.count("skipped_host_value_not_constructible", 1);
			return false;
		}
		Built::UriUnconstructible => {
			sh.ev.count("skipped_uri_not_constructible", 1);
			return false;
		}
		Built::UriAuthorityMismatch => {
			sh.ev.count("skipped_uri_authority_split_differs_from_http_crate", 1);
			sh.ev.sample_class("skipped-uri-authority-mismatch", req.to_json());
			return false;
		}
	};
	let obs = call_layer(rt, layer, request);
	let j = judge(entries, req, &obs);
	if verbose {
		println!(
			"  observed: status={} inner_calls={} marker={} err={:?} panic={:?}\n  oracle: host-source={} uri-source={} obligation={:?} band_note={:?}",
			obs.status, obs.inner_calls, obs.marker, obs.err, obs.panic, j.hclass, j.uclass, j.obligation, j.band_note
		);
	}
	sh.ev.eval();
	sh.ev.count("inner_service_calls", obs.inner_calls as u64);
	let outcome = if obs.inner_calls > 0 {
		"admitted"
	} else {
		match obs.status {
			403 => "refused_403",
			400 => "refused_400",
			_ => "refused_other",
		}
	};
	sh.ev.count(outcome, 1);
	let obl = match j.obligation {
		Obligation::MustAdmit => "obligation_must_admit",
		Obligation::MustRefuse => "obligation_must_refuse",
		Obligation::Band => "band_between_must_and_may",
	};
	sh.ev.count(obl, 1);
	if j.strict_disagreement_present {
		sh.ev.count("requests_with_strict_host_uri_disagreement", 1);
	}
	if j.obligation == Obligation::Band {
		sh.ev.count(if obs.inner_calls > 0 { "band_admitted" } else { "band_refused" }, 1);
	}
	if let Some(n) = j.band_note {
		sh.ev.count(n, 1);
		sh.ev.sample_class(n, witness(entries, req, Some(&obs)));
	}
	let gen_rule = tag.split('|').next().unwrap_or("");
	sh.ev.count(&format!("gen_{gen_rule}"), 1);
	let kinds: Vec<(&str, &str)> = entries.iter().map(|e| (e.hkind.as_str(), e.port.kind())).collect();
	sh.ev.class("decision_classes", &(kinds, tag, outcome, &j.hclass, &j.uclass));
	if j.exercised_matcher {
		let texts: Vec<&str> = entries.iter().map(|e| e.text.as_str()).collect();
		sh.ev.nontrivial(&(texts, &req.hosts, &req.uri));
	}
	sh.ev.sample_class(&format!("{outcome}/{gen_rule}"), witness(entries, req, Some(&obs)));
	for (mut sig, detail) in j.violations {
		if let Some(ports) = sig.strip_prefix("refused-must-match/") {
			// differential attribution: the same request against the same host pattern with port `*`
			let e = &entries[0];
			let probe = Entry { text: format!("{}:*", e.host), host: e.host.clone(), hkind: e.hkind.clone(), port: EPort::Any, via_sockaddr: false };
			let culprit = match (build_layer(std::slice::from_ref(&probe)), build_request(req)) {
				(Ok(l), Built::Ok(r2)) => {
					if call_layer(rt, &l, r2).inner_calls > 0 {
						"port"
					} else {
						"host"
					}
				}
				_ => "unattributed",
			};
			let host_class = match e.hkind.as_str() {
				"literal" | "literal-mixed-case" => "literal",
				"ipv4" | "ipv6" => "ip-literal",
				_ => "wildcard",
			};
			sig = match culprit {
				"port" => format!("refused-must-match/port/{ports}"),
				"host" => format!("refused-must-match/host/entry-host={host_class}"),
				_ => format!("refused-must-match/unattributed/entry-host={host_class},{ports}"),
			};
		}
		if verbose {
			println!("  VIOLATION {sig}: {detail}");
		}
		sh.violation(sig, detail, witness(entries, req, Some(&obs)));
	}
	true
}

fn new_rt() -> tokio::runtime::Runtime {
	tokio::runtime::Builder::new_current_thread().build().expect("runtime")
}

/// Fixed corner cases (run once per shard 0): the documented behaviours and the classic attack shapes.
fn corner_cases(rt: &tokio::runtime::Runtime, sh: &mut Shard) {
	let e = |text: &str, host: &str, hkind: &str, port: EPort| Entry { text: text.into(), host: host.into(), hkind: hkind.into(), port, via_sockaddr: false };
	let lists: Vec<Vec<Entry>> = vec![
		vec![],
		vec![e("parity.io", "parity.io", "literal", EPort::Unspecified)],
		vec![e("parity.io:443", "parity.io", "literal", EPort::Fixed(443)), e("parity.io:9944", "parity.io", "literal", EPort::Fixed(9944))],
		vec![e("*.web3.site:*", "*.web3.site", "leading-wildcard", EPort::Any)],
		vec![e("https://parity.io:443", "parity.io", "literal", EPort::SchemeDefault(443))],
		vec![e("a.*.d:8080", "a.*.d", "inner-wildcard", EPort::Fixed(8080))],
		vec![e("[::1]:9944", "[::1]", "ipv6", EPort::Fixed(9944))],
		vec![e("127.0.0.1:*", "127.0.0.1", "ipv4", EPort::Any)],
		vec![e("localhost", "localhost", "literal", EPort::Unspecified), e("*.localhost:80", "*.localhost", "leading-wildcard", EPort::Fixed(80))],
	];
	let hosts: Vec<&[u8]> = vec![
		b"parity.io", b"parity.io:443", b"parity.io:9944", b"parity.io:80", b"PARITY.IO", b"parity.io.", b"evil.parity.io",
		b"parity.io.evil.com", b"evilparity.io", b"parity.io@evil.com", b"evil.com@parity.io", b"u:p@parity.io:443",
		b"x.web3.site", b"x.web3.site:8180", b"x.y.web3.site", b"web3.site", b".web3.site", b"a.x.d:8080", b"a.d:8080",
		b"[::1]:9944", b"[::1]", b"[0:0:0:0:0:0:0:1]:9944", b"127.0.0.1:1", b"127.0.0.1", b"127.0.0.1.evil.com",
		b"localhost", b"a.localhost:80", b"localhost:80", b"", b":", b"parity.io:", b"parity.io:+443", b"parity.io:0443",
		b"parity.io:99999", b"parity.io:abc", b"parity.io:443:443", b"https://parity.io", b"https://parity.io:443",
		b"parity.io\xff", b"parit\xc3\xbf.io", b"parity.io/", b"parity.io:*",
	];
	for list in &lists {
		let layer = match build_layer(list) {
			Ok(l) => l,
			Err(err) => {
				sh.ev.count("corner_list_rejected", 1);
				sh.ev.sample_class("corner-list-rejected", json!({"list": list.iter().map(|e| e.text.clone()).collect::<Vec<_>>(), "error": err}));
				continue;
			}
		};
		for h in &hosts {
			for uri in ["/", "http://parity.io/", "parity.io:443", "http://evil.com/"] {
				let req = ReqSpec { hosts: vec![h.to_vec()], uri: uri.to_string(), version: 0 };
				run_one(rt, &layer, list, &req, "corner|host-single|corner-uri", sh, false);
			}
			let req = ReqSpec { hosts: vec![h.to_vec(), h.to_vec()], uri: "/".to_string(), version: 0 };
			run_one(rt, &layer, list, &req, "corner|host-duplicated-same|uri-origin-form", sh, false);
		}
		for uri in ["/", "http://parity.io/", "http://x.web3.site:1/", "[::1]:9944", "a.x.d:8080"] {
			for version in 0..5u8 {
				let req = ReqSpec { hosts: vec![], uri: uri.to_string(), version };
				run_one(rt, &layer, list, &req, "corner|host-absent|corner-uri", sh, false);
			}
		}
	}
}

fn workload(seed: u64, n_requests: u64, with_corners: bool) -> Shard {
	let mut sh = Shard::new();
	let rt = new_rt();
	if with_corners {
		corner_cases(&rt, &mut sh);
	}
	let mut r = Rng::new(seed);
	let mut done = 0u64;
	let mut attempts = 0u64;
	while done < n_requests && attempts < n_requests * 4 + 1000 {
		let n_entries = match r.below(10) {
			0 => 0,
			1..=5 => 1,
			6..=8 => 2,
			_ => 3,
		};
		let mut entries: Vec<Entry> = Vec::new();
		for _ in 0..n_entries {
			let e = gen_entry(&mut r);
			// configuration strings the library refuses are a configuration error surfaced to the user, not a filter decision
			match Authority::try_from(e.text.as_str()) {
				Ok(_) => entries.push(e),
				Err(err) => {
					sh.ev.count(&format!("entry_rejected_by_library_{}_{}", e.hkind, e.port.kind()), 1);
					sh.ev.sample_class(&format!("entry-rejected/{}", e.hkind), json!({"entry": e.to_json(), "error": err.to_string()}));
				}
			}
		}
		let layer = match build_layer(&entries) {
			Ok(l) => l,
			Err(_) => {
				attempts += 1;
				continue;
			}
		};
		sh.ev.count("allow_lists", 1);
		sh.ev.count(&format!("allow_lists_of_{}", entries.len()), 1);
		for e in &entries {
			sh.ev.class("entry_shapes", &(e.hkind.as_str(), e.port.kind()));
		}
		let per_list = 8;
		for _ in 0..per_list {
			attempts += 1;
			let (req, tag) = gen_request(&mut r, &entries);
			if run_one(&rt, &layer, &entries, &req, &tag, &mut sh, false) {
				done += 1;
			}
			if done >= n_requests {
				break;
			}
		}
	}
	sh
}

// ---------------------------------------------------------------------------------------------------------------

fn replay_case(w: &Value, sh: &mut Shard) {
	let entries: Vec<Entry> = w["allow_list"].as_array().map(|a| a.iter().map(Entry::from_json).collect()).unwrap_or_default();
	let req = ReqSpec::from_json(&w["request"]);
	println!("replaying allow_list={:?}", entries.iter().map(|e| e.text.as_str()).collect::<Vec<_>>());
	println!(
		"  host headers={:?} uri={:?}",
		req.hosts.iter().map(|h| String::from_utf8_lossy(h).into_owned()).collect::<Vec<_>>(),
		req.uri
	);
	let rt = new_rt();
	match build_layer(&entries) {
		Ok(layer) => {
			if !run_one(&rt, &layer, &entries, &req, "replay|replay|replay", sh, true) {
				println!("  request could not be constructed");
			}
		}
		Err(e) => println!("  allow-list rejected by the library: {e}"),
	}
}

fn main() {
	let ctx = Ctx::from_env("C14", "exploration");
	install_panic_capture(true);
	let _wd = watchdog("C14", Duration::from_secs(ctx.tier.pick(300, 1800)));
	let mut ev = Evidence::new(
		"cases = (allow-list of 0..3 entries over {literal, *.d, a.*.d, *, IPv4, [IPv6], mixed-case literal} x port {none, fixed, *, \
		 scheme default, scheme without port, scheme + other port}; 0..2 Host header values; request target in origin / absolute / \
		 authority form) sent through tower::Service::call of the real HostFilter wrapped around a counting inner service. Host \
		 texts: authorities derived from an entry (wildcards filled with one / several / empty / odd labels), port variants and \
		 oddities (empty, huge, non-numeric, signed, zero-padded, extra colons, *), case variants, prefix/suffix near misses, \
		 userinfo tricks, scheme-prefixed values, IPv6 spellings, whitespace, byte mutations incl. obs-text and control bytes. \
		 Non-trivial = the allow-list is non-empty and at least one of Host / URI authority parses under the lenient reading, so \
		 the verdict judged is the matcher's decision and not only the 'no authority' path; distinct by (allow-list, Host values, URI).",
	);
	ev.assume("MUST = strictly well-formed uri-host[:port] (labels [A-Za-z0-9_-]+, bracketed IPv6, canonical port), exact labels, * = one non-empty label, ports equal / both absent / entry *");
	ev.assume("MAY = scheme, path, userinfo stripped; case-insensitive; trailing dot ignored; * = any characters; ports numerically equal or both default-like (absent, empty, 80/443/21, scheme default); request port * only for entry port *");
	ev.assume("Host/URI 'disagree' is only demanded when both are strictly well-formed and differ in host, or in port beyond default-port folding; a source the lenient parser accepts but the strict one does not is in the accepted band");
	ev.assume("an entry written with its scheme's default port (https://h:443) is read as 'default port': Host 'h' must be admitted, Host 'h:443' is in the band (counted as band-refused-explicit-port-equal-to-entry-scheme-default-port)");
	ev.assume("Host values that http::HeaderValue refuses (control bytes) and targets that http::Uri refuses cannot reach any tower service and are skipped (counted)");
	let mut violations = Vec::new();

	if ctx.sub.as_deref() == Some("probe") {
		// ad-hoc: --allow a,b --host X [--host2 Y] --uri Z   (entries are modelled as literal text = host[:port] without scheme)
		let allow = ctx.arg_value("--allow").unwrap_or_default();
		let entries: Vec<Entry> = allow
			.split(',')
			.filter(|s| !s.is_empty())
			.map(|t| {
				let (host, port) = match t.rsplit_once(':') {
					Some((h, "*")) => (h.to_string(), EPort::Any),
					Some((h, p)) if p.parse::<u32>().is_ok() => (h.to_string(), EPort::Fixed(p.parse().unwrap())),
					_ => (t.to_string(), EPort::Unspecified),
				};
				Entry { text: t.to_string(), host, hkind: "probe".into(), port, via_sockaddr: false }
			})
			.collect();
		let mut hosts = Vec::new();
		if let Some(h) = ctx.arg_value("--host") {
			hosts.push(h.into_bytes());
		}
		if let Some(h) = ctx.arg_value("--host2") {
			hosts.push(h.into_bytes());
		}
		let version = ctx.arg_value("--version").and_then(|v| v.parse().ok()).unwrap_or(0);
		let req = ReqSpec { hosts, uri: ctx.arg_value("--uri").unwrap_or_else(|| "/".into()), version };
		let mut sh = Shard::new();
		replay_case(&witness(&entries, &req, None), &mut sh);
		return;
	}

	if let Some(path) = &ctx.replay {
		let w: Value = serde_json::from_str(&std::fs::read_to_string(path).expect("replay file")).expect("json");
		let mut sh = Shard::new();
		replay_case(&w["witness"], &mut sh);
		// a second, unrelated case so that the evidence floor does not mask the replay verdict
		replay_case(
			&witness(
				&[Entry { text: "parity.io".into(), host: "parity.io".into(), hkind: "literal".into(), port: EPort::Unspecified, via_sockaddr: false }],
				&ReqSpec { hosts: vec![b"parity.io".to_vec()], uri: "/".into(), version: 0 },
				None,
			),
			&mut sh,
		);
		ev.merge(sh.ev);
		violations.extend(sh.violations);
		for v in &violations {
			println!("replay violation: {} — {}", v.signature, v.detail);
		}
		if violations.is_empty() {
			println!("replay: the oracle accepts the observed behaviour");
		}
		finish(&ctx, ev, violations, None);
	}

	let total: u64 = ctx.tier.pick(20_000, 16_000_000);
	let shards = 64u64;
	let results = run_parallel((0..shards).collect(), |_, s| workload(Rng::fork(ctx.seed, s).next_u64(), total / shards + 1, s == 0));
	for sh in results {
		ev.merge(sh.ev);
		violations.extend(sh.violations);
	}
	for p in take_panics() {
		if p.in_library {
			violations.push(Violation::new(
				format!("panic/{}", p.location.rsplit('/').next().unwrap_or("")),
				p.message.clone(),
				json!({"location": p.location, "backtrace": p.backtrace_head}),
			));
		}
	}
	let mut inconclusive = None;
	if ev.counter("obligation_must_admit") == 0 || ev.counter("obligation_must_refuse") == 0 || ev.counter("admitted") == 0 {
		inconclusive = Some(format!(
			"obligations not exercised: must_admit={} must_refuse={} admitted={}",
			ev.counter("obligation_must_admit"),
			ev.counter("obligation_must_refuse"),
			ev.counter("admitted")
		));
	}
	finish(&ctx, ev, violations, inconclusive);
}
