//! C04 — a subscription's notifications are its own, ordered, and stop at close.
//!
//! Monitor: the real server stack in memory with remote-controlled subscription handlers (jrv::subctl) and raw
//! WebSocket peers. Handler scripts (accept, sends of numbered payloads via send / try_send / send_timeout, clones,
//! return values) run concurrently with peer scripts (unsubscribe, disconnect) and a server stop, each step at a
//! seeded virtual instant, with seeded delays at the server's cfg-guarded yield points. Every harness-side event takes
//! a ticket from one logical clock; the joint history (peer frame log + handler log) is judged by rules (a)-(f) of
//! DESIGN.md §5 C04: own id and method, no notification before the accept response, order, nothing for
//! rejected / never-accepted subscriptions, sends started after a close fail and are never delivered, at most one
//! closing notification and only for an accepted subscription.

use jrv::memsrv::{MemServer, RawWs};
use jrv::report::*;
use jrv::rng::Rng;
use jrv::runner::*;
use jrv::subctl::{self, Cmd, Registry, Reply, Ret, Timed};
use jsonrpsee_server::ServerConfig;
use serde_json::{Value, json};
use std::sync::{Arc, Mutex};
use std::time::Duration;

#[derive(Debug, Clone, PartialEq, Eq, Hash)]
enum HStep {
	Accept,
	Reject,
	DropPending,
	Send,
	TrySend,
	SendTimeout,
	/// send_timeout, and on a timeout the message it hands back is sent again
	SendTimeoutResend,
	Clone,
	IsClosed,
	WaitClosed,
	Return(u8),
}

#[derive(Debug, Clone)]
struct SubSpec {
	conn: usize,
	raw: bool,
	/// (virtual delay in ms before the step, step)
	steps: Vec<(u64, HStep)>,
	/// the peer unsubscribes at this virtual instant (ms), if any
	unsubscribe_at: Option<u64>,
}

#[derive(Debug, Clone)]
struct Spec {
	seed: u64,
	buffer: u32,
	conns: usize,
	subs: Vec<SubSpec>,
	/// connection c is dropped by the peer at this instant
	disconnect_at: Vec<Option<u64>>,
	stop_at: Option<u64>,
	delays: bool,
	/// subscription ids (300 characters) that do not fit into max_response_body_size (200): the subscribe call is answered
	/// with the "response too big" error, so no subscription may come into being
	long_ids: bool,
	/// subscription ids are strings that need JSON escapes (quote, backslash, control characters, non-ASCII): whatever the
	/// id, every notification must carry exactly the id the subscribe call was answered with
	escape_ids: bool,
	/// an ordinary call that stays in its handler on this connection from the start until the given instant (ms) - also
	/// across an unsubscribe, a disconnect or the server stop
	held_call: Option<(usize, u64)>,
	/// the peer of this connection does not read between the two instants (ms); the transport buffer is small, so the
	/// connection is congested meanwhile
	peer_pause: Option<(usize, u64, u64)>,
}

#[derive(Debug, Clone)]
struct HandlerEvent {
	step: HStep,
	seq: Option<u64>,
	sink: usize,
	timed: Option<Timed>,
}

#[derive(Debug, Clone)]
struct FrameEv {
	ticket: u64,
	v: Value,
}

#[derive(Default)]
struct Out {
	violations: Vec<(String, String)>,
	history: Vec<String>,
	notifications: usize,
	sends_ok: usize,
	sends_failed: usize,
	closes: usize,
	sends_after_close: usize,
	points: usize,
	trace: Vec<&'static str>,
	resends: usize,
	waits_for_closed: usize,
}

/// Id provider driven by the harness: hands out the queued ids first (so that an id can be issued again on the same
/// connection, as the library's own `NoopIdProvider` or a short `RandomStringIdProvider` do); otherwise fresh ids - numbers,
/// or (escape mode) strings that need JSON escaping.
#[derive(Debug, Clone, Default)]
struct HarnessIds {
	queue: Arc<Mutex<std::collections::VecDeque<jsonrpsee_types::SubscriptionId<'static>>>>,
	counter: Arc<std::sync::atomic::AtomicU64>,
	escapes: Option<u64>,
}
const ESCAPE_ID_PARTS: [&str; 10] = ["CORP\\nina", "q\"uote", "tab\there", "line\nfeed", "é😀", "back\\\\slash", "nul\u{0}x", "sl/ash", "\\u0041", "\\\""];
impl HarnessIds {
	fn escapes(seed: u64) -> Self {
		HarnessIds { escapes: Some(seed), ..Default::default() }
	}
}
impl jsonrpsee_server::IdProvider for HarnessIds {
	fn next_id(&self) -> jsonrpsee_types::SubscriptionId<'static> {
		if let Some(x) = self.queue.lock().unwrap().pop_front() {
			return x;
		}
		let n = self.counter.fetch_add(1, std::sync::atomic::Ordering::SeqCst);
		match self.escapes {
			Some(seed) => {
				let part = ESCAPE_ID_PARTS[((seed ^ n.wrapping_mul(0x9e37_79b9)) % ESCAPE_ID_PARTS.len() as u64) as usize];
				jsonrpsee_types::SubscriptionId::Str(format!("{part}#{n}").into())
			}
			None => jsonrpsee_types::SubscriptionId::Num(1_000_000 + n),
		}
	}
}

/// Directed family: subscription A is unsubscribed (answered `true`) while its handler keeps its sink; the server then
/// issues A's id again to a new subscription B on the same connection. From the unsubscribe response on, A's sink reports
/// closed, A's sends fail and nothing of A reaches the peer - B's notifications are B's alone.
async fn id_reissued_case(seed: u64) -> Out {
	let mut out = Out::default();
	let mut r = Rng::new(seed);
	let reg = Registry::default();
	let ids = HarnessIds::default();
	let cfg = ServerConfig::builder().set_message_buffer_capacity(*r.pick(&[2u32, 16, 1024])).max_subscriptions_per_connection(8).set_id_provider(ids.clone()).build();
	let srv = MemServer::new(cfg, subctl::module(reg.clone()));
	let Ok(mut ws) = srv.ws().await else {
		out.violations.push(("setup-failed/ws-connect".into(), "id-reissued scenario".into()));
		return out;
	};
	macro_rules! bad {
		($sig:expr, $($arg:tt)*) => { out.violations.push(($sig.to_string(), format!($($arg)*))) };
	}
	let settle = || tokio::time::sleep(Duration::from_millis(2));
	let raw = r.chance(1, 4);
	let (sub, unsub) = if raw { ("sub_raw", "unsub_raw") } else { ("sub", "unsub") };
	let x: jsonrpsee_types::SubscriptionId<'static> = if r.bool() { jsonrpsee_types::SubscriptionId::Num(7 + r.below(1000)) } else { jsonrpsee_types::SubscriptionId::Str(format!("again-{}", r.below(1000)).into()) };
	let xv = serde_json::to_value(&x).expect("id");
	let mut frames: Vec<FrameEv> = Vec::new();
	macro_rules! drain {
		() => {{
			settle().await;
			for f in ws.try_drain() {
				if let Some(v) = f.json() {
					frames.push(FrameEv { ticket: f.ticket, v });
				}
			}
		}};
	}
	// A
	ids.queue.lock().unwrap().push_back(x.clone());
	let _ = ws.send_text(&json!({"jsonrpc": "2.0", "id": 1, "method": sub, "params": ["a"]}).to_string()).await;
	settle().await;
	let Some(ha) = reg.get("a") else {
		bad!("setup-failed/subscribe", "id-reissued scenario: subscribe A did not reach its handler");
		return out;
	};
	if !matches!(ha.cmd(Cmd::Accept).await.map(|t| t.reply), Some(Reply::Accepted { ref sub_id }) if *sub_id == xv) {
		bad!("setup-failed/accept", "id-reissued scenario: A was not accepted with id {xv}");
		return out;
	}
	let mut a_seq = 0u64;
	for _ in 0..r.usize(3) {
		a_seq += 1;
		let _ = ha.cmd(Cmd::Send(0, json!({"tag": "a", "seq": a_seq}))).await;
	}
	if r.bool() {
		let _ = ha.cmd(Cmd::CloneSink(0)).await;
	}
	drain!();
	let _ = ws.send_text(&json!({"jsonrpc": "2.0", "id": 2, "method": unsub, "params": [xv]}).to_string()).await;
	drain!();
	drain!();
	let Some(unsub_ticket) = frames.iter().find(|f| f.v["id"] == json!(2) && f.v["result"] == json!(true)).map(|f| f.ticket) else {
		bad!("setup-failed/unsubscribe", "id-reissued scenario: unsubscribe of A was not answered true");
		return out;
	};
	out.closes += 1;
	// B gets the same id
	ids.queue.lock().unwrap().push_back(x.clone());
	let _ = ws.send_text(&json!({"jsonrpc": "2.0", "id": 3, "method": sub, "params": ["b"]}).to_string()).await;
	settle().await;
	let Some(hb) = reg.get("b") else {
		bad!("setup-failed/subscribe", "id-reissued scenario: subscribe B did not reach its handler");
		return out;
	};
	if !matches!(hb.cmd(Cmd::Accept).await.map(|t| t.reply), Some(Reply::Accepted { ref sub_id }) if *sub_id == xv) {
		bad!("setup-failed/accept", "id-reissued scenario: B was not accepted with id {xv}");
		return out;
	}
	// interleaved: B sends, A's old sink(s) are asked and used
	let mut b_sent: Vec<u64> = Vec::new();
	let mut a_after: Vec<u64> = Vec::new();
	for k in 0..3 + r.usize(4) {
		if r.bool() {
			let seq = 100 + k as u64;
			if matches!(hb.cmd(Cmd::Send(0, json!({"tag": "b", "seq": seq}))).await.map(|t| t.reply), Some(Reply::Sent(Ok(())))) {
				b_sent.push(seq);
				out.sends_ok += 1;
			} else {
				bad!("send-failed-while-active/id-issued-again", "B's send of seq {seq} failed although B is active");
			}
		} else {
			let sink = 0;
			match ha.cmd(Cmd::IsClosed(sink)).await.map(|t| t.reply) {
				Some(Reply::Closed(true)) => {}
				other => bad!("sink-not-closed-after-close/unsubscribe/id-issued-again", "A was unsubscribed (true) and its id {xv} issued again to B: A's sink.is_closed() = {other:?}"),
			}
			a_seq += 1;
			a_after.push(a_seq);
			out.sends_after_close += 1;
			let cmd = match r.below(3) {
				0 => Cmd::Send(sink, json!({"tag": "a", "seq": a_seq})),
				1 => Cmd::TrySend(sink, json!({"tag": "a", "seq": a_seq})),
				_ => Cmd::SendTimeout(sink, json!({"tag": "a", "seq": a_seq}), 5),
			};
			match ha.cmd(cmd).await.map(|t| t.reply) {
				Some(Reply::Sent(Ok(()))) => bad!("send-after-close-succeeded/unsubscribe/id-issued-again", "A's send of seq {a_seq} returned Ok after A's unsubscribe was answered true (its id {xv} belongs to B now)"),
				_ => out.sends_failed += 1,
			}
		}
		drain!();
	}
	drain!();
	let after: Vec<&FrameEv> = frames.iter().filter(|f| f.ticket > unsub_ticket && f.v.get("method").is_some()).collect();
	out.notifications += after.len();
	for f in &after {
		if f.v["params"]["result"]["tag"] == json!("a") {
			bad!("send-after-close-delivered/unsubscribe/id-issued-again", "a notification of the unsubscribed subscription A reached the peer after the unsubscribe response: {}", f.v);
		}
		if f.v["params"]["subscription"] != xv {
			bad!("wrong-subscription-id/notification", "frame {} carries another id than {xv}", f.v);
		}
	}
	let got_b: Vec<u64> = after.iter().filter(|f| f.v["params"]["result"]["tag"] == json!("b")).filter_map(|f| f.v["params"]["result"]["seq"].as_u64()).collect();
	if got_b != b_sent {
		bad!("successful-send-lost/connection-open", "B's sends {b_sent:?} returned Ok, the peer received {got_b:?}");
	}
	out.history.push(format!("A and B carry id {xv}; A sent {a_after:?} after its unsubscribe, B sent {b_sent:?}; the peer saw {} notification(s) afterwards", after.len()));
	let _ = ha.cmd_nowait(Cmd::Return(Ret::None));
	let _ = hb.cmd_nowait(Cmd::Return(Ret::None));
	settle().await;
	out
}

// A subscription declared with the rpc macro: namespace + a notification name that differs from the subscribe name.
mod macro_api {
	use jsonrpsee::core::SubscriptionResult;
	use jsonrpsee::proc_macros::rpc;
	#[rpc(server, namespace = "chain")]
	pub trait Heads {
		#[subscription(name = "subscribeHeads" => "newHeads", unsubscribe = "unsubscribeHeads", item = u64)]
		async fn heads(&self, n: u64) -> SubscriptionResult;
		#[subscription(name = "subscribePlain", unsubscribe = "unsubscribePlain", item = u64)]
		async fn plain(&self, n: u64) -> SubscriptionResult;
	}
}
struct HeadsImpl;
#[async_trait::async_trait]
impl macro_api::HeadsServer for HeadsImpl {
	async fn heads(&self, pending: jsonrpsee::PendingSubscriptionSink, n: u64) -> jsonrpsee::core::SubscriptionResult {
		let sink = pending.accept().await?;
		for k in 0..n {
			sink.send(serde_json::value::to_raw_value(&k).unwrap()).await?;
		}
		Err("no more heads".into())
	}
	async fn plain(&self, pending: jsonrpsee::PendingSubscriptionSink, n: u64) -> jsonrpsee::core::SubscriptionResult {
		let sink = pending.accept().await?;
		for k in 0..n {
			sink.send(serde_json::value::to_raw_value(&k).unwrap()).await?;
		}
		Err("no more".into())
	}
}

/// Directed family: every notification of a macro-declared subscription - its items and its closing notification - carries
/// the subscription's id and the notification method name the declaration gives it (`<namespace>_<override>`, or the
/// subscribe name when there is no override).
async fn macro_names_case(seed: u64) -> Out {
	use macro_api::HeadsServer;
	let mut out = Out::default();
	let mut r = Rng::new(seed);
	let srv = MemServer::new(ServerConfig::builder().set_message_buffer_capacity(*r.pick(&[1u32, 4, 1024])).build(), HeadsImpl.into_rpc());
	let Ok(mut ws) = srv.ws().await else { return out };
	macro_rules! bad {
		($sig:expr, $($arg:tt)*) => { out.violations.push(($sig.to_string(), format!($($arg)*))) };
	}
	for (call, (subscribe, want_method)) in [("chain_subscribeHeads", "chain_newHeads"), ("chain_subscribePlain", "chain_subscribePlain")].into_iter().enumerate().map(|(i, x)| (i as u64 + 1, x)) {
		let n = 1 + r.below(5);
		let _ = ws.send_text(&json!({"jsonrpc": "2.0", "id": call, "method": subscribe, "params": [n]}).to_string()).await;
		let frames = ws.drain_until_idle(Duration::from_secs(5)).await;
		let mut sub_id = Value::Null;
		let mut seen = 0u64;
		for f in frames.iter().filter_map(|f| f.json()) {
			if f["id"] == json!(call) {
				sub_id = f["result"].clone();
				continue;
			}
			out.notifications += 1;
			if f["method"] != json!(want_method) {
				bad!("wrong-notification-method/macro-declared", "{subscribe}: the frame {f} carries another method name than {want_method}");
			}
			if f["params"]["subscription"] != sub_id {
				bad!("wrong-subscription-id/notification", "{subscribe}: the frame {f} carries another id than {sub_id}");
			}
			if f["params"].get("result").is_some() {
				if f["params"]["result"] != json!(seen) {
					bad!("notifications-out-of-order/any", "{subscribe}: item {} where item {seen} was due", f["params"]["result"]);
				}
				seen += 1;
			}
		}
		if seen != n {
			bad!("successful-send-lost/connection-open", "{subscribe}: {n} items were sent, {seen} arrived");
		}
	}
	out
}

fn gen_spec(seed: u64) -> Spec {
	let mut r = Rng::new(seed);
	let conns = 1 + r.usize(if cfg!(miri) { 1 } else { 3 });
	let n_subs = 1 + r.usize(4);
	let mut subs = Vec::new();
	for _ in 0..n_subs {
		let mut steps = Vec::new();
		let d = |r: &mut Rng| if r.chance(1, 2) { 0 } else { r.below(6) };
		match r.below(10) {
			0 => steps.push((d(&mut r), HStep::Reject)),
			1 => steps.push((d(&mut r), HStep::DropPending)),
			2 => steps.push((d(&mut r), HStep::Return(r.below(3) as u8))), // close value without accepting
			_ => {
				steps.push((d(&mut r), HStep::Accept));
				let max_sends = if r.chance(1, 5) { 20 } else { 8 };
				let n = r.usize(max_sends);
				for _ in 0..n {
					let s = match r.below(12) {
						0..=5 => HStep::Send,
						6 | 7 => HStep::TrySend,
						8 => if r.bool() { HStep::SendTimeout } else { HStep::SendTimeoutResend },
						9 => HStep::Clone,
						10 => HStep::IsClosed,
						_ => HStep::WaitClosed,
					};
					steps.push((d(&mut r), s));
				}
				if r.chance(3, 4) {
					steps.push((d(&mut r), HStep::Return(r.below(3) as u8)));
				}
			}
		}
		let total: u64 = steps.iter().map(|s| s.0).sum::<u64>() + 2;
		subs.push(SubSpec { conn: r.usize(conns), raw: r.chance(1, 5), steps, unsubscribe_at: if r.chance(1, 2) { Some(r.below(total + 4)) } else { None } });
	}
	let horizon = 30;
	Spec {
		seed,
		buffer: *r.pick(&[1u32, 2, 1024]),
		conns,
		disconnect_at: (0..conns).map(|_| if r.chance(1, 5) { Some(r.below(horizon)) } else { None }).collect(),
		stop_at: if r.chance(1, 6) { Some(r.below(horizon)) } else { None },
		subs,
		delays: r.chance(2, 3),
		long_ids: r.chance(1, 10),
		escape_ids: r.chance(1, 8),
		held_call: if r.chance(1, 3) { Some((r.usize(conns), r.below(horizon + 10))) } else { None },
		peer_pause: if r.chance(1, 4) {
			let from = r.below(8);
			Some((r.usize(conns), from, from + 3 + r.below(15)))
		} else {
			None
		},
	}
}

async fn run_spec(spec: &Spec, real_time: bool) -> Out {
	let mut out = Out::default();
	if spec.delays && !real_time {
		install_thread_delay_hook(spec.seed ^ 0x77, 70, 4);
	}
	let reg = Registry::default();
	let mut cfg = ServerConfig::builder().set_message_buffer_capacity(spec.buffer).max_subscriptions_per_connection(64).max_connections(100);
	if spec.long_ids {
		cfg = cfg.set_id_provider(jsonrpsee_server::RandomStringIdProvider::new(300)).max_response_body_size(200);
	} else if spec.escape_ids {
		cfg = cfg.set_id_provider(HarnessIds::escapes(spec.seed));
	}
	let cfg = cfg.build();
	let mut srv = MemServer::new(cfg, subctl::module(reg.clone()));
	if spec.peer_pause.is_some() {
		srv.duplex_capacity = 400;
	}

	// connections: a reader task per connection records every frame with its ticket
	let frames: Vec<Arc<Mutex<Vec<FrameEv>>>> = (0..spec.conns).map(|_| Default::default()).collect();
	let session_closed_ticket: Vec<Arc<Mutex<Option<u64>>>> = (0..spec.conns).map(|_| Default::default()).collect();
	let mut writers: Vec<Arc<tokio::sync::Mutex<Option<RawWs>>>> = Vec::new();
	for c in 0..spec.conns {
		match srv.ws_session().await {
			Ok((ws, closed)) => {
				let slot = session_closed_ticket[c].clone();
				tokio::spawn(async move {
					closed.await;
					*slot.lock().unwrap() = Some(ticket());
				});
				writers.push(Arc::new(tokio::sync::Mutex::new(Some(ws))));
			}
			Err(e) => {
				out.violations.push(("setup-failed/ws-connect".into(), format!("{e:?}")));
				return out;
			}
		}
	}
	// from here on only the connections keep the server alive (as with the accept loop of `Server::start` after `stop()`):
	// `stopped()` resolves when the last connection task has let go of its stop handle
	let server_handle = srv.handle.clone();
	drop(srv);
	// frame pump: periodically moves frames from each RawWs into the shared log (the ticket was taken by the reader task)
	let pump = |writers: &Vec<Arc<tokio::sync::Mutex<Option<RawWs>>>>, frames: &Vec<Arc<Mutex<Vec<FrameEv>>>>| {
		let writers = writers.clone();
		let frames = frames.clone();
		async move {
			for (c, w) in writers.iter().enumerate() {
				if let Ok(mut g) = w.try_lock() {
					if let Some(ws) = g.as_mut() {
						for f in ws.try_drain() {
							if let Some(v) = f.json() {
								frames[c].lock().unwrap().push(FrameEv { ticket: f.ticket, v });
							}
						}
					}
				}
			}
		}
	};

	// subscribe calls
	let mut call_ids = Vec::new();
	for (i, s) in spec.subs.iter().enumerate() {
		let id = 1000 + i as u64;
		call_ids.push(id);
		let msg = json!({"jsonrpc": "2.0", "id": id, "method": if s.raw { "sub_raw" } else { "sub" }, "params": [format!("t{i}")]}).to_string();
		if let Some(ws) = writers[s.conn].lock().await.as_mut() {
			let _ = ws.send_text(&msg).await;
		}
	}
	if let Some((c, from, to)) = spec.peer_pause {
		let w = writers[c].clone();
		tokio::spawn(async move {
			tokio::time::sleep(Duration::from_millis(from)).await;
			if let Some(ws) = w.lock().await.as_ref() {
				ws.set_reading(false);
			}
			tokio::time::sleep(Duration::from_millis(to - from)).await;
			if let Some(ws) = w.lock().await.as_ref() {
				ws.set_reading(true);
			}
		});
	}
	if let Some((c, until)) = spec.held_call {
		let msg = json!({"jsonrpc": "2.0", "id": 777, "method": "hold", "params": ["held"]}).to_string();
		if let Some(ws) = writers[c].lock().await.as_mut() {
			let _ = ws.send_text(&msg).await;
		}
		let reg2 = reg.clone();
		tokio::spawn(async move {
			tokio::time::sleep(Duration::from_millis(until)).await;
			reg2.release("held");
		});
	}
	tokio::time::sleep(Duration::from_millis(2)).await;

	// handler scripts
	let mut tasks = Vec::new();
	for (i, s) in spec.subs.iter().enumerate() {
		let reg = reg.clone();
		let steps = s.steps.clone();
		let tag = format!("t{i}");
		tasks.push(tokio::spawn(async move {
			let mut log: Vec<HandlerEvent> = Vec::new();
			let Some(h) = reg.get(&tag) else { return (log, false) };
			let mut seq = 0u64;
			let mut n_sinks = 0usize;
			let mut r = Rng::new(i as u64 * 31 + 7);
			for (delay, step) in steps {
				if delay > 0 {
					tokio::time::sleep(Duration::from_millis(delay)).await;
				}
				let sink = if n_sinks == 0 { 0 } else { r.usize(n_sinks) };
				let (cmd, s) = match &step {
					HStep::Accept => (Cmd::Accept, None),
					HStep::Reject => (Cmd::Reject, None),
					HStep::DropPending => (Cmd::DropPending, None),
					HStep::Send => {
						seq += 1;
						(Cmd::Send(sink, json!({"tag": tag, "seq": seq})), Some(seq))
					}
					HStep::TrySend => {
						seq += 1;
						(Cmd::TrySend(sink, json!({"tag": tag, "seq": seq})), Some(seq))
					}
					HStep::SendTimeout => {
						seq += 1;
						(Cmd::SendTimeout(sink, json!({"tag": tag, "seq": seq}), 5), Some(seq))
					}
					HStep::SendTimeoutResend => {
						seq += 1;
						(Cmd::SendTimeoutResend(sink, json!({"tag": tag, "seq": seq}), 2), Some(seq))
					}
					HStep::Clone => (Cmd::CloneSink(sink), None),
					HStep::IsClosed => (Cmd::IsClosed(sink), None),
					HStep::WaitClosed => (Cmd::WaitClosed(sink, 3), None),
					HStep::Return(k) => (
						Cmd::Return(match k % 3 {
							0 => Ret::None,
							1 => Ret::NotifErr(format!("closing-{tag}")),
							_ => Ret::Notif(json!({"tag": tag, "closing": true})),
						}),
						None,
					),
				};
				let timed = h.cmd(cmd).await;
				if let Some(Timed { reply: Reply::Accepted { .. }, .. }) = &timed {
					n_sinks = 1;
				}
				if let Some(Timed { reply: Reply::Cloned(k), .. }) = &timed {
					n_sinks = n_sinks.max(k + 1);
				}
				let gone = timed.is_none();
				log.push(HandlerEvent { step, seq: s, sink, timed });
				if gone {
					break;
				}
			}
			(log, true)
		}));
	}
	// peer scripts: unsubscribe calls (need the subscription id, learnt from the accept response frame), disconnects, stop
	let mut peer_tasks = Vec::new();
	for (i, s) in spec.subs.iter().enumerate() {
		if let Some(at) = s.unsubscribe_at {
			let w = writers[s.conn].clone();
			let fr = frames[s.conn].clone();
			let call_id = call_ids[i];
			let raw = s.raw;
			let p = pump(&writers, &frames);
			let writers2 = writers.clone();
			let frames2 = frames.clone();
			peer_tasks.push(tokio::spawn(async move {
				tokio::time::sleep(Duration::from_millis(at)).await;
				p.await;
				// wait (bounded) for the accept response to learn the id
				let mut sub_id = None;
				for _ in 0..20 {
					for (c, wr) in writers2.iter().enumerate() {
						if let Ok(mut g) = wr.try_lock() {
							if let Some(ws) = g.as_mut() {
								for f in ws.try_drain() {
									if let Some(v) = f.json() {
										frames2[c].lock().unwrap().push(FrameEv { ticket: f.ticket, v });
									}
								}
							}
						}
					}
					sub_id = fr.lock().unwrap().iter().find(|f| f.v["id"] == json!(call_id) && f.v.get("result").is_some()).map(|f| f.v["result"].clone());
					if sub_id.is_some() {
						break;
					}
					tokio::time::sleep(Duration::from_millis(1)).await;
				}
				let Some(sid) = sub_id else { return None };
				let uid = 5000 + call_id;
				let msg = json!({"jsonrpc": "2.0", "id": uid, "method": if raw { "unsub_raw" } else { "unsub" }, "params": [sid]}).to_string();
				let sent_ticket = ticket();
				if let Some(ws) = w.lock().await.as_mut() {
					let _ = ws.send_text(&msg).await;
				}
				Some((uid, sent_ticket))
			}));
		}
	}
	let mut disconnect_tickets: Vec<Option<u64>> = vec![None; spec.conns];
	let mut disc_tasks = Vec::new();
	for (c, at) in spec.disconnect_at.iter().enumerate() {
		if let Some(at) = at {
			let w = writers[c].clone();
			let at = *at;
			let fr = frames[c].clone();
			disc_tasks.push((c, tokio::spawn(async move {
				tokio::time::sleep(Duration::from_millis(at)).await;
				let mut g = w.lock().await;
				if let Some(mut ws) = g.take() {
					for f in ws.try_drain() {
						if let Some(v) = f.json() {
							fr.lock().unwrap().push(FrameEv { ticket: f.ticket, v });
						}
					}
					let t = ticket();
					ws.abort();
					return Some(t);
				}
				None
			})));
		}
	}
	let stopped_ticket: Arc<Mutex<Option<u64>>> = Default::default();
	if let Some(at) = spec.stop_at {
		let handle = server_handle.clone();
		let st = stopped_ticket.clone();
		tokio::spawn(async move {
			tokio::time::sleep(Duration::from_millis(at)).await;
			let _ = handle.stop();
			handle.clone().stopped().await;
			*st.lock().unwrap() = Some(ticket());
		});
	}

	// run everything to completion
	let mut handler_logs: Vec<Vec<HandlerEvent>> = Vec::new();
	for t in tasks {
		match tokio::time::timeout(Duration::from_secs(600), t).await {
			Ok(Ok((log, _))) => handler_logs.push(log),
			_ => handler_logs.push(Vec::new()),
		}
	}
	let mut unsub_calls: Vec<Option<(u64, u64)>> = Vec::new();
	{
		let mut it = peer_tasks.into_iter();
		for s in spec.subs.iter() {
			if s.unsubscribe_at.is_some() {
				unsub_calls.push(it.next().unwrap().await.ok().flatten());
			} else {
				unsub_calls.push(None);
			}
		}
	}
	for (c, t) in disc_tasks {
		disconnect_tickets[c] = t.await.ok().flatten();
	}
	// quiescence, then collect all frames
	let q = if real_time { Duration::from_millis(150) } else { Duration::from_secs(5) };
	tokio::time::sleep(q).await;
	pump(&writers, &frames).await;
	tokio::time::sleep(q).await;
	pump(&writers, &frames).await;
	out.trace = take_trace();
	out.points = out.trace.len();
	out.resends = reg.resends.load(std::sync::atomic::Ordering::SeqCst);
	clear_thread_hook();

	// ---------------------------------------------------------------------------------------------------------
	// the oracle over the joint history
	macro_rules! bad {
		($sig:expr, $($arg:tt)*) => { out.violations.push(($sig.to_string(), format!($($arg)*))) };
	}
	// Real-time runs (stress / ThreadSanitizer sub-runs): "something did not arrive" is no verdict after 300 ms on a loaded
	// machine. If the only complaints are of that kind, the frames are collected again two seconds later, up to five times;
	// the counters of a discarded evaluation are rolled back. (Virtual-time runs are quiescent by construction: one pass.)
	let mut attempt = 0;
	let base = (out.violations.len(), out.history.len(), out.notifications, out.sends_ok, out.sends_failed, out.closes, out.sends_after_close);
	'oracle: loop {
	let all_frames: Vec<Vec<FrameEv>> = frames.iter().map(|f| f.lock().unwrap().clone()).collect();
	let stopped = *stopped_ticket.lock().unwrap();
	for (i, s) in spec.subs.iter().enumerate() {
		let tag = format!("t{i}");
		let log = &handler_logs[i];
		let method = if s.raw { "notif_raw" } else { "notif" };
		let accepted_id: Option<Value> = log.iter().find_map(|e| match e.timed.as_ref().map(|t| &t.reply) {
			Some(Reply::Accepted { sub_id }) => Some(sub_id.clone()),
			_ => None,
		});
		// frames that belong to this subscription: by tag inside the payload (data + closing notifications) or by its id
		let mut mine: Vec<(usize, FrameEv)> = Vec::new();
		for (c, fs) in all_frames.iter().enumerate() {
			for f in fs {
				if f.v.get("method").is_none() {
					continue;
				}
				let p = &f.v["params"];
				let by_tag = p["result"]["tag"] == json!(tag) || p["error"] == json!(format!("closing-{tag}"));
				let by_id = accepted_id.as_ref().is_some_and(|id| p["subscription"] == *id) && c == s.conn;
				if by_tag || by_id {
					mine.push((c, f.clone()));
				}
			}
		}
		out.notifications += mine.len();
		out.history.push(format!("sub {tag} on conn {} (accepted id {accepted_id:?}): handler log {:?}; {} notification frames", s.conn, log.iter().map(|e| (format!("{:?}", e.step), e.seq, e.timed.as_ref().map(|t| (format!("{:?}", t.reply), t.before, t.after)))).collect::<Vec<_>>(), mine.len()));

		// (d) never accepted => nothing at all
		let Some(sub_id) = accepted_id.clone() else {
			if !mine.is_empty() {
				let why = if log.iter().any(|e| e.step == HStep::Reject) { "rejected" } else { "never-accepted" };
				bad!(format!("notification-for-unaccepted-subscription/{why}"), "{tag}: {} frame(s), first {}", mine.len(), mine[0].1.v);
			}
			continue;
		};
		// (a) own id, own method, own connection
		for (c, f) in &mine {
			if *c != s.conn {
				bad!("notification-on-wrong-connection/any", "{tag}: frame {} arrived on connection {c}", f.v);
			}
			if f.v["params"]["subscription"] != sub_id {
				bad!("wrong-subscription-id/notification", "{tag}: frame {} carries another id than {sub_id}", f.v);
			}
			if f.v["method"] != json!(method) {
				bad!("wrong-notification-method/notification", "{tag}: frame {} has method other than {method}", f.v);
			}
		}
		// (b) after the accept response
		let accept_frame = all_frames[s.conn].iter().find(|f| f.v["id"] == json!(call_ids[i]) && f.v.get("result").is_some());
		match accept_frame {
			Some(af) => {
				if let Some((_, first)) = mine.first() {
					if first.ticket < af.ticket {
						bad!("notification-before-accept-response/any", "{tag}: {} arrived before the response to the subscribe call", first.v);
					}
				}
			}
			None => {
				if !mine.is_empty() && disconnect_tickets[s.conn].is_none() {
					bad!("notification-without-accept-response/any", "{tag}: notifications arrived but the subscribe response never did");
				}
			}
		}
		// close instants
		let unsub_true_ticket: Option<u64> = unsub_calls[i].and_then(|(uid, _)| all_frames[s.conn].iter().find(|f| f.v["id"] == json!(uid) && f.v["result"] == json!(true)).map(|f| f.ticket));
		let session_closed = *session_closed_ticket[s.conn].lock().unwrap();
		let close_ticket: Option<u64> = [unsub_true_ticket, session_closed, stopped].into_iter().flatten().min();
		if close_ticket.is_some() {
			out.closes += 1;
		}
		// (c) order, no delivery of failed sends; (e) nothing started after a close succeeds or is delivered
		let data: Vec<&FrameEv> = mine.iter().map(|(_, f)| f).filter(|f| f.v["params"]["result"]["seq"].is_u64()).collect();
		let delivered: Vec<u64> = data.iter().map(|f| f.v["params"]["result"]["seq"].as_u64().unwrap()).collect();
		if delivered.windows(2).any(|w| w[0] >= w[1]) {
			bad!("notifications-out-of-order/any", "{tag}: delivered sequence numbers {delivered:?}");
		}
		for e in log {
			let Some(seq) = e.seq else { continue };
			let Some(t) = &e.timed else { continue };
			let ok = matches!(t.reply, Reply::Sent(Ok(())));
			if ok {
				out.sends_ok += 1;
			} else {
				out.sends_failed += 1;
			}
			let was_delivered = delivered.contains(&seq);
			if !ok && was_delivered {
				bad!("failed-send-delivered/any", "{tag}: seq {seq} was reported as failed ({:?}) to the handler but reached the peer", t.reply);
			}
			if let Some(ct) = close_ticket {
				if t.before > ct {
					out.sends_after_close += 1;
					let how = if Some(ct) == unsub_true_ticket { "unsubscribe" } else if Some(ct) == stopped { "server-stop" } else { "connection-end" };
					if ok {
						bad!(format!("send-after-close-succeeded/{how}"), "{tag}: seq {seq} started (ticket {}) after the close (ticket {ct}) and returned Ok", t.before);
					}
					if was_delivered {
						bad!(format!("send-after-close-delivered/{how}"), "{tag}: seq {seq} started after the close and reached the peer");
					}
					if t.closed_before == Some(false) {
						bad!(format!("sink-not-closed-after-close/{how}"), "{tag}: is_closed() was false right before seq {seq}, after the close");
					}
				}
			}
			// completeness: an Ok send on a connection that stayed open and was never stopped must arrive
			if ok && !was_delivered && disconnect_tickets[s.conn].is_none() && spec.stop_at.is_none() && session_closed.is_none() {
				bad!("successful-send-lost/connection-open", "{tag}: seq {seq} returned Ok but never reached the peer");
			}
		}
		for e in log {
			if let (HStep::IsClosed, Some(t)) = (&e.step, &e.timed) {
				if let (Some(ct), Reply::Closed(false)) = (close_ticket, &t.reply) {
					if t.before > ct {
						let how = if Some(ct) == unsub_true_ticket { "unsubscribe" } else if Some(ct) == stopped { "server-stop" } else { "connection-end" };
						bad!(format!("sink-not-closed-after-close/{how}"), "{tag}: is_closed() = false at ticket {} after the close at {ct}", t.before);
					}
				}
			}
		}
		// (g) waiting for the end of a subscription that has already ended returns at once
		for e in log {
			if let (HStep::WaitClosed, Some(t)) = (&e.step, &e.timed) {
				if let (Some(ct), Reply::ClosedResolved(false)) = (close_ticket, &t.reply) {
					// (virtual time only: "within 3 ms" is no verdict on a real clock)
					if t.before > ct && !real_time {
						let how = if Some(ct) == unsub_true_ticket { "unsubscribe" } else if Some(ct) == stopped { "server-stop" } else { "connection-end" };
						bad!(format!("closed-future-pending-after-close/{how}"), "{tag}: sink.closed() was first awaited at ticket {} after the close at {ct} and did not complete within 3 virtual ms", t.before);
					}
				}
				if matches!(t.reply, Reply::ClosedResolved(_)) {
					out.waits_for_closed += 1;
				}
			}
		}
		// (f) closing notifications
		let closing: Vec<&FrameEv> = mine.iter().map(|(_, f)| f).filter(|f| f.v["params"].get("error").is_some() || f.v["params"]["result"]["closing"] == json!(true)).collect();
		if closing.len() > 1 {
			bad!("closing-notification-twice/any", "{tag}: {} closing notifications", closing.len());
		}
		let returned = log.iter().find_map(|e| match (&e.step, &e.timed) {
			(HStep::Return(k), Some(_)) => Some(*k),
			_ => None,
		});
		match (returned, closing.first()) {
			(Some(k), Some(c)) if k % 3 == 0 => bad!("closing-notification-unexpected/return-none", "{tag}: handler returned None but {} was sent", c.v),
			(None, Some(c)) => bad!("closing-notification-unexpected/handler-still-running", "{tag}: {}", c.v),
			(Some(k), None) if k % 3 != 0 && disconnect_tickets[s.conn].is_none() && spec.stop_at.is_none() && session_closed.is_none() && !s.raw => {
				bad!("closing-notification-missing/connection-open", "{tag}: the handler returned a closing value on an open connection but nothing was sent");
			}
			_ => {}
		}
		if let Some(c) = closing.first() {
			if let Some(last) = data.last() {
				if c.ticket < last.ticket {
					bad!("closing-notification-not-last/any", "{tag}: a data notification arrived after the closing notification");
				}
			}
		}
	}
	let absent_only = out.violations.len() > base.0
		&& out.violations[base.0..].iter().all(|(s, _)| s.starts_with("closing-notification-missing/") || s.starts_with("successful-send-lost/") || s.starts_with("notification-without-accept-response/"));
	if real_time && absent_only && attempt < 5 {
		attempt += 1;
		out.violations.truncate(base.0);
		out.history.truncate(base.1);
		(out.notifications, out.sends_ok, out.sends_failed, out.closes, out.sends_after_close) = (base.2, base.3, base.4, base.5, base.6);
		tokio::time::sleep(Duration::from_secs(2)).await;
		pump(&writers, &frames).await;
		continue 'oracle;
	}
	break;
	}
	out
}

fn record(spec: &Spec, o: Out, ev: &mut Evidence, violations: &mut Vec<Violation>) {
	ev.eval();
	ev.count("notification_frames_observed", o.notifications as u64);
	ev.count("sends_ok", o.sends_ok as u64);
	ev.count("sends_failed_as_seen_by_handlers", o.sends_failed as u64);
	ev.count("subscriptions_with_a_close_instant", o.closes as u64);
	ev.count("sends_started_after_a_close", o.sends_after_close as u64);
	ev.count("waits_for_sink_closed_observed", o.waits_for_closed as u64);
	ev.count("library_points_reached", o.points as u64);
	if spec.long_ids {
		ev.count("histories_with_subscription_ids_above_the_response_limit", 1);
	} else if spec.escape_ids {
		ev.count("histories_with_subscription_ids_that_need_json_escapes", 1);
	}
	if spec.held_call.is_some() {
		ev.count("histories_with_an_ordinary_call_held_in_its_handler", 1);
	}
	if spec.peer_pause.is_some() {
		ev.count("histories_with_a_peer_that_stops_reading_for_a_while", 1);
	}
	ev.count("messages_resent_after_a_send_timeout", o.resends as u64);
	if o.notifications > 0 {
		ev.nontrivial(&(spec.seed, spec.buffer));
	}
	ev.class("schedule_traces", &o.trace);
	ev.class("buffers", &spec.buffer);
	if o.violations.is_empty() {
		ev.sample_class(&format!("buffer-{}", spec.buffer), json!({"spec": format!("{spec:?}").chars().take(900).collect::<String>(), "history": o.history.iter().take(4).collect::<Vec<_>>()}));
	}
	let w = json!({"seed": spec.seed, "spec": format!("{spec:?}"), "history": o.history});
	for (sig, d) in o.violations {
		violations.push(Violation::new(sig, d, w.clone()));
	}
}

fn main() {
	let ctx = Ctx::from_env("C04", "exploration");
	if let Some(mode) = ctx.sub.clone() {
		// stress / tsan: many histories concurrently on a multi-thread runtime (in-memory transports, no IO driver)
		let n: u64 = ctx.arg_value("--n").and_then(|s| s.parse().ok()).unwrap_or(100);
		install_global_jitter_hook(ctx.seed, 25, 300);
		let seed = ctx.seed;
		let outs = block_on_stress(8, async move {
			let mut hs = Vec::new();
			for i in 0..n {
				let spec = gen_spec(Rng::fork(seed, 4_000_000 + i).next_u64());
				hs.push(tokio::spawn(async move {
					let o = run_spec(&spec, true).await;
					(spec, o)
				}));
				if i % 16 == 15 {
					tokio::time::sleep(Duration::from_millis(20)).await;
				}
			}
			let mut outs = Vec::new();
			for h in hs {
				if let Ok(x) = h.await {
					outs.push(x);
				}
			}
			outs
		});
		let mut ev = Evidence::new("");
		let mut v = Vec::new();
		for (spec, o) in outs {
			record(&spec, o, &mut ev, &mut v);
		}
		let sigs: Vec<String> = v.iter().map(|x| x.signature.clone()).collect();
		println!(
			"SUBRESULT {}",
			json!({"mode": mode, "cases": ev.evaluations, "notification_frames": ev.counter("notification_frames_observed"), "sends_after_close": ev.counter("sends_started_after_a_close"),
				"global_points_reached": global_points_reached(), "violation_signatures": sigs})
		);
		return;
	}
	install_panic_capture(true);
	let _wd = watchdog("C04", Duration::from_secs(ctx.tier.pick(900, 7200)));
	let mut ev = Evidence::new(
		"cases = concurrent histories on the real server stack in memory: 1..3 WebSocket connections, 1..4 subscriptions \
		 (register_subscription or register_subscription_raw) whose handlers follow seeded scripts (accept then up to 20 numbered \
		 send / try_send / send_timeout steps, sink clones, is_closed, closed().await, return None / error notification / custom \
		 notification; or reject / drop pending / return without accepting), each step at a seeded virtual instant; the peer \
		 unsubscribes / disconnects and the server is stopped at seeded instants; message buffer capacity 1, 2 or 1024; seeded \
		 delays at the server's yield points. Non-trivial = at least one notification frame was observed; distinct by seed.",
	);
	ev.assume("'started after the close' is decided on tickets of one logical clock: a send whose before-ticket is larger than the ticket of the frame with the unsubscribe response (true), of the session-closed observation, or of stopped() resolving");
	ev.assume("a closing notification sent after an unsubscribe is admissible (the statement only limits it to at most one and to accepted subscriptions)");
	let mut violations = Vec::new();
	let replay = ctx.replay.is_some();
	let mut replay_scenario: Option<String> = None;
	let mut replay_seed: Option<u64> = None;
	let seeds: Vec<u64> = if let Some(path) = &ctx.replay {
		let w: Value = serde_json::from_str(&std::fs::read_to_string(path).expect("replay")).expect("json");
		replay_scenario = w["witness"]["scenario"].as_str().map(|s| s.to_string());
		replay_seed = w["witness"]["seed"].as_u64();
		if replay_scenario.is_some() { vec![] } else { vec![w["witness"]["seed"].as_u64().expect("seed")] }
	} else {
		(0..ctx.tier.pick(40_000u64, 2_000_000)).map(|i| Rng::fork(ctx.seed, i).next_u64()).collect()
	};
	let results = run_parallel(seeds.chunks(50).map(|c| c.to_vec()).collect(), |_, chunk| {
		let mut ev = Evidence::new("");
		let mut v = Vec::new();
		for s in chunk {
			let spec = gen_spec(s);
			let o = block_on_virtual(run_spec(&spec, false));
			if replay {
				println!("{spec:#?}");
				for h in &o.history {
					println!("  {h}");
				}
				println!("violations: {:?}", o.violations);
			}
			record(&spec, o, &mut ev, &mut v);
		}
		(ev, v)
	});
	for (e, v) in results {
		ev.merge(e);
		violations.extend(v);
	}
	if !replay || replay_scenario.as_deref() == Some("macro-declared names") {
		let seeds: Vec<u64> = match (replay, replay_seed) {
			(true, Some(s)) => vec![s],
			_ => (0..ctx.tier.pick(100u64, 5_000)).map(|i| Rng::fork(ctx.seed, 67_000_000 + i).next_u64()).collect(),
		};
		let res = run_parallel(seeds, |_, s| (s, block_on_virtual(macro_names_case(s))));
		for (s, o) in res {
			ev.eval();
			ev.count("cases_macro_declared_subscription_names", 1);
			ev.count("macro_declared_notifications_observed", o.notifications as u64);
			if o.notifications > 0 && o.violations.is_empty() {
				ev.nontrivial(&("macro-names", s));
			}
			for (sig, d) in o.violations {
				violations.push(Violation::new(sig, d, json!({"scenario": "macro-declared names", "seed": s})));
			}
		}
	}
	if !replay || replay_scenario.as_deref() == Some("id issued again") {
		let seeds: Vec<u64> = match (replay, replay_seed) {
			(true, Some(s)) => vec![s],
			_ => (0..ctx.tier.pick(400u64, 20_000)).map(|i| Rng::fork(ctx.seed, 66_000_000 + i).next_u64()).collect(),
		};
		let res = run_parallel(seeds, |_, s| (s, block_on_virtual(id_reissued_case(s))));
		for (s, o) in res {
			ev.eval();
			ev.count("cases_id_issued_again", 1);
			ev.count("id_issued_again_sends_on_the_old_sink", o.sends_after_close as u64);
			ev.count("id_issued_again_notifications_after_the_unsubscribe", o.notifications as u64);
			if o.notifications > 0 && o.violations.is_empty() {
				ev.nontrivial(&("id-issued-again", s));
			}
			if replay {
				for h in &o.history {
					println!("  {h}");
				}
				println!("violations: {:?}", o.violations);
			}
			for (sig, d) in o.violations {
				violations.push(Violation::new(sig, d, json!({"scenario": "id issued again", "seed": s})));
			}
		}
	}
	for p in take_panics() {
		// accept() panics by design when the response carrying the subscription id exceeds max_response_body_size
		if p.in_library && !p.message.contains("The subscription response was too big") {
			violations.push(Violation::new(
				format!("library-panic/{}", p.location.rsplit('/').next().unwrap_or("").split(':').next().unwrap_or("")),
				p.message.clone(),
				json!({"location": p.location, "backtrace": p.backtrace_head}),
			));
		}
	}
	let mut inconclusive = None;
	if ctx.tier == Tier::Thorough && !replay {
		let exe = std::env::current_exe().expect("exe");
		let o = std::process::Command::new(exe).args(["--sub", "stress", "--n", "600"]).env("VERIF_SEED", ctx.seed.to_string()).output();
		match o.ok().and_then(|o| String::from_utf8(o.stdout).ok()).and_then(|s| s.lines().find_map(|l| l.strip_prefix("SUBRESULT ").map(|j| j.to_string()))) {
			Some(j) => {
				let v: Value = serde_json::from_str(&j).unwrap_or(Value::Null);
				for s in v["violation_signatures"].as_array().cloned().unwrap_or_default() {
					violations.push(Violation::new(format!("stress:{}", s.as_str().unwrap_or("?")), "seen in the native multi-threaded sub-run", json!({"sub": "stress"})));
				}
				ev.set("stress", v);
			}
			None => inconclusive = Some("native stress sub-run did not report".to_string()),
		}
		let (res, reports) = jrv::sanit::run_tsan("c04", &["--n".into(), "200".into()], Duration::from_secs(1200));
		for (frame, excerpt) in &reports {
			violations.push(Violation::new(format!("tsan:{frame}"), "ThreadSanitizer reported a data race", json!({"excerpt": excerpt})));
		}
		match res {
			jrv::sanit::SubOutcome::Clean(v) => {
				for s in v["violation_signatures"].as_array().cloned().unwrap_or_default() {
					violations.push(Violation::new(format!("tsan-run:{}", s.as_str().unwrap_or("?")), "oracle violation in the TSan sub-run", json!({"sub": "tsan"})));
				}
				ev.set("tsan", json!({"status": format!("{} race report(s)", reports.len()), "workload": v}));
			}
			jrv::sanit::SubOutcome::Report { excerpt, frame } => violations.push(Violation::new(format!("tsan:{frame}"), "report", json!({"excerpt": excerpt}))),
			jrv::sanit::SubOutcome::Failed(why) => {
				ev.set("tsan", json!({"status": "inconclusive", "why": why}));
				inconclusive = Some("TSan sub-run did not complete".into());
			}
		}
	}
	finish(&ctx, ev, violations, inconclusive);
}
