//! C20 — Params encoding: builders emit JSON that parses back to what was inserted.
//!
//! Monitor: generated cases (insert sequences into `ArrayParams` / `ObjectParams`, `rpc_params!`, tuples of arity
//! 1..16, `Vec`, slices, fixed arrays, `serde_json::Map`, `BTreeMap`/`HashMap<String,_>` fed into the named builder,
//! `BatchRequestBuilder` with 0..6 entries) are run through the real `ToRpcParams::to_rpc_params`. The oracle is
//! `serde_json::to_value` of every value whose insert reported success: the output text must be valid UTF-8, valid
//! JSON and parse back to exactly those values (array: insertion order; object: the same key/value pairs, no
//! duplicates). Values whose `Serialize` impl fails before / after emitting bytes are mixed into the sequences.
//! Every call into the library runs under `catch_unwind`.

use jrv::jgen;
use jrv::report::*;
use jrv::rng::Rng;
use jrv::runner::{run_parallel, watchdog};
use jrv::sanit::{self, SubOutcome};
use jsonrpsee_core::params::{ArrayParams, BatchRequestBuilder, ObjectParams};
use jsonrpsee_core::rpc_params;
use jsonrpsee_core::traits::ToRpcParams;
use serde::ser::{Error as _, SerializeMap, SerializeSeq, SerializeTuple};
use serde::{Deserialize, Serialize, Serializer};
use serde_json::value::RawValue;
use serde_json::{Value, json};
use std::cell::{Cell, RefCell};
use std::collections::{BTreeMap, HashMap};
use std::hash::BuildHasherDefault;
use std::time::Duration;

// ---------------------------------------------------------------------------------------------------------------
// Value descriptions. `Spec` is the (JSON-recordable) description of a value; `Live(&Spec)` is the value itself,
// i.e. the thing with the `Serialize` impl that is handed to the library.

#[derive(Clone, Debug, Serialize, Deserialize)]
#[serde(rename_all = "snake_case")]
enum Spec {
	// --- serialisable
	Json(Value),
	/// a `Box<RawValue>` holding this (valid) JSON text
	Raw(String),
	U8(u8),
	I8(i8),
	U64(u64),
	I64(i64),
	Bool(bool),
	Str(String),
	Char(char),
	Unit,
	UnitStruct,
	/// exactly representable (dyadic) floats only
	F64(f64),
	F32(f32),
	/// f64::NAN (JSON has no NaN: serde_json writes null)
	Nan,
	NegInf,
	None,
	Some(Box<Spec>),
	Newtype(Box<Spec>),
	/// `&[u8]`
	Bytes(Vec<u8>),
	VecU32(Vec<u32>),
	Seq(Vec<Spec>),
	Tuple(Vec<Spec>),
	/// `serialize_map` with string keys
	Map(Vec<(String, Spec)>),
	/// a real `BTreeMap<String, _>`
	Btree(Vec<(String, Spec)>),
	/// a real `HashMap<String, _>`
	Hash(Vec<(String, Spec)>),
	/// `BTreeMap<i32, _>` (serde_json turns integer keys into strings)
	IntKeys(Vec<(i32, Spec)>),
	/// derived struct with two fields (the second field name needs escaping)
	Struct(Box<Spec>, Box<Spec>),
	EnumUnit,
	EnumNewtype(Box<Spec>),
	EnumTuple(Box<Spec>, Box<Spec>),
	EnumStruct(Box<Spec>),
	// --- failing (unless degenerate, e.g. an empty map with non-string keys)
	/// `Serialize` returns an error before emitting anything
	FailNow,
	/// a real `BTreeMap<(u8, u8), _>`: "key must be a string" after `{`
	NonStringKeys(Vec<((u8, u8), Spec)>),
	/// derived struct whose 2nd field fails: bytes `{"a":<a>,"b":` are emitted first
	FailSecondField(Box<Spec>),
	/// custom impl: sequence whose last element fails (emitted bytes end with `,` when there are good elements)
	FailSeqElem(Vec<Spec>),
	/// custom impl: sequence that errors instead of calling `end()`
	FailSeqNoEnd(Vec<Spec>),
	/// custom impl: map that errors after emitting a key
	FailMapAfterKey(Vec<(String, Spec)>),
	/// custom impl: the inner value is emitted completely, then an error is returned
	FailAfterComplete(Box<Spec>),
}

struct Live<'a>(&'a Spec);

struct Boom;
impl Serialize for Boom {
	fn serialize<S: Serializer>(&self, _s: S) -> Result<S::Ok, S::Error> {
		Err(S::Error::custom("verif: this value refuses to serialise"))
	}
}

#[derive(Serialize)]
struct UnitStruct;
#[derive(Serialize)]
struct Newtype<'a>(Live<'a>);
#[derive(Serialize)]
struct Rec<'a> {
	a: Live<'a>,
	#[serde(rename = "b\"\\q")]
	b: Live<'a>,
}
#[derive(Serialize)]
enum En<'a> {
	Unit,
	Newtype(Live<'a>),
	Tuple(Live<'a>, Live<'a>),
	Struct { x: Live<'a> },
}
#[derive(Serialize)]
struct SecondFails<'a> {
	a: Live<'a>,
	b: Boom,
}

type DetHashMap<K, V> = HashMap<K, V, BuildHasherDefault<std::collections::hash_map::DefaultHasher>>;

impl Serialize for Live<'_> {
	fn serialize<S: Serializer>(&self, s: S) -> Result<S::Ok, S::Error> {
		match self.0 {
			Spec::Json(v) => v.serialize(s),
			Spec::Raw(t) => match RawValue::from_string(t.clone()) {
				Ok(raw) => raw.serialize(s),
				Err(e) => Err(S::Error::custom(format!("verif: raw text is not JSON: {e}"))),
			},
			Spec::U8(x) => x.serialize(s),
			Spec::I8(x) => x.serialize(s),
			Spec::U64(x) => x.serialize(s),
			Spec::I64(x) => x.serialize(s),
			Spec::Bool(x) => x.serialize(s),
			Spec::Str(x) => x.serialize(s),
			Spec::Char(x) => x.serialize(s),
			Spec::Unit => ().serialize(s),
			Spec::UnitStruct => UnitStruct.serialize(s),
			Spec::F64(x) => x.serialize(s),
			Spec::F32(x) => x.serialize(s),
			Spec::Nan => f64::NAN.serialize(s),
			Spec::NegInf => f64::NEG_INFINITY.serialize(s),
			Spec::None => Option::<u8>::None.serialize(s),
			Spec::Some(x) => Some(Live(x)).serialize(s),
			Spec::Newtype(x) => Newtype(Live(x)).serialize(s),
			Spec::Bytes(x) => x.as_slice().serialize(s),
			Spec::VecU32(x) => x.serialize(s),
			Spec::Seq(xs) => {
				let mut q = s.serialize_seq(Some(xs.len()))?;
				for x in xs {
					q.serialize_element(&Live(x))?;
				}
				q.end()
			}
			Spec::Tuple(xs) => {
				let mut q = s.serialize_tuple(xs.len())?;
				for x in xs {
					q.serialize_element(&Live(x))?;
				}
				q.end()
			}
			Spec::Map(es) => {
				let mut m = s.serialize_map(Some(es.len()))?;
				for (k, v) in es {
					m.serialize_entry(k, &Live(v))?;
				}
				m.end()
			}
			Spec::Btree(es) => es.iter().map(|(k, v)| (k.clone(), Live(v))).collect::<BTreeMap<String, Live>>().serialize(s),
			Spec::Hash(es) => es.iter().map(|(k, v)| (k.clone(), Live(v))).collect::<DetHashMap<String, Live>>().serialize(s),
			Spec::IntKeys(es) => es.iter().map(|(k, v)| (*k, Live(v))).collect::<BTreeMap<i32, Live>>().serialize(s),
			Spec::Struct(a, b) => Rec { a: Live(a), b: Live(b) }.serialize(s),
			Spec::EnumUnit => En::Unit.serialize(s),
			Spec::EnumNewtype(x) => En::Newtype(Live(x)).serialize(s),
			Spec::EnumTuple(a, b) => En::Tuple(Live(a), Live(b)).serialize(s),
			Spec::EnumStruct(x) => En::Struct { x: Live(x) }.serialize(s),
			Spec::FailNow => Boom.serialize(s),
			Spec::NonStringKeys(es) => es.iter().map(|(k, v)| (*k, Live(v))).collect::<BTreeMap<(u8, u8), Live>>().serialize(s),
			Spec::FailSecondField(a) => SecondFails { a: Live(a), b: Boom }.serialize(s),
			Spec::FailSeqElem(xs) => {
				let mut q = s.serialize_seq(Some(xs.len() + 1))?;
				for x in xs {
					q.serialize_element(&Live(x))?;
				}
				q.serialize_element(&Boom)?;
				q.end()
			}
			Spec::FailSeqNoEnd(xs) => {
				let mut q = s.serialize_seq(Some(xs.len() + 1))?;
				for x in xs {
					q.serialize_element(&Live(x))?;
				}
				Err(S::Error::custom("verif: sequence gives up before its end"))
			}
			Spec::FailMapAfterKey(es) => {
				let mut m = s.serialize_map(Some(es.len() + 1))?;
				for (k, v) in es {
					m.serialize_entry(k, &Live(v))?;
				}
				m.serialize_key("z")?;
				Err(S::Error::custom("verif: map gives up after a key"))
			}
			Spec::FailAfterComplete(x) => {
				Live(x).serialize(s)?;
				Err(S::Error::custom("verif: error reported after the value was written"))
			}
		}
	}
}

/// The oracle for one value: what it means as JSON, or that it cannot be serialised.
fn oracle(s: &Spec) -> Result<Value, String> {
	serde_json::to_value(Live(s)).map_err(|e| e.to_string())
}

fn spec_kind(s: &Spec) -> &'static str {
	match s {
		Spec::FailNow => "fail-before-any-byte",
		Spec::NonStringKeys(_) => "map-with-non-string-keys",
		Spec::FailSecondField(_) => "struct-failing-in-2nd-field",
		Spec::FailSeqElem(_) => "custom-seq-failing-element",
		Spec::FailSeqNoEnd(_) => "custom-seq-no-end",
		Spec::FailMapAfterKey(_) => "custom-map-after-key",
		Spec::FailAfterComplete(_) => "custom-error-after-complete-value",
		_ => "failure-nested-in-container",
	}
}

// ---------------------------------------------------------------------------------------------------------------
// Cases.

#[derive(Clone, Debug, Serialize, Deserialize)]
#[serde(rename_all = "snake_case")]
enum Case {
	/// `ArrayParams::new()`, the inserts in order, (a clone taken before insert `clone_at`), `to_rpc_params`
	Array {
		inserts: Vec<Spec>,
		#[serde(default, skip_serializing_if = "Option::is_none")]
		clone_at: Option<usize>,
	},
	Object {
		inserts: Vec<(String, Spec)>,
		#[serde(default, skip_serializing_if = "Option::is_none")]
		clone_at: Option<usize>,
	},
	/// `rpc_params![v0, v1, ...]`
	RpcParams { values: Vec<Spec> },
	Tuple { values: Vec<Spec> },
	Vec { values: Vec<Spec> },
	Slice { values: Vec<Spec> },
	FixedArray { values: Vec<Spec> },
	/// `serde_json::Map<String, Value>`
	JsonMap { entries: Vec<(String, Value)> },
	/// a `BTreeMap<String,_>` / `HashMap<String,_>` whose entries are inserted into `ObjectParams`
	MapIntoObject { hash: bool, entries: Vec<(String, Spec)> },
	/// `BatchRequestBuilder`: (method, params case) entries
	Batch { entries: Vec<(String, Case)> },
}

#[derive(Clone, Debug, Default)]
struct Expect {
	/// Array/ObjectParams (incl. rpc_params!): "empty means no params", inserts can fail individually
	builder: bool,
	object: bool,
	items: Vec<Value>,
	pairs: Vec<(String, Value)>,
	/// inserts attempted / inserts that failed (builders)
	total: usize,
	failed: usize,
	/// non-builder shapes: the value as a whole cannot be serialised
	must_fail: bool,
}

impl Expect {
	fn n_ok(&self) -> usize {
		if self.object { self.pairs.len() } else { self.items.len() }
	}
	fn of_seq(values: &[Spec]) -> Expect {
		let mut e = Expect::default();
		for v in values {
			match oracle(v) {
				Ok(v) => e.items.push(v),
				Err(_) => e.must_fail = true,
			}
		}
		e
	}
}

struct Caught {
	msg: String,
	loc: String,
}

enum Built {
	Panic(Caught),
	Err(String),
	None,
	Some { text: String, utf8_ok: bool },
}

enum BatchIns {
	Panic(Caught),
	Err(String),
	Ok,
}

#[derive(Clone, Debug)]
struct Finding {
	sig: String,
	detail: String,
	observed: Value,
}

#[derive(Default)]
struct Stats {
	inserts_ok: u64,
	inserts_failed: u64,
	builds: u64,
	builds_after_failed: u64,
	outputs_parsed: u64,
	output_bytes: u64,
	values_compared: u64,
	panics_caught: u64,
	none_outputs: u64,
	fail_kinds: Vec<&'static str>,
	out_hashes: Vec<u64>,
	shapes: Vec<&'static str>,
	tuple_arities: Vec<usize>,
	batch_entries_checked: u64,
	/// builders obtained from `Default::default()` / left behind by `std::mem::take` instead of `new()`
	builders_from_default: u64,
	/// clones of a builder taken mid-sequence that went on with the remaining inserts
	clones_continued: u64,
}

// ---------------------------------------------------------------------------------------------------------------
// Panic handling: every call into the library goes through `guarded`.

thread_local! {
	static GUARD: Cell<u32> = const { Cell::new(0) };
	static LAST_LOC: RefCell<String> = const { RefCell::new(String::new()) };
}

fn install_hook() {
	let prev = std::panic::take_hook();
	std::panic::set_hook(Box::new(move |info| {
		if GUARD.with(|g| g.get()) > 0 {
			let loc = info.location().map(|l| format!("{}:{}", l.file(), l.line())).unwrap_or_default();
			LAST_LOC.with(|l| *l.borrow_mut() = loc);
		} else {
			// a panic of the harness itself: keep it loud
			prev(info);
		}
	}));
}

fn guarded<R>(f: impl FnOnce() -> R) -> Result<R, Caught> {
	GUARD.with(|g| g.set(g.get() + 1));
	let r = std::panic::catch_unwind(std::panic::AssertUnwindSafe(f));
	GUARD.with(|g| g.set(g.get() - 1));
	r.map_err(|p| {
		let msg = if let Some(s) = p.downcast_ref::<&str>() {
			s.to_string()
		} else if let Some(s) = p.downcast_ref::<String>() {
			s.clone()
		} else {
			"<non-string panic>".to_string()
		};
		Caught { msg, loc: LAST_LOC.with(|l| std::mem::take(&mut *l.borrow_mut())) }
	})
}

// ---------------------------------------------------------------------------------------------------------------
// Handing the assembled parameters to the library.

trait Sink {
	type Out;
	fn take<P: ToRpcParams>(self, p: P) -> Self::Out;
}

struct Direct;
impl Sink for Direct {
	type Out = Built;
	fn take<P: ToRpcParams>(self, p: P) -> Built {
		match guarded(move || p.to_rpc_params()) {
			Err(c) => Built::Panic(c),
			Ok(Err(e)) => Built::Err(e.to_string()),
			Ok(Ok(None)) => Built::None,
			Ok(Ok(Some(raw))) => built_some(&raw),
		}
	}
}

fn built_some(raw: &RawValue) -> Built {
	// The builder makes its `String` with `from_utf8_unchecked`; re-validate the bytes.
	let bytes = raw.get().as_bytes();
	let utf8_ok = std::str::from_utf8(bytes).is_ok();
	Built::Some { text: String::from_utf8_lossy(bytes).into_owned(), utf8_ok }
}

struct IntoBatch<'b, 'a> {
	b: &'b mut BatchRequestBuilder<'a>,
	method: &'a str,
}
impl Sink for IntoBatch<'_, '_> {
	type Out = BatchIns;
	fn take<P: ToRpcParams>(self, p: P) -> BatchIns {
		let IntoBatch { b, method } = self;
		match guarded(move || b.insert(method, p)) {
			Err(c) => BatchIns::Panic(c),
			Ok(Err(e)) => BatchIns::Err(e.to_string()),
			Ok(Ok(())) => BatchIns::Ok,
		}
	}
}

macro_rules! arms {
	// match on the length; each arm builds the container from the listed indices
	($v:expr, $sink:expr, $mk:ident; $( $n:literal => ($($i:tt)*) )+) => {
		match $v.len() {
			$( $n => $sink.take($mk!($v; $($i)*)), )+
			n => panic!("harness: unsupported arity {n}"),
		}
	};
}
macro_rules! mk_tuple {
	($v:expr; $($i:tt)+) => { ( $( Live(&$v[$i]), )+ ) };
}
macro_rules! mk_array {
	($v:expr; ) => { { let a: [Live<'_>; 0] = []; a } };
	($v:expr; $($i:tt)+) => { [ $( Live(&$v[$i]) ),+ ] };
}

fn feed_tuple<S: Sink>(v: &[Spec], sink: S) -> S::Out {
	arms!(v, sink, mk_tuple;
		1 => (0)
		2 => (0 1)
		3 => (0 1 2)
		4 => (0 1 2 3)
		5 => (0 1 2 3 4)
		6 => (0 1 2 3 4 5)
		7 => (0 1 2 3 4 5 6)
		8 => (0 1 2 3 4 5 6 7)
		9 => (0 1 2 3 4 5 6 7 8)
		10 => (0 1 2 3 4 5 6 7 8 9)
		11 => (0 1 2 3 4 5 6 7 8 9 10)
		12 => (0 1 2 3 4 5 6 7 8 9 10 11)
		13 => (0 1 2 3 4 5 6 7 8 9 10 11 12)
		14 => (0 1 2 3 4 5 6 7 8 9 10 11 12 13)
		15 => (0 1 2 3 4 5 6 7 8 9 10 11 12 13 14)
		16 => (0 1 2 3 4 5 6 7 8 9 10 11 12 13 14 15)
	)
}

fn feed_fixed_array<S: Sink>(v: &[Spec], sink: S) -> S::Out {
	arms!(v, sink, mk_array;
		0 => ()
		1 => (0)
		2 => (0 1)
		3 => (0 1 2)
		4 => (0 1 2 3)
		5 => (0 1 2 3 4)
		6 => (0 1 2 3 4 5)
		7 => (0 1 2 3 4 5 6)
		8 => (0 1 2 3 4 5 6 7)
	)
}

/// `rpc_params![..]` with 0..=10 arguments (the macro panics when an argument cannot be serialised).
fn make_rpc_params(v: &[Spec]) -> ArrayParams {
	match v.len() {
		0 => rpc_params![],
		1 => rpc_params![Live(&v[0])],
		2 => rpc_params![Live(&v[0]), Live(&v[1])],
		3 => rpc_params![Live(&v[0]), Live(&v[1]), Live(&v[2])],
		4 => rpc_params![Live(&v[0]), Live(&v[1]), Live(&v[2]), Live(&v[3])],
		5 => rpc_params![Live(&v[0]), Live(&v[1]), Live(&v[2]), Live(&v[3]), Live(&v[4])],
		6 => rpc_params![Live(&v[0]), Live(&v[1]), Live(&v[2]), Live(&v[3]), Live(&v[4]), Live(&v[5])],
		7 => rpc_params![Live(&v[0]), Live(&v[1]), Live(&v[2]), Live(&v[3]), Live(&v[4]), Live(&v[5]), Live(&v[6])],
		8 => rpc_params![Live(&v[0]), Live(&v[1]), Live(&v[2]), Live(&v[3]), Live(&v[4]), Live(&v[5]), Live(&v[6]), Live(&v[7])],
		9 => rpc_params![
			Live(&v[0]),
			Live(&v[1]),
			Live(&v[2]),
			Live(&v[3]),
			Live(&v[4]),
			Live(&v[5]),
			Live(&v[6]),
			Live(&v[7]),
			Live(&v[8])
		],
		10 => rpc_params![
			Live(&v[0]),
			Live(&v[1]),
			Live(&v[2]),
			Live(&v[3]),
			Live(&v[4]),
			Live(&v[5]),
			Live(&v[6]),
			Live(&v[7]),
			Live(&v[8]),
			Live(&v[9])
		],
		n => panic!("harness: unsupported rpc_params arity {n}"),
	}
}

/// Insert into the positional builder the way a caller would: native types by value / by reference where the
/// description is a native type, the generic value otherwise.
fn insert_array(b: &mut ArrayParams, s: &Spec) -> Result<(), serde_json::Error> {
	match s {
		Spec::U64(n) => b.insert(*n),
		Spec::I64(n) => b.insert(n),
		Spec::Bool(x) => b.insert(*x),
		Spec::Str(x) => b.insert(x.as_str()),
		Spec::Json(v) => b.insert(v),
		Spec::VecU32(v) => b.insert(v.clone()),
		Spec::None => b.insert(Option::<u8>::None),
		_ => b.insert(Live(s)),
	}
}

fn insert_object(b: &mut ObjectParams, k: &str, s: &Spec) -> Result<(), serde_json::Error> {
	match s {
		Spec::U64(n) => b.insert(k, *n),
		Spec::I64(n) => b.insert(k, n),
		Spec::Bool(x) => b.insert(k, *x),
		Spec::Str(x) => b.insert(k, x.clone()),
		Spec::Json(v) => b.insert(k, v.clone()),
		Spec::Bytes(v) => b.insert(k, v.as_slice()),
		_ => b.insert(k, Live(s)),
	}
}

struct Fed<O> {
	shape: &'static str,
	exp: Expect,
	findings: Vec<Finding>,
	/// None when the case was abandoned (a panic inside `insert`)
	out: Option<O>,
	/// clones of a builder taken mid-sequence, built on their own: (expectation at clone time, result)
	side: Vec<(Expect, Built)>,
}

/// One insert step: compare the reported result with the oracle and update the expectation. Returns false when
/// the sequence has to be abandoned.
fn step(
	exp: &mut Expect,
	shape: &'static str,
	idx: usize,
	key: Option<&str>,
	spec: &Spec,
	got: Result<Result<(), serde_json::Error>, Caught>,
	findings: &mut Vec<Finding>,
	st: &mut Stats,
) -> bool {
	let want = oracle(spec);
	exp.total += 1;
	match (want, got) {
		(_, Err(c)) => {
			st.panics_caught += 1;
			findings.push(Finding {
				sig: format!("panic-in-insert/{shape}"),
				detail: format!("insert #{idx} panicked: {:?} at {}", c.msg, c.loc),
				observed: json!({"insert": idx, "panic": c.msg, "at": c.loc}),
			});
			false
		}
		(Ok(v), Ok(Ok(()))) => {
			st.inserts_ok += 1;
			match key {
				Some(k) => exp.pairs.push((k.to_string(), v)),
				None => exp.items.push(v),
			}
			true
		}
		(Err(_), Ok(Err(_))) => {
			st.inserts_failed += 1;
			st.fail_kinds.push(spec_kind(spec));
			exp.failed += 1;
			true
		}
		(Ok(_), Ok(Err(e))) => {
			exp.failed += 1;
			findings.push(Finding {
				sig: format!("insert-rejected-serialisable-value/{shape}"),
				detail: format!("insert #{idx} of a serialisable value reported {e}"),
				observed: json!({"insert": idx, "error": e.to_string()}),
			});
			true
		}
		(Err(why), Ok(Ok(()))) => {
			exp.failed += 1;
			findings.push(Finding {
				sig: format!("failed-insert-not-reported/{shape}"),
				detail: format!("insert #{idx} of a value that cannot be serialised ({why}) reported success"),
				observed: json!({"insert": idx}),
			});
			true
		}
	}
}

fn feed<S: Sink>(case: &Case, sink: S, st: &mut Stats) -> Fed<S::Out> {
	let mut findings = Vec::new();
	let mut side = Vec::new();
	match case {
		Case::Array { inserts, clone_at } => {
			let shape = "array";
			let mut exp = Expect { builder: true, ..Default::default() };
			// an empty builder is an empty builder, however it was obtained
			let mut b = match (inserts.len() + clone_at.unwrap_or(1)) % 3 {
				0 => ArrayParams::new(),
				1 => {
					st.builders_from_default += 1;
					ArrayParams::default()
				}
				_ => {
					st.builders_from_default += 1;
					let mut x = ArrayParams::new();
					let _moved_out = std::mem::take(&mut x);
					x
				}
			};
			let mut snap = None;
			let mut cont = None;
			for (i, s) in inserts.iter().enumerate() {
				if *clone_at == Some(i) {
					snap = Some((exp.clone(), b.clone()));
					// a second clone goes on with the same inserts as the original: a copy of a builder is a builder
					cont = Some(b.clone());
				}
				if let Some(c) = cont.as_mut() {
					if let Err(caught) = guarded(|| insert_array(c, s).is_ok()) {
						findings.push(Finding {
							sig: "panic-in-insert-on-clone/array".to_string(),
							detail: format!("insert #{i} into a clone of the builder panicked: {:?} at {}", caught.msg, caught.loc),
							observed: json!({"insert": i, "panic": caught.msg, "at": caught.loc}),
						});
						cont = None;
					}
				}
				let got = guarded(|| insert_array(&mut b, s));
				if !step(&mut exp, shape, i, None, s, got, &mut findings, st) {
					return Fed { shape, exp, findings, out: None, side };
				}
			}
			let out = sink.take(b);
			if let Some((e, c)) = snap {
				side.push((e, Direct.take(c)));
			}
			if let Some(c) = cont {
				st.clones_continued += 1;
				side.push((exp.clone(), Direct.take(c)));
			}
			Fed { shape, exp, findings, out: Some(out), side }
		}
		Case::Object { inserts, clone_at } => {
			let shape = "object";
			let mut exp = Expect { builder: true, object: true, ..Default::default() };
			let mut b = match (inserts.len() + clone_at.unwrap_or(1)) % 3 {
				0 => ObjectParams::new(),
				1 => {
					st.builders_from_default += 1;
					ObjectParams::default()
				}
				_ => {
					st.builders_from_default += 1;
					let mut x = ObjectParams::new();
					let _moved_out = std::mem::take(&mut x);
					x
				}
			};
			let mut snap = None;
			let mut cont = None;
			for (i, (k, s)) in inserts.iter().enumerate() {
				if *clone_at == Some(i) {
					snap = Some((exp.clone(), b.clone()));
					// a second clone goes on with the same inserts as the original: a copy of a builder is a builder
					cont = Some(b.clone());
				}
				if let Some(c) = cont.as_mut() {
					if let Err(caught) = guarded(|| insert_object(c, k, s).is_ok()) {
						findings.push(Finding {
							sig: "panic-in-insert-on-clone/object".to_string(),
							detail: format!("insert #{i} into a clone of the builder panicked: {:?} at {}", caught.msg, caught.loc),
							observed: json!({"insert": i, "panic": caught.msg, "at": caught.loc}),
						});
						cont = None;
					}
				}
				let got = guarded(|| insert_object(&mut b, k, s));
				if !step(&mut exp, shape, i, Some(k), s, got, &mut findings, st) {
					return Fed { shape, exp, findings, out: None, side };
				}
			}
			let out = sink.take(b);
			if let Some((e, c)) = snap {
				side.push((e, Direct.take(c)));
			}
			if let Some(c) = cont {
				st.clones_continued += 1;
				side.push((exp.clone(), Direct.take(c)));
			}
			Fed { shape, exp, findings, out: Some(out), side }
		}
		Case::MapIntoObject { hash, entries } => {
			let shape = "object";
			let mut exp = Expect { builder: true, object: true, ..Default::default() };
			let mut b = ObjectParams::new();
			// the user's map
			let ordered: Vec<(&String, &Spec)> = if *hash {
				let m: DetHashMap<&String, &Spec> = entries.iter().map(|(k, v)| (k, v)).collect();
				m.into_iter().collect()
			} else {
				let m: BTreeMap<&String, &Spec> = entries.iter().map(|(k, v)| (k, v)).collect();
				m.into_iter().collect()
			};
			for (i, (k, s)) in ordered.into_iter().enumerate() {
				let got = guarded(|| b.insert(k, Live(s)));
				if !step(&mut exp, shape, i, Some(k), s, got, &mut findings, st) {
					return Fed { shape, exp, findings, out: None, side };
				}
			}
			Fed { shape, exp, findings, out: Some(sink.take(b)), side }
		}
		Case::RpcParams { values } => {
			let shape = "rpc_params";
			let mut exp = Expect::of_seq(values);
			exp.builder = true;
			exp.total = values.len();
			st.inserts_ok += exp.items.len() as u64;
			// the macro's panic on a value that cannot be serialised is documented; generators only give it good values
			match guarded(|| make_rpc_params(values)) {
				Ok(b) => Fed { shape, exp, findings, out: Some(sink.take(b)), side },
				Err(c) => {
					st.panics_caught += 1;
					if !exp.must_fail {
						findings.push(Finding {
							sig: format!("panic-in-insert/{shape}"),
							detail: format!("rpc_params! panicked on serialisable values: {:?} at {}", c.msg, c.loc),
							observed: json!({"panic": c.msg, "at": c.loc}),
						});
					}
					Fed { shape, exp, findings, out: None, side }
				}
			}
		}
		Case::Tuple { values } => {
			st.tuple_arities.push(values.len());
			Fed { shape: "tuple", exp: Expect::of_seq(values), findings, out: Some(feed_tuple(values, sink)), side }
		}
		Case::FixedArray { values } => {
			Fed { shape: "fixed-array", exp: Expect::of_seq(values), findings, out: Some(feed_fixed_array(values, sink)), side }
		}
		Case::Vec { values } => {
			let exp = Expect::of_seq(values);
			let out = if !values.is_empty() && values.iter().all(|v| matches!(v, Spec::U64(_))) {
				sink.take(values.iter().map(|v| if let Spec::U64(n) = v { *n } else { 0 }).collect::<Vec<u64>>())
			} else if !values.is_empty() && values.iter().all(|v| matches!(v, Spec::Str(_))) {
				sink.take(values.iter().map(|v| if let Spec::Str(s) = v { s.clone() } else { String::new() }).collect::<Vec<String>>())
			} else if !values.is_empty() && values.iter().all(|v| matches!(v, Spec::Json(_))) {
				sink.take(values.iter().map(|v| if let Spec::Json(j) = v { j.clone() } else { Value::Null }).collect::<Vec<Value>>())
			} else {
				sink.take(values.iter().map(Live).collect::<Vec<Live>>())
			};
			Fed { shape: "vec", exp, findings, out: Some(out), side }
		}
		Case::Slice { values } => {
			let exp = Expect::of_seq(values);
			let out = if !values.is_empty() && values.iter().all(|v| matches!(v, Spec::Str(_))) {
				let v: Vec<&str> = values.iter().map(|v| if let Spec::Str(s) = v { s.as_str() } else { "" }).collect();
				sink.take(&v[..])
			} else if !values.is_empty() && values.iter().all(|v| matches!(v, Spec::I64(_))) {
				let v: Vec<i64> = values.iter().map(|v| if let Spec::I64(n) = v { *n } else { 0 }).collect();
				sink.take(&v[..])
			} else {
				let v: Vec<Live> = values.iter().map(Live).collect();
				sink.take(&v[..])
			};
			Fed { shape: "slice", exp, findings, out: Some(out), side }
		}
		Case::JsonMap { entries } => {
			let m: serde_json::Map<String, Value> = entries.iter().cloned().collect();
			let exp = Expect { object: true, pairs: m.iter().map(|(k, v)| (k.clone(), v.clone())).collect(), ..Default::default() };
			Fed { shape: "json-map", exp, findings, out: Some(sink.take(m)), side }
		}
		Case::Batch { .. } => panic!("harness: a batch is not a params value"),
	}
}

// ---------------------------------------------------------------------------------------------------------------
// The oracle over one result.

struct Pairs(Vec<(String, Value)>);
impl<'de> Deserialize<'de> for Pairs {
	fn deserialize<D: serde::Deserializer<'de>>(d: D) -> Result<Self, D::Error> {
		struct V;
		impl<'de> serde::de::Visitor<'de> for V {
			type Value = Pairs;
			fn expecting(&self, f: &mut std::fmt::Formatter) -> std::fmt::Result {
				f.write_str("a JSON object")
			}
			fn visit_map<A: serde::de::MapAccess<'de>>(self, mut map: A) -> Result<Pairs, A::Error> {
				let mut out = Vec::new();
				while let Some((k, v)) = map.next_entry::<String, Value>()? {
					out.push((k, v));
				}
				Ok(Pairs(out))
			}
		}
		d.deserialize_map(V)
	}
}

fn short(s: &str) -> String {
	if s.chars().count() > 300 { format!("{}…", s.chars().take(300).collect::<String>()) } else { s.to_string() }
}

fn judge(shape: &str, exp: &Expect, built: &Built, what: &str, st: &mut Stats) -> Option<Finding> {
	st.builds += 1;
	if exp.failed > 0 {
		st.builds_after_failed += 1;
	}
	let after = if exp.failed > 0 { "-after-failed-insert" } else { "" };
	let ctx = if exp.builder {
		format!("{what}: {} insert(s), {} failed", exp.total, exp.failed)
	} else {
		what.to_string()
	};
	let mk = |kind: &str, detail: String, observed: Value| {
		Some(Finding { sig: format!("{kind}{after}/{shape}"), detail: format!("{detail} [{ctx}]"), observed })
	};
	match built {
		Built::Panic(c) => {
			st.panics_caught += 1;
			mk("panic", format!("to_rpc_params panicked: {:?} at {}", short(&c.msg), c.loc), json!({"panic": c.msg, "at": c.loc}))
		}
		Built::Err(e) => {
			if exp.must_fail {
				None
			} else if exp.builder {
				mk("build-error", format!("to_rpc_params returned Err({e})"), json!({"error": e}))
			} else {
				mk("serialisable-value-rejected", format!("to_rpc_params returned Err({e}) for serialisable values"), json!({"error": e}))
			}
		}
		Built::None => {
			st.none_outputs += 1;
			if exp.must_fail {
				mk("unserialisable-value-accepted", "to_rpc_params returned Ok(None) for a value that cannot be serialised".into(), json!(null))
			} else if exp.builder && exp.n_ok() == 0 {
				None
			} else {
				mk(
					"unexpected-none",
					format!("to_rpc_params returned None although {} value(s) were inserted successfully", exp.n_ok()),
					json!({"output": null}),
				)
			}
		}
		Built::Some { text, utf8_ok } => {
			st.output_bytes += text.len() as u64;
			st.out_hashes.push(hash_of(text.as_str()));
			if !utf8_ok {
				return mk("invalid-utf8", "output is not valid UTF-8".into(), json!({"output_lossy": text}));
			}
			if exp.must_fail {
				return mk(
					"unserialisable-value-accepted",
					"to_rpc_params produced output for a value that cannot be serialised".into(),
					json!({"output": text}),
				);
			}
			if exp.builder && exp.total == 0 {
				return mk("empty-builder-not-none", format!("an empty builder produced {text:?} instead of None"), json!({"output": text}));
			}
			let parsed: Value = match serde_json::from_str(text) {
				Ok(v) => v,
				Err(e) => {
					// Distinguish "not JSON" from "JSON by the grammar, but the reference parser cannot hold it as a value"
					// (e.g. the number 2.5e1124): the latter cannot be what was inserted, since every oracle value is a
					// serde_json::Value.
					return if serde_json::from_str::<serde::de::IgnoredAny>(text).is_ok() {
						st.outputs_parsed += 1;
						mk(
							"mismatch",
							format!("output {:?} is JSON by the grammar but not readable as the inserted values: {e}", short(text)),
							json!({"output": text, "expected": if exp.object { json!(exp.pairs) } else { json!(exp.items) }}),
						)
					} else {
						mk("invalid-json", format!("output {:?} is not JSON: {e}", short(text)), json!({"output": text}))
					};
				}
			};
			st.outputs_parsed += 1;
			if exp.builder && exp.n_ok() == 0 {
				// only failed inserts: `[]` and `{}` both mean "nothing"
				let empty = parsed.as_array().is_some_and(|a| a.is_empty()) || parsed.as_object().is_some_and(|o| o.is_empty());
				return if empty {
					None
				} else {
					mk("mismatch", format!("no insert succeeded but the output is {:?}", short(text)), json!({"output": text, "expected": "nothing"}))
				};
			}
			st.values_compared += exp.n_ok() as u64;
			if exp.object {
				let got = match serde_json::from_str::<Pairs>(text) {
					Ok(p) => p.0,
					Err(_) => {
						return mk("mismatch", format!("output {:?} is not a JSON object", short(text)), json!({"output": text}));
					}
				};
				let mut got_sorted = got.clone();
				got_sorted.sort_by(|a, b| a.0.cmp(&b.0));
				let mut want = exp.pairs.clone();
				want.sort_by(|a, b| a.0.cmp(&b.0));
				if got_sorted != want {
					let want_v: Vec<Value> = want.iter().map(|(k, v)| json!([k, v])).collect();
					let got_v: Vec<Value> = got.iter().map(|(k, v)| json!([k, v])).collect();
					return mk(
						"mismatch",
						format!("output {:?} does not hold exactly the successfully inserted pairs", short(text)),
						json!({"output": text, "expected_pairs": want_v, "got_pairs": got_v}),
					);
				}
				None
			} else {
				match &parsed {
					Value::Array(a) if *a == exp.items => None,
					_ => mk(
						"mismatch",
						format!("output {:?} does not parse back to the successfully inserted values in order", short(text)),
						json!({"output": text, "expected": exp.items}),
					),
				}
			}
		}
	}
}

fn built_from_opt(p: Option<&RawValue>) -> Built {
	match p {
		None => Built::None,
		Some(r) => built_some(r),
	}
}

fn run_batch(entries: &[(String, Case)], st: &mut Stats, findings: &mut Vec<Finding>) {
	let shape = "batch";
	st.shapes.push(shape);
	let mut b = BatchRequestBuilder::new();
	// model of what the builder must hold: (method, shape of the params, expectation)
	let mut model: Vec<(&str, &'static str, Expect)> = Vec::new();
	// what the oracle says about each accepted entry's params when they are built outside a batch
	let mut standalone: Vec<Option<String>> = Vec::new();
	for (i, (method, c)) in entries.iter().enumerate() {
		let fed = feed(c, IntoBatch { b: &mut b, method: method.as_str() }, st);
		st.shapes.push(fed.shape);
		findings.extend(fed.findings);
		let after = if fed.exp.failed > 0 { "-after-failed-insert" } else { "" };
		match fed.out {
			None => {}
			Some(BatchIns::Ok) => {
				if fed.exp.must_fail {
					findings.push(Finding {
						sig: format!("unserialisable-value-accepted/{shape}"),
						detail: format!("BatchRequestBuilder::insert #{i} accepted params that cannot be serialised"),
						observed: json!({"entry": i}),
					});
				}
				model.push((method.as_str(), fed.shape, fed.exp));
				let mut scratch = Stats::default();
				let alone = feed(c, Direct, &mut scratch);
				standalone.push(match &alone.out {
					Some(built) => judge(alone.shape, &alone.exp, built, "", &mut scratch).map(|f| f.sig),
					None => None,
				});
			}
			Some(BatchIns::Err(e)) => {
				if !fed.exp.must_fail {
					findings.push(Finding {
						sig: format!("serialisable-value-rejected/{shape}"),
						detail: format!("BatchRequestBuilder::insert #{i} returned Err({e}) for {} params that can be serialised", fed.shape),
						observed: json!({"entry": i, "error": e}),
					});
				}
			}
			Some(BatchIns::Panic(c)) => {
				st.panics_caught += 1;
				st.builds += 1;
				if fed.exp.failed > 0 {
					st.builds_after_failed += 1;
				}
				// same anomaly as building the params directly: classify by the shape of the params
				findings.push(Finding {
					sig: format!("panic{after}/{}", fed.shape),
					detail: format!(
						"to_rpc_params panicked inside BatchRequestBuilder::insert #{i}: {:?} at {} [{} insert(s), {} failed]",
						short(&c.msg),
						c.loc,
						fed.exp.total,
						fed.exp.failed
					),
					observed: json!({"entry": i, "panic": c.msg, "at": c.loc}),
				});
			}
		}
	}

	// three views of the content: iter(), into_iter() of a clone, build()
	type View = Vec<(String, Option<Box<RawValue>>)>;
	let views: Result<(View, View, Result<View, String>), Caught> = guarded(|| {
		let it: View = b.iter().map(|(m, p)| (m.to_string(), p.map(|p| p.to_owned()))).collect();
		let into: View = b.clone().into_iter().map(|(m, p)| (m.to_string(), p)).collect();
		let built = b.build().map(|v| v.into_iter().map(|(m, p)| (m.to_string(), p)).collect::<View>()).map_err(|e| e.to_string());
		(it, into, built)
	});
	let (it, into, built) = match views {
		Ok(v) => v,
		Err(c) => {
			st.panics_caught += 1;
			findings.push(Finding {
				sig: format!("panic/{shape}"),
				detail: format!("BatchRequestBuilder iter/into_iter/build panicked: {:?} at {}", c.msg, c.loc),
				observed: json!({"panic": c.msg, "at": c.loc}),
			});
			return;
		}
	};
	let mut named: Vec<(&str, View)> = vec![("iter", it), ("into_iter", into)];
	match built {
		Ok(v) => {
			if model.is_empty() {
				findings.push(Finding {
					sig: format!("batch-empty-not-rejected/{shape}"),
					detail: format!("build() of a batch without entries returned Ok with {} entries", v.len()),
					observed: json!({"entries": v.len()}),
				});
			}
			named.push(("build", v));
		}
		Err(e) => {
			if !model.is_empty() {
				findings.push(Finding {
					sig: format!("batch-nonempty-rejected/{shape}"),
					detail: format!("build() of a batch with {} accepted entries returned Err({e})", model.len()),
					observed: json!({"error": e, "accepted": model.len()}),
				});
			}
		}
	}
	for (view_name, view) in &named {
		let got_methods: Vec<&str> = view.iter().map(|(m, _)| m.as_str()).collect();
		let want_methods: Vec<&str> = model.iter().map(|(m, _, _)| *m).collect();
		if got_methods != want_methods {
			findings.push(Finding {
				sig: format!("batch-entries-differ/{shape}"),
				detail: format!("{view_name} yields methods {got_methods:?}, inserted {want_methods:?}"),
				observed: json!({"view": view_name, "got": got_methods, "expected": want_methods}),
			});
			continue;
		}
		for (i, ((_, p), (_, pshape, exp))) in view.iter().zip(model.iter()).enumerate() {
			st.batch_entries_checked += 1;
			let what = format!("batch entry #{i} seen through {view_name}");
			if let Some(f) = judge(pshape, exp, &built_from_opt(p.as_deref()), &what, st) {
				if standalone[i].as_deref() == Some(f.sig.as_str()) {
					// the params themselves are wrong (same anomaly outside a batch)
					findings.push(f);
				} else {
					// the params are fine on their own: the batch builder changed / misplaced them
					findings.push(Finding {
						sig: format!("batch-params-differ/{shape}"),
						detail: format!("the params of a batch entry are not the ones inserted with it: {}", f.detail),
						observed: f.observed,
					});
				}
			}
		}
	}
}

struct CaseReport {
	findings: Vec<Finding>,
	nontrivial: bool,
	st: Stats,
}

/// Run one case through the library and the oracle. Pure function of the case.
fn run_case(case: &Case) -> CaseReport {
	let mut st = Stats::default();
	let mut findings = Vec::new();
	match case {
		Case::Batch { entries } => run_batch(entries, &mut st, &mut findings),
		_ => {
			let fed = feed(case, Direct, &mut st);
			st.shapes.push(fed.shape);
			findings.extend(fed.findings);
			if let Some(b) = &fed.out {
				findings.extend(judge(fed.shape, &fed.exp, b, "to_rpc_params", &mut st));
			}
			for (e, b) in &fed.side {
				findings.extend(judge(fed.shape, e, b, "clone of the builder taken mid-sequence", &mut st));
			}
		}
	}
	// one finding per signature per case
	let mut seen = std::collections::BTreeSet::new();
	findings.retain(|f| seen.insert(f.sig.clone()));
	let nontrivial = st.values_compared > 0 || st.builds_after_failed > 0;
	CaseReport { findings, nontrivial, st }
}

// ---------------------------------------------------------------------------------------------------------------
// Generators.

const CHARS: [char; 12] = ['a', '"', '\\', '/', '\u{0}', '\n', '\u{7f}', 'é', '日', '😀', '\u{2028}', ','];
const DYADIC: [f64; 8] = [0.5, -2.25, 1.0, 0.0, 1024.0, -0.125, 3.0e0, 65536.5];
const U64S: [u64; 7] = [0, 1, 255, 9007199254740993, u64::MAX, 1 << 63, 4294967296];
const I64S: [i64; 6] = [0, -1, i64::MIN, i64::MAX, -9007199254740993, 42];

fn gen_entries(r: &mut Rng, depth: usize, max: usize) -> Vec<(String, Spec)> {
	let n = r.usize(max + 1);
	(0..n).map(|i| (format!("k{i}{}", jgen::string(r)), gen_ok(r, depth))).collect()
}

fn gen_list(r: &mut Rng, depth: usize, max: usize) -> Vec<Spec> {
	let n = r.usize(max + 1);
	(0..n).map(|_| gen_ok(r, depth)).collect()
}

/// A value that serialises.
fn gen_ok(r: &mut Rng, depth: usize) -> Spec {
	let k = if depth == 0 { r.below(20) } else { r.below(36) };
	let d = depth.saturating_sub(1);
	match k {
		0 => Spec::U8(r.below(256) as u8),
		1 => Spec::I8(r.below(256) as u8 as i8),
		2 => Spec::U64(if r.bool() { *r.pick(&U64S) } else { r.next_u64() >> r.below(64) }),
		3 => Spec::I64(if r.bool() { *r.pick(&I64S) } else { (r.next_u64() as i64) >> r.below(64) }),
		4 => Spec::Bool(r.bool()),
		5..=8 => Spec::Str(jgen::string(r)),
		9 => Spec::Char(*r.pick(&CHARS)),
		10 => Spec::Unit,
		11 => Spec::None,
		12 => {
			if r.bool() {
				Spec::F64(*r.pick(&DYADIC))
			} else {
				Spec::F32(*r.pick(&DYADIC) as f32)
			}
		}
		13 => {
			if r.bool() {
				Spec::Nan
			} else {
				Spec::NegInf
			}
		}
		14 => Spec::Bytes((0..r.usize(5)).map(|_| r.below(256) as u8).collect()),
		15 => Spec::VecU32((0..r.usize(5)).map(|_| r.next_u64() as u32).collect()),
		16 => {
			if r.bool() {
				Spec::UnitStruct
			} else {
				Spec::EnumUnit
			}
		}
		17 | 18 => Spec::Json(jgen::json_value(r, 2)),
		19 => Spec::Raw(jgen::json_text(r, 2)),
		20 | 21 => Spec::Json(jgen::json_value(r, 3)),
		22 => Spec::Some(Box::new(gen_ok(r, d))),
		23 => Spec::Newtype(Box::new(gen_ok(r, d))),
		24 | 25 => Spec::Seq(gen_list(r, d, 4)),
		26 => {
			let mut v = gen_list(r, d, 3);
			v.push(gen_ok(r, d));
			Spec::Tuple(v)
		}
		27 => Spec::Map(gen_entries(r, d, 3)),
		28 => Spec::Btree(gen_entries(r, d, 3)),
		29 => Spec::Hash(gen_entries(r, d, 3)),
		30 => Spec::IntKeys((0..r.usize(3)).map(|i| (i as i32 * 7 - 7, gen_ok(r, d))).collect()),
		31 | 32 => Spec::Struct(Box::new(gen_ok(r, d)), Box::new(gen_ok(r, d))),
		33 => Spec::EnumNewtype(Box::new(gen_ok(r, d))),
		34 => Spec::EnumTuple(Box::new(gen_ok(r, d)), Box::new(gen_ok(r, d))),
		_ => Spec::EnumStruct(Box::new(gen_ok(r, d))),
	}
}

/// A value whose serialisation fails (before or after emitting bytes).
fn gen_fail(r: &mut Rng, depth: usize) -> Spec {
	let k = if depth == 0 { r.below(10) } else { r.below(14) };
	let d = depth.saturating_sub(1);
	match k {
		0 => Spec::FailNow,
		1 | 2 => Spec::FailSecondField(Box::new(gen_ok(r, d))),
		3 | 4 => Spec::NonStringKeys((0..r.usize(3) + 1).map(|i| ((i as u8, r.below(256) as u8), gen_ok(r, d))).collect()),
		5 => Spec::FailSeqElem(gen_list(r, d, 3)),
		6 => Spec::FailSeqNoEnd(gen_list(r, d, 3)),
		7 => Spec::FailMapAfterKey(gen_entries(r, d, 2)),
		8 | 9 => Spec::FailAfterComplete(Box::new(gen_ok(r, d))),
		// failure nested inside ordinary containers
		10 => {
			let mut v = gen_list(r, d, 3);
			let at = r.usize(v.len() + 1);
			v.insert(at, gen_fail(r, d));
			Spec::Seq(v)
		}
		11 => Spec::Some(Box::new(gen_fail(r, d))),
		12 => {
			if r.bool() {
				Spec::Struct(Box::new(gen_ok(r, d)), Box::new(gen_fail(r, d)))
			} else {
				Spec::Struct(Box::new(gen_fail(r, d)), Box::new(gen_ok(r, d)))
			}
		}
		_ => {
			let mut es = gen_entries(r, d, 2);
			es.push(("zz".into(), gen_fail(r, d)));
			if r.bool() { Spec::Btree(es) } else { Spec::Hash(es) }
		}
	}
}

fn gen_values(r: &mut Rng, n: usize, fail_seq: bool) -> Vec<Spec> {
	(0..n).map(|_| if fail_seq && r.chance(1, 4) { gen_fail(r, 2) } else { gen_ok(r, 2) }).collect()
}

/// Unique member names, some of them needing escapes, one possibly empty.
fn gen_keys(r: &mut Rng, n: usize) -> Vec<String> {
	(0..n)
		.map(|i| {
			let base = jgen::string(r);
			// the first key is used raw (may be "", may consist only of characters that need escaping);
			// the `#i` suffix keeps the others distinct ('#' is not produced by jgen::string)
			if i == 0 { base } else { format!("{base}#{i}") }
		})
		.collect()
}

fn seq_len(r: &mut Rng) -> usize {
	match r.below(20) {
		0 => 0,
		1..=8 => r.usize(3) + 1,
		9..=15 => r.usize(6) + 1,
		_ => r.usize(10) + 1,
	}
}

const METHODS: [&str; 8] = ["say_hello", "a", "", "chain_getBlock", "sübscribe", "m\"q", "x.y/z", "say_hello"];

fn gen_case(r: &mut Rng, allow_batch: bool) -> Case {
	let k = r.below(if allow_batch { 100 } else { 92 });
	match k {
		0..=29 => {
			let n = seq_len(r);
			let fail_seq = r.chance(2, 5);
			let clone_at = if n > 0 && r.chance(1, 5) { Some(r.usize(n)) } else { None };
			Case::Array { inserts: gen_values(r, n, fail_seq), clone_at }
		}
		30..=54 => {
			let n = seq_len(r);
			let fail_seq = r.chance(2, 5);
			let clone_at = if n > 0 && r.chance(1, 5) { Some(r.usize(n)) } else { None };
			let keys = gen_keys(r, n);
			Case::Object { inserts: keys.into_iter().zip(gen_values(r, n, fail_seq)).collect(), clone_at }
		}
		55..=64 => {
			let n = r.usize(16) + 1;
			let fail_seq = r.chance(1, 10);
			Case::Tuple { values: gen_values(r, n, fail_seq) }
		}
		65..=72 => {
			let n = r.usize(11);
			Case::RpcParams { values: gen_values(r, n, false) }
		}
		73..=77 => {
			let n = if r.chance(1, 10) { r.usize(40) } else { r.usize(8) };
			let fail_seq = r.chance(1, 10);
			let values = match r.below(5) {
				0 => (0..n).map(|_| Spec::U64(r.next_u64() >> r.below(64))).collect(),
				1 => (0..n).map(|_| Spec::Str(jgen::string(r))).collect(),
				2 => (0..n).map(|_| Spec::Json(jgen::json_value(r, 2))).collect(),
				_ => gen_values(r, n, fail_seq),
			};
			Case::Vec { values }
		}
		78..=81 => {
			let n = if r.chance(1, 10) { r.usize(40) } else { r.usize(8) };
			let fail_seq = r.chance(1, 10);
			let values = match r.below(4) {
				0 => (0..n).map(|_| Spec::Str(jgen::string(r))).collect(),
				1 => (0..n).map(|_| Spec::I64((r.next_u64() as i64) >> r.below(64))).collect(),
				_ => gen_values(r, n, fail_seq),
			};
			Case::Slice { values }
		}
		82..=85 => {
			let n = r.usize(9);
			let fail_seq = r.chance(1, 10);
			Case::FixedArray { values: gen_values(r, n, fail_seq) }
		}
		86..=88 => {
			let n = r.usize(6);
			let keys = gen_keys(r, n);
			Case::JsonMap { entries: keys.into_iter().map(|k| (k, jgen::json_value(r, 2))).collect() }
		}
		89..=91 => {
			let n = r.usize(6);
			let fail_seq = r.chance(1, 4);
			let keys = gen_keys(r, n);
			Case::MapIntoObject { hash: r.bool(), entries: keys.into_iter().zip(gen_values(r, n, fail_seq)).collect() }
		}
		_ => {
			let n = r.usize(7);
			Case::Batch { entries: (0..n).map(|_| (r.pick(&METHODS).to_string(), gen_case(r, false))).collect() }
		}
	}
}

/// Cases that are run at every seed (the minimal forms of each mechanism).
fn directed_cases(small: bool) -> Vec<Case> {
	let one = || Spec::U8(1);
	let b = |s: Spec| Box::new(s);
	let mut out = Vec::new();
	let fails: Vec<Spec> = vec![
		Spec::FailNow,
		Spec::FailSecondField(b(one())),
		Spec::NonStringKeys(vec![((1, 2), one())]),
		Spec::NonStringKeys(vec![]),
		Spec::FailSeqElem(vec![one()]),
		Spec::FailSeqElem(vec![]),
		Spec::FailSeqNoEnd(vec![one()]),
		Spec::FailMapAfterKey(vec![]),
		Spec::FailAfterComplete(b(one())),
		Spec::Seq(vec![one(), Spec::FailNow]),
	];
	out.push(Case::Array { inserts: vec![], clone_at: None });
	out.push(Case::Object { inserts: vec![], clone_at: None });
	for f in &fails {
		for pattern in 0..4 {
			if small && pattern == 3 {
				continue;
			}
			let seq: Vec<Spec> = match pattern {
				0 => vec![f.clone()],
				1 => vec![one(), f.clone()],
				2 => vec![f.clone(), Spec::U8(2)],
				_ => vec![one(), f.clone(), Spec::Str("x".into()), f.clone(), Spec::U8(3)],
			};
			out.push(Case::Array { inserts: seq.clone(), clone_at: None });
			out.push(Case::Object {
				inserts: seq.into_iter().enumerate().map(|(i, s)| (format!("k{i}"), s)).collect(),
				clone_at: None,
			});
		}
	}
	// separators, escapes, big numbers, nesting
	let tricky = vec![
		Spec::Str("]],[[".into()),
		Spec::Str(",".into()),
		Spec::Str("\"\\\u{0}\u{1f}\u{7f}\u{2028}😀".into()),
		Spec::U64(u64::MAX),
		Spec::I64(i64::MIN),
		Spec::Nan,
		Spec::Unit,
		Spec::None,
		Spec::Seq(vec![]),
		Spec::Map(vec![]),
		Spec::Raw("[ 1 ,\n{\"a\" : \"]\"} ]".into()),
		Spec::Json(serde_json::from_str(&jgen::nested(if small { 20 } else { 100 }, "\",\"")).expect("nested text")),
	];
	out.push(Case::Array { inserts: tricky.clone(), clone_at: Some(5) });
	let tricky_keys = ["", "\"", "\\", "\u{0}", "a\":1,\"b", "日本", "😀", "}", ",", ":", "\\u0041", "k"];
	out.push(Case::Object {
		inserts: tricky_keys.iter().map(|k| k.to_string()).zip(tricky.clone()).collect(),
		clone_at: Some(3),
	});
	out.push(Case::MapIntoObject { hash: true, entries: tricky_keys.iter().map(|k| k.to_string()).zip(tricky.clone()).collect() });
	out.push(Case::MapIntoObject { hash: false, entries: vec![("a".into(), one()), ("b".into(), Spec::FailNow), ("c".into(), one())] });
	out.push(Case::JsonMap { entries: vec![] });
	out.push(Case::JsonMap { entries: tricky_keys.iter().enumerate().map(|(i, k)| (k.to_string(), json!([i, {"x": k}]))).collect() });
	for n in 1..=16usize {
		if small && n % 5 != 1 {
			continue;
		}
		out.push(Case::Tuple { values: (0..n).map(|i| if i % 3 == 2 { Spec::Str(format!("s{i},")) } else { Spec::U64(i as u64) }).collect() });
	}
	out.push(Case::Tuple { values: vec![one(), Spec::FailSecondField(b(one())), one()] });
	for n in 0..=10usize {
		if small && n % 4 != 0 {
			continue;
		}
		out.push(Case::RpcParams { values: (0..n).map(|i| if i % 2 == 0 { Spec::I64(-(i as i64)) } else { Spec::Str("p\"".into()) }).collect() });
	}
	for n in [0usize, 1, 8] {
		let values: Vec<Spec> = (0..n).map(|i| Spec::Seq(vec![Spec::U64(i as u64), Spec::None])).collect();
		out.push(Case::Vec { values: values.clone() });
		out.push(Case::Slice { values: values.clone() });
		out.push(Case::FixedArray { values });
	}
	out.push(Case::Vec { values: vec![one(), Spec::FailNow] });
	for n in 0..=6usize {
		if small && n % 3 != 0 {
			continue;
		}
		let entries = (0..n)
			.map(|i| {
				let c = match i % 6 {
					0 => Case::Array { inserts: vec![Spec::U64(i as u64), Spec::Str("x".into())], clone_at: None },
					1 => Case::Array { inserts: vec![], clone_at: None },
					2 => Case::Object { inserts: vec![("k".into(), Spec::Bool(true))], clone_at: None },
					3 => Case::Tuple { values: vec![one(), Spec::FailNow] },
					4 => Case::Vec { values: vec![] },
					_ => Case::RpcParams { values: vec![Spec::None] },
				};
				(METHODS[i % METHODS.len()].to_string(), c)
			})
			.collect();
		out.push(Case::Batch { entries });
	}
	out.push(Case::Batch {
		entries: vec![
			("a".into(), Case::Array { inserts: vec![one()], clone_at: None }),
			("b".into(), Case::Array { inserts: vec![one(), Spec::FailSecondField(b(one()))], clone_at: None }),
			("c".into(), Case::Object { inserts: vec![("k".into(), one())], clone_at: None }),
		],
	});
	out
}

// ---------------------------------------------------------------------------------------------------------------
// Shrinking of a failing case (candidates are strictly smaller descriptions).

fn simpler_specs(s: &Spec) -> Vec<Spec> {
	let one = Spec::U8(1);
	let is_ok = oracle(s).is_ok();
	if is_ok {
		return if matches!(s, Spec::U8(1)) { vec![] } else { vec![one] };
	}
	let mut out = Vec::new();
	let boxed = |x: Spec| Box::new(x);
	match s {
		Spec::FailSecondField(_) => out.push(Spec::FailSecondField(boxed(one.clone()))),
		Spec::FailAfterComplete(_) => out.push(Spec::FailAfterComplete(boxed(one.clone()))),
		Spec::NonStringKeys(es) if !es.is_empty() => out.push(Spec::NonStringKeys(vec![((1, 2), one.clone())])),
		Spec::FailSeqElem(xs) if !xs.is_empty() => {
			out.push(Spec::FailSeqElem(vec![]));
			out.push(Spec::FailSeqElem(vec![one.clone()]));
		}
		Spec::FailSeqNoEnd(xs) if !xs.is_empty() => {
			out.push(Spec::FailSeqNoEnd(vec![]));
			out.push(Spec::FailSeqNoEnd(vec![one.clone()]));
		}
		Spec::FailMapAfterKey(es) if !es.is_empty() => out.push(Spec::FailMapAfterKey(vec![])),
		Spec::Seq(xs) | Spec::Tuple(xs) => {
			for x in xs {
				if oracle(x).is_err() {
					out.push(x.clone());
				}
			}
		}
		Spec::Some(x) | Spec::Newtype(x) | Spec::EnumNewtype(x) | Spec::EnumStruct(x) => out.push((**x).clone()),
		Spec::Struct(a, b) | Spec::EnumTuple(a, b) => {
			for x in [a, b] {
				if oracle(x).is_err() {
					out.push((**x).clone());
				}
			}
		}
		Spec::Map(es) | Spec::Btree(es) | Spec::Hash(es) => {
			for (_, x) in es {
				if oracle(x).is_err() {
					out.push(x.clone());
				}
			}
		}
		_ => {}
	}
	out
}

fn simpler_cases(c: &Case) -> Vec<Case> {
	let mut out = Vec::new();
	fn lists(values: &[Spec], min_len: usize, mk: &dyn Fn(Vec<Spec>) -> Case, out: &mut Vec<Case>) {
		if values.len() > min_len {
			for i in 0..values.len() {
				let mut v = values.to_vec();
				v.remove(i);
				out.push(mk(v));
			}
		}
		for i in 0..values.len() {
			for s in simpler_specs(&values[i]) {
				let mut v = values.to_vec();
				v[i] = s;
				out.push(mk(v));
			}
		}
	}
	fn keyed(entries: &[(String, Spec)], mk: &dyn Fn(Vec<(String, Spec)>) -> Case, out: &mut Vec<Case>) {
		for i in 0..entries.len() {
			let mut v = entries.to_vec();
			v.remove(i);
			out.push(mk(v));
		}
		for i in 0..entries.len() {
			for s in simpler_specs(&entries[i].1) {
				let mut v = entries.to_vec();
				v[i].1 = s;
				out.push(mk(v));
			}
			if entries[i].0 != format!("k{i}") && !entries.iter().any(|(k, _)| *k == format!("k{i}")) {
				let mut v = entries.to_vec();
				v[i].0 = format!("k{i}");
				out.push(mk(v));
			}
		}
	}
	match c {
		Case::Array { inserts, clone_at } => {
			if clone_at.is_some() {
				out.push(Case::Array { inserts: inserts.clone(), clone_at: None });
			}
			let ca = *clone_at;
			lists(inserts, 0, &|v| Case::Array { clone_at: ca.filter(|c| *c < v.len()), inserts: v }, &mut out);
		}
		Case::Object { inserts, clone_at } => {
			if clone_at.is_some() {
				out.push(Case::Object { inserts: inserts.clone(), clone_at: None });
			}
			let ca = *clone_at;
			keyed(inserts, &|v| Case::Object { clone_at: ca.filter(|c| *c < v.len()), inserts: v }, &mut out);
		}
		Case::MapIntoObject { hash, entries } => {
			let h = *hash;
			keyed(entries, &|v| Case::MapIntoObject { hash: h, entries: v }, &mut out);
		}
		Case::RpcParams { values } => lists(values, 0, &|v| Case::RpcParams { values: v }, &mut out),
		Case::Tuple { values } => lists(values, 1, &|v| Case::Tuple { values: v }, &mut out),
		Case::Vec { values } => lists(values, 0, &|v| Case::Vec { values: v }, &mut out),
		Case::Slice { values } => lists(values, 0, &|v| Case::Slice { values: v }, &mut out),
		Case::FixedArray { values } => lists(values, 0, &|v| Case::FixedArray { values: v }, &mut out),
		Case::JsonMap { entries } => {
			for i in 0..entries.len() {
				let mut v = entries.clone();
				v.remove(i);
				out.push(Case::JsonMap { entries: v });
			}
			for i in 0..entries.len() {
				if entries[i].1 != json!(1) {
					let mut v = entries.clone();
					v[i].1 = json!(1);
					out.push(Case::JsonMap { entries: v });
				}
			}
		}
		Case::Batch { entries } => {
			for i in 0..entries.len() {
				let mut v = entries.clone();
				v.remove(i);
				out.push(Case::Batch { entries: v });
			}
			for i in 0..entries.len() {
				for s in simpler_cases(&entries[i].1) {
					let mut v = entries.clone();
					v[i].1 = s;
					out.push(Case::Batch { entries: v });
				}
			}
			// a single entry with the same anomaly outside the batch is simpler still
			if entries.len() == 1 {
				out.push(entries[0].1.clone());
			}
		}
	}
	out
}

fn case_text(c: &Case) -> String {
	serde_json::to_string(c).expect("case description serialises")
}

/// Size of a case for minimisation: length of its description, with the canonical small value `1` counted as one byte.
fn size_key(c: &Case) -> String {
	case_text(c).replace("{\"u8\":1}", "1")
}

fn shrink(case: &Case, sig: &str) -> Case {
	let mut cur = case.clone();
	let mut cur_len = size_key(&cur).len();
	for _round in 0..200 {
		let mut improved = false;
		for cand in simpler_cases(&cur) {
			let l = size_key(&cand).len();
			if l < cur_len && run_case(&cand).findings.iter().any(|f| f.sig == sig) {
				cur = cand;
				cur_len = l;
				improved = true;
				break;
			}
		}
		if !improved {
			break;
		}
	}
	cur
}

// ---------------------------------------------------------------------------------------------------------------
// Aggregation: one (smallest) witness per signature plus the true number of occurrences.

#[derive(Default)]
struct Agg {
	by_sig: BTreeMap<String, (u64, Violation, String)>,
	/// replay mode: report the case itself, do not minimise it
	keep_as_is: bool,
}

impl Agg {
	fn offer(&mut self, sig: &str, n: u64, v: Violation, key: String) {
		match self.by_sig.get_mut(sig) {
			None => {
				self.by_sig.insert(sig.to_string(), (n, v, key));
			}
			Some(e) => {
				e.0 += n;
				if (key.len(), &key) < (e.2.len(), &e.2) {
					e.1 = v;
					e.2 = key;
				}
			}
		}
	}
	fn merge(&mut self, other: Agg) {
		for (sig, (n, v, key)) in other.by_sig {
			self.offer(&sig, n, v, key);
		}
	}
	/// The witness first, then light-weight repeats so that `finish` shows the number of occurrences (capped).
	fn into_violations(self) -> Vec<Violation> {
		let mut out = Vec::new();
		for (sig, (n, v, _)) in self.by_sig {
			let mut v = v;
			v.detail = format!("{} ({} case(s) with this signature in this run)", v.detail, n);
			out.push(v);
			for _ in 1..n.min(1000) {
				out.push(Violation::new(sig.clone(), "", Value::Null));
			}
		}
		out
	}
}

fn make_violation(case: &Case, f: &Finding) -> (Violation, String) {
	let key = size_key(case);
	let v = Violation::new(
		f.sig.clone(),
		f.detail.clone(),
		json!({"case": case, "observed": f.observed, "how_to_read": "case = what was handed to the library (value descriptions: see enum Spec in harness/src/bin/c20.rs); observed = what came back"}),
	);
	(v, key)
}

fn record(case: &Case, ev: &mut Evidence, agg: &mut Agg) {
	let rep = run_case(case);
	ev.eval();
	let st = &rep.st;
	ev.count("inserts_ok", st.inserts_ok);
	ev.count("builders_obtained_from_default", st.builders_from_default);
	ev.count("clones_continued_with_inserts", st.clones_continued);
	ev.count("inserts_failed", st.inserts_failed);
	ev.count("to_rpc_params_results_judged", st.builds);
	ev.count("results_judged_after_a_failed_insert", st.builds_after_failed);
	ev.count("outputs_parsed_as_json", st.outputs_parsed);
	ev.count("output_bytes", st.output_bytes);
	ev.count("values_compared_with_oracle", st.values_compared);
	ev.count("panics_caught", st.panics_caught);
	ev.count("none_outputs", st.none_outputs);
	ev.count("batch_entries_checked", st.batch_entries_checked);
	for k in &st.fail_kinds {
		ev.count(&format!("failed_insert_kind/{k}"), 1);
	}
	for s in &st.shapes {
		ev.count(&format!("shape/{s}"), 1);
	}
	for a in &st.tuple_arities {
		ev.class("tuple_arity", a);
	}
	for h in &st.out_hashes {
		ev.class("output_text", h);
	}
	if let Case::Batch { entries } = case {
		ev.class("batch_len", &entries.len());
	}
	if let Case::Array { inserts, .. } = case {
		ev.class("array_seq_len", &inserts.len());
	}
	if let Case::Object { inserts, .. } = case {
		ev.class("object_seq_len", &inserts.len());
	}
	let text = case_text(case);
	if rep.nontrivial {
		ev.nontrivial(text.as_str());
	}
	let top = st.shapes.first().copied().unwrap_or("?");
	let class = if st.inserts_failed > 0 { format!("{top}+failed-insert") } else { top.to_string() };
	ev.sample_class(&class, json!(case));
	for f in &rep.findings {
		if agg.keep_as_is || agg.by_sig.contains_key(&f.sig) {
			let (v, key) = make_violation(case, f);
			agg.offer(&f.sig, 1, v, key);
		} else {
			// first time this signature is seen here: minimise the witness
			let small = shrink(case, &f.sig);
			let srep = run_case(&small);
			let sf = srep.findings.iter().find(|x| x.sig == f.sig).unwrap_or(f);
			let (v, key) = make_violation(&small, sf);
			agg.offer(&f.sig, 1, v, key);
		}
	}
}

fn workload(seed: u64, n_cases: u64, ev: &mut Evidence, agg: &mut Agg) {
	let mut r = Rng::new(seed);
	for _ in 0..n_cases {
		let case = gen_case(&mut r, true);
		record(&case, ev, agg);
	}
}

const RULE: &str = "cases = one params value handed to ToRpcParams::to_rpc_params (or to BatchRequestBuilder::insert): insert \
	sequences of 0..10 generated values into ArrayParams / ObjectParams (40% of the sequences mix in values whose Serialize fails \
	before or after emitting bytes; 20% clone the builder mid-sequence and build the clone too), rpc_params! with 0..10 good values, \
	tuples of arity 1..16, Vec and slices of 0..39 elements, fixed arrays 0..8, serde_json::Map, BTreeMap/HashMap<String,_> fed into ObjectParams, \
	BatchRequestBuilder with 0..6 entries; plus a fixed list of minimal directed cases. Non-trivial = an output text was parsed and \
	compared with the oracle values of at least one successfully inserted value, or a result was judged after at least one failed \
	insert; distinct by the full case description.";

// ---------------------------------------------------------------------------------------------------------------
// Numbers beyond what `serde_json::Value` can hold (u128 / i128 outside the 64-bit range, raw number literals with more
// digits than f64 / u64): the Value-based oracle above cannot express them, so this family compares TEXT - every
// element of the built params, taken as a raw span by the independent scanner, must be the JSON text of the inserted value.

fn bignum_family(seed: u64, n: usize) -> (Evidence, Vec<Violation>) {
	use jsonrpsee_core::params::{ArrayParams, ObjectParams};
	let mut ev = Evidence::new("");
	let mut violations = Vec::new();
	let mut r = Rng::new(seed ^ 0xb16);
	enum Big {
		U(u128),
		I(i128),
		Raw(String),
		Small(u64),
		Str(String),
	}
	let pick = |r: &mut Rng| match r.below(9) {
		0 => Big::U(u128::MAX),
		1 => Big::U(u64::MAX as u128 + 1 + r.next_u64() as u128),
		2 => Big::I(i128::MIN),
		3 => Big::I(i64::MIN as i128 - 1 - (r.next_u64() >> 8) as i128),
		4 => Big::Raw(format!("{}{}", 1 + r.below(9), (0..22 + r.usize(20)).map(|_| char::from(b'0' + r.below(10) as u8)).collect::<String>())),
		5 => Big::Raw(format!("-0.{}1", "0".repeat(20 + r.usize(20)))),
		6 => Big::Raw("1.2345678901234567890123456789e-3".to_string()),
		7 => Big::Small(r.next_u64()),
		_ => Big::Str(format!("s{}", r.below(100))),
	};
	let text_of = |b: &Big| match b {
		Big::U(x) => x.to_string(),
		Big::I(x) => x.to_string(),
		Big::Raw(t) => t.clone(),
		Big::Small(x) => x.to_string(),
		Big::Str(s) => serde_json::to_string(s).unwrap_or_default(),
	};
	for case in 0..n {
		let named = r.bool();
		let k = 1 + r.usize(5);
		let vals: Vec<Big> = (0..k).map(|_| pick(&mut r)).collect();
		let mut arr = ArrayParams::new();
		let mut obj = ObjectParams::new();
		let mut failed: Option<String> = None;
		for (i, v) in vals.iter().enumerate() {
			let key = format!("k{i}");
			let res = guarded(|| match (named, v) {
				(false, Big::U(x)) => arr.insert(*x),
				(false, Big::I(x)) => arr.insert(*x),
				(false, Big::Raw(t)) => arr.insert(RawValue::from_string(t.clone()).expect("number literal")),
				(false, Big::Small(x)) => arr.insert(*x),
				(false, Big::Str(x)) => arr.insert(x.as_str()),
				(true, Big::U(x)) => obj.insert(&key, *x),
				(true, Big::I(x)) => obj.insert(&key, *x),
				(true, Big::Raw(t)) => obj.insert(&key, RawValue::from_string(t.clone()).expect("number literal")),
				(true, Big::Small(x)) => obj.insert(&key, *x),
				(true, Big::Str(x)) => obj.insert(&key, x.as_str()),
			});
			match res {
				Ok(Ok(())) => {}
				Ok(Err(e)) => failed = Some(format!("insert {i} ({}) failed: {e}", text_of(v))),
				Err(c) => failed = Some(format!("insert {i} panicked: {}", c.msg)),
			}
		}
		let built = guarded(|| if named { obj.to_rpc_params() } else { arr.to_rpc_params() });
		ev.eval();
		ev.count("bignum_cases", 1);
		ev.nontrivial(&("bignum", case, named));
		let shape = if named { "object" } else { "array" };
		let w = json!({"family": "bignum", "named": named, "values": vals.iter().map(&text_of).collect::<Vec<_>>()});
		if let Some(f) = failed {
			violations.push(Violation::new(format!("serialisable-value-refused/{shape}:big-number"), f, w.clone()));
			continue;
		}
		let text = match built {
			Ok(Ok(Some(raw))) => raw.get().to_string(),
			other => {
				violations.push(Violation::new(format!("build-failed/{shape}:big-number"), format!("{:?}", other.map(|r| r.map(|o| o.map(|x| x.get().to_string())).map_err(|e| e.to_string())).map_err(|c| c.msg)), w.clone()));
				continue;
			}
		};
		let mut sc = jrv::classify::Scanner::new(&text);
		let Ok(node) = sc.document() else {
			violations.push(Violation::new(format!("output-not-json/{shape}:big-number"), text.clone(), w.clone()));
			continue;
		};
		let got: Vec<String> = if named { node.members.iter().map(|(_, v)| v.raw.trim().to_string()).collect() } else { node.elems.iter().map(|e| e.raw.trim().to_string()).collect() };
		let want: Vec<String> = vals.iter().map(&text_of).collect();
		if got != want {
			violations.push(Violation::new(format!("value-changed/{shape}:big-number"), format!("inserted {want:?}, the built params hold {got:?}"), w.clone()));
		}
	}
	(ev, violations)
}

fn main() {
	let ctx = Ctx::from_env("C20", "exploration");
	install_hook();

	if ctx.sub.as_deref() == Some("miri") {
		let n: u64 = ctx.arg_value("--n").and_then(|s| s.parse().ok()).unwrap_or(60);
		let mut ev = Evidence::new("");
		let mut agg = Agg::default();
		for c in directed_cases(true) {
			record(&c, &mut ev, &mut agg);
		}
		workload(Rng::fork(ctx.seed, 0x4d49).next_u64(), n, &mut ev, &mut agg);
		let found: Vec<Value> = agg.by_sig.iter().map(|(s, (n, v, _))| json!({"signature": s, "occurrences": n, "witness": v.witness})).collect();
		println!(
			"SUBRESULT {}",
			json!({"cases": ev.evaluations, "inserts_ok": ev.counter("inserts_ok"), "inserts_failed": ev.counter("inserts_failed"),
				"results_judged": ev.counter("to_rpc_params_results_judged"), "panics_caught": ev.counter("panics_caught"), "found": found})
		);
		return;
	}

	let _wd = watchdog("C20", Duration::from_secs(ctx.tier.pick(600, 3600)));
	let mut ev = Evidence::new(RULE);
	ev.assume("serde_json::to_value(v) is what a value v 'is' as JSON; serde_json::from_str is the meaning of 'parses back'");
	ev.assume("big-number family (2e3 / 1e5 builders): u128 / i128 beyond 64 bits and raw number literals with more digits than f64 / u64 hold, compared as TEXT element by element (raw spans of the independent scanner)");
	ev.assume("numbers are integers, NaN/-inf (written as null) or dyadic decimals, so equality after a re-parse is exact");
	ev.assume("nesting depth stays below serde_json's recursion limit of 128 (the reference parser could not read deeper outputs)");
	let mut agg = Agg::default();

	if let Some(path) = &ctx.replay {
		let w: Value = serde_json::from_str(&std::fs::read_to_string(path).expect("replay file")).expect("json");
		let case: Case = match serde_json::from_value(w["witness"]["case"].clone()) {
			Ok(c) => c,
			Err(e) => {
				eprintln!("harness error: replay file has no usable witness.case: {e}");
				std::process::exit(2);
			}
		};
		println!("replaying case {}", case_text(&case));
		let rep = run_case(&case);
		if rep.findings.is_empty() {
			println!("replay: the oracle accepts this case now");
		}
		for f in &rep.findings {
			println!("replay violation: {} — {} — observed {}", f.sig, f.detail, f.observed);
		}
		// count it twice under different descriptions so that the floor of `finish` is about this one case only
		agg.keep_as_is = true;
		record(&case, &mut ev, &mut agg);
		ev.nontrivial("replay");
		ev.nontrivial("replay-2");
		finish(&ctx, ev, agg.into_violations(), None);
	}

	for c in directed_cases(false) {
		record(&c, &mut ev, &mut agg);
	}
	ev.count("directed_cases", ev.evaluations);

	let total: u64 = ctx.tier.pick(200_000, 8_000_000);
	let shards = 32u64;
	let results = run_parallel((0..shards).collect(), |_, s| {
		let mut ev = Evidence::new("");
		let mut agg = Agg::default();
		workload(Rng::fork(ctx.seed, s).next_u64(), total / shards, &mut ev, &mut agg);
		(ev, agg)
	});
	for (e, a) in results {
		ev.merge(e);
		agg.merge(a);
	}
	for (sig, (n, _, _)) in &agg.by_sig {
		ev.count(&format!("cases_with/{sig}"), *n);
	}
	let mut violations = agg.into_violations();
	{
		let (e, v) = bignum_family(ctx.seed, ctx.tier.pick(2_000, 100_000));
		ev.merge(e);
		violations.extend(v);
	}

	let mut inconclusive = None;
	if ctx.tier == Tier::Thorough {
		match sanit::run_miri("c20", &["--n".into(), "60".into()], Duration::from_secs(1500)) {
			SubOutcome::Clean(v) => {
				let mut summary = v.clone();
				if let Some(o) = summary.as_object_mut() {
					let sigs: Vec<Value> = v["found"].as_array().map(|a| a.iter().map(|f| f["signature"].clone()).collect()).unwrap_or_default();
					o.insert("found".into(), Value::Array(sigs));
				}
				ev.set("miri", json!({"status": "no undefined behaviour reported", "workload": summary}));
				for f in v["found"].as_array().cloned().unwrap_or_default() {
					violations.push(Violation::new(
						f["signature"].as_str().unwrap_or("?").to_string(),
						"seen in the Miri sub-run",
						json!({"sub": "miri", "witness": f["witness"]}),
					));
				}
			}
			SubOutcome::Report { excerpt, frame } => {
				violations.push(Violation::new(format!("miri:{frame}"), "Miri reported undefined behaviour", json!({"excerpt": excerpt})))
			}
			SubOutcome::Failed(why) => {
				ev.set("miri", json!({"status": "inconclusive", "why": why}));
				inconclusive = Some(format!("Miri sub-run did not complete: {}", why.chars().take(300).collect::<String>()));
			}
		}
	}
	finish(&ctx, ev, violations, inconclusive);
}
