//! C16 — Params decoding agrees with a plain JSON parse and fails only with -32602.
//!
//! Monitor: for generated params texts and typed read scripts, every `next/optional_next/parse/one` result of the
//! real `jsonrpsee_types::Params` is compared with a reference obtained from serde_json's own framing of the same
//! text (`Vec<&RawValue>` gives the element texts; `from_str::<T>(element)` the reference value).

use jrv::jgen;
use jrv::report::*;
use jrv::rng::Rng;
use jrv::runner::*;
use jrv::sanit::{self, SubOutcome};
use jsonrpsee_types::Params;
use serde::Deserialize;
use serde_json::value::RawValue;
use serde_json::{Value, json};
use std::time::Duration;

const INVALID_PARAMS: i32 = -32602;

#[derive(Debug, Clone, Copy, PartialEq, Eq, Hash)]
enum Ty {
	U64,
	I64,
	F64,
	Bool,
	Str,
	Val,
	VecVal,
	OptU64,
	OptStr,
	Pair,
	Struct,
}
const TYS: [Ty; 11] =
	[Ty::U64, Ty::I64, Ty::F64, Ty::Bool, Ty::Str, Ty::Val, Ty::VecVal, Ty::OptU64, Ty::OptStr, Ty::Pair, Ty::Struct];

#[derive(Debug, Deserialize, PartialEq)]
struct St {
	a: u64,
	b: Option<String>,
}

#[derive(Debug, Clone, Copy, PartialEq, Eq, Hash)]
enum Read {
	Next(Ty),
	Opt(Ty),
}

/// Outcome of one read, canonicalised for comparison.
#[derive(Debug, Clone, PartialEq)]
enum Out {
	Val(String),
	Absent,
	Err(i32),
	Panic(String),
}

macro_rules! with_ty {
	($ty:expr, $f:ident, $($arg:expr),*) => {
		match $ty {
			Ty::U64 => $f::<u64>($($arg),*),
			Ty::I64 => $f::<i64>($($arg),*),
			Ty::F64 => $f::<f64>($($arg),*),
			Ty::Bool => $f::<bool>($($arg),*),
			Ty::Str => $f::<String>($($arg),*),
			Ty::Val => $f::<Value>($($arg),*),
			Ty::VecVal => $f::<Vec<Value>>($($arg),*),
			Ty::OptU64 => $f::<Option<u64>>($($arg),*),
			Ty::OptStr => $f::<Option<String>>($($arg),*),
			Ty::Pair => $f::<(u8, String)>($($arg),*),
			Ty::Struct => $f::<St>($($arg),*),
		}
	};
}

fn ref_next<T: for<'a> Deserialize<'a> + std::fmt::Debug>(elem: &str) -> Result<String, ()> {
	serde_json::from_str::<T>(elem).map(|v| format!("{v:?}")).map_err(|_| ())
}
fn ref_opt<T: for<'a> Deserialize<'a> + std::fmt::Debug>(elem: &str) -> Result<Option<String>, ()> {
	serde_json::from_str::<Option<T>>(elem).map(|v| v.map(|v| format!("{v:?}"))).map_err(|_| ())
}
fn real_next<T: for<'a> Deserialize<'a> + std::fmt::Debug>(seq: &mut jsonrpsee_types::params::ParamsSequence<'_>) -> Out {
	match seq.next::<T>() {
		Ok(v) => Out::Val(format!("{v:?}")),
		Err(e) => Out::Err(e.code()),
	}
}
fn real_opt<T: for<'a> Deserialize<'a> + std::fmt::Debug>(seq: &mut jsonrpsee_types::params::ParamsSequence<'_>) -> Out {
	match seq.optional_next::<T>() {
		Ok(Some(v)) => Out::Val(format!("{v:?}")),
		Ok(None) => Out::Absent,
		Err(e) => Out::Err(e.code()),
	}
}
fn real_parse<T: for<'a> Deserialize<'a> + std::fmt::Debug>(p: &Params<'_>) -> Out {
	match p.parse::<T>() {
		Ok(v) => Out::Val(format!("{v:?}")),
		Err(e) => Out::Err(e.code()),
	}
}
fn ref_parse<T: for<'a> Deserialize<'a> + std::fmt::Debug>(text: &str) -> Out {
	match serde_json::from_str::<T>(text) {
		Ok(v) => Out::Val(format!("{v:?}")),
		Err(_) => Out::Err(INVALID_PARAMS),
	}
}
fn real_one<T: for<'a> Deserialize<'a> + std::fmt::Debug>(p: &Params<'_>) -> Out {
	match p.one::<T>() {
		Ok(v) => Out::Val(format!("{v:?}")),
		Err(e) => Out::Err(e.code()),
	}
}
fn ref_one<T: for<'a> Deserialize<'a> + std::fmt::Debug>(text: &str) -> Out {
	match serde_json::from_str::<[T; 1]>(text) {
		Ok([v]) => Out::Val(format!("{v:?}")),
		Err(_) => Out::Err(INVALID_PARAMS),
	}
}

struct CaseResult {
	violations: Vec<Violation>,
	/// number of elements successfully read element-wise
	elems_read: usize,
	valid_array: bool,
}

fn classify_text(text: &str) -> &'static str {
	let t = text.trim();
	if t.starts_with('[') {
		let inner = if t.len() >= 2 && t.ends_with(']') { &t[1..t.len() - 1] } else { "x" };
		if !inner.is_empty() && inner.trim().is_empty() { "array-whitespace-only" } else { "array" }
	} else if t.starts_with('{') {
		"object"
	} else {
		"scalar"
	}
}

/// Run one (params text, read script) case through the real code and the reference.
fn check_case(text: Option<&str>, script: &[Read]) -> CaseResult {
	let mut violations = Vec::new();
	let witness = json!({"params_text": text, "script": format!("{script:?}")});
	let trimmed: Option<&str> = text.map(|t| t.trim());
	// Reference framing by serde_json itself.
	let elems: Option<Vec<&RawValue>> = match trimmed {
		None => Some(vec![]),
		Some(t) => serde_json::from_str::<Vec<&RawValue>>(t).ok(),
	};
	let class = text.map(classify_text).unwrap_or("absent");

	let run = std::panic::catch_unwind(std::panic::AssertUnwindSafe(|| {
		// (every other case reads the owned copy)
		let params = if script.len() % 2 == 1 { Params::new(text).into_owned() } else { Params::new(text) };
		let mut outs = Vec::new();
		let mut seq = params.sequence();
		for rd in script {
			let o = match rd {
				Read::Next(ty) => with_ty!(*ty, real_next, &mut seq),
				Read::Opt(ty) => with_ty!(*ty, real_opt, &mut seq),
			};
			outs.push(o);
		}
		outs
	}));
	let outs = match run {
		Ok(o) => o,
		Err(_) => {
			violations.push(Violation::new(format!("panic/sequence/{class}"), "sequence read panicked", witness.clone()));
			return CaseResult { violations, elems_read: 0, valid_array: elems.is_some() };
		}
	};

	let mut elems_read = 0;
	if let Some(elems) = &elems {
		// model: position + failed flag
		let mut pos = 0usize;
		let mut failed = false;
		for (i, (rd, got)) in script.iter().zip(outs.iter()).enumerate() {
			let mut bad: Option<(String, String)> = None;
			match rd {
				Read::Next(ty) => {
					if failed {
						if !matches!(got, Out::Err(INVALID_PARAMS)) {
							bad = Some(("read-after-failure".into(), format!("next after a failed read gave {got:?}")));
						}
					} else if pos < elems.len() {
						match with_ty!(*ty, ref_next, elems[pos].get()) {
							Ok(v) => {
								if *got != Out::Val(v.clone()) {
									bad = Some(("element-mismatch".into(), format!("read {i}: expected {v} got {got:?}")));
								}
								pos += 1;
								elems_read += 1;
							}
							Err(()) => {
								if !matches!(got, Out::Err(INVALID_PARAMS)) {
									bad = Some(("mismatch-not-32602".into(), format!("read {i}: expected -32602 got {got:?}")));
								}
								failed = true;
							}
						}
					} else if !matches!(got, Out::Err(INVALID_PARAMS)) {
						bad = Some(("exhaustion-not-reported".into(), format!("read {i}: past the end gave {got:?}")));
					}
				}
				Read::Opt(ty) => {
					if failed {
						if !matches!(got, Out::Err(INVALID_PARAMS) | Out::Absent) {
							bad = Some(("read-after-failure".into(), format!("optional_next after a failed read gave {got:?}")));
						}
					} else if pos < elems.len() {
						match with_ty!(*ty, ref_opt, elems[pos].get()) {
							Ok(v) => {
								let want = match v {
									Some(v) => Out::Val(v),
									None => Out::Absent,
								};
								if *got != want {
									bad = Some(("element-mismatch".into(), format!("read {i}: expected {want:?} got {got:?}")));
								}
								pos += 1;
								elems_read += 1;
							}
							Err(()) => {
								if !matches!(got, Out::Err(INVALID_PARAMS)) {
									bad = Some(("mismatch-not-32602".into(), format!("read {i}: expected -32602 got {got:?}")));
								}
								failed = true;
							}
						}
					} else if *got != Out::Absent {
						bad = Some(("optional-past-end-not-absent".into(), format!("read {i}: past the end gave {got:?}")));
					}
				}
			}
			if let Some((kind, detail)) = bad {
				violations.push(Violation::new(format!("{kind}/{class}"), detail, witness.clone()));
				break;
			}
		}
	} else {
		// not a JSON array: every read must be an error (-32602) or absent; never a value, never another code
		for (i, got) in outs.iter().enumerate() {
			match got {
				// params that are no array at all (an object, a scalar) have the wrong shape for element-wise reading:
				// the first read reports it; only after that failed read may an optional read say `absent`
				Out::Absent if i == 0 && class != "array" && trimmed.is_some_and(|t| t != "null" && !t.is_empty()) => {
					violations.push(Violation::new(
						format!("shape-mismatch-read-as-absent/{class}"),
						format!("the first element-wise read of params that are no array gave `absent` instead of -32602"),
						witness.clone(),
					));
					break;
				}
				Out::Err(INVALID_PARAMS) | Out::Absent => {}
				Out::Err(c) => {
					violations.push(Violation::new(
						format!("wrong-error-code/{class}"),
						format!("read {i} failed with code {c}"),
						witness.clone(),
					));
					break;
				}
				Out::Val(_) if class == "array" => {
					// invalid JSON that starts like an array: elements before the defect may be read
				}
				Out::Val(v) => {
					violations.push(Violation::new(
						format!("value-from-non-array/{class}"),
						format!("read {i} yielded {v}"),
						witness.clone(),
					));
					break;
				}
				Out::Panic(_) => {}
			}
		}
	}

	// Whole-value and single-value parsing vs. plain parse.
	let whole_text = trimmed.unwrap_or("null");
	let r = std::panic::catch_unwind(std::panic::AssertUnwindSafe(|| {
		let mut diffs = Vec::new();
		// the borrowed view of the text, and the owned copy that async handlers and subscription callbacks receive
		// (`into_owned()`): both are the same params
		for owned in [false, true] {
			let params = if owned { Params::new(text).into_owned() } else { Params::new(text) };
			let (p, o) = if owned { ("parse-of-owned-copy", "one-of-owned-copy") } else { ("parse", "one") };
			for ty in [Ty::VecVal, Ty::Val, Ty::Pair, Ty::Struct, Ty::OptU64] {
				let got = with_ty!(ty, real_parse, &params);
				let want = with_ty!(ty, ref_parse, whole_text);
				if got != want {
					diffs.push((p, format!("{ty:?}"), format!("{got:?}"), format!("{want:?}")));
				}
			}
			for ty in [Ty::U64, Ty::Str, Ty::Val, Ty::Struct] {
				let got = with_ty!(ty, real_one, &params);
				let want = with_ty!(ty, ref_one, whole_text);
				if got != want {
					diffs.push((o, format!("{ty:?}"), format!("{got:?}"), format!("{want:?}")));
				}
			}
		}
		diffs
	}));
	match r {
		Ok(diffs) => {
			for (api, ty, got, want) in diffs {
				violations.push(Violation::new(
					format!("{api}-differs-from-plain-parse/{class}"),
					format!("{api}::<{ty}> gave {got}, plain parse {want}"),
					witness.clone(),
				));
			}
		}
		Err(_) => violations.push(Violation::new(format!("panic/parse/{class}"), "parse/one panicked", witness.clone())),
	}

	CaseResult { violations, elems_read, valid_array: elems.is_some() && text.is_some() }
}

fn gen_script(r: &mut Rng, max: usize) -> Vec<Read> {
	let n = r.usize(max) + 1;
	(0..n).map(|_| if r.bool() { Read::Next(*r.pick(&TYS)) } else { Read::Opt(*r.pick(&TYS)) }).collect()
}

/// A script whose types match the elements (so reads succeed and reach the end).
fn matching_script(r: &mut Rng, elems: &[&RawValue], extra: usize) -> Vec<Read> {
	let mut s = Vec::new();
	for e in elems {
		let t = e.get().trim_start();
		let ty = match t.as_bytes().first() {
			Some(b'"') => *r.pick(&[Ty::Str, Ty::Val, Ty::OptStr]),
			Some(b'[') => *r.pick(&[Ty::VecVal, Ty::Val, Ty::Pair]),
			Some(b'{') => *r.pick(&[Ty::Val, Ty::Struct]),
			Some(b't') | Some(b'f') => *r.pick(&[Ty::Bool, Ty::Val]),
			Some(b'n') => *r.pick(&[Ty::OptU64, Ty::OptStr, Ty::Val]),
			_ => *r.pick(&[Ty::U64, Ty::I64, Ty::F64, Ty::Val, Ty::OptU64]),
		};
		s.push(if r.chance(1, 3) { Read::Opt(ty) } else { Read::Next(ty) });
	}
	for _ in 0..extra {
		s.push(if r.bool() { Read::Next(*r.pick(&TYS)) } else { Read::Opt(*r.pick(&TYS)) });
	}
	s
}

fn gen_array_text(r: &mut Rng) -> String {
	let n = match r.below(10) {
		0 => 0,
		1..=6 => r.usize(4) + 1,
		_ => r.usize(8) + 1,
	};
	let mut out = String::new();
	out.push_str(&jgen::ws(r, 2));
	out.push('[');
	out.push_str(&jgen::ws(r, 4));
	for i in 0..n {
		if i > 0 {
			out.push(',');
			out.push_str(&jgen::ws(r, 4));
		}
		let e = match r.below(12) {
			0 => "null".to_string(),
			1 => format!("[{},{}]", r.below(300), jgen::string_literal(r, &jgen::string(&mut r.clone()))),
			2 => format!("{{\"a\":{},\"b\":{}}}", r.below(99), if r.bool() { "null".into() } else { jgen::string_literal(r, "s]") }),
			_ => jgen::json_text(r, 3),
		};
		out.push_str(&e);
		out.push_str(&jgen::ws(r, 4));
	}
	out.push(']');
	out.push_str(&jgen::ws(r, 2));
	out
}

fn workload(seed: u64, n_cases: u64, ev: &mut Evidence, violations: &mut Vec<Violation>) {
	let mut r = Rng::new(seed);
	// fixed corner cases first
	let corner: Vec<Option<String>> = vec![
		None,
		Some("[]".into()),
		Some("[ ]".into()),
		Some(" [\n\t] ".into()),
		Some("[null]".into()),
		Some("[[]]".into()),
		Some("[ [ ] ]".into()),
		Some("[\"]\", \",\", \"[\"]".into()),
		Some("[1,2,3]".into()),
		Some("[18446744073709551615, 18446744073709551616, -9223372036854775808]".into()),
		Some("{}".into()),
		Some("{\"a\":1,\"b\":null}".into()),
		Some("null".into()),
		Some("7".into()),
		Some("\"x\"".into()),
		Some(jgen::nested(60, "1")),
		Some("[1 2]".into()),
		Some("[1,]".into()),
		Some("[,1]".into()),
		Some("[1,,2]".into()),
		Some("[".into()),
		Some("[1".into()),
	];
	let reps = if cfg!(miri) { 2 } else { 8 };
	for c in &corner {
		for _ in 0..reps {
			let script = gen_script(&mut r, 6);
			record(c.as_deref(), &script, ev, violations);
		}
	}
	for i in 0..n_cases {
		let text = match r.below(20) {
			0 => None,
			1 => Some(jgen::json_text(&mut r, 3)),
			2 => {
				// truncated / damaged array
				let t = gen_array_text(&mut r);
				let cut = r.usize(t.len().max(1));
				let mut end = cut;
				while !t.is_char_boundary(end) {
					end -= 1;
				}
				Some(t[..end].to_string())
			}
			_ => Some(gen_array_text(&mut r)),
		};
		let script = match &text {
			Some(t) if r.chance(3, 5) => match serde_json::from_str::<Vec<&RawValue>>(t.trim()) {
				Ok(elems) => {
					let extra = r.usize(3);
					matching_script(&mut r, &elems, extra)
				}
				Err(_) => gen_script(&mut r, 8),
			},
			_ => gen_script(&mut r, 8),
		};
		record(text.as_deref(), &script, ev, violations);
		if i % 997 == 0 {
			ev.sample(json!({"params_text": text, "script": format!("{script:?}")}));
		}
	}
}

fn record(text: Option<&str>, script: &[Read], ev: &mut Evidence, violations: &mut Vec<Violation>) {
	let res = check_case(text, script);
	ev.eval();
	ev.count("typed_reads", script.len() as u64);
	ev.count("elements_read_elementwise", res.elems_read as u64);
	let class = text.map(classify_text).unwrap_or("absent");
	ev.count(&format!("class_{class}"), 1);
	if res.valid_array {
		ev.count("valid_json_arrays", 1);
	}
	if res.elems_read > 0 || text.is_none() {
		// non-trivial: at least one element was read element-wise and compared (distinct by text + script)
		ev.nontrivial(&(text, script));
	}
	ev.sample_class(class, json!({"params_text": text, "script": format!("{script:?}")}));
	violations.extend(res.violations);
}

fn main() {
	let ctx = Ctx::from_env("C16", "exploration");
	if ctx.sub.as_deref() == Some("miri") {
		let n: u64 = ctx.arg_value("--n").and_then(|s| s.parse().ok()).unwrap_or(60);
		let mut ev = Evidence::new("");
		let mut v = Vec::new();
		workload(ctx.seed, n, &mut ev, &mut v);
		let sigs: Vec<String> = v.iter().map(|x| x.signature.clone()).collect();
		println!("SUBRESULT {}", json!({"cases": ev.evaluations, "typed_reads": ev.counter("typed_reads"), "violation_signatures": sigs}));
		return;
	}
	install_panic_capture(true);
	let _wd = watchdog("C16", Duration::from_secs(ctx.tier.pick(900, 5400)));
	let mut ev = Evidence::new(
		"cases = (params text, typed read script) pairs: generated JSON arrays with random interior whitespace, \
		 delimiter-laden strings, nested containers, boundary numbers, plus objects/scalars/absent/damaged texts; \
		 scripts of 1..8 next/optional_next reads over 11 target types (60% type-matched to reach the end). \
		 Non-trivial = at least one element was read element-wise and compared with serde_json's own framing \
		 (or params absent); distinct by (text, script).",
	);
	ev.assume("serde_json's Vec<&RawValue> framing and from_str::<T> are the reference for 'a plain JSON parse'");
	ev.assume("values are compared through their Debug rendering (f64 Debug is shortest round-trip, so equal text = equal bits)");
	let mut violations = Vec::new();

	if let Some(path) = &ctx.replay {
		let w: Value = serde_json::from_str(&std::fs::read_to_string(path).expect("replay file")).expect("json");
		let text = w["witness"]["params_text"].as_str().map(|s| s.to_string());
		println!("replaying params_text={text:?} with all single-type scripts");
		for ty in TYS {
			for script in [vec![Read::Next(ty); 4], vec![Read::Opt(ty); 4]] {
				record(text.as_deref(), &script, &mut ev, &mut violations);
			}
		}
		for v in &violations {
			println!("replay violation: {} — {}", v.signature, v.detail);
		}
		finish(&ctx, ev, violations, None);
	}

	let total: u64 = ctx.tier.pick(60_000, 8_000_000);
	let shards = 16u64;
	let results = run_parallel((0..shards).collect(), |_, s| {
		let mut ev = Evidence::new("");
		let mut v = Vec::new();
		workload(Rng::fork(ctx.seed, s).next_u64(), total / shards, &mut ev, &mut v);
		(ev, v)
	});
	for (e, v) in results {
		ev.merge(e);
		violations.extend(v);
	}
	for p in take_panics() {
		if p.in_library {
			violations.push(Violation::new(
				format!("panic/{}", p.location.rsplit('/').next().unwrap_or("")),
				p.message.clone(),
				json!({"location": p.location, "backtrace": p.backtrace_head}),
			));
		}
	}

	let mut inconclusive = None;
	if ctx.tier == Tier::Thorough {
		match sanit::run_miri("c16", &["--n".into(), "80".into()], Duration::from_secs(1500)) {
			SubOutcome::Clean(v) => {
				ev.set("miri", json!({"status": "no report", "workload": v}));
				for s in v["violation_signatures"].as_array().cloned().unwrap_or_default() {
					violations.push(Violation::new(s.as_str().unwrap_or("?").to_string(), "seen in the Miri sub-run", json!({"sub": "miri"})));
				}
			}
			SubOutcome::Report { excerpt, frame } => {
				violations.push(Violation::new(format!("miri:{frame}"), "Miri reported undefined behaviour", json!({"excerpt": excerpt})))
			}
			SubOutcome::Failed(why) => {
				ev.set("miri", json!({"status": "inconclusive", "why": why}));
				inconclusive = Some(format!("Miri sub-run did not complete: {}", why.chars().take(300).collect::<String>()));
			}
		}
	}
	finish(&ctx, ev, violations, inconclusive);
}
