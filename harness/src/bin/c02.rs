//! C02 — a batch is answered by one array with exactly one reply per call entry.
//!
//! Monitor: generated and enumerated JSON arrays are sent over HTTP (direct tower call) and WebSocket (in-memory
//! connection, every frame recorded until the connection is idle, then a sentinel call) under every batch
//! configuration; per entry the independent classifier (jrv::classify) says what reply the entry must get; replies
//! are matched as multisets; handler invocations are compared; each call entry is also sent alone and its reply must
//! equal the one inside the array.

use jrv::classify::{self, Expect, Kind, Node, Reply, Scanner};
use jrv::handlers::{self, Invocation, Log};
use jrv::jgen;
use jrv::memsrv::MemServer;
use jrv::msggen;
use jrv::oracle::CallWant;
use jrv::report::*;
use jrv::rng::{Rng, permutations};
use jrv::runner::*;
use jsonrpsee_server::{BatchRequestConfig, ServerConfig};
use serde_json::{Value, json};
use std::time::Duration;

const IDLE: Duration = Duration::from_secs(10);
const BATCHES_NOT_SUPPORTED: i64 = -32005;
const BATCH_TOO_LARGE: i64 = -32010;

#[derive(Debug, Clone, Copy, PartialEq, Eq, Hash)]
enum Cfg {
	Disabled,
	Limit(u32),
	Unlimited,
	/// batches unlimited, but max_response_body_size this small: the statement lets the response-size limit replace the
	/// array by ONE error object (-32011) or an entry's reply by -32008 - nothing else changes (no entry may go missing)
	SmallResponse(u32),
	/// (directed family only) batches unlimited; an RPC middleware refuses calls to `DENIED` methods: a single call is
	/// answered by the middleware itself, inside a batch the entry is replaced by `Err(BatchEntryErr::new(id, error))` -
	/// the pattern of the library's own rate-limiting example
	Deny,
	/// (directed family only) batches unlimited; `max_subscriptions_per_connection(0)`: every subscribe call is refused
	/// by the library with -32006 before any handler runs
	NoSubs,
}
const DENIED: [&str; 3] = ["echo_async", "seq3", "fail"];
const DENY_CODE: i64 = -32077;
const TOO_MANY_SUBSCRIPTIONS: i64 = -32006;
const CFGS: [Cfg; 9] =
	[Cfg::Disabled, Cfg::Limit(0), Cfg::Limit(1), Cfg::Limit(2), Cfg::Limit(3), Cfg::Limit(4), Cfg::Unlimited, Cfg::SmallResponse(200), Cfg::SmallResponse(420)];

impl Cfg {
	fn to_lib(self) -> BatchRequestConfig {
		match self {
			Cfg::Disabled => BatchRequestConfig::Disabled,
			Cfg::Limit(n) => BatchRequestConfig::Limit(n),
			Cfg::Unlimited | Cfg::SmallResponse(_) | Cfg::Deny | Cfg::NoSubs => BatchRequestConfig::Unlimited,
		}
	}
}

#[derive(Debug, Clone)]
enum EntryWant {
	Call(CallWant, &'static str),
	Invalid { id: Value, class: &'static str },
	/// a call that is refused before its handler (by the deny middleware / the subscription limit): this error code under
	/// the call's id, no invocation
	Refused { id: Value, code: i64, scalar: bool, class: &'static str },
	Nothing,
}

impl EntryWant {
	fn class(&self) -> &'static str {
		match self {
			EntryWant::Call(_, c) => c,
			EntryWant::Invalid { class, .. } => class,
			EntryWant::Refused { class, .. } => class,
			EntryWant::Nothing => "notification",
		}
	}
}

#[derive(Debug, Clone)]
enum BatchWant {
	/// one error object with id null and one of these codes; nothing executed
	SingleError(Vec<i64>, &'static str),
	/// one array holding exactly the replies of these entries
	Array(Vec<EntryWant>),
	/// no reply at all (only notifications)
	NoReply,
	Relaxed(&'static str),
}

fn entry_class(n: &Node<'_>) -> &'static str {
	match classify::classify_object(n) {
		Expect::Call { method, .. } => match method.as_str() {
			"sub" | "sub_reject" => "subscribe-call",
			"unsub" | "unsub_reject" => "unsubscribe-call",
			"panic_blocking" => "call-panicking",
			m if handlers::REGISTERED.contains(&m) => "call",
			_ => "call-unknown-method",
		},
		Expect::Notification => "notification",
		Expect::Invalid { id } => {
			if n.kind != Kind::Object {
				"non-object"
			} else if id.is_null() {
				"invalid-no-id"
			} else {
				"invalid-with-id"
			}
		}
		Expect::ParseErrorNull => "non-object",
		Expect::Relaxed(_) => "relaxed",
	}
}

fn want_for(bytes: &[u8], cfg: Cfg, http: bool) -> (BatchWant, Vec<&'static str>) {
	let not_json = |cfg: Cfg| {
		let mut codes = vec![classify::PARSE_ERROR];
		if cfg == Cfg::Disabled {
			codes.push(BATCHES_NOT_SUPPORTED);
		}
		BatchWant::SingleError(codes, "not-json")
	};
	let Ok(s) = std::str::from_utf8(bytes) else { return (not_json(cfg), vec![]) };
	let mut sc = Scanner::new(s);
	let node = match sc.document() {
		Ok(n) => n,
		Err(_) => return (not_json(cfg), vec![]),
	};
	if sc.lone_surrogate {
		return (BatchWant::Relaxed("lone surrogate escape"), vec![]);
	}
	if node.kind != Kind::Array {
		return (BatchWant::Relaxed("not an array"), vec![]);
	}
	let classes: Vec<&'static str> = node.elems.iter().map(entry_class).collect();
	if cfg == Cfg::Disabled {
		let mut codes = vec![BATCHES_NOT_SUPPORTED];
		if node.elems.is_empty() {
			codes.push(classify::INVALID_REQUEST);
		}
		return (BatchWant::SingleError(codes, "disabled"), classes);
	}
	if let Cfg::Limit(l) = cfg {
		if node.elems.len() > l as usize {
			return (BatchWant::SingleError(vec![BATCH_TOO_LARGE], "over-limit"), classes);
		}
	}
	if node.elems.is_empty() {
		return (BatchWant::SingleError(vec![classify::INVALID_REQUEST], "empty-array"), classes);
	}
	let mut wants = Vec::new();
	for (e, class) in node.elems.iter().zip(classes.iter()) {
		match classify::classify_object(e) {
			Expect::Relaxed(w) => return (BatchWant::Relaxed(w), classes),
			Expect::Notification => wants.push(EntryWant::Nothing),
			Expect::Invalid { id } => wants.push(EntryWant::Invalid { id, class }),
			Expect::ParseErrorNull => wants.push(EntryWant::Invalid { id: Value::Null, class }),
			Expect::Call { id, method, params_raw, params_kind } => {
				wants.push(EntryWant::Call(CallWant { id, method, params_raw, params_kind, http }, class))
			}
		}
	}
	for w in wants.iter_mut() {
		let EntryWant::Call(c, class) = w else { continue };
		let scalar = matches!(c.params_kind, Some(Kind::Number) | Some(Kind::String) | Some(Kind::Bool));
		if cfg == Cfg::Deny && DENIED.contains(&c.method.as_str()) {
			*w = EntryWant::Refused { id: c.id.clone(), code: DENY_CODE, scalar, class };
		} else if cfg == Cfg::NoSubs && !http && *class == "subscribe-call" {
			*w = EntryWant::Refused { id: c.id.clone(), code: TOO_MANY_SUBSCRIPTIONS, scalar, class };
		}
	}
	if wants.iter().all(|w| matches!(w, EntryWant::Nothing)) {
		return (BatchWant::NoReply, classes);
	}
	(BatchWant::Array(wants), classes)
}

/// Bipartite matching between expectations that demand a reply and the replies observed (sizes <= 10).
fn match_replies(wants: &[&EntryWant], replies: &[Reply]) -> Result<(), (String, String)> {
	fn ok(w: &EntryWant, r: &Reply) -> bool {
		match w {
			EntryWant::Call(c, _) => c.check(r).is_ok(),
			EntryWant::Invalid { id, .. } => r.error_code == Some(classify::INVALID_REQUEST) && r.id == *id,
			EntryWant::Refused { id, code, scalar, .. } => {
				r.id == *id && (r.error_code == Some(*code) || (*scalar && matches!(r.error_code, Some(classify::INVALID_PARAMS) | Some(classify::INVALID_REQUEST))))
			}
			EntryWant::Nothing => false,
		}
	}
	fn rec(i: usize, wants: &[&EntryWant], replies: &[Reply], used: &mut Vec<bool>) -> bool {
		if i == wants.len() {
			return true;
		}
		for j in 0..replies.len() {
			if !used[j] && ok(wants[i], &replies[j]) {
				used[j] = true;
				if rec(i + 1, wants, replies, used) {
					return true;
				}
				used[j] = false;
			}
		}
		false
	}
	if wants.len() == replies.len() && rec(0, wants, replies, &mut vec![false; replies.len()]) {
		return Ok(());
	}
	// name the first expectation that no reply satisfies
	for w in wants {
		if !replies.iter().any(|r| ok(w, r)) {
			return Err((format!("entry={}", w.class()), format!("no reply in the array satisfies {w:?}")));
		}
	}
	if wants.len() != replies.len() {
		return Err(("count".into(), format!("{} entries need a reply, {} replies in the array", wants.len(), replies.len())));
	}
	Err(("assignment".into(), "replies cannot be assigned one-to-one to the entries".into()))
}

struct Obs {
	/// reply frames / HTTP body (empty ⇒ none)
	frames: Vec<Vec<u8>>,
	invocations: Vec<Invocation>,
	sentinel_ok: bool,
	conn_dead: bool,
	http_status: Option<u16>,
}

fn b2s(b: &[u8]) -> String {
	String::from_utf8_lossy(b).chars().take(600).collect()
}

fn feature(classes: &[&'static str], transport: &str) -> String {
	if transport == "ws" && classes.contains(&"subscribe-call") {
		"has-subscribe-entry".into()
	} else if classes.contains(&"unsubscribe-call") && transport == "ws" {
		"has-unsubscribe-entry".into()
	} else {
		let mut c: Vec<&str> = classes.to_vec();
		c.sort();
		c.dedup();
		c.join("+")
	}
}

/// Which write put a subscribe call's response outside the array: `accept()` (a result; the open finding), `reject()`
/// (the handler's own error code), or something else (named by its code).
fn outside_kind(which: &str, r: &Reply) -> String {
	if which != "subscribe-call" || r.result_raw.is_some() {
		which.to_string()
	} else if r.error_code == Some(handlers::REJECT_CODE as i64) {
		format!("{which}:rejected-by-handler")
	} else {
		format!("{which}:error{}", r.error_code.unwrap_or(0))
	}
}

fn judge(bytes: &[u8], cfg: Cfg, transport: &str, obs: &Obs) -> Vec<Violation> {
	let (want, classes) = want_for(bytes, cfg, transport == "http");
	let feat = feature(&classes, transport);
	let mut out = Vec::new();
	let witness = json!({
		"transport": transport, "config": format!("{cfg:?}"), "batch": b2s(bytes), "entry_classes": classes,
		"frames": obs.frames.iter().map(|f| b2s(f)).collect::<Vec<_>>(), "invocations": format!("{:?}", obs.invocations),
		"want": format!("{want:?}").chars().take(1500).collect::<String>(), "http_status": obs.http_status,
	});
	let mut v = |kind: &str, feat: &str, detail: String| out.push(Violation::new(format!("{kind}/{feat}"), detail, witness.clone()));
	if transport == "ws" && (obs.conn_dead || !obs.sentinel_ok) {
		v("connection-dead-after", &feat, format!("sentinel_ok={} dead={}", obs.sentinel_ok, obs.conn_dead));
	}
	// every frame must be one response object or one array of response objects
	let mut arrays: Vec<Vec<Reply>> = Vec::new();
	let mut singles: Vec<Reply> = Vec::new();
	for f in &obs.frames {
		let first = f.iter().find(|b| !b.is_ascii_whitespace());
		if first == Some(&b'[') {
			let Ok(s) = std::str::from_utf8(f) else {
				v("malformed-reply", &feat, "array frame is not UTF-8".into());
				return out;
			};
			let mut sc = Scanner::new(s);
			match sc.document() {
				Ok(n) if n.kind == Kind::Array => {
					let mut rs = Vec::new();
					for e in &n.elems {
						match classify::parse_reply(e.raw.as_bytes()) {
							Ok(r) => rs.push(r),
							Err(e) => {
								v("malformed-reply", &feat, format!("array element: {e}"));
								return out;
							}
						}
					}
					arrays.push(rs);
				}
				_ => {
					v("malformed-reply", &feat, "array frame is not a JSON array".into());
					return out;
				}
			}
		} else {
			match classify::parse_reply(f) {
				Ok(r) => singles.push(r),
				Err(e) => {
					v("malformed-reply", &feat, e);
					return out;
				}
			}
		}
	}
	match &want {
		BatchWant::Relaxed(_) => {}
		BatchWant::SingleError(codes, which) => {
			if !obs.invocations.is_empty() {
				v("entry-executed-although-refused", which, format!("{:?}", obs.invocations));
			}
			if arrays.len() + singles.len() != 1 || singles.len() != 1 {
				v("not-one-error-object", which, format!("{} arrays, {} objects", arrays.len(), singles.len()));
			} else {
				let r = &singles[0];
				if !r.id.is_null() || !r.error_code.is_some_and(|c| codes.contains(&c)) {
					v("single-error-wrong", which, format!("expected one of {codes:?} with id null, got {r:?}"));
				}
			}
		}
		BatchWant::NoReply => {
			if !obs.frames.is_empty() {
				v("notifications-answered", &feat, format!("{} frames", obs.frames.len()));
			}
			if !obs.invocations.is_empty() {
				v("handler-ran-for-notification", &feat, format!("{:?}", obs.invocations));
			}
		}
		BatchWant::Array(wants) => {
			if let Cfg::SmallResponse(_) = cfg {
				// the whole array replaced by the one "batch response too large" error
				if arrays.is_empty() && singles.iter().filter(|r| r.id.is_null() && r.error_code == Some(-32011)).count() == 1 {
					// (a subscribe entry executed before the array was given up still writes its own frame: the open finding)
					for r in singles.iter().filter(|r| r.error_code != Some(-32011)) {
						let is_sub = wants.iter().any(|w| matches!(w, EntryWant::Call(c, class) if c.id == r.id && *class == "subscribe-call"));
						v("reply-outside-array", &format!("entry={}", if is_sub { outside_kind("subscribe-call", r) } else { "unattributed".into() }), format!("response object delivered outside the array: {r:?}"));
					}
					return out;
				}
			}
			let mut need: Vec<&EntryWant> = wants.iter().filter(|w| !matches!(w, EntryWant::Nothing)).collect();
			let mut trimmed: Vec<Vec<Reply>> = arrays.clone();
			if let (Cfg::SmallResponse(_), Some(arr)) = (cfg, trimmed.first_mut()) {
				// an entry whose own reply was too big is answered -32008 under its id: pair those off
				let mut k = 0;
				while k < arr.len() {
					if arr[k].error_code == Some(-32008) {
						// among the call entries with that id, the one that no other reply of the array answers
						let cands: Vec<usize> = need.iter().enumerate().filter(|(_, w)| matches!(w, EntryWant::Call(c, _) if c.id == arr[k].id)).map(|(i, _)| i).collect();
						let pick = cands
							.iter()
							.copied()
							.find(|i| match need[*i] {
								EntryWant::Call(c, _) => !arr.iter().any(|r| r.error_code != Some(-32008) && c.check(r).is_ok()),
								_ => false,
							})
							.or(cands.first().copied());
						if let Some(p) = pick {
							need.remove(p);
							arr.remove(k);
							continue;
						}
					}
					k += 1;
				}
			}
			let arrays = trimmed;
			// responses outside the array: one violation per such response, attributed to the entry it answers
			// (a subscribe call first, if one with that id exists)
			for r in &singles {
				let mut cands: Vec<&'static str> = wants
					.iter()
					.filter_map(|w| match w {
						EntryWant::Call(c, class) if c.id == r.id => Some(*class),
						EntryWant::Refused { id, class, .. } if *id == r.id => Some(*class),
						_ => None,
					})
					.collect();
				cands.sort_by_key(|c| if *c == "subscribe-call" { 0 } else { 1 });
				let which = cands.first().copied().unwrap_or("unattributed");
				v("reply-outside-array", &format!("entry={}", outside_kind(which, r)), format!("response object delivered outside the array: {r:?}"));
			}
			if arrays.len() != 1 {
				v("not-one-array", &feat, format!("{} array frames", arrays.len()));
			} else if let Err((which, e)) = match_replies(&need, &arrays[0]) {
				v("entries-mismatch", &which, e);
			}
			let mut want_inv: Vec<Invocation> = wants
				.iter()
				.filter_map(|w| match w {
					EntryWant::Call(c, _) => c.invocation(),
					_ => None,
				})
				.collect();
			let mut got = obs.invocations.clone();
			// scalar-params calls may be refused before the handler: drop those from both sides
			let scalar: Vec<Invocation> = wants
				.iter()
				.filter_map(|w| match w {
					EntryWant::Call(c, _) if matches!(c.params_kind, Some(Kind::Number) | Some(Kind::String) | Some(Kind::Bool)) => c.invocation(),
					_ => None,
				})
				.collect();
			for s in &scalar {
				if let Some(p) = want_inv.iter().position(|x| x == s) {
					want_inv.remove(p);
				}
				if let Some(p) = got.iter().position(|x| x == s) {
					got.remove(p);
				}
			}
			want_inv.sort();
			got.sort();
			if want_inv != got {
				// attribute to the entry whose text carries the params of the first unexpected / missing invocation
				let unexpected = got.iter().find(|g| !want_inv.contains(g));
				let missing = want_inv.iter().find(|w| !got.contains(w));
				let text = std::str::from_utf8(bytes).unwrap_or("");
				let which = if let Some(u) = unexpected {
					let mut sc = Scanner::new(text);
					let class = sc
						.document()
						.ok()
						.and_then(|n| {
							n.elems.iter().zip(classes.iter()).find(|(e, _)| e.raw.contains(u.method) && u.params.as_deref().is_none_or(|p| e.raw.contains(p))).map(|(_, c)| *c)
						})
						.unwrap_or("unattributed");
					format!("unexpected:{class}")
				} else if let Some(m) = missing {
					format!("missing:{}", m.method)
				} else {
					"multiplicity".into()
				};
				v("wrong-invocations", &which, format!("expected {want_inv:?}, got {got:?}"));
			}
		}
	}
	out
}

fn server(cfg: Cfg) -> (MemServer, Log) {
	let log = Log::default();
	let mut c = ServerConfig::builder().max_connections(1000).set_batch_request_config(cfg.to_lib());
	if let Cfg::SmallResponse(l) = cfg {
		c = c.max_response_body_size(l);
	}
	(MemServer::new(c.build(), handlers::echo_module(log.clone())), log)
}

// -------------------------------------------------------------------------------------------------------------
// generators

fn entry(r: &mut Rng, kind: u64, nonce: &str, used_ids: &mut Vec<String>) -> String {
	let fresh_id = |r: &mut Rng, used: &mut Vec<String>| {
		let id = if !used.is_empty() && r.chance(1, 6) {
			r.pick(used).clone() // duplicate id
		} else {
			match r.below(6) {
				0 => format!("\"{nonce}\""),
				1 => "null".to_string(),
				2 => r.next_u64().to_string(),
				_ => (used.len() as u64 + r.below(3) * 1000).to_string(),
			}
		};
		used.push(id.clone());
		id
	};
	match kind {
		0..=4 => {
			let m = *r.pick(&["echo_sync", "echo_async", "echo_blocking", "need_u64", "fail", "seq3", "ext_info", "ext_info_async"]);
			let params = msggen::params_token(r, nonce);
			let id = fresh_id(r, used_ids);
			msggen::Members { jsonrpc: Some("\"2.0\"".into()), id: Some(id), method: Some(format!("\"{m}\"")), params, extra: vec![] }.render(r)
		}
		5 => format!("{{\"jsonrpc\":\"2.0\",\"id\":{},\"method\":\"panic_blocking\"}}", fresh_id(r, used_ids)),
		6 => format!("{{\"jsonrpc\":\"2.0\",\"id\":{},\"method\":\"nope\",\"params\":[\"{nonce}\"]}}", fresh_id(r, used_ids)),
		7 | 8 => {
			// notification (no id, or an id outside the domain)
			let m = *r.pick(&["echo_sync", "echo_blocking", "nope"]);
			if r.bool() {
				format!("{{\"jsonrpc\":\"2.0\",\"method\":\"{m}\",\"params\":[\"{nonce}\"]}}")
			} else {
				format!("{{\"jsonrpc\":\"2.0\",\"method\":\"{m}\",\"id\":{}}}", r.pick(&["-1", "1.5", "[1]", "true", "{}"]))
			}
		}
		9 => format!("{{\"id\":{},\"method\":\"echo_sync\"}}", fresh_id(r, used_ids)), // invalid, id recoverable
		10 => (*r.pick(&["{}", "{\"jsonrpc\":\"2.0\"}", "{\"method\":5}", "{\"jsonrpc\":\"2.0\",\"method\":1,\"id\":[1]}"])).to_string(),
		11 => (*r.pick(&[
			"1",
			"null",
			"\"x\"",
			"[]",
			"[1]",
			"[\"abc\"]",
			"true",
			"[{\"jsonrpc\":\"2.0\",\"id\":1,\"method\":\"echo_sync\"}]",
			// positional look-alikes of a request / notification: still not objects
			"[\"2.0\",7,\"echo_sync\",[\"positional\"]]",
			"[\"2.0\",\"echo_blocking\",[\"positional\"]]",
			"[\"2.0\",null,\"fail\"]",
		]))
		.to_string(),
		12 => format!("{{\"jsonrpc\":\"2.0\",\"id\":{},\"method\":\"{}\",\"params\":[]}}", fresh_id(r, used_ids), if r.bool() { "sub" } else { "sub_reject" }),
		13 => format!("{{\"jsonrpc\":\"2.0\",\"id\":{},\"method\":\"unsub\",\"params\":[{}]}}", fresh_id(r, used_ids), 900_000 + r.below(1000)),
		_ => msggen::mutated_object(r, nonce),
	}
}

fn render_batch(r: &mut Rng, entries: &[String]) -> String {
	let mut out = String::new();
	out.push_str(&msggen::leading_ws(r));
	out.push('[');
	out.push_str(&jgen::ws(r, 2));
	for (i, e) in entries.iter().enumerate() {
		if i > 0 {
			out.push(',');
			out.push_str(&jgen::ws(r, 2));
		}
		out.push_str(e);
		out.push_str(&jgen::ws(r, 2));
	}
	out.push(']');
	out
}

/// Fixed entry alphabet for the exhaustive part (ids distinct per letter).
const ALPHABET: [&str; 13] = [
	r#"["2.0",77,"echo_sync",["positional"]]"#,
	"[1]",
	r#"{"jsonrpc":"2.0","id":1,"method":"echo_sync","params":["a"]}"#,
	r#"{"jsonrpc":"2.0","id":"b","method":"echo_blocking","params":{"k":2}}"#,
	r#"{"jsonrpc":"2.0","id":3,"method":"fail","params":[3]}"#,
	r#"{"jsonrpc":"2.0","id":4,"method":"nope"}"#,
	r#"{"jsonrpc":"2.0","method":"echo_sync","params":["n"]}"#,
	r#"{"jsonrpc":"2.0","method":"echo_async","id":-1}"#,
	r#"{"id":6,"method":"echo_sync"}"#,
	r#"{"foo":"bar"}"#,
	"7",
	r#"{"jsonrpc":"2.0","id":1,"method":"echo_async","params":["dup"]}"#,
	r#"{"jsonrpc":"2.0","id":10,"method":"sub","params":[]}"#,
];

#[derive(Clone)]
enum Job {
	Random { seed: u64, n: usize, max_len: usize },
	Fixed(Vec<Vec<u8>>),
}

fn random_batches(seed: u64, n: usize, max_len: usize) -> Vec<Vec<u8>> {
	let mut r = Rng::new(seed);
	let mut out = Vec::new();
	for i in 0..n {
		let len = match r.below(10) {
			0 => 0,
			1..=6 => r.usize(4) + 1,
			_ => r.usize(max_len) + 1,
		};
		let mut used = Vec::new();
		let entries: Vec<String> = (0..len)
			.map(|k| {
				let kind = r.below(15);
				entry(&mut r, kind, &format!("n{seed:x}-{i}-{k}"), &mut used)
			})
			.collect();
		if len >= 2 && len <= 4 && r.chance(1, 10) {
			// all permutations of a small batch
			for p in permutations(len) {
				let es: Vec<String> = p.iter().map(|i| entries[*i].clone()).collect();
				out.push(render_batch(&mut r, &es).into_bytes());
			}
		} else {
			let mut b = render_batch(&mut r, &entries).into_bytes();
			if r.chance(1, 25) {
				// damaged array text
				match r.below(3) {
					0 => {
						let cut = r.usize(b.len().max(1));
						b.truncate(cut.max(1));
					}
					1 => b.extend_from_slice(b"]"),
					_ => {
						let i = r.usize(b.len());
						b[i] = *r.pick(&[b',', b'[', b'}', b'"']);
					}
				}
			}
			out.push(b);
		}
	}
	out
}

fn exhaustive_batches(max_len: usize) -> Vec<Vec<u8>> {
	let mut out: Vec<Vec<u8>> = vec![b"[]".to_vec(), b" [ ] ".to_vec()];
	let mut cur: Vec<Vec<usize>> = vec![vec![]];
	for _ in 0..max_len {
		let mut next = Vec::new();
		for c in &cur {
			for a in 0..ALPHABET.len() {
				let mut n = c.clone();
				n.push(a);
				out.push(format!("[{}]", n.iter().map(|i| ALPHABET[*i]).collect::<Vec<_>>().join(",")).into_bytes());
				next.push(n);
			}
		}
		cur = next;
	}
	out
}

/// One batch on a fresh WebSocket connection: every frame until idle, then a sentinel call.
async fn ws_batch_probe(mut ws: jrv::memsrv::RawWs, log: &Log, bytes: &[u8], sid: &str) -> Obs {
	let _ = log.take();
	let sent = ws.send_bytes(bytes).await;
	let first = ws.drain_until_idle(IDLE).await;
	let sent2 = ws.send_text(&format!("{{\"jsonrpc\":\"2.0\",\"id\":\"{sid}\",\"method\":\"sentinel\"}}")).await;
	let second = ws.drain_until_idle(IDLE).await;
	let mut frames = Vec::new();
	let mut sentinel_ok = false;
	for f in first.into_iter().chain(second.into_iter()) {
		if !sentinel_ok && f.json().map(|v| v["id"] == Value::String(sid.to_string())).unwrap_or(false) {
			sentinel_ok = true;
		} else {
			frames.push(f.data);
		}
	}
	let inv = log.take();
	let o = Obs { frames, invocations: inv, sentinel_ok, conn_dead: ws.is_ended() || sent.is_err() || sent2.is_err(), http_status: None };
	ws.close().await;
	o
}

fn run_job(job_id: u64, batches: Vec<Vec<u8>>, seed: u64) -> (Evidence, Vec<Violation>) {
	let mut ev = Evidence::new("");
	let mut violations = Vec::new();
	let mut r = Rng::fork(seed, job_id);
	block_on_virtual(async {
		// one server per configuration for this job
		let servers: Vec<(Cfg, MemServer, Log)> = CFGS.iter().map(|c| { let (s, l) = server(*c); (*c, s, l) }).collect();
		let lows: Vec<(jrv::lowlevel::LowLevel, Log)> = CFGS
			.iter()
			.map(|c| {
				let log = Log::default();
				let mut cfg = ServerConfig::builder().max_connections(1000).set_batch_request_config(c.to_lib());
				if let Cfg::SmallResponse(l) = c {
					cfg = cfg.max_response_body_size(*l);
				}
				(jrv::lowlevel::LowLevel::new(cfg.build(), handlers::echo_module(log.clone())), log)
			})
			.collect();
		for (bi, bytes) in batches.iter().enumerate() {
			// every batch under 2 seeded configurations (the exhaustive job: all configurations)
			let cfg_ix: Vec<usize> = if batches.len() <= 64 && job_id >= 1_000_000 { (0..CFGS.len()).collect() } else {
				let a = r.usize(CFGS.len());
				let b = 1 + r.usize(CFGS.len() - 1);
				vec![a, (a + b) % CFGS.len()]
			};
			// the small-response configurations only see batches whose entries are all short (every single reply fits, so the
			// only thing the response limit may do is replace the whole array); other batches run unlimited instead
			let short_entries = {
				let mut sc = Scanner::new(std::str::from_utf8(bytes).unwrap_or(""));
				sc.document().ok().is_some_and(|n| n.kind == Kind::Array && n.elems.iter().all(|e| e.raw.len() <= 90))
			};
			for ci in cfg_ix {
				let ci = if matches!(CFGS[ci], Cfg::SmallResponse(_)) && !short_entries { 6 } else { ci };
				let (cfg, srv, log) = &servers[ci];
				let (want_http, classes) = want_for(bytes, *cfg, true);
				// HTTP
				let _ = log.take();
				let rep = srv.http_post(bytes.clone()).await;
				let inv = log.take();
				let body_trim = rep.body.iter().position(|b| !b.is_ascii_whitespace()).map(|s| &rep.body[s..]).unwrap_or(&[]);
				// an empty or `null` body is the HTTP acknowledgement of "no reply"
				let frames = if body_trim.is_empty() || body_trim == b"null" { vec![] } else { vec![rep.body.clone()] };
				let h = Obs { frames, invocations: inv, sentinel_ok: true, conn_dead: false, http_status: Some(rep.status) };
				violations.extend(judge(bytes, *cfg, "http", &h));
				// WS (fresh connection per batch: a subscribe entry leaves a subscription behind)
				let ws = srv.ws().await.expect("ws");
				let w = ws_batch_probe(ws, log, bytes, &format!("sentinel-{job_id}-{bi}")).await;
				violations.extend(judge(bytes, *cfg, "ws", &w));
				// the same batch through the low-level assembly (`ws::connect`), every third time
				if r.chance(1, 3) {
					let (low, low_log) = &lows[ci];
					if let Ok(lws) = low.ws().await {
						let lw = ws_batch_probe(lws, low_log, bytes, &format!("sentinel-low-{job_id}-{bi}")).await;
						let mut vs = judge(bytes, *cfg, "ws", &lw);
						for v in vs.iter_mut() {
							v.witness["entry_point"] = json!("low-level ws::connect");
						}
						violations.extend(vs);
						ev.count("ws_connect_batches", 1);
					}
				}

				// "entry alone" differential over HTTP for call entries with ids unique within the batch
				if let BatchWant::Array(wants) = &want_http {
					if let Some(arr) = h.frames.first().and_then(|f| std::str::from_utf8(f).ok()) {
						let mut sc = Scanner::new(arr);
						if let (Ok(rn), Ok(s)) = (sc.document(), std::str::from_utf8(bytes)) {
							let mut sc2 = Scanner::new(s);
							let Ok(bn) = sc2.document() else { continue };
							if rn.kind != Kind::Array {
								// (the array was replaced by one error object: nothing to compare entry by entry)
								continue;
							}
							let replies: Vec<Reply> = rn.elems.iter().filter_map(|e| classify::parse_reply(e.raw.as_bytes()).ok()).collect();
							for (k, wnt) in wants.iter().enumerate() {
								let EntryWant::Call(c, class) = wnt else { continue };
								let same_id = wants.iter().filter(|o| match o {
									EntryWant::Call(o, _) => o.id == c.id,
									EntryWant::Invalid { id, .. } => *id == c.id,
									_ => false,
								}).count();
								if same_id != 1 {
									continue;
								}
								let alone = srv.http_post(bn.elems[k].raw.as_bytes().to_vec()).await;
								let _ = log.take();
								let alone_r = classify::parse_reply(&alone.body).ok();
								let in_batch = replies.iter().find(|r| r.id == c.id).cloned();
								ev.count("alone_differentials", 1);
								if alone_r != in_batch {
									violations.push(Violation::new(
										format!("alone-differs/{class}"),
										format!("alone {alone_r:?} vs in batch {in_batch:?}"),
										json!({"batch": b2s(bytes), "entry": bn.elems[k].raw, "config": format!("{cfg:?}")}),
									));
								}
							}
						}
					}
				}

				ev.eval();
				ev.count("http_batches", 1);
				ev.count("ws_batches", 1);
				ev.count("ws_frames_observed", w.frames.len() as u64 + w.sentinel_ok as u64);
				ev.count("entries", classes.len() as u64);
				ev.count("handler_invocations", (h.invocations.len() + w.invocations.len()) as u64);
				let wclass = match &want_http {
					BatchWant::SingleError(_, w) => format!("single-error:{w}"),
					BatchWant::Array(_) => "array".into(),
					BatchWant::NoReply => "no-reply".into(),
					BatchWant::Relaxed(_) => "relaxed".into(),
				};
				ev.count(&format!("want_{wclass}"), 1);
				for c in &classes {
					ev.count(&format!("entry_{c}"), 1);
				}
				if !matches!(want_http, BatchWant::Relaxed(_)) {
					ev.nontrivial(&(bytes.as_slice(), *cfg));
				}
				ev.class("entry_class_sequences", &classes);
				ev.sample_class(&format!("{wclass}/{cfg:?}"), json!({"batch": b2s(bytes), "config": format!("{cfg:?}"), "http_status": rep.status, "http_body": b2s(&rep.body)}));
			}
		}
	});
	(ev, violations)
}

// -------------------------------------------------------------------------------------------------------------
// Directed families: configurations that cannot be expressed as a plain `ServerConfig` of the shared in-memory server.

/// RPC middleware that refuses calls to the `DENIED` methods, the way the library's rate-limiting example does.
#[derive(Clone)]
struct Deny<S> {
	inner: S,
}

fn deny_error() -> jsonrpsee_types::ErrorObjectOwned {
	jsonrpsee_types::ErrorObject::owned(DENY_CODE as i32, "Method refused", Some("admin only"))
}

impl<S> jsonrpsee_core::middleware::RpcServiceT for Deny<S>
where
	S: jsonrpsee_core::middleware::RpcServiceT<MethodResponse = jsonrpsee_server::MethodResponse> + Send + Sync + Clone + 'static,
{
	type MethodResponse = jsonrpsee_server::MethodResponse;
	type NotificationResponse = S::NotificationResponse;
	type BatchResponse = S::BatchResponse;

	fn call<'a>(&self, req: jsonrpsee_types::Request<'a>) -> impl std::future::Future<Output = Self::MethodResponse> + Send + 'a {
		let inner = self.inner.clone();
		async move {
			if DENIED.contains(&req.method_name()) {
				jsonrpsee_server::MethodResponse::error(req.id.clone().into_owned(), deny_error())
			} else {
				inner.call(req).await
			}
		}
	}

	fn batch<'a>(&self, mut b: jsonrpsee_core::middleware::Batch<'a>) -> impl std::future::Future<Output = Self::BatchResponse> + Send + 'a {
		for entry in b.iter_mut() {
			let id = match entry {
				Ok(jsonrpsee_core::middleware::BatchEntry::Call(req)) if DENIED.contains(&req.method_name()) => req.id.clone(),
				_ => continue,
			};
			*entry = Err(jsonrpsee_core::middleware::BatchEntryErr::new(id, deny_error()));
		}
		self.inner.batch(b)
	}

	fn notification<'a>(&self, n: jsonrpsee_core::middleware::Notification<'a>) -> impl std::future::Future<Output = Self::NotificationResponse> + Send + 'a {
		self.inner.notification(n)
	}
}

async fn http_obs<S, RB>(svc: &mut S, log: &Log, bytes: &[u8]) -> (Obs, Vec<u8>)
where
	S: tower::Service<http::Request<http_body_util::Full<bytes::Bytes>>, Response = http::Response<RB>>,
	S::Error: std::fmt::Debug,
	RB: http_body::Body<Data = bytes::Bytes>,
	RB::Error: std::fmt::Debug,
{
	let _ = log.take();
	let req = http::Request::builder()
		.method("POST")
		.uri("http://localhost/")
		.header("host", "localhost")
		.header("content-type", "application/json")
		.header("content-length", bytes.len())
		.body(http_body_util::Full::new(bytes::Bytes::from(bytes.to_vec())))
		.expect("request");
	let rep = jrv::memsrv::http_call(svc, req).await;
	let inv = log.take();
	let body_trim = rep.body.iter().position(|b| !b.is_ascii_whitespace()).map(|s| &rep.body[s..]).unwrap_or(&[]);
	let frames = if body_trim.is_empty() || body_trim == b"null" { vec![] } else { vec![rep.body.clone()] };
	(Obs { frames, invocations: inv, sentinel_ok: true, conn_dead: false, http_status: Some(rep.status) }, rep.body)
}

/// Batches under the deny middleware (HTTP and WebSocket) and under a subscription limit of zero (WebSocket), judged by the
/// same oracle as every other configuration; refused entries are also sent alone and must get the same response object.
fn directed_cfg_family(seed: u64, n: usize, max_len: usize) -> (Evidence, Vec<Violation>) {
	let mut ev = Evidence::new("");
	let mut violations = Vec::new();
	let batches = random_batches(seed ^ 0xd3e7, n, max_len);
	block_on_virtual(async {
		// deny middleware
		let log = Log::default();
		let builder = jsonrpsee_server::Server::builder()
			.set_config(ServerConfig::builder().max_connections(100_000).set_batch_request_config(BatchRequestConfig::Unlimited).build())
			.set_rpc_middleware(jsonrpsee_server::middleware::rpc::RpcServiceBuilder::new().layer_fn(|service| Deny { inner: service }))
			.to_service_builder();
		let (stop_handle, _server_handle) = jsonrpsee_server::stop_channel();
		let (nosubs, nosubs_log) = {
			let log = Log::default();
			let c = ServerConfig::builder().max_connections(100_000).set_batch_request_config(BatchRequestConfig::Unlimited).max_subscriptions_per_connection(0);
			(MemServer::new(c.build(), handlers::echo_module(log.clone())), log)
		};
		for (bi, bytes) in batches.iter().enumerate() {
			let (want, classes) = want_for(bytes, Cfg::Deny, true);
			let has_refused = matches!(&want, BatchWant::Array(w) if w.iter().any(|w| matches!(w, EntryWant::Refused { .. })));
			if has_refused || bi % 4 == 0 {
				let mut svc = builder.clone().build(handlers::echo_module(log.clone()), stop_handle.clone());
				let (h, _) = http_obs(&mut svc, &log, bytes).await;
				let mut vs = judge(bytes, Cfg::Deny, "http", &h);
				let (client, server) = tokio::io::duplex(1 << 20);
				let svc2 = builder.clone().build(handlers::echo_module(log.clone()), stop_handle.clone());
				let sh = stop_handle.clone();
				tokio::spawn(async move {
					let _ = jsonrpsee_server::serve_with_graceful_shutdown(server, svc2, sh.shutdown()).await;
				});
				if let Ok(ws) = jrv::memsrv::RawWs::handshake(client, "localhost", "/").await {
					let w = ws_batch_probe(ws, &log, bytes, &format!("sentinel-deny-{bi}")).await;
					vs.extend(judge(bytes, Cfg::Deny, "ws", &w));
					ev.count("deny_middleware_ws_batches", 1);
				}
				ev.eval();
				ev.count("deny_middleware_http_batches", 1);
				// refused entries alone: the same response object as inside the array
				if let (BatchWant::Array(wants), Some(arr)) = (&want, h.frames.first().and_then(|f| std::str::from_utf8(f).ok())) {
					let mut sc = Scanner::new(arr);
					let mut sc2 = Scanner::new(std::str::from_utf8(bytes).unwrap_or("[]"));
					if let (Ok(rn), Ok(bn)) = (sc.document(), sc2.document()) {
						if rn.kind == Kind::Array {
							let replies: Vec<Reply> = rn.elems.iter().filter_map(|e| classify::parse_reply(e.raw.as_bytes()).ok()).collect();
							for (k, wnt) in wants.iter().enumerate() {
								let EntryWant::Refused { id, class, .. } = wnt else { continue };
								let same_id = wants.iter().filter(|o| match o {
									EntryWant::Call(o, _) => o.id == *id,
									EntryWant::Invalid { id: i, .. } | EntryWant::Refused { id: i, .. } => i == id,
									_ => false,
								}).count();
								if same_id != 1 {
									continue;
								}
								let mut svc = builder.clone().build(handlers::echo_module(log.clone()), stop_handle.clone());
								let (_, alone_body) = http_obs(&mut svc, &log, bn.elems[k].raw.as_bytes()).await;
								let alone_r = classify::parse_reply(&alone_body).ok();
								let in_batch = replies.iter().find(|r| r.id == *id).cloned();
								ev.count("deny_middleware_alone_differentials", 1);
								if alone_r != in_batch {
									vs.push(Violation::new(
										format!("alone-differs/{class}:refused-by-middleware"),
										format!("alone {alone_r:?} vs in batch {in_batch:?}"),
										json!({"batch": b2s(bytes), "entry": bn.elems[k].raw, "config": "Deny"}),
									));
								} else if in_batch.is_some() {
									ev.nontrivial(&("deny", bytes.as_slice(), k));
								}
							}
						}
					}
				}
				for v in vs.iter_mut() {
					v.witness["family"] = json!("deny-middleware");
					v.witness["seed"] = json!(seed);
				}
				violations.extend(vs);
			}
			// subscription limit zero (WebSocket only: HTTP refuses subscriptions anyway)
			if classes.contains(&"subscribe-call") {
				let ws = nosubs.ws().await.expect("ws");
				let w = ws_batch_probe(ws, &nosubs_log, bytes, &format!("sentinel-nosubs-{bi}")).await;
				let mut vs = judge(bytes, Cfg::NoSubs, "ws", &w);
				for v in vs.iter_mut() {
					v.witness["family"] = json!("no-subscriptions-allowed");
					v.witness["seed"] = json!(seed);
				}
				if vs.is_empty() {
					ev.nontrivial(&("nosubs", bytes.as_slice()));
				}
				violations.extend(vs);
				ev.eval();
				ev.count("subscription_limit_zero_ws_batches", 1);
			}
		}
	});
	(ev, violations)
}

/// Directed family: under a small `max_response_body_size` one entry's own reply is too big. That entry is answered
/// -32008 under its id INSIDE the array; the array made of the short replies and that small error object fits the limit
/// (the harness computes its exact size and keeps a margin), so it must arrive as an array, every call executed.
fn oversized_entry_family(seed: u64, n: usize) -> (Evidence, Vec<Violation>) {
	let mut ev = Evidence::new("");
	let mut violations = Vec::new();
	const LIMIT: u32 = 420;
	block_on_virtual(async {
		let mut r = Rng::new(seed ^ 0x0e5);
		let (srv, log) = server(Cfg::SmallResponse(LIMIT));
		for i in 0..n {
			let k = 1 + r.usize(3);
			let big_at = r.usize(k + 1);
			let mut entries: Vec<String> = Vec::new();
			let mut replies: Vec<String> = Vec::new();
			let mut ids: Vec<Value> = Vec::new();
			for j in 0..=k {
				let id = json!(i * 10 + j);
				let method = *r.pick(&["echo_sync", "echo_async", "echo_blocking"]);
				let params = if j == big_at { format!("[\"{}\"]", "B".repeat(450 + r.usize(450))) } else { format!("[{j},\"s{i}\"]") };
				entries.push(format!("{{\"jsonrpc\":\"2.0\",\"id\":{id},\"method\":\"{method}\",\"params\":{params}}}"));
				replies.push(if j == big_at {
					format!("{{\"jsonrpc\":\"2.0\",\"id\":{id},\"error\":{{\"code\":-32008,\"message\":\"Response is too big\",\"data\":\"Exceeded max limit of {LIMIT}\"}}}}")
				} else {
					format!("{{\"jsonrpc\":\"2.0\",\"id\":{id},\"result\":{params}}}")
				});
				ids.push(id);
			}
			let array_len = replies.iter().map(|x| x.len() + 1).sum::<usize>() + 1;
			if array_len + 40 > LIMIT as usize {
				continue;
			}
			let batch = format!("[{}]", entries.join(","));
			for transport in ["http", "ws"] {
				let _ = log.take();
				let frames: Vec<Vec<u8>> = if transport == "http" {
					let rep = srv.http_post(batch.clone().into_bytes()).await;
					vec![rep.body]
				} else {
					let ws = srv.ws().await.expect("ws");
					ws_batch_probe(ws, &log, batch.as_bytes(), &format!("sentinel-oe-{seed}-{i}")).await.frames
				};
				let inv = if transport == "http" { log.take() } else { Vec::new() };
				ev.eval();
				ev.count("oversized_entry_batches", 1);
				let w = json!({"family": "oversized-entry", "seed": seed, "transport": transport, "batch": b2s(batch.as_bytes()), "frames": frames.iter().map(|f| b2s(f)).collect::<Vec<_>>(), "array_len_if_kept": array_len, "limit": LIMIT});
				let parsed: Option<Vec<Value>> = if frames.len() == 1 { serde_json::from_slice::<Value>(&frames[0]).ok().and_then(|v| v.as_array().cloned()) } else { None };
				match parsed {
					None => violations.push(Violation::new(
						format!("array-replaced-although-it-fits/one-entry-too-big/{transport}"),
						format!("the array with the oversized entry answered -32008 has {array_len} bytes (limit {LIMIT}), yet the reply is {:?}", frames.iter().map(|f| b2s(f)).collect::<Vec<_>>()),
						w,
					)),
					Some(arr) => {
						let mut ok = arr.len() == ids.len();
						for (j, id) in ids.iter().enumerate() {
							let Some(rp) = arr.iter().find(|x| x["id"] == *id) else {
								ok = false;
								continue;
							};
							if j == big_at {
								ok &= rp["error"]["code"] == json!(-32008);
							} else {
								ok &= rp.get("result").is_some();
							}
						}
						if !ok {
							violations.push(Violation::new(format!("entries-mismatch/one-entry-too-big/{transport}"), format!("expected {} replies, the one at {big_at} being -32008: {}", ids.len(), b2s(&frames[0])), w));
						} else if transport == "http" && inv.len() != ids.len() {
							violations.push(Violation::new(format!("wrong-invocations/one-entry-too-big/{transport}"), format!("{} handler invocations for {} calls", inv.len(), ids.len()), w));
						} else {
							ev.nontrivial(&("oversized-entry", seed, i, transport));
						}
					}
				}
			}
		}
	});
	(ev, violations)
}

/// Directed family: request and response limits differ (1 KiB for requests, the default for responses) and the handlers
/// answer with far more than they are sent, so that the reply array lies between the two limits: only the RESPONSE limit may
/// replace an array, and it is nowhere near. Through the tower service and through the low-level `ws::connect` assembly.
fn unequal_limits_family(seed: u64, n: usize) -> (Evidence, Vec<Violation>) {
	let mut ev = Evidence::new("");
	let mut violations = Vec::new();
	block_on_virtual(async {
		let mut r = Rng::new(seed ^ 0x71e9);
		let grow = || {
			let mut m = jsonrpsee_server::RpcModule::new(());
			m.register_method("grow", |p, _, _| {
				let n: usize = p.one().unwrap_or(0);
				"g".repeat(n)
			})
			.unwrap();
			m.register_method("sentinel", |_, _, _| 1u8).unwrap();
			m
		};
		let cfg = ServerConfig::builder().max_connections(100_000).max_request_body_size(1024).set_batch_request_config(BatchRequestConfig::Unlimited).build();
		let low = jrv::lowlevel::LowLevel::new(cfg.clone(), grow());
		let srv = MemServer::new(cfg, grow());
		let log = Log::default();
		for i in 0..n {
			let k = 2 + r.usize(4);
			let sizes: Vec<usize> = (0..k).map(|_| 300 + r.usize(300)).collect();
			let batch = format!("[{}]", sizes.iter().enumerate().map(|(j, s)| format!("{{\"jsonrpc\":\"2.0\",\"id\":{j},\"method\":\"grow\",\"params\":[{s}]}}")).collect::<Vec<_>>().join(","));
			for entry in ["tower-ws", "ws-connect"] {
				let ws = if entry == "tower-ws" { srv.ws().await.ok() } else { low.ws().await.ok() };
				let Some(ws) = ws else { continue };
				let o = ws_batch_probe(ws, &log, batch.as_bytes(), &format!("sentinel-ul-{seed}-{i}")).await;
				ev.eval();
				ev.count("unequal_limits_batches", 1);
				let arr: Option<Vec<Value>> = if o.frames.len() == 1 { serde_json::from_slice::<Value>(&o.frames[0]).ok().and_then(|v| v.as_array().cloned()) } else { None };
				let ok = arr.as_ref().is_some_and(|a| a.len() == k && sizes.iter().enumerate().all(|(j, s)| a.iter().any(|x| x["id"] == json!(j) && x["result"].as_str().map(|t| t.len()) == Some(*s))));
				if ok {
					ev.nontrivial(&("unequal-limits", seed, i, entry));
				} else {
					violations.push(Violation::new(
						format!("array-replaced-although-it-fits/request-limit-below-reply-size/{entry}"),
						format!("max_request_body_size 1024, max_response_body_size default: a batch of {k} calls whose replies have {:?} bytes was answered {:?}", sizes, o.frames.iter().map(|f| b2s(f)).collect::<Vec<_>>()),
						json!({"family": "unequal-limits", "seed": seed, "entry": entry, "batch": batch}),
					));
				}
			}
		}
	});
	(ev, violations)
}

fn main() {
	let ctx = Ctx::from_env("C02", "exploration");
	install_panic_capture(true);
	let _wd = watchdog("C02", Duration::from_secs(ctx.tier.pick(900, 7200)));
	let mut ev = Evidence::new(
		"cases = (batch text, batch configuration) pairs, each run over HTTP (direct tower call) and WebSocket (in-memory, all \
		 frames until idle + sentinel): exhaustive arrays up to length 2 (quick) / 3 (thorough) over a 13-entry alphabet under \
		 all 7 configurations; seeded batches of 0..6/8 entries over 15 entry kinds (valid calls to 7 methods, notifications, \
		 invalid objects with/without id, non-objects, duplicate ids, subscribe/unsubscribe calls, mutated objects), all \
		 permutations of some small batches, damaged array texts. Non-trivial = definite expectation (not relaxed); distinct by \
		 (text, configuration).",
	);
	ev.assume("relaxed: entries with duplicate member names / lone surrogates; scalar params may be refused before the handler");
	ev.assume("invalid entries inside an array must be answered -32600 (statement), the id being the entry's id when it is in the id domain, else null");
	ev.assume("mode D: no further WebSocket frame = connection idle for 10 virtual seconds");
	let mut violations = Vec::new();

	let jobs: Vec<(u64, Job)> = if let Some(path) = &ctx.replay {
		let w: Value = serde_json::from_str(&std::fs::read_to_string(path).expect("replay")).expect("json");
		let b = w["witness"]["batch"].as_str().unwrap_or("[]").as_bytes().to_vec();
		println!("replaying batch {:?} under all configurations", b2s(&b));
		vec![(1_000_000, Job::Fixed(vec![b]))]
	} else {
		let mut jobs = Vec::new();
		let n = ctx.tier.pick(12_000usize, 1_200_000usize);
		let per = 40;
		for c in 0..(n / per) {
			jobs.push((c as u64, Job::Random { seed: Rng::fork(ctx.seed, c as u64).next_u64(), n: per, max_len: ctx.tier.pick(6, 8) }));
		}
		for (i, c) in exhaustive_batches(ctx.tier.pick(2, 3)).chunks(48).enumerate() {
			jobs.push((1_000_000 + i as u64, Job::Fixed(c.to_vec())));
		}
		jobs
	};
	let seed = ctx.seed;
	let results = run_parallel(jobs, |_, (id, job)| {
		let batches = match job {
			Job::Random { seed, n, max_len } => random_batches(seed, n, max_len),
			Job::Fixed(b) => b,
		};
		run_job(id, batches, seed)
	});
	for (e, v) in results {
		ev.merge(e);
		violations.extend(v);
	}
	if ctx.replay.is_none() {
		let n = ctx.tier.pick(1_600usize, 64_000);
		let max_len = ctx.tier.pick(6, 8);
		let res = run_parallel((0..16u64).collect(), |_, shard| directed_cfg_family(Rng::fork(seed, 5_000_000 + shard).next_u64(), n / 16, max_len));
		for (e, v) in res {
			ev.merge(e);
			violations.extend(v);
		}
	}
	if ctx.replay.is_none() {
		let n = ctx.tier.pick(20usize, 1_000);
		let res = run_parallel((0..16u64).collect(), |_, shard| unequal_limits_family(Rng::fork(seed, 7_000_000 + shard).next_u64(), n));
		for (e, v) in res {
			ev.merge(e);
			violations.extend(v);
		}
	}
	if ctx.replay.is_none() {
		let n = ctx.tier.pick(40usize, 2_000);
		let res = run_parallel((0..16u64).collect(), |_, shard| oversized_entry_family(Rng::fork(seed, 6_000_000 + shard).next_u64(), n));
		for (e, v) in res {
			ev.merge(e);
			violations.extend(v);
		}
	}
	for p in take_panics() {
		if p.in_library {
			violations.push(Violation::new(
				format!("library-panic/{}", p.location.rsplit('/').next().unwrap_or("").split(':').next().unwrap_or("")),
				p.message.clone(),
				json!({"location": p.location, "backtrace": p.backtrace_head}),
			));
		}
	}
	if ctx.replay.is_some() {
		for v in &violations {
			println!("replay violation: {} — {}", v.signature, v.detail);
		}
	}
	let mut inconclusive: Option<String> = None;
	// AddressSanitizer: the quick workload of this check once more on an ASan build (real hyper / soketto / tokio IO)
	if ctx.tier == Tier::Thorough && ctx.replay.is_none() {
		if let Some(why) = jrv::sanit::merge_asan(jrv::sanit::run_asan("c02", "C02", ctx.seed, Duration::from_secs(2400)), &mut ev, &mut violations) {
			inconclusive = inconclusive.or(Some(why));
		}
	}
	finish(&ctx, ev, violations, inconclusive);
}
