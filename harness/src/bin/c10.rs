//! C10 — graceful stop answers received calls and reports stopped only when done.
//!
//! Monitor (mode D, virtual time): the server is assembled exactly like the accept loop does per connection
//! (`TowerServiceBuilder::build(methods, stop_handle)` + `serve_with_graceful_shutdown` over an in-memory duplex) with
//! raw WebSocket peers and raw HTTP/1.1 peers that are read by the harness itself (no reader task). Handlers are
//! gated and log start / finish tickets. `stop()` is issued at a seeded instant of a history with calls not yet
//! sent, executing, or finished; gates are released before or after the stop. The instant `stopped()` resolves the
//! harness takes a *pipe snapshot* without yielding to the scheduler: every peer's receive future is polled with a
//! no-op waker until it is pending, connection tasks are probed with `is_finished()`. Rules: every started call whose
//! peer stayed connected has its answer in the snapshot; every connection task has finished; no handler starts after
//! `stopped()`; stopping twice / dropping handles neither hangs nor panics; `stopped()` resolves within a virtual-time
//! bound once all handlers are released.

use futures_util::FutureExt;
use futures_util::io::{BufReader, BufWriter};
use jrv::report::*;
use jrv::rng::Rng;
use jrv::runner::*;
use jsonrpsee_server::{RpcModule, ServerConfig, stop_channel};
use serde_json::{Value, json};
use std::collections::HashMap;
use std::sync::{Arc, Mutex};
use std::time::Duration;
use tokio::io::{AsyncReadExt, AsyncWriteExt, DuplexStream};
use tokio::sync::Notify;
use tokio_util::compat::{Compat, TokioAsyncReadCompatExt};

#[derive(Default)]
struct Shared {
	gates: Mutex<HashMap<String, Arc<Notify>>>,
	released: Mutex<Vec<String>>,
	started: Mutex<Vec<(String, u64)>>,
	finished: Mutex<Vec<(String, u64)>>,
}

impl Shared {
	fn gate(&self, tag: &str) -> Arc<Notify> {
		self.gates.lock().unwrap().entry(tag.to_string()).or_insert_with(|| Arc::new(Notify::new())).clone()
	}
	fn release(&self, tag: &str) {
		self.released.lock().unwrap().push(tag.to_string());
		self.gate(tag).notify_one();
	}
}

fn module(sh: Arc<Shared>) -> RpcModule<Arc<Shared>> {
	let mut m = RpcModule::new(sh);
	m.register_async_method("work", |p, sh, _| async move {
		let tag: String = p.one().unwrap_or_default();
		sh.started.lock().unwrap().push((tag.clone(), ticket()));
		sh.gate(&tag).notified().await;
		sh.finished.lock().unwrap().push((tag.clone(), ticket()));
		tag
	})
	.unwrap();
	m.register_blocking_method("work_blocking", |p, sh, _| {
		let tag: String = p.one().unwrap_or_default();
		sh.started.lock().unwrap().push((tag.clone(), ticket()));
		// a blocking handler cannot await a virtual-time gate (tokio does not advance the paused clock while a blocking
		// job is in flight): it just takes a little real time
		std::thread::sleep(Duration::from_micros(300));
		sh.finished.lock().unwrap().push((tag.clone(), ticket()));
		tag
	})
	.unwrap();
	m.register_method("quick", |p, sh, _| {
		let tag: String = p.one().unwrap_or_default();
		sh.started.lock().unwrap().push((tag.clone(), ticket()));
		sh.finished.lock().unwrap().push((tag.clone(), ticket()));
		tag
	})
	.unwrap();
	m.register_subscription("sub", "notif", "unsub", |_, pending, _, _| async move {
		let sink = pending.accept().await?;
		sink.closed().await;
		Ok(())
	})
	.unwrap();
	m
}

enum Peer {
	Ws { sender: soketto::Sender<BufReader<BufWriter<Compat<DuplexStream>>>>, receiver: soketto::Receiver<BufReader<BufWriter<Compat<DuplexStream>>>>, closed: bool },
	Http { io: DuplexStream, buf: Vec<u8>, eof: bool },
	Gone,
}

impl Peer {
	/// Everything that is readable right now, without yielding to the scheduler.
	fn drain_now(&mut self, frames: &mut Vec<String>) {
		match self {
			Peer::Ws { receiver, closed, .. } => {
				while !*closed {
					let mut data = Vec::new();
					match receiver.receive(&mut data).now_or_never() {
						Some(Ok(soketto::Incoming::Data(_))) => frames.push(String::from_utf8_lossy(&data).into_owned()),
						Some(Ok(soketto::Incoming::Pong(_))) => {}
						Some(Ok(soketto::Incoming::Closed(_))) | Some(Err(_)) => *closed = true,
						None => break,
					}
				}
			}
			Peer::Http { io, buf, eof } => {
				let mut chunk = [0u8; 4096];
				while !*eof {
					match io.read(&mut chunk).now_or_never() {
						Some(Ok(0)) | Some(Err(_)) => *eof = true,
						Some(Ok(n)) => buf.extend_from_slice(&chunk[..n]),
						None => break,
					}
				}
				frames.push(String::from_utf8_lossy(buf).into_owned());
			}
			Peer::Gone => {}
		}
	}
}

#[derive(Debug, Clone, PartialEq, Eq, Hash)]
enum ConnKind {
	Ws,
	Http,
}

#[derive(Debug, Clone)]
struct CallSpec {
	conn: usize,
	method: &'static str,
	send_at: u64,
	/// gate release instant (None: released only by the wind-down after stop + 50 ms)
	release_at: Option<u64>,
}

#[derive(Debug, Clone)]
struct Spec {
	seed: u64,
	buffer: u32,
	conns: Vec<ConnKind>,
	subs_on: Vec<usize>,
	calls: Vec<CallSpec>,
	stop_at: u64,
	second_stop: bool,
	/// order in which 3 clones of the server handle are dropped around the stop
	handle_drop_order: Vec<usize>,
	disconnect_at: Vec<Option<u64>>,
	delays: bool,
	/// control frames from WebSocket peers: (instant, connection, true = ping / false = unsolicited pong) - also while the
	/// server waits for executing calls after stop()
	control_frames: Vec<(u64, usize, bool)>,
}

fn gen_spec(seed: u64) -> Spec {
	let mut r = Rng::new(seed);
	if r.chance(1, 5) {
		// burst: many calls executing on one WebSocket connection with a tiny message buffer are all released at the same
		// instant after the stop (answered-but-unsent under back-pressure)
		let n = 3 + r.usize(6);
		let stop_at = 3 + r.below(5);
		let same_release = if r.bool() { None } else { Some(stop_at + 1 + r.below(5)) };
		let calls = (0..n).map(|_| CallSpec { conn: 0, method: "work", send_at: r.below(3), release_at: same_release }).collect();
		let mut order = vec![0, 1, 2];
		r.shuffle(&mut order);
		return Spec {
			seed,
			buffer: 1,
			conns: vec![ConnKind::Ws],
			subs_on: if r.chance(1, 4) { vec![0] } else { vec![] },
			calls,
			stop_at,
			second_stop: r.bool(),
			handle_drop_order: order,
			disconnect_at: vec![None],
			delays: r.chance(2, 3),
			control_frames: if r.chance(1, 2) { vec![(stop_at + r.below(3), 0, r.bool())] } else { vec![] },
		};
	}
	let n_conns = r.usize(4);
	let conns: Vec<ConnKind> = (0..n_conns).map(|_| if r.chance(2, 3) { ConnKind::Ws } else { ConnKind::Http }).collect();
	let horizon = 20u64;
	let stop_at = r.below(horizon);
	let mut calls = Vec::new();
	let mut http_used = vec![false; n_conns];
	if n_conns > 0 {
		for _ in 0..r.usize(7) {
			let conn = r.usize(n_conns);
			if conns[conn] == ConnKind::Http {
				// one request per raw HTTP connection
				if http_used[conn] {
					continue;
				}
				http_used[conn] = true;
			}
			let send_at = r.below(horizon + 4);
			let release_at = match r.below(4) {
				0 => None,
				1 => Some(send_at + r.below(3)),
				_ => Some(r.below(horizon + 10)),
			};
			let method = match r.below(8) {
				0 => "quick",
				1 => "work_blocking",
				_ => "work",
			};
			calls.push(CallSpec { conn, method, send_at, release_at });
		}
	}
	let subs_on = (0..n_conns).filter(|c| conns[*c] == ConnKind::Ws && r.chance(1, 3)).collect();
	let mut order = vec![0, 1, 2];
	r.shuffle(&mut order);
	Spec {
		seed,
		buffer: *r.pick(&[1u32, 2, 1024]),
		disconnect_at: (0..n_conns).map(|_| if r.chance(1, 6) { Some(r.below(horizon + 6)) } else { None }).collect(),
		conns,
		subs_on,
		calls,
		stop_at,
		second_stop: r.bool(),
		handle_drop_order: order,
		delays: r.chance(2, 3),
		control_frames: if n_conns > 0 { (0..r.usize(3)).map(|_| (r.below(horizon + 10), r.usize(n_conns), r.bool())).collect() } else { vec![] },
	}
}

#[derive(Default)]
struct Out {
	violations: Vec<(String, String)>,
	history: Vec<String>,
	calls_started: usize,
	calls_answered_in_snapshot: usize,
	calls_started_before_stop_finished_after: usize,
	conns: usize,
	points: usize,
	trace: Vec<&'static str>,
	stopped_resolved: bool,
}

async fn run_spec(spec: &Spec) -> Out {
	let mut out = Out::default();
	if spec.delays {
		install_thread_delay_hook(spec.seed ^ 0x1010, 70, 4);
	}
	let sh = Arc::new(Shared::default());
	let methods = module(sh.clone());
	let cfg = ServerConfig::builder().set_message_buffer_capacity(spec.buffer).max_connections(100).build();
	let (stop_handle, server_handle) = stop_channel();
	let builder = jsonrpsee_server::Server::builder().set_config(cfg).to_service_builder();

	// connections, assembled like the accept loop does
	let mut peers: Vec<Peer> = Vec::new();
	let mut conn_tasks = Vec::new();
	let mut session_closed: Vec<Option<std::pin::Pin<Box<dyn std::future::Future<Output = ()> + Send>>>> = Vec::new();
	for kind in &spec.conns {
		let (client, server) = tokio::io::duplex(1 << 20);
		let mut svc = builder.clone().build(methods.clone(), stop_handle.clone());
		let closed = Box::pin(svc.on_session_closed());
		let stop = stop_handle.clone();
		conn_tasks.push(tokio::spawn(async move {
			let _ = jsonrpsee_server::serve_with_graceful_shutdown(server, svc, stop.shutdown()).await;
		}));
		match kind {
			ConnKind::Ws => {
				let stream = BufReader::new(BufWriter::new(client.compat()));
				let mut c = soketto::handshake::Client::new(stream, "localhost", "/");
				match c.handshake().await {
					Ok(soketto::handshake::ServerResponse::Accepted { .. }) => {
						let (sender, receiver) = c.into_builder().finish();
						peers.push(Peer::Ws { sender, receiver, closed: false });
						session_closed.push(Some(closed));
					}
					other => {
						out.violations.push(("setup-failed/ws-handshake".into(), format!("{:?}", other.map(|_| ()))));
						return out;
					}
				}
			}
			ConnKind::Http => {
				peers.push(Peer::Http { io: client, buf: Vec::new(), eof: false });
				session_closed.push(None);
			}
		}
	}
	// the accept loop's own references go away: `stopped()` can only wait for the connections now
	drop(stop_handle);
	drop(builder);
	drop(methods);
	out.conns = peers.len();

	// open subscriptions
	for (k, c) in spec.subs_on.iter().enumerate() {
		if let Peer::Ws { sender, .. } = &mut peers[*c] {
			let _ = sender.send_text(json!({"jsonrpc": "2.0", "id": 900 + k, "method": "sub", "params": []}).to_string()).await;
			let _ = sender.flush().await;
		}
	}

	// timeline events
	#[derive(Debug)]
	enum Ev {
		Send(usize),
		Release(usize),
		Stop,
		Disconnect(usize),
		Control(usize, bool),
	}
	let mut timeline: Vec<(u64, Ev)> = Vec::new();
	for (at, c, ping) in &spec.control_frames {
		timeline.push((*at, Ev::Control(*c, *ping)));
	}
	for (i, c) in spec.calls.iter().enumerate() {
		timeline.push((c.send_at, Ev::Send(i)));
		if let Some(r) = c.release_at {
			timeline.push((r.max(c.send_at), Ev::Release(i)));
		}
	}
	timeline.push((spec.stop_at, Ev::Stop));
	for (c, d) in spec.disconnect_at.iter().enumerate() {
		if let Some(d) = d {
			timeline.push((*d, Ev::Disconnect(c)));
		}
	}
	timeline.sort_by_key(|e| e.0);

	let mut now = 0u64;
	let mut stop_ticket: Option<u64> = None;
	let mut sent: Vec<bool> = vec![false; spec.calls.len()];
	let mut disconnected: Vec<Option<u64>> = vec![None; spec.conns.len()];
	let mut handles = vec![Some(server_handle.clone()), Some(server_handle.clone()), Some(server_handle.clone())];
	let mut pre_frames: Vec<Vec<String>> = vec![Vec::new(); spec.conns.len()];
	for (at, ev) in timeline {
		if at > now {
			tokio::time::sleep(Duration::from_millis(at - now)).await;
			now = at;
		}
		match ev {
			Ev::Send(i) => {
				let c = &spec.calls[i];
				let tag = format!("c{i}");
				let body = json!({"jsonrpc": "2.0", "id": i, "method": c.method, "params": [tag]}).to_string();
				match &mut peers[c.conn] {
					Peer::Ws { sender, closed, .. } if !*closed => {
						if sender.send_text(&body).await.is_ok() && sender.flush().await.is_ok() {
							sent[i] = true;
						}
					}
					Peer::Http { io, .. } => {
						let req = format!("POST / HTTP/1.1\r\nHost: localhost\r\nContent-Type: application/json\r\nContent-Length: {}\r\n\r\n{}", body.len(), body);
						if io.write_all(req.as_bytes()).await.is_ok() {
							sent[i] = true;
						}
					}
					_ => {}
				}
				out.history.push(format!("t={now}: call c{i} ({}) sent on conn {} (ok={})", c.method, c.conn, sent[i]));
			}
			Ev::Release(i) => {
				sh.release(&format!("c{i}"));
				out.history.push(format!("t={now}: gate of c{i} released"));
			}
			Ev::Stop => {
				// drop one handle clone before, stop, maybe stop again, drop the others after
				handles[spec.handle_drop_order[0]].take();
				let first = server_handle.stop();
				stop_ticket = Some(ticket());
				out.history.push(format!("t={now}: stop() -> {first:?}"));
				// Err(AlreadyStopped) is legitimate here when no connection is left (nothing holds a stop handle any more)
				if spec.second_stop {
					let second = std::panic::catch_unwind(std::panic::AssertUnwindSafe(|| server_handle.stop()));
					match second {
						Ok(r) => out.history.push(format!("t={now}: second stop() -> {r:?}")),
						Err(_) => out.violations.push(("stop-twice-panicked/any".into(), "the second stop() panicked".into())),
					}
				}
				handles[spec.handle_drop_order[1]].take();
			}
			Ev::Control(c, ping) => {
				if let Some(Peer::Ws { sender, closed, .. }) = peers.get_mut(c) {
					if !*closed {
						let payload = soketto::data::ByteSlice125::try_from(&b"verif"[..]).expect("short payload");
						let r = if ping { sender.send_ping(payload).await } else { sender.send_pong(payload).await };
						let _ = sender.flush().await;
						out.history.push(format!("t={now}: peer of conn {c} sends a {} frame ({})", if ping { "ping" } else { "pong" }, if r.is_ok() { "ok" } else { "failed" }));
					}
				}
			}
			Ev::Disconnect(c) => {
				let mut fr = Vec::new();
				peers[c].drain_now(&mut fr);
				pre_frames[c].extend(fr);
				peers[c] = Peer::Gone;
				disconnected[c] = Some(ticket());
				out.history.push(format!("t={now}: peer of conn {c} disconnects"));
			}
		}
	}
	handles[spec.handle_drop_order[2]].take();
	// wind-down: everything that is still gated is released 50 virtual ms after the last event
	let sh2 = sh.clone();
	let n_calls = spec.calls.len();
	tokio::spawn(async move {
		tokio::time::sleep(Duration::from_millis(50)).await;
		for i in 0..n_calls {
			sh2.release(&format!("c{i}"));
		}
	});

	// wait for stopped(): bounded progress in virtual time (peers do not need to read: the duplex buffers hold 1 MiB)
	let stopped = tokio::time::timeout(Duration::from_secs(120), server_handle.clone().stopped()).await;
	// ---- the instant stopped() resolved: no await from here until the snapshot is complete ----
	let stopped_ticket = ticket();
	let mut snapshot: Vec<Vec<String>> = Vec::new();
	for (c, p) in peers.iter_mut().enumerate() {
		let mut fr = std::mem::take(&mut pre_frames[c]);
		p.drain_now(&mut fr);
		snapshot.push(fr);
	}
	let tasks_finished: Vec<bool> = conn_tasks.iter().map(|t| t.is_finished()).collect();
	let sessions_closed: Vec<Option<bool>> = session_closed.iter_mut().map(|s| s.as_mut().map(|f| f.as_mut().now_or_never().is_some())).collect();
	let started_at_snapshot: Vec<(String, u64)> = sh.started.lock().unwrap().clone();
	// ---- snapshot complete ----
	out.stopped_resolved = stopped.is_ok();
	out.trace = take_trace();
	out.points = out.trace.len();
	macro_rules! bad {
		($sig:expr, $($arg:tt)*) => { out.violations.push(($sig.to_string(), format!($($arg)*))) };
	}
	if stopped.is_err() {
		bad!("stopped-never-resolved/all-handlers-released", "stopped() still pending 120 virtual seconds after stop(), all gates released; connection tasks finished: {tasks_finished:?}");
		clear_thread_hook();
		return out;
	}
	// every connection task must have finished by then
	for (c, f) in tasks_finished.iter().enumerate() {
		if !*f {
			bad!(format!("stopped-before-connection-task-finished/{:?}", spec.conns[c]).to_lowercase(), "connection {c} ({:?}): its serve task was still running when stopped() resolved", spec.conns[c]);
		}
	}
	for (c, s) in sessions_closed.iter().enumerate() {
		if *s == Some(false) && disconnected[c].is_none() {
			bad!("stopped-before-session-closed/ws", "connection {c}: the WebSocket session had not been closed when stopped() resolved");
		}
	}
	// every started call whose peer stayed connected is answered inside the snapshot
	for (tag, st) in &started_at_snapshot {
		let i: usize = tag[1..].parse().unwrap_or(usize::MAX);
		let Some(c) = spec.calls.get(i) else { continue };
		out.calls_started += 1;
		if disconnected[c.conn].is_some() {
			continue;
		}
		let answered = snapshot[c.conn].iter().any(|f| f.contains(&format!("\"result\":\"{tag}\"")));
		if answered {
			out.calls_answered_in_snapshot += 1;
		} else {
			let phase = if stop_ticket.is_some_and(|s| *st < s) { "started-before-stop" } else { "started-after-stop" };
			bad!(
				format!("started-call-unanswered-at-stopped/{:?}/{phase}/{}", spec.conns[c.conn], c.method).to_lowercase(),
				"call {tag} started (ticket {st}) but its answer was not in the transport when stopped() resolved (ticket {stopped_ticket}); finished: {:?}",
				sh.finished.lock().unwrap().iter().find(|(t, _)| t == tag)
			);
		}
		if stop_ticket.is_some_and(|s| *st < s) && sh.finished.lock().unwrap().iter().any(|(t, f)| t == tag && stop_ticket.is_some_and(|s| *f > s)) {
			out.calls_started_before_stop_finished_after += 1;
		}
	}
	// nothing is executed after stopped(): old connections are closed; try them anyway
	for (c, p) in peers.iter_mut().enumerate() {
		let tag = format!("late{c}");
		let body = json!({"jsonrpc": "2.0", "id": 7000 + c, "method": "quick", "params": [tag]}).to_string();
		match p {
			Peer::Ws { sender, .. } => {
				let _ = sender.send_text(&body).await;
				let _ = sender.flush().await;
			}
			Peer::Http { io, .. } => {
				let req = format!("POST / HTTP/1.1\r\nHost: localhost\r\nContent-Type: application/json\r\nContent-Length: {}\r\n\r\n{}", body.len(), body);
				let _ = io.write_all(req.as_bytes()).await;
			}
			Peer::Gone => {}
		}
	}
	tokio::time::sleep(Duration::from_secs(5)).await;
	for (tag, st) in sh.started.lock().unwrap().iter() {
		// the statement forbids executing a call FIRST SENT after stopped() resolved; a call sent earlier on a connection whose
		// peer then went away may still be dispatched late by its own (orphaned) task: counted, not judged
		if *st > stopped_ticket && tag.starts_with("late") {
			bad!("handler-started-after-stopped/sent-after-stopped", "handler of {tag} started at ticket {st}, stopped() had resolved at {stopped_ticket}");
		}
	}
	clear_thread_hook();
	out
}

// ---------------------------------------------------------------------------------------------------------------
// TCP variant: the real `Server` (accept loop) on its own runtime, killed the instant stopped() resolves.

#[derive(Default, Debug)]
struct TcpOut {
	violations: Vec<(String, String)>,
	started: usize,
	answered: usize,
	inconclusive: Option<String>,
	history: Vec<String>,
}

fn tcp_case(seed: u64) -> TcpOut {
	use tokio::net::TcpStream;
	let mut out = TcpOut::default();
	let mut r = Rng::new(seed);
	let sh = Arc::new(Shared::default());
	// the server lives on its own runtime so that it can be killed at once
	let server_rt = tokio::runtime::Builder::new_multi_thread().worker_threads(2).enable_all().thread_name("c10-server").build().expect("rt");
	let peer_rt = tokio::runtime::Builder::new_multi_thread().worker_threads(2).enable_all().thread_name("c10-peer").build().expect("rt");
	let cfg = ServerConfig::builder().set_message_buffer_capacity(*r.pick(&[1u32, 1024])).custom_tokio_runtime(server_rt.handle().clone()).build();
	let sh2 = sh.clone();
	let started = peer_rt.block_on(async move {
		let server = jsonrpsee_server::Server::builder().set_config(cfg).build("127.0.0.1:0").await?;
		let addr = server.local_addr()?;
		Ok::<_, std::io::Error>((addr, server.start(module(sh2))))
	});
	let (addr, handle) = match started {
		Ok(x) => x,
		Err(e) => {
			out.inconclusive = Some(format!("could not start a TCP server: {e}"));
			return out;
		}
	};
	let n_ws = r.usize(3);
	let n_http = r.usize(2);
	let n_calls = 1 + r.usize(4);
	let release_before_stop: Vec<bool> = (0..n_calls).map(|_| r.chance(1, 3)).collect();
	let stop_delay_ms = r.below(15);
	let res = peer_rt.block_on(async {
		let mut ws_peers = Vec::new();
		for _ in 0..n_ws {
			let Ok(s) = TcpStream::connect(addr).await else { return Err("connect failed".to_string()) };
			let stream = BufReader::new(BufWriter::new(s.compat()));
			let mut c = soketto::handshake::Client::new(stream, "localhost", "/");
			match c.handshake().await {
				Ok(soketto::handshake::ServerResponse::Accepted { .. }) => ws_peers.push(c.into_builder().finish()),
				_ => return Err("ws handshake failed".to_string()),
			}
		}
		let mut http_peers = Vec::new();
		for _ in 0..n_http {
			let Ok(s) = TcpStream::connect(addr).await else { return Err("connect failed".to_string()) };
			http_peers.push(s);
		}
		// calls, spread over the peers
		let mut where_sent: Vec<(bool, usize)> = Vec::new();
		let mut http_free: Vec<usize> = (0..n_http).collect();
		for i in 0..n_calls {
			let tag = format!("c{i}");
			let body = json!({"jsonrpc": "2.0", "id": i, "method": "work", "params": [tag]}).to_string();
			if n_ws > 0 && (http_free.is_empty() || i % 2 == 0) {
				let k = i % n_ws;
				let _ = ws_peers[k].0.send_text(&body).await;
				let _ = ws_peers[k].0.flush().await;
				where_sent.push((true, k));
			} else if let Some(k) = http_free.pop() {
				let req = format!("POST / HTTP/1.1\r\nHost: localhost\r\nContent-Type: application/json\r\nContent-Length: {}\r\n\r\n{}", body.len(), body);
				let _ = http_peers[k].write_all(req.as_bytes()).await;
				where_sent.push((false, k));
			} else {
				where_sent.push((false, usize::MAX));
			}
		}
		tokio::time::sleep(Duration::from_millis(stop_delay_ms)).await;
		for (i, rel) in release_before_stop.iter().enumerate() {
			if *rel {
				sh.release(&format!("c{i}"));
			}
		}
		let _ = handle.stop();
		let stop_t = ticket();
		tokio::time::sleep(Duration::from_millis(5)).await;
		for i in 0..n_calls {
			sh.release(&format!("c{i}"));
		}
		let stopped = tokio::time::timeout(Duration::from_secs(30), handle.clone().stopped()).await;
		let stopped_t = ticket();
		Ok((ws_peers, http_peers, where_sent, stop_t, stopped_t, stopped.is_ok()))
	});
	let (mut ws_peers, mut http_peers, where_sent, _stop_t, stopped_t, resolved) = match res {
		Ok(x) => x,
		Err(e) => {
			out.inconclusive = Some(e);
			server_rt.shutdown_background();
			return out;
		}
	};
	// kill the server the moment stopped() resolved: whatever was not handed to the sockets by now is lost
	server_rt.shutdown_background();
	if !resolved {
		out.inconclusive = Some("stopped() did not resolve within 30 s of real time (wall-clock bound: inconclusive, not a violation)".into());
		return out;
	}
	let started_now: Vec<(String, u64)> = sh.started.lock().unwrap().clone();
	// drain every peer to EOF
	let texts: (Vec<String>, Vec<String>) = peer_rt.block_on(async {
		let mut ws_texts = Vec::new();
		for (_, rx) in ws_peers.iter_mut() {
			let mut all = String::new();
			loop {
				let mut data = Vec::new();
				match tokio::time::timeout(Duration::from_secs(5), rx.receive(&mut data)).await {
					Ok(Ok(soketto::Incoming::Data(_))) => all.push_str(&String::from_utf8_lossy(&data)),
					Ok(Ok(soketto::Incoming::Pong(_))) => {}
					_ => break,
				}
			}
			ws_texts.push(all);
		}
		let mut http_texts = Vec::new();
		for s in http_peers.iter_mut() {
			let mut buf = Vec::new();
			let _ = tokio::time::timeout(Duration::from_secs(5), s.read_to_end(&mut buf)).await;
			http_texts.push(String::from_utf8_lossy(&buf).into_owned());
		}
		(ws_texts, http_texts)
	});
	for (tag, st) in &started_now {
		let i: usize = tag[1..].parse().unwrap_or(usize::MAX);
		let Some((is_ws, k)) = where_sent.get(i).copied() else { continue };
		if k == usize::MAX {
			continue;
		}
		out.started += 1;
		let text = if is_ws { &texts.0[k] } else { &texts.1[k] };
		if text.contains(&format!("\"result\":\"{tag}\"")) {
			out.answered += 1;
		} else {
			out.violations.push((
				format!("started-call-unanswered-at-stopped/tcp-{}", if is_ws { "ws" } else { "http" }),
				format!("call {tag} started (ticket {st}); the server runtime was killed when stopped() resolved (ticket {stopped_t}) and the peer never got the answer: {text:?}"),
			));
		}
	}
	// after stopped(): a new connection must not get anything executed
	let late = peer_rt.block_on(async {
		match tokio::time::timeout(Duration::from_secs(2), TcpStream::connect(addr)).await {
			Ok(Ok(mut s)) => {
				// the tag is unique to this case: another case running in parallel may have re-bound the same ephemeral port
				let body = json!({"jsonrpc": "2.0", "id": 1, "method": "quick", "params": [format!("late-{seed:x}")]}).to_string();
				let req = format!("POST / HTTP/1.1\r\nHost: localhost\r\nContent-Type: application/json\r\nContent-Length: {}\r\n\r\n{}", body.len(), body);
				let _ = s.write_all(req.as_bytes()).await;
				let mut buf = Vec::new();
				let _ = tokio::time::timeout(Duration::from_millis(300), s.read_to_end(&mut buf)).await;
				String::from_utf8_lossy(&buf).into_owned()
			}
			_ => String::new(),
		}
	});
	if sh.started.lock().unwrap().iter().any(|(t, _)| *t == format!("late-{seed:x}")) {
		out.violations.push(("handler-started-after-stopped/tcp-new-connection".into(), format!("a call on a connection opened after stopped() was executed: {late:?}")));
	}
	out.history.push(format!("ws peers {n_ws}, http peers {n_http}, calls {n_calls}, released before stop {release_before_stop:?}"));
	drop(peer_rt);
	out
}

fn record(spec: &Spec, o: Out, ev: &mut Evidence, violations: &mut Vec<Violation>) {
	ev.eval();
	ev.count("connections", o.conns as u64);
	ev.count("handlers_started", o.calls_started as u64);
	ev.count("answers_found_in_the_pipe_snapshot", o.calls_answered_in_snapshot as u64);
	ev.count("calls_executing_across_the_stop", o.calls_started_before_stop_finished_after as u64);
	ev.count("library_points_reached", o.points as u64);
	if o.stopped_resolved {
		ev.count("stopped_resolved", 1);
	}
	if o.calls_started > 0 {
		ev.nontrivial(&spec.seed);
	}
	ev.class("schedule_traces", &o.trace);
	ev.class("connection_mixes", &spec.conns);
	if o.violations.is_empty() {
		ev.sample_class(&format!("{}-conns", spec.conns.len()), json!({"spec": format!("{spec:?}").chars().take(700).collect::<String>(), "history": o.history.iter().take(14).collect::<Vec<_>>() }));
	}
	let w = json!({"seed": spec.seed, "spec": format!("{spec:?}"), "history": o.history});
	for (sig, d) in o.violations {
		violations.push(Violation::new(sig, d, w.clone()));
	}
}

// ---------------------------------------------------------------------------------------------------------------
// Back-pressure at the moment of the stop: a WebSocket peer that does not read, a message buffer of one, a small pipe.
// Calls are executing, answers are queued behind the blocked write, the reader itself may be waiting for room to turn
// down an oversized message, a subscribe call is about to be rejected by its handler - then stop(). Afterwards the peer
// reads again. Every call that started gets its answer before the connection is closed, and stopped() resolves only then.

fn bp_module(sh: Arc<Shared>) -> RpcModule<Arc<Shared>> {
	let mut m = module(sh);
	m.register_method("big", |p, sh, _| {
		let tag: String = p.one().unwrap_or_default();
		sh.started.lock().unwrap().push((tag.clone(), ticket()));
		sh.finished.lock().unwrap().push((tag.clone(), ticket()));
		format!("{tag}:{}", "z".repeat(500))
	})
	.unwrap();
	// a subscription whose handler waits for its gate and then rejects the call
	m.register_subscription("sub_rej", "notif_rej", "unsub_rej", |p, pending, sh, _| async move {
		let tag: String = p.one().unwrap_or_default();
		sh.started.lock().unwrap().push((tag.clone(), ticket()));
		sh.gate(&tag).notified().await;
		sh.finished.lock().unwrap().push((tag.clone(), ticket()));
		pending.reject(jsonrpsee_types::ErrorObjectOwned::owned(1234, "rejected after the gate", Some(tag))).await;
		Ok(())
	})
	.unwrap();
	m
}

#[derive(Default)]
struct BpOut {
	violations: Vec<(String, String)>,
	started: usize,
	answered: usize,
	history: Vec<String>,
}

async fn backpressure_stop_case(seed: u64) -> BpOut {
	let mut out = BpOut::default();
	let mut r = Rng::new(seed);
	let sh = Arc::new(Shared::default());
	let cfg = ServerConfig::builder().set_message_buffer_capacity(1).max_request_body_size(1000).max_connections(10).build();
	let mut srv = jrv::memsrv::MemServer::new(cfg, bp_module(sh.clone()));
	srv.duplex_capacity = 1500 + r.usize(1500);
	let Ok((mut ws, closed)) = srv.ws_session().await else { return out };
	let handle = srv.handle.clone();
	drop(srv);
	let session_closed = Arc::new(Mutex::new(None::<u64>));
	{
		let sc = session_closed.clone();
		tokio::spawn(async move {
			closed.await;
			*sc.lock().unwrap() = Some(ticket());
		});
	}
	macro_rules! bad {
		($sig:expr, $($arg:tt)*) => { out.violations.push(($sig.to_string(), format!($($arg)*))) };
	}
	let settle = |ms: u64| tokio::time::sleep(Duration::from_millis(ms));
	ws.set_reading(false);
	settle(2).await;
	let mut id = 0u64;
	let mut expect: Vec<(u64, String, &'static str)> = Vec::new();
	// calls that stay in their handlers
	let n_work = 1 + r.usize(3);
	for k in 0..n_work {
		id += 1;
		let tag = format!("w{k}");
		let _ = ws.send_text(&json!({"jsonrpc": "2.0", "id": id, "method": "work", "params": [tag]}).to_string()).await;
		expect.push((id, tag, "work"));
	}
	// a subscribe call whose handler will reject it after the stop
	let with_reject = r.chance(2, 3);
	if with_reject {
		id += 1;
		let _ = ws.send_text(&json!({"jsonrpc": "2.0", "id": id, "method": "sub_rej", "params": ["rej"]}).to_string()).await;
		expect.push((id, "rej".into(), "sub_rej"));
	}
	// answers that fill the pipe and the one-slot buffer
	let n_big = 4 + r.usize(6);
	for k in 0..n_big {
		id += 1;
		let tag = format!("b{k}");
		let _ = ws.send_text(&json!({"jsonrpc": "2.0", "id": id, "method": "big", "params": [tag]}).to_string()).await;
		expect.push((id, tag, "big"));
	}
	settle(3).await;
	// the reader has to turn down an oversized message while there is no room for its answer
	let with_oversized = r.chance(2, 3);
	if with_oversized {
		let _ = ws.send_text(&json!({"jsonrpc": "2.0", "id": 9000, "method": "quick", "params": ["o".repeat(1100)]}).to_string()).await;
		settle(2).await;
	}
	let started_before: Vec<String> = sh.started.lock().unwrap().iter().map(|(t, _)| t.clone()).collect();
	out.history.push(format!("before stop: {} handlers started, oversized message sent: {with_oversized}, subscribe-to-be-rejected: {with_reject}", started_before.len()));
	let stop_ticket = ticket();
	let _ = handle.stop();
	let stopped_at = Arc::new(Mutex::new(None::<u64>));
	{
		let (h, st) = (handle.clone(), stopped_at.clone());
		tokio::spawn(async move {
			h.stopped().await;
			*st.lock().unwrap() = Some(ticket());
		});
	}
	settle(1 + r.below(4)).await;
	// the handlers finish, in a seeded order, around the moment the peer starts reading again
	let mut tags: Vec<String> = expect.iter().filter(|e| e.2 != "big").map(|e| e.1.clone()).collect();
	r.shuffle(&mut tags);
	let read_first = r.bool();
	if read_first {
		ws.set_reading(true);
	}
	for t in &tags {
		sh.release(t);
		if r.bool() {
			settle(1).await;
		}
	}
	if !read_first {
		settle(r.below(3)).await;
		ws.set_reading(true);
	}
	// read to the end
	let mut frames: Vec<Value> = Vec::new();
	loop {
		match ws.recv(Duration::from_secs(30)).await {
			jrv::memsrv::Recv::Frame(f) => {
				if let Some(v) = f.json() {
					frames.push(v);
				}
			}
			jrv::memsrv::Recv::Closed(_) => break,
			jrv::memsrv::Recv::Idle => {
				bad!("connection-not-closed-after-stop/backpressure", "30 idle virtual seconds after stop() and the release of every handler the connection is still open");
				break;
			}
		}
	}
	settle(50).await;
	let started: Vec<String> = sh.started.lock().unwrap().iter().map(|(t, _)| t.clone()).collect();
	out.started = started.len();
	for (cid, tag, kind) in &expect {
		if !started.contains(tag) {
			continue;
		}
		let rp = frames.iter().find(|v| v["id"] == json!(cid));
		match rp {
			Some(v) => {
				out.answered += 1;
				let ok = match *kind {
					"work" => v["result"] == json!(tag),
					"big" => v["result"].as_str().is_some_and(|s| s.starts_with(&format!("{tag}:"))),
					_ => v["error"]["code"] == json!(1234),
				};
				if !ok {
					bad!(format!("started-call-answered-wrongly/backpressure/{kind}"), "call {cid} ({tag}): {v}");
				}
			}
			None => bad!(
				format!("started-call-unanswered-at-stopped/backpressure/{kind}{}", if with_oversized { "+oversized-message-being-refused" } else { "" }),
				"call {cid} ({kind} {tag}) was in its handler (or answered but unsent) when stop() came at ticket {stop_ticket}; the peer read everything until the connection was closed and never got its answer ({} frames, {} handlers started)",
				frames.len(),
				started.len()
			),
		}
	}
	if stopped_at.lock().unwrap().is_none() {
		bad!("stopped-never-resolves/backpressure", "every handler returned and the peer read to the end, stopped() is still pending");
	}
	out.history.push(format!("{} frames read, session closed at {:?}, stopped at {:?}", frames.len(), session_closed.lock().unwrap(), stopped_at.lock().unwrap()));
	out
}

// ---------------------------------------------------------------------------------------------------------------
// A call that takes its time after the stop, on servers with timers configured (REAL time: the timers in question read the
// system clock). (a) WebSocket pings enabled with a short inactivity limit, the peer answers every ping: the call that is
// executing at stop() still runs 350 ms and must be answered before the connection goes. (b) The default `Server` over TCP
// with HTTP keep-alive and a short keep-alive timeout configured: the same for a plain HTTP call.

async fn slow_call_after_stop_case(seed: u64, http: bool) -> BpOut {
	let mut out = BpOut::default();
	let sh = Arc::new(Shared::default());
	let tag = format!("slow{:x}", seed & 0xffff);
	macro_rules! bad {
		($sig:expr, $($arg:tt)*) => { out.violations.push(($sig.to_string(), format!($($arg)*))) };
	}
	let wait_started = |sh: Arc<Shared>, tag: String| async move {
		for _ in 0..400 {
			if sh.started.lock().unwrap().iter().any(|(t, _)| *t == tag) {
				return true;
			}
			tokio::time::sleep(Duration::from_millis(5)).await;
		}
		false
	};
	let body = json!({"jsonrpc": "2.0", "id": 1, "method": "work", "params": [tag]}).to_string();
	if http {
		let cfg = ServerConfig::builder().set_keep_alive(Some(Duration::from_millis(500))).set_keep_alive_timeout(Duration::from_millis(100)).build();
		let Ok(server) = jsonrpsee_server::Server::builder().set_config(cfg).build("127.0.0.1:0").await else { return out };
		let Ok(addr) = server.local_addr() else { return out };
		let handle = server.start(module(sh.clone()));
		let Ok(mut s) = jrv::tcp::connect(addr).await else { return out };
		if jrv::tcp::send_post(&mut s, body.as_bytes(), true).await.is_err() || !wait_started(sh.clone(), tag.clone()).await {
			out.history.push("setup not reached".into());
			return out;
		}
		out.started = 1;
		let _ = handle.stop();
		tokio::time::sleep(Duration::from_millis(350)).await;
		sh.release(&tag);
		match jrv::tcp::read_response(&mut s, Duration::from_secs(20)).await {
			Ok(rp) if rp.status == 200 && rp.json().is_some_and(|v| v["result"] == json!(tag)) => out.answered = 1,
			other => bad!("started-call-unanswered-at-stopped/tcp-http/keep-alive-configured", "the call was in its handler at stop() and finished 350 ms later (keep-alive 500 ms, keep-alive timeout 100 ms); the peer got {:?}", other.map(|r| (r.status, r.text()))),
		}
		let _ = tokio::time::timeout(Duration::from_secs(20), handle.stopped()).await;
	} else {
		let ping = jsonrpsee_server::PingConfig::new().ping_interval(Duration::from_millis(30)).inactive_limit(Duration::from_millis(60)).max_failures(1);
		let srv = jrv::memsrv::MemServer::new(ServerConfig::builder().enable_ws_ping(ping).build(), module(sh.clone()));
		let Ok(mut ws) = srv.ws().await else { return out };
		let handle = srv.handle.clone();
		drop(srv);
		if ws.send_text(&body).await.is_err() || !wait_started(sh.clone(), tag.clone()).await {
			out.history.push("setup not reached".into());
			return out;
		}
		out.started = 1;
		let _ = handle.stop();
		tokio::time::sleep(Duration::from_millis(350)).await;
		sh.release(&tag);
		let mut got = false;
		loop {
			match ws.recv(Duration::from_secs(20)).await {
				jrv::memsrv::Recv::Frame(f) => {
					if f.json().is_some_and(|v| v["id"] == json!(1) && v["result"] == json!(tag)) {
						got = true;
					}
				}
				_ => break,
			}
		}
		if got {
			out.answered = 1;
		} else {
			bad!("started-call-unanswered-at-stopped/ws/pings-enabled", "the call was in its handler at stop() and finished 350 ms later; the peer answered every ping (interval 30 ms, inactivity limit 60 ms) and was disconnected without the answer");
		}
		let _ = tokio::time::timeout(Duration::from_secs(20), handle.stopped()).await;
	}
	out
}

fn main() {
	let ctx = Ctx::from_env("C10", "exploration");
	install_panic_capture(true);
	let _wd = watchdog("C10", Duration::from_secs(ctx.tier.pick(900, 7200)));
	let mut ev = Evidence::new(
		"cases = histories on a server assembled per connection like the accept loop (TowerServiceBuilder::build + \
		 serve_with_graceful_shutdown over in-memory duplex): 0..3 connections (raw WebSocket peers and raw HTTP/1.1 peers), 0..6 \
		 calls (async gated, blocking, immediate) sent at seeded virtual instants before / at / after the stop, gates released \
		 before or after the stop (or only by the wind-down), open subscriptions, peers disconnecting at seeded instants, buffer 1/2/1024, \
		 stop() at a seeded instant, optionally twice, three handle clones dropped in seeded order, seeded delays at the server's yield \
		 points. At the instant stopped() resolves a pipe snapshot is taken without yielding. Non-trivial = at least one handler \
		 started; distinct by seed.",
	);
	ev.assume("mode D: paused clock; 'stopped() never resolves' = still pending after 120 idle virtual seconds with every gate released (peers need not read: 1 MiB duplex buffers)");
	ev.assume("the pipe snapshot polls each peer's receive future with a no-op waker until pending, right after stopped() resolves and before any other await: what is readable then had been handed to the transport");
	ev.assume("in-memory assembly: there is no accept loop there; the TCP variant runs the real Server (accept loop) on its own runtime, kills that runtime the instant stopped() resolves, then drains every peer to EOF and also tries a new connection");
	ev.assume("TCP variant: stopped() not resolving within 30 s of real time makes that case inconclusive, never a violation");
	let mut violations = Vec::new();
	let replay = ctx.replay.is_some();
	let mut replay_family: Option<String> = None;
	let mut replay_seed: Option<u64> = None;
	let seeds: Vec<u64> = if let Some(path) = &ctx.replay {
		let w: Value = serde_json::from_str(&std::fs::read_to_string(path).expect("replay")).expect("json");
		replay_family = w["witness"]["family"].as_str().map(|s| s.to_string());
		replay_seed = w["witness"]["seed"].as_u64();
		if replay_family.is_some() { vec![] } else { vec![w["witness"]["seed"].as_u64().expect("seed")] }
	} else {
		(0..ctx.tier.pick(20_000u64, 1_000_000)).map(|i| Rng::fork(ctx.seed, i).next_u64()).collect()
	};
	let results = run_parallel(seeds.chunks(50).map(|c| c.to_vec()).collect(), |_, chunk| {
		let mut ev = Evidence::new("");
		let mut v = Vec::new();
		for s in chunk {
			let spec = gen_spec(s);
			let o = block_on_virtual(run_spec(&spec));
			if replay {
				println!("{spec:#?}");
				for h in &o.history {
					println!("  {h}");
				}
				println!("violations: {:?}", o.violations);
			}
			record(&spec, o, &mut ev, &mut v);
		}
		(ev, v)
	});
	for (e, v) in results {
		ev.merge(e);
		violations.extend(v);
	}
	for p in take_panics() {
		if p.in_library {
			violations.push(Violation::new(
				format!("library-panic/{}", p.location.rsplit('/').next().unwrap_or("").split(':').next().unwrap_or("")),
				p.message.clone(),
				json!({"location": p.location, "backtrace": p.backtrace_head}),
			));
		}
	}
	if !replay || replay_family.as_deref() == Some("back-pressure at stop") {
		let seeds: Vec<u64> = match (replay, replay_seed) {
			(true, Some(s)) => vec![s],
			_ => (0..ctx.tier.pick(400u64, 20_000)).map(|i| Rng::fork(ctx.seed, 70_000_000 + i).next_u64()).collect(),
		};
		let res = run_parallel(seeds, |_, s| (s, block_on_virtual(backpressure_stop_case(s))));
		for (s, o) in res {
			ev.eval();
			ev.count("backpressure_stop_cases", 1);
			ev.count("backpressure_stop_handlers_started", o.started as u64);
			ev.count("backpressure_stop_answers_received", o.answered as u64);
			if o.started > 0 {
				ev.nontrivial(&("bp-stop", s));
			}
			if replay {
				println!("history: {:?}\nviolations: {:?}", o.history, o.violations);
			}
			for (sig, d) in o.violations {
				violations.push(Violation::new(sig, d, json!({"family": "back-pressure at stop", "seed": s, "history": o.history})));
			}
		}
	}
	if !replay {
		let n = ctx.tier.pick(24u64, 600);
		let seed = ctx.seed;
		let res: Vec<(u64, bool, BpOut)> = block_on_stress_io(8, async move {
			let mut all = Vec::new();
			for chunk in (0..n).collect::<Vec<_>>().chunks(12) {
				let hs: Vec<_> = chunk
					.iter()
					.map(|i| {
						let s = Rng::fork(seed, 71_000_000 + i).next_u64();
						let http = i % 2 == 0;
						tokio::spawn(async move { (s, http, slow_call_after_stop_case(s, http).await) })
					})
					.collect();
				for h in hs {
					if let Ok(x) = h.await {
						all.push(x);
					}
				}
			}
			all
		});
		for (s, http, o) in res {
			ev.eval();
			ev.count(if http { "slow_call_after_stop_cases_tcp_http_keep_alive" } else { "slow_call_after_stop_cases_ws_pings" }, 1);
			ev.count("slow_call_after_stop_answers_received", o.answered as u64);
			if o.started > 0 {
				ev.nontrivial(&("slow-after-stop", s));
			}
			for (sig, d) in o.violations {
				violations.push(Violation::new(sig, d, json!({"family": "slow call after stop", "seed": s, "http": http})));
			}
		}
	}
	// TCP variant (real time): the real `Server` with its accept loop, killed at the instant stopped() resolves
	let mut inconclusive = None;
	if !replay {
		let n = ctx.tier.pick(48u64, 2_000);
		let seed = ctx.seed;
		let res = run_parallel((0..n).collect(), |_, i| (i, tcp_case(Rng::fork(seed, 50_000_000 + i).next_u64())));
		let mut skipped = 0;
		for (i, o) in res {
			if let Some(why) = o.inconclusive {
				skipped += 1;
				ev.count("tcp_cases_inconclusive", 1);
				if skipped > n / 4 {
					inconclusive = Some(format!("too many TCP cases could not be run: {why}"));
				}
				continue;
			}
			ev.eval();
			ev.count("tcp_cases", 1);
			ev.count("tcp_handlers_started", o.started as u64);
			ev.count("tcp_answers_received_after_kill_at_stopped", o.answered as u64);
			if o.started > 0 {
				ev.nontrivial(&("tcp", i));
			}
			for (sig, d) in o.violations {
				violations.push(Violation::new(sig, d, json!({"variant": "tcp", "case": i, "seed": Rng::fork(seed, 50_000_000 + i).next_u64(), "history": o.history})));
			}
		}
	}
	finish(&ctx, ev, violations, inconclusive);
}
